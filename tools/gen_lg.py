"""Generators for the case kinds `spec`, `specb`, `lg` (specification strings, builder, logger + handle)."""

NAMES = ["a", "a::b", "a::bc", "a::b::c", "ab", "abc", "b", "info", "off", "Warn", "trace", "x_y", "a::bé", "é", "crate::mod1",
         "crate::mod1::sub", "crate", "c"]
LEVELS = ["off", "error", "warn", "info", "debug", "trace"]
LEVEL_SPELLINGS = LEVELS + ["OFF", "Error", "WARN", "Info", "DeBuG", "TRACE"]
WS = [" ", "  ", "\t", " ", " ", "　", "\n"]
BAD_LEVELS = ["inf", "warning", "5", "tracee", "", "İnfo", "Knfo", "de bug"]
TARGETS = ["a", "a::b", "a::bx", "a::b::c::d", "ab", "abcd", "b", "", "zzz", "info", "a:", "A", "crate::mod1::sub::x", "é", "a::béz",
           "x_y::z", "c"]
MSGS = ["m", "hello world", "", "needle in haystack", "multi\nline", "é"]
PATTERNS_OK = ["needle", "hello", " ", "m", "é", "o w"]
PATTERNS_BAD = ["(", "a(b", "[x", "(needle"]
WRITERS = ["A", "B", "Alert", "Sec", "x", "é"]


def hx(s):
    b = s.encode("utf-8") if isinstance(s, str) else s
    return b.hex() if b else "-"


def pad(rng, s, p=0.25):
    if rng.random() < p:
        s = rng.choice(WS) + s
    if rng.random() < p:
        s = s + rng.choice(WS)
    return s


def wf_part(rng):
    r = rng.random()
    n = rng.choice(NAMES) if rng.random() < 0.93 else long_name(rng)
    if r < 0.2:
        return pad(rng, rng.choice(LEVEL_SPELLINGS))
    if r < 0.35:
        return pad(rng, n)
    if r < 0.45:
        return pad(rng, n) + "=" + rng.choice(["", " ", "\t"])
    return pad(rng, n) + "=" + pad(rng, rng.choice(LEVEL_SPELLINGS))


def long_name(rng):
    """a module name of 20..90 bytes in which multi-byte characters sit at every byte offset sooner or later
    (anything that cuts, pads or echoes a part at a fixed byte position meets a character boundary problem)"""
    lead = "a" * rng.randint(0, 3)
    body = "".join(rng.choice(["ö", "ö", "x", "€", "\U0001F600", "::", "_"]) for _ in range(rng.randint(10, 40)))
    return lead + body


def bad_part(rng):
    r = rng.random()
    n = rng.choice(NAMES) if rng.random() < 0.8 else long_name(rng)
    if r < 0.25:
        return n + rng.choice(WS[:2]) + "x=" + rng.choice(LEVELS)      # white space inside the name
    if r < 0.5:
        return n + "=" + rng.choice(BAD_LEVELS[:4] + BAD_LEVELS[5:])
    if r < 0.7:
        return n + "=" + rng.choice(LEVELS) + "=" + rng.choice(["", "x", rng.choice(LEVELS)])
    if r < 0.85:
        return rng.choice(["in fo", "a b", "a b", "de\tbug"])
    return "=" + rng.choice(LEVELS + ["", "zz"])


def spec_string(rng, malformed=0.0, allow_regex=True, unique=False):
    """a specification string; `malformed` is the probability of each part being malformed"""
    n = rng.choice([0, 1, 1, 2, 2, 3, 4, 6])
    parts = []
    used = set()
    for _ in range(n):
        if rng.random() < malformed:
            parts.append(bad_part(rng))
        else:
            p = wf_part(rng)
            if unique:
                key = p.split("=")[0].strip().lower() if "=" in p or p.strip().lower() not in LEVELS else "~"
                if key in used:
                    continue
                used.add(key)
            parts.append(p)
        if rng.random() < 0.1:
            parts.append(rng.choice(["", " ", "\t "]))
    s = ",".join(parts)
    if allow_regex and rng.random() < 0.25:
        s += "/" + (rng.choice(PATTERNS_BAD) if rng.random() < malformed else rng.choice(PATTERNS_OK))
        if rng.random() < malformed * 0.3:
            s += "/" + rng.choice(["", "x"])
    return s


def unicode_soup(rng):
    alphabet = ["a", "b", "=", ",", " ", "\t", "é", " ", " ", "İ", "K", "info", "OFF", "::", "_", "1", "=", ",", "\U0001F600",
                "debug", "Trace", "　", "x"]
    return "".join(rng.choice(alphabet) for _ in range(rng.choice([rng.randint(0, 12), rng.randint(0, 12), rng.randint(20, 70)])))


def gen_spec_case(rng):
    r = rng.random()
    if r < 0.45:
        s = spec_string(rng, 0.0)
    elif r < 0.8:
        s = spec_string(rng, 0.3)
    else:
        s = unicode_soup(rng)
    return "spec " + hx(s)


def builder_spec(rng):
    """a specification string for from_module_filters / insert_modules_from: without a part "=level" (that is the module
    name "", which is not a Rust path; a HashMap-built specification holding both it and a default has them in arbitrary
    order, and the Display form then shows the default or not - outside what C17 quantifies over)"""
    while True:
        s = spec_string(rng, 0.1)
        if not any(part.strip().startswith("=") for part in s.split("/")[0].split(",")):
            return s


def gen_specb_case(rng):
    ops = []
    for _ in range(rng.randint(0, 7)):
        r = rng.random()
        if r < 0.1:
            ops.append("F:%s" % hx(builder_spec(rng)))      # from_module_filters
        elif r < 0.2:
            ops.append("I:%s" % hx(builder_spec(rng)))      # insert_modules_from
        elif r < 0.25:
            ops.append("V:%d" % rng.randint(0, 5))             # LogSpecification::off() .. trace()
        elif r < 0.7:
            ops.append("M:%s:%d" % (hx(rng.choice(NAMES)), rng.randint(0, 5)))
        elif r < 0.9:
            ops.append("D:%d" % rng.randint(0, 5))
        else:
            ops.append("R:%s" % hx(rng.choice(NAMES)))
    return "specb " + " ".join(ops)


def brace_target(rng, writers, malformed=0.0):
    names = []
    for _ in range(rng.randint(0, 4)):
        r = rng.random()
        if r < 0.55 and writers:
            names.append(rng.choice(writers))
        elif r < 0.75:
            names.append("_Default")
        elif r < 0.9:
            names.append(rng.choice(["Unknown", "", "a", "_default", " A"]))
        else:
            names.append(rng.choice(WRITERS))
    t = "{" + ",".join(names) + "}"
    if rng.random() < malformed:
        t = rng.choice(["{", "{é", "{" + ",".join(names), "{}", "{A}x", "{A,é", "{{A}}", "{,}", "{A,}"])
    return t


def gen_lg_case(rng, focus="route", malformed=0.1, unique_names=True):
    spec = spec_string(rng, malformed if focus == "handle" else 0.0, unique=unique_names)
    writers, wtok = [], []
    nw = rng.choice([0, 1, 2, 2, 3]) if focus != "spec" else rng.choice([0, 0, 1])
    for n in rng.sample(WRITERS, nw):
        kind = rng.choice(["c", "c", "f", "s"])
        wtok.append("%s:%s:%d" % (hx(n), kind, rng.randint(0, 5)))
        writers.append(n)
    de, do = rng.choice([0, 0, 1, 2, 3, 4, 5, 6]), rng.choice([0, 0, 0, 1, 3, 6])
    flt = 1 if rng.random() < 0.2 else 0
    probes = rng.sample([t for t in TARGETS], 5)
    ops = []
    last_mods = spec.split("/")[0]
    nops = rng.randint(3, 10)
    for _ in range(nops):
        r = rng.random()
        lvl = rng.randint(1, 5)
        if focus == "handle" and r < 0.5:
            k = rng.random()
            s = spec_string(rng, 0.25 if rng.random() < 0.5 else 0.0, unique=unique_names)
            if last_mods is not None and rng.random() < 0.35:
                # the same module filters as before, only the text filter is added, changed or removed
                s = last_mods + rng.choice(["", "/" + rng.choice(PATTERNS_OK), "/" + rng.choice(PATTERNS_OK)])
            last_mods = s.split("/")[0]
            if k < 0.2:
                ops.append("HS:" + hx(s))
            elif k < 0.4:
                ops.append("HP:" + hx(s))
            elif k < 0.55:
                ops.append("HU:" + hx(s))
            elif k < 0.8:
                ops.append("HQ:" + hx(s))
            else:
                ops.append("HO")
            ops += ["G", "GR"]
            # the text filter is part of the specification: a record that contains the pattern and one that does not
            for m in ("needle in haystack", "hello world", "xyz"):
                ops.append("L:%d:%s:~:%s" % (rng.randint(1, 3), hx(rng.choice(TARGETS)), hx(m)))
        elif r < 0.1:
            ops.append(rng.choice(["DE:%d", "DO:%d"]) % rng.randint(0, 6))
        elif r < 0.2:
            ops.append("HO" if rng.random() < 0.3 else "HQ:" + hx(spec_string(rng, 0.2, unique=unique_names)))
            ops.append("G")
        else:
            if rng.random() < (0.6 if focus == "route" else 0.15) :
                target = brace_target(rng, writers, malformed)
            else:
                target = rng.choice(TARGETS)
            module = rng.choice(["~", hx(rng.choice(TARGETS))])
            if rng.random() < 0.3:
                ops.append("E:%d:%s" % (lvl, hx(target)))
            ops.append("L:%d:%s:%s:%s" % (lvl, hx(target), module, hx(rng.choice(MSGS))))
    ops += ["G", "GR"]
    return "lg %s %s %d %d %d %s ; %s" % (hx(spec), ",".join(wtok) or "-", de, do, flt, ",".join(hx(p) for p in probes), " ".join(ops))


def pair_ops(body, obs):
    """[(op token, observation token)] of an lg case"""
    ops = [t for t in body.split(" ; ", 1)[1].split(" ") if t]
    toks = [t for t in obs.split(" ") if t]
    return list(zip(ops, toks)) if len(ops) == len(toks) else None


def is_brace(op):
    return op.split(":")[2].startswith("7b")
