#!/bin/sh
# confirms a seeded change in its own worktree: demo fails with the change, passes without, full suite passes with it
# usage: [FEATURES="--features async"] tools/seed_confirm.sh <worktree>   (FEATURES applies to the demonstration only)
# (git stash is shared between the worktrees of one repository: the change is taken out and put back with git apply)
wt=$1
cd $wt || exit 2
export CARGO_NET_OFFLINE=true
echo "== demo with the change"; cargo test --offline $FEATURES --test seeded_demo 2>&1 | grep -E "^test result|panicked|error(\[|:)" | head -5
git diff -- src > .seed_confirm.diff
git apply -R .seed_confirm.diff
echo "== demo without the change"; cargo test --offline $FEATURES --test seeded_demo 2>&1 | grep -E "^test result|panicked|error(\[|:)" | head -5
git apply .seed_confirm.diff
mv tests/seeded_demo.rs .seeded_demo.rs.aside
echo "== full suite with the change"; cargo test --workspace --no-fail-fast --offline 2>&1 | grep -E "^test result" | awk '{p+=$4; f+=$6} END {print "passed " p " failed " f}'
mv .seeded_demo.rs.aside tests/seeded_demo.rs
rm -f .seed_confirm.diff
