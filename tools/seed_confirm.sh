#!/bin/sh
# confirms a seeded change in its own worktree: demo fails with the change, passes without, full suite passes with it
# usage: tools/seed_confirm.sh <worktree>
wt=$1
cd $wt || exit 2
export CARGO_NET_OFFLINE=true
echo "== demo with the change"; cargo test --offline --test seeded_demo 2>&1 | grep -E "^test result|panicked|error(\[|:)" | head -5
git stash push -q -- src
echo "== demo without the change"; cargo test --offline --test seeded_demo 2>&1 | grep -E "^test result|panicked|error(\[|:)" | head -5
git stash pop -q
mv tests/seeded_demo.rs /tmp/seeded_demo_$$.rs
echo "== full suite with the change"; cargo test --workspace --no-fail-fast --offline 2>&1 | grep -E "^test result" | awk '{p+=$4; f+=$6} END {print "passed " p " failed " f}'
mv /tmp/seeded_demo_$$.rs tests/seeded_demo.rs
