#!/usr/bin/env python3
"""tools/coverage.py [tier] : which lines of /repo/src do the cases of all checks reach?

A measurement for the correspondence check, not a check itself (not registered in MANIFEST.json): the harness is built
once more with the nightly toolchain and `-C instrument-coverage` into a scratch target directory under /dev/shm, every
property's corpus + generated cases (seed 0) are run through it, and llvm-cov (nightly's llvm-tools) reports, per source
file of the crate, the lines and functions never executed.  Code the cases never reach is code on which the model is not
tied to the implementation - the report says where to add case kinds.  Output: coverage/report.txt, coverage/summary.json.
"""
import glob, importlib, json, os, random, shutil, subprocess, sys
VERIF = os.path.dirname(os.path.dirname(os.path.abspath(__file__)))
sys.path.insert(0, os.path.join(VERIF, "tools"))
import lib

tier = sys.argv[1] if len(sys.argv) > 1 else "quick"
SCR = "/dev/shm/verif_cov"
TARGET = os.path.join(SCR, "target")
PROF = os.path.join(SCR, "prof")
shutil.rmtree(PROF, ignore_errors=True)
os.makedirs(PROF, exist_ok=True)
tools = glob.glob(os.path.expanduser("~/.rustup/toolchains/nightly-x86_64-*/lib/rustlib/*/bin"))[0]
env = dict(os.environ)
env.update({"CARGO_NET_OFFLINE": "true", "CARGO_TARGET_DIR": TARGET,
            "RUSTFLAGS": "--cfg flexi_logger_verif -C instrument-coverage",
            # (instrumented build scripts and proc macros write profiles too: keep them out of the source trees)
            "LLVM_PROFILE_FILE": os.path.join(SCR, "build-%p-%m.profraw")})
r = subprocess.run(["cargo", "+nightly", "build", "--release", "--offline"], cwd=lib.HARNESS, env=env,
                   stdout=subprocess.PIPE, stderr=subprocess.STDOUT)
if r.returncode != 0:
    print(r.stdout.decode()[-3000:])
    sys.exit(2)
BIN = os.path.join(TARGET, "release", "fl_harness")
total = 0
for i in range(1, 21):
    pid = "C%02d" % i
    mod = importlib.import_module("props." + pid)
    rng = random.Random(0)
    bodies = list(mod.corpus()) + list(mod.generate(rng, tier))
    frac = getattr(mod, "VIA_LOGGER", 0)   # as in ./check: a share of the histories once more through Logger / LoggerHandle
    if frac:
        ok = [b for b in bodies if b.startswith("flw ") and not any(t.startswith(("P:", "KI:")) or t == "CR" for t in b.split(" "))]
        bodies += ["flwl" + b[3:] for b in ok if rng.random() < frac]
    cases = ["k%d %s" % (n, b) for n, b in enumerate(bodies)]
    total += len(cases)
    work = os.path.join(SCR, "work_" + pid)
    shutil.rmtree(work, ignore_errors=True)
    os.makedirs(work)
    e = {"LLVM_PROFILE_FILE": os.path.join(PROF, pid + "-%p-%m.profraw")}
    e.update(getattr(mod, "ENV", None) or {})
    if getattr(mod, "TZ_BY_OFFSET", False):
        groups = {}
        for c in cases:
            groups.setdefault(c.split(" ")[3], []).append(c)
        for off, cs in sorted(groups.items()):
            ee = dict(e)
            ee["TZ"] = lib.posix_tz(int(off))
            lib.run_tool([BIN], cs, work, "cov" + off, env=ee)
    else:
        lib.run_tool([BIN], cases, work, "cov", env=e)
    shutil.rmtree(work, ignore_errors=True)
    print(pid, len(cases), "cases", flush=True)
raws = glob.glob(os.path.join(PROF, "*.profraw"))
merged = os.path.join(SCR, "all.profdata")
subprocess.run([os.path.join(tools, "llvm-profdata"), "merge", "-sparse", "-o", merged] + raws, check=True)
out = os.path.join(VERIF, "coverage")
os.makedirs(out, exist_ok=True)
rep = subprocess.run([os.path.join(tools, "llvm-cov"), "report", BIN, "-instr-profile=" + merged,
                      "--ignore-filename-regex=(registry|rustc|harness)"], stdout=subprocess.PIPE).stdout.decode()
open(os.path.join(out, "report.txt"), "w").write(rep)
exp = subprocess.run([os.path.join(tools, "llvm-cov"), "export", BIN, "-instr-profile=" + merged, "-summary-only",
                      "--ignore-filename-regex=(registry|rustc|harness)"], stdout=subprocess.PIPE).stdout.decode()
summ = {}
for f in json.loads(exp)["data"][0]["files"]:
    s = f["summary"]
    summ[f["filename"].replace("/repo/", "")] = {"lines": s["lines"]["count"], "lines_covered": s["lines"]["covered"],
                                                  "functions": s["functions"]["count"], "functions_covered": s["functions"]["covered"]}
json.dump({"tier": tier, "cases": total, "files": summ}, open(os.path.join(out, "summary.json"), "w"), indent=1, sort_keys=True)
# uncovered functions, by file
show = subprocess.run([os.path.join(tools, "llvm-cov"), "report", BIN, "-instr-profile=" + merged, "-show-functions",
                       "--ignore-filename-regex=(registry|rustc|harness)"] + sorted(glob.glob("/repo/src/**/*.rs", recursive=True)),
                      stdout=subprocess.PIPE, stderr=subprocess.DEVNULL).stdout.decode()
open(os.path.join(out, "functions.txt"), "w").write(show)
# lines never executed, per source file (without the cfg(test) modules at the end of the files)
import re
shown = subprocess.run([os.path.join(tools, "llvm-cov"), "show", BIN, "-instr-profile=" + merged,
                        "--ignore-filename-regex=(registry|rustc|harness)"] + sorted(glob.glob("/repo/src/**/*.rs", recursive=True)),
                       stdout=subprocess.PIPE, stderr=subprocess.DEVNULL).stdout.decode()
unc, cur = [], None
for line in shown.split("\n"):
    m = re.match(r"^(/repo/src/.*\.rs):$", line)
    if m:
        cur = m.group(1).replace("/repo/", "")
        unc.append("== " + cur)
        continue
    m = re.match(r"^\s*(\d+)\|\s*0\|(.*)$", line)
    if m and cur:
        unc.append("%5s  %s" % (m.group(1), m.group(2)[:150]))
open(os.path.join(out, "uncovered.txt"), "w").write("\n".join(unc) + "\n")
print(rep[-2500:])
shutil.rmtree(SCR, ignore_errors=True)
