#!/bin/sh
# runs every registered check with several seeds; prints the runs that exit non-zero
cd "$(dirname "$0")/.."
props=$(python3 -c "import json;print(' '.join(c['property_id'] for c in json.load(open('MANIFEST.json'))['checks']))")
for sd in ${SEEDS:-1 2 3 4}; do
  for p in $props; do
    VERIF_SEED=$sd ./check $p --tier ${TIER:-quick} > /dev/shm/sweep.$p.$sd 2>&1
    rc=$?
    if [ $rc -ne 0 ]; then echo "seed $sd $p exit $rc: $(grep -v '^KNOWN' /dev/shm/sweep.$p.$sd | tail -2 | cut -c1-200 | tr '\n' ' ')"; fi
  done
done
echo "sweep done"
