"""Shared machinery of ./check: build, audit, sharded execution of model and implementation,
diffing, verdict, evidence.  python3 stdlib only."""
import fcntl, hashlib, json, os, random, re, shutil, subprocess, sys, time
from concurrent.futures import ThreadPoolExecutor

VERIF = os.path.dirname(os.path.dirname(os.path.abspath(__file__)))
COQ = os.path.join(VERIF, "coq")
OCAML = os.path.join(VERIF, "ocaml")
HARNESS = os.path.join(VERIF, "harness")
DRIVER = os.path.join(OCAML, "driver")
HARNESS_BIN = os.path.join(HARNESS, "target", "release", "fl_harness")
NPROC = min(16, os.cpu_count() or 4)

FORBIDDEN = [r"\bAdmitted\b", r"\badmit\b", r"\bAxiom\b", r"\bAxioms\b", r"\bParameter\b", r"\bParameters\b",
             r"\bConjecture\b", r"Unset\s+Guard", r"bypass_check", r"type-in-type", r"impredicative-set",
             r"Admit\s+Obligations", r"Unset\s+Universe\s+Checking", r"Unset\s+Positivity"]
# axioms of the standard library that a theorem may depend on (named in DESIGN.md section 7); empty so far
AXIOM_ALLOW = []


class BuildError(Exception):
    def __init__(self, what, log):
        super().__init__(what)
        self.what, self.log = what, log


def sh(cmd, cwd=None, timeout=3600, env=None):
    e = dict(os.environ)
    e.setdefault("CARGO_NET_OFFLINE", "true")
    if env:
        e.update(env)
    p = subprocess.run(cmd, cwd=cwd, shell=isinstance(cmd, str), stdout=subprocess.PIPE, stderr=subprocess.STDOUT,
                       timeout=timeout, env=e)
    return p.returncode, p.stdout.decode("utf-8", "replace")


class Lock:
    def __enter__(self):
        self.f = open(os.path.join(VERIF, ".lock"), "w")
        fcntl.flock(self.f, fcntl.LOCK_EX)
        return self

    def __exit__(self, *a):
        fcntl.flock(self.f, fcntl.LOCK_UN)
        self.f.close()


# ---------------------------------------------------------------------------------------- build
def coq_sources():
    out = []
    for root, _, files in os.walk(COQ):
        for f in files:
            if f.endswith(".v"):
                out.append(os.path.join(root, f))
    return sorted(out)


def strip_comments(text):
    # remove (* ... *) comments, nested
    out, depth, i = [], 0, 0
    while i < len(text):
        if text.startswith("(*", i):
            depth += 1
            i += 2
        elif text.startswith("*)", i) and depth > 0:
            depth -= 1
            i += 2
        else:
            if depth == 0:
                out.append(text[i])
            i += 1
    return "".join(out)


def audit_sources():
    """grep for forbidden constructs over every .v file (comments stripped); top-level Variable/Hypothesis
    outside a Section."""
    problems = []
    for path in coq_sources():
        text = strip_comments(open(path).read())
        for pat in FORBIDDEN:
            for m in re.finditer(pat, text):
                line = text.count("\n", 0, m.start()) + 1
                problems.append(f"{os.path.relpath(path, COQ)}:{line}: forbidden `{m.group(0)}`")
        depth = 0
        for n, line in enumerate(text.split("\n"), 1):
            s = line.strip()
            if re.match(r"^Section\s+\w+", s):
                depth += 1
            elif re.match(r"^End\s+\w+", s) and depth > 0:
                depth -= 1
            elif depth == 0 and re.match(r"^(Variable|Variables|Hypothesis|Hypotheses|Context)\b", s):
                problems.append(f"{os.path.relpath(path, COQ)}:{n}: `{s.split()[0]}` outside a Section")
    return problems


def coq_build(targets):
    """Full .vo build of the given targets (and what they depend on)."""
    if not os.path.exists(os.path.join(COQ, "Makefile")) or \
            os.path.getmtime(os.path.join(COQ, "Makefile")) < os.path.getmtime(os.path.join(COQ, "_CoqProject")):
        rc, out = sh("coq_makefile -f _CoqProject -o Makefile", cwd=COQ)
        if rc != 0:
            raise BuildError("coq_makefile", out)
    rc, out = sh(["timeout", "3000", "make", "-j%d" % NPROC] + targets, cwd=COQ, timeout=3100)
    if rc != 0:
        raise BuildError("coq make " + " ".join(targets), out[-6000:])
    return out


def dep_cone(prop_vo):
    """the .v files Properties/Cxx.v depends on (transitively), from coqdep's .Makefile.d"""
    dfile = os.path.join(COQ, ".Makefile.d")
    deps = {}
    if os.path.exists(dfile):
        for line in open(dfile):
            if ":" not in line:
                continue
            lhs, rhs = line.split(":", 1)
            tg = [t for t in lhs.split() if t.endswith(".vo")]
            srcs = [t for t in rhs.split() if t.endswith(".vo") or t.endswith(".v")]
            for t in tg:
                deps[t] = srcs
    seen, todo = set(), [prop_vo]
    while todo:
        t = todo.pop()
        if t in seen:
            continue
        seen.add(t)
        for s in deps.get(t, []):
            if s.endswith(".vo"):
                todo.append(s)
    return sorted(s[:-1] for s in seen if os.path.exists(os.path.join(COQ, s[:-1])))


def count_obligations(vfiles):
    n, names = 0, []
    for v in vfiles:
        text = strip_comments(open(os.path.join(COQ, v)).read())
        n += len(re.findall(r"\bQed\.", text)) + len(re.findall(r"\bDefined\.", text))
        names += re.findall(r"\b(?:Theorem|Lemma|Corollary|Example|Fact|Proposition)\s+(\w+)", text)
    return n, names


def print_assumptions(prop, theorems, workdir):
    """compiles a scratch file that prints the assumptions of each property theorem"""
    src = os.path.join(workdir, "Assumptions_%s.v" % prop)
    with open(src, "w") as f:
        f.write("Require Import FL.Properties.%s.\n" % prop)
        for t in theorems:
            f.write('Goal True. idtac "@@ %s". Abort.\nPrint Assumptions %s.\n' % (t, t))
    rc, out = sh(["coqc", "-Q", COQ, "FL", src], cwd=workdir, timeout=600)
    if rc != 0:
        raise BuildError("Print Assumptions for " + prop, out[-3000:])
    res, cur = {}, None
    for line in out.split("\n"):
        if line.startswith("@@ "):
            cur = line[3:].strip()
            res[cur] = []
        elif cur is not None and line.strip():
            res[cur].append(line.rstrip())
    bad = []
    for t, lines in res.items():
        txt = "\n".join(lines)
        if "Closed under the global context" in txt:
            continue
        # every listed axiom must be in the allow-list
        for l in lines:
            m = re.match(r"^(\S+)\s*:", l)
            if m and m.group(1) not in AXIOM_ALLOW and not l.startswith(" "):
                if m.group(1) in ("Axioms", "Axioms:"):
                    continue
                bad.append(f"{t}: depends on {m.group(1)}")
    for t in theorems:
        if t not in res:
            bad.append(f"{t}: no Print Assumptions output")
    return res, bad


def ocaml_build():
    model_src = os.path.join(COQ, "model.ml")
    if not os.path.exists(model_src):
        raise BuildError("extraction", "coq/model.ml missing")
    srcs = [model_src] + [os.path.join(OCAML, f) for f in os.listdir(OCAML) if f.endswith(".ml") and f != "model.ml"]
    if os.path.exists(DRIVER) and all(os.path.getmtime(DRIVER) >= os.path.getmtime(s) for s in srcs):
        return
    rc, out = sh("./build.sh", cwd=OCAML, timeout=900)
    if rc != 0:
        raise BuildError("ocaml driver", out[-4000:])


def cargo_build():
    """rebuilds the harness against /repo's current working tree (cargo notices source changes)"""
    lock_src, lock_dst = "/repo/Cargo.lock", os.path.join(HARNESS, "Cargo.lock")
    if not os.path.exists(lock_dst) or open(lock_src, "rb").read() != open(lock_dst, "rb").read():
        shutil.copyfile(lock_src, lock_dst)
    rc, out = sh("cargo build --release --offline", cwd=HARNESS, timeout=1800)
    if rc != 0:
        raise BuildError("cargo build of the harness against /repo", out[-6000:])


def build(prop, extra_targets=()):
    t0 = time.time()
    with Lock():
        coq_build(["Properties/%s.vo" % prop, "Extract/Extract.vo"] + list(extra_targets))
        ocaml_build()
        cargo_build()
    return time.time() - t0


# ---------------------------------------------------------------------------------------- execution
def shard(lines, n):
    k = max(1, min(n, len(lines)))
    return [lines[i::k] for i in range(k)]


def run_tool(cmd_prefix, case_lines, workdir, tag, env=None, timeout=1800):
    """runs `cmd_prefix <file>` over shards; returns dict id -> observation text"""
    shards = shard(case_lines, NPROC)
    files = []
    for i, sh_lines in enumerate(shards):
        p = os.path.join(workdir, "%s.%d.cases" % (tag, i))
        with open(p, "w") as f:
            f.write("\n".join(sh_lines) + "\n")
        files.append(p)

    def one(p):
        e = dict(os.environ)
        e["TZ"] = "UTC"
        e["VERIF_SCRATCH"] = workdir
        if env:
            e.update(env)
        try:
            r = subprocess.run(cmd_prefix + [p], stdout=subprocess.PIPE, stderr=subprocess.PIPE, timeout=timeout, env=e)
            return r.returncode, r.stdout.decode("utf-8", "replace"), r.stderr.decode("utf-8", "replace")
        except subprocess.TimeoutExpired:
            return 124, "", "timeout"

    res, problems = {}, []
    with ThreadPoolExecutor(max_workers=NPROC) as ex:
        for (rc, out, err), p in zip(ex.map(one, files), files):
            for line in out.split("\n"):
                if not line.strip():
                    continue
                cid, _, rest = line.partition(" ")
                res[cid] = rest
            if rc != 0:
                problems.append("%s exited with %d on %s: %s" % (tag, rc, p, err[-500:]))
    return res, problems


def posix_tz(off):
    """TZ value for a fixed offset of `off` seconds east of UTC (POSIX inverts the sign)"""
    if off == 0:
        return "UTC"
    sign = "-" if off > 0 else "+"
    a = abs(off)
    return "VTZ%s%02d:%02d:%02d" % (sign, a // 3600, a % 3600 // 60, a % 60)


def split_ghost(text):
    obs, _, ghost = text.partition(" # ")
    return obs.strip(), ghost.strip()


def case_id(line):
    return line.split(" ", 1)[0]


def case_body(line):
    return line.split(" ", 1)[1]


# ---------------------------------------------------------------------------------------- evidence / replay
def write_json(path, obj):
    os.makedirs(os.path.dirname(path), exist_ok=True)
    tmp = path + ".tmp"
    with open(tmp, "w") as f:
        json.dump(obj, f, indent=1, sort_keys=True)
    os.replace(tmp, path)


def write_replay(prop, payload):
    h = hashlib.sha1(json.dumps(payload, sort_keys=True).encode()).hexdigest()[:12]
    path = os.path.join(VERIF, "replays", prop, h + ".json")
    write_json(path, payload)
    return path


def load_known(prop):
    path = os.path.join(VERIF, "known_findings.jsonl")
    out = []
    if os.path.exists(path):
        for line in open(path):
            line = line.strip()
            if not line or line.startswith("#") or line.startswith("fixed:"):
                continue
            try:
                o = json.loads(line)
            except ValueError:
                continue
            if o.get("property") == prop and o.get("status", "known") == "known":
                out.append(o)
    return out
