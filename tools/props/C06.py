"""C06 - restarting a logger never destroys or reorders earlier runs' records."""
import gen_flw as g

CLAIM = ('Proved in Coq for the model, Numbers naming (NumbersDirect naming: C06_restarts_numbersdirect; Timestamps naming incl. '
         'ticks between the runs: C06_restarts_timestamps, C06_restarts_timestamps_keep - there no name is used twice across '
         'runs): for EVERY sequence of runs on one directory (each run with its own criterion, buffer capacity and append flag, '
         'any history of writes / raw chunks / flushes / triggers / ticks, also runs without a write), the files r00000.., '
         'rCURRENT hold in this order exactly what all runs wrote (C06_restarts_numbers), and a later run never touches a closed '
         'file: it keeps its number and content, the former current file is continued or closed under the next number '
         '(C06_restarts_keep); bound: fewer than 2^32 operations (the index read back from a name is a u32), no cleanup, no '
         'faults. The proof attempt itself produced a counterexample on the first model (suffix containing "_r"), confirmed on '
         'the code and repaired (cc9ae9d). For the other namings, cleanup limits and pre-seeded directories the property is '
         'decided per explored history by an executable oracle defined in Coq (Oracles/O_Stream.v + ReaderOrder.v: the family '
         'files in reader order - parsed infix, archives decompressed - equal everything logged by all runs, or a tail of it '
         "under a cleanup limit; soundness C06_oracle_sound, C06_tail_sound) applied to the implementation's directory snapshots "
         'after every flush and stop, and by the correspondence check (model = implementation on every history). A restart '
         'theorem for custom time-stamp formats, and for histories with cleanup under other namings than Numbers, is not proved: '
         'partial. Also proved for TimestampsDirect naming over sequences of runs, local time or use_utc with any zone offset '
         '(C06_restarts_timestampsdirect, C06_restarts_timestampsdirect_keep). Their proof found a defect: with append, use_utc '
         'and a zone offset other than zero the time stamp of the newest file was read back as local time, the newest file was '
         'not continued and the names no longer sorted in the order of writing; confirmed on the code, repaired (79e01d3), the '
         'former counterexample is now a positive example (Flw/TsdRestart.v tsd_utc_append_fine) and a corpus case; the '
         'histories are generated with zone offsets 0, +1 h, -9:30 h and use_utc on/off. WITH A CLEANUP STRATEGY (proved, '
         'Numbers naming): after any sequence of runs with one strategy the directory has the shape a single run leaves - '
         'rCURRENT, the newest n closed files plain, the next m as archives of exactly what was closed under that number - and '
         'holds a suffix of what all runs wrote (C06_restarts_numbers_cleanup); what a reader finds under a number is still '
         'found there after further runs, or the cleanup has removed it (C06_restarts_numbers_cleanup_keep); with a strategy per '
         'run the same holds as long as every strategy keeps at least one file (C06_restarts_numbers_cleanup_varying; with a '
         'strategy that keeps nothing the numbering restarts and a number is reused - counterexample in '
         'Flw/NumCleanupRestartEx.v). Observed: a run without append that finds rCURRENT closes it at its first write and cleans '
         'up at once; a run without a write changes nothing. ')
THEOREMS = ["C06_restarts_numbers", "C06_restarts_keep", "C06_restarts_numbersdirect", "C06_restarts_timestamps", "C06_restarts_timestamps_keep", "C06_oracle_sound", "C06_tail_sound", "C06_restarts_timestampsdirect", "C06_restarts_timestampsdirect_keep", "C06_restarts_numbers_cleanup", "C06_restarts_numbers_cleanup_keep", "C06_restarts_numbers_cleanup_varying"]
TRUSTED = ["modelled, not verified: std::fs (open/rename/remove/read_dir), flate2 (gunzip . gzip = id, validated by decompressing every archive), chrono formatting"]
ASSUMPTIONS = ["no I/O faults, no kill (C19, C11), no foreign files (C14)", "the same naming scheme and cleanup strategy in all runs of a history"]
RULE = ("1-3 runs per case on one file specification under the virtual clock: append on/off per run, all namings, size/age criteria, "
        "Direct/BufferDontFlush, restarts within the same second and across seconds, 30 % pre-seeded directories (compressed-only "
        "families, gaps in the numbering, missing current file); snapshots after every flush and stop; non-trivial = at least two runs "
        "and one rotation; distinct = distinct case text")


TZ_BY_OFFSET = True   # one harness process per zone offset
VIA_LOGGER = 0.25   # share of the file-writer histories that is run once more through Logger / LoggerHandle


OFFSETS = (0, 0, 3600, -34200)


def corpus():
    out = []
    for naming in g.NAMINGS[:4]:
        for app in (False, True):
            c1 = g.Cfg(crit="s5", naming=naming, append=app)
            out.append("flw %d 0 ; B:%s W:%s W:%s S SN K:2 B:%s W:%s T W:%s S SN" % (
                g.T0, c1.token(), g.hx(b"A0\n"), g.hx(b"B1bbbbbb\n"), c1.token(), g.hx(b"C2\n"), g.hx(b"D3\n")))
    # known finding Q9 (recorded in known_findings.jsonl): append restart of a direct time-stamp naming with restart siblings
    c = g.Cfg(crit="s25", naming="tsd", append=True)
    out.append("flw %d 0 ; B:%s W:%s T W:%s W:%s S SN K:5 B:%s W:%s S SN" % (
        g.T0 - 1, c.token(), g.hx(b"A0\n"), g.hx(b"B1\n"), g.hx(b"C2\n"), c.token(), g.hx(b"F5\n")))
    # fixed defects, kept as regression cases: same-second restart without append; compressed-only family
    c = g.Cfg(crit="s25", naming="tsd")
    out.append("flw %d 0 ; B:%s W:%s S SN B:%s W:%s S SN" % (g.T0, c.token(), g.hx(b"A0\n"), c.token(), g.hx(b"B1\n")))
    # fixed defect: append with use_utc and a zone offset <> 0 (the time stamp of the newest file was read back as local time)
    for off in (3600, -3600):
        c0 = g.Cfg(base=b"app", crit="s100", naming="tsd", utc=True)
        c1 = g.Cfg(base=b"app", crit="s100", naming="tsd", utc=True, append=True)
        out.append("flw 100000 %d ; B:%s W:%s T W:%s S SN K:5 B:%s W:%s T W:%s S SN K:5 B:%s W:%s T W:%s S SN" % (
            off, c0.token(), g.hx(b"a\n"), g.hx(b"b\n"), c1.token(), g.hx(b"c\n"), g.hx(b"d\n"), c1.token(), g.hx(b"e\n"), g.hx(b"f\n")))
    c = g.Cfg(crit="s5", naming="num")
    out.append("flw %d 0 ; XC:%s:1:%s SN B:%s W:%s W:%s W:%s S SN" % (
        g.T0, g.hx(c.name(b"r00007") + b".gz"), g.hx(b"old7\n"), c.token(), g.hx(b"A0aaaaaa\n"), g.hx(b"B1\n"), g.hx(b"C2\n")))
    return out


def generate(rng, tier):
    n = 500 if tier == "quick" else 30000
    return [g.gen_runs(rng, tier, cleanups=("n", "n", "n", "l2", "b1.1"), preseed=0.3, sfxs=(b"log", b"log", b"trc", b"x_r5", b"log.txt", b"restart-5", None),
                       offs=OFFSETS, utc_p=0.3) for _ in range(n)]


def search(rng, tier, disagreeing):
    return [g.gen_runs(rng, "thorough", cleanups=("n", "n", "l2", "b1.1"), preseed=0.3, sfxs=(b"log", b"trc", b"x_r5", b"log.txt", b"restart-5", None),
                       offs=OFFSETS, utc_p=0.3) for _ in range(1500)]


def classify(body, impl, verdict):
    """no recorded finding is left for this property: every failure is reported"""
    return None


def nontrivial(body, obs, ghost):
    return body.count(" B:") >= 2 and ("+" in ghost or " T" in body)


def features(body, obs, ghost):
    toks = body.split(" ; ", 1)[1].split(" ")
    cfgs = [t[2:].split(",") for t in toks if t.startswith("B:")]
    return ["naming=" + cfgs[0][7].split(".")[0], "runs=%d" % len(cfgs), "cleanup=" + cfgs[0][8][0],
            "preseeded=%d" % any(t.startswith("XC:") for t in toks), "appends=%d" % sum(c[4] == "1" for c in cfgs),
            "off=" + body.split(" ")[2], "utc=" + cfgs[0][9]]
