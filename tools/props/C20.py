"""C20 - each record is framed as format output plus one line ending; formats faithful."""
import gen_lg as gl

TZ_BY_OFFSET = True
CLAIM = ("Proved in Coq for the model (Formats/): a record that is handed to n outputs puts exactly format(record) ++ line ending into "
         "each of them, once (C20_frame); each text format is a header that depends neither on the message nor on the key-value pairs, "
         "followed by the pairs as {k=v, ..} in source order and the message verbatim, for arbitrary bytes (C20_text); the Debug rendering "
         "of a pair's value can be undone and contains no raw control byte (C20_kv_text_roundtrip, C20_debug_str_inj, "
         "C20_debug_str_printable); the JSON format's kv object is the map sorted by key in which the last pair of a key wins "
         "(C20_kv_map_sorted, C20_kv_map_lookup) and its keys and values decode to what went in (C20_json_kv_roundtrip); serde_json's string escaping can be undone for every byte string and never produces "
         "a byte below 0x20, so a JSON line is a single line whatever the texts are (C20_json_roundtrip, C20_json_single_line); all "
         "outputs of one record are rendered from one time stamp (C20_one_timestamp). Tied to the code by the correspondence check: "
         "direct calls of all nine provided format functions (plain, coloured with the default palette, JSON) on generated records - with and without key-value pairs (numbers and ASCII strings, repeated keys) - and "
         "instants with zone offsets, byte-exact comparison, JSON lines additionally decoded with serde_json and compared field by "
         "field; built loggers with file + additional writer + stderr duplicate, LF/CRLF, Direct/buffered, recursive logging from a "
         "Display implementation (inner records first, once per output that formats the outer record); with the clock advancing on "
         "every read, all outputs of a record must show the same time stamp (oracle on the implementation).")
THEOREMS = ["C20_frame", "C20_text", "C20_one_timestamp", "C20_json_roundtrip", "C20_json_single_line", "C20_json_kv_roundtrip",
            "C20_kv_text_roundtrip", "C20_debug_str_inj", "C20_debug_str_printable", "C20_kv_map_sorted", "C20_kv_map_lookup"]
TRUSTED = ["modelled, not verified: chrono's formatting of %Y-%m-%d %H:%M:%S%.6f %:z, nu_ansi_term's escape sequences for the default "
           "palette, serde_json's field order and escaping (all compared byte for byte); the thread name is an input"]
ASSUMPTIONS = ["default palette", "key-value pairs are not generated (kv feature enabled, no pairs)",
               "recursive logging with buffered stdout (known self-deadlock, DESIGN section 9 item D) is not exercised in-process"]
RULE = ("fmt cases: format kind x coloured x level x present/absent module, file, line, thread x messages (empty, multi-line, quotes, "
        "backslashes, control characters, non-ASCII, braces, long) x instants near boundaries x offsets 0/+3h/-9:30; frame cases: 1-4 "
        "records, some with 1-2 inner records logged from Display, LF/CRLF, Direct/BufferDontFlush, clock fixed (exact comparison) or "
        "advancing by 1 s per read (same-time-stamp oracle); non-trivial = message with a character that needs care (quote, backslash, "
        "control, non-ASCII, brace, newline) or a frame case with inner records / advancing clock; distinct = distinct case text")

MSGS = ["", "plain", "multi\nline\n", 'he said "hi"', "back\\slash \\n", "tab\there", "ctl \x01\x02\x1f end", "é ü 漢 \U0001F600", "{A,B}", "{",
        "x" * 300, "\r\n", "null\x00byte", "/ slash \x7f del", "a b"]
NAMES = [None, "my::mod", "é::m", "a", ""]
FILES = [None, "src/x.rs", "sp ace.rs", "é.rs"]
THREADS = [None, None, "main", "worker-é", "t 1"]
INSTANTS = [1709251198, 0, 951782399, 1735689599, 4102444799, 1709164800]


def hx(s):
    return gl.hx(s)


def ohx(s):
    return "~" if s is None else hx(s)


KV_KEYS = ["a", "b", "key", "a", "é", "k 1", ""]
KV_STRS = ["foo", "", 'q"uo\\te', "tab\there", "nl\n", "\x01\x7f", "sp ace", "{brace}", "\x00"]


def gen_kv(rng):
    """key-value pairs: "~" for none, else k=iN / k=sHEX separated by ';' (keys may repeat; string values are ASCII)"""
    if rng.random() < 0.5:
        return "~"
    out = []
    for _ in range(rng.randint(1, 4)):
        k = hx(rng.choice(KV_KEYS))
        if rng.random() < 0.5:
            out.append("%s=i%d" % (k, rng.choice([0, 17, 4294967296, 18446744073709551615])))
        else:
            out.append("%s=s%s" % (k, hx(rng.choice(KV_STRS))))
    return ";".join(out)


def gen_fmt(rng):
    off = rng.choice([0, 0, 10800, -34200])
    return "fmt %d %d %d %s %d %d %s %s %s %s %s %s" % (
        rng.choice(INSTANTS) + rng.choice([0, 1, -1]), off, rng.choice([0, 1, 123456, 999999]), rng.choice("dotwj"), rng.randint(0, 1),
        rng.randint(1, 5), ohx(rng.choice(NAMES)), ohx(rng.choice(FILES)), rng.choice(["~", "0", "1", "42", "4294967295"]),
        ohx(rng.choice(THREADS)), hx(rng.choice(MSGS)), gen_kv(rng))


def gen_frame(rng):
    tick = 1 if rng.random() < 0.35 else 0
    recs = []
    for _ in range(rng.randint(1, 4)):
        r = "R:%d:%s" % (rng.randint(1, 5), hx(rng.choice(MSGS[:9])))
        if tick == 0 and rng.random() < 0.35:
            for _ in range(rng.randint(1, 2)):
                r += ":%d:%s" % (rng.randint(1, 5), hx(rng.choice(["in1", "inner é", ""])))
        recs.append(r)
    return "frame %d 0 %s %d %d %s ; %s" % (rng.choice(INSTANTS), rng.choice("dotj" if tick == 0 else "otj"), rng.randint(0, 1), tick,
                                           rng.choice(["d", "d", "b16", "b4096"]), " ".join(recs))


def corpus():
    out = []
    for k in "dotwj":
        for c in (0, 1):
            out.append("fmt 1709251198 0 123456 %s %d 1 %s %s 42 ~ %s ~" % (k, c, hx("my::mod"), hx("src/x.rs"), hx('he said "hi"\n\ttab\\ é \x01')))
            out.append("fmt 1709251198 0 123456 %s %d 3 %s %s 42 ~ %s %s=i17;%s=s%s;%s=i1" % (k, c, hx("my::mod"), hx("src/x.rs"), hx("msg"), hx("b"), hx("a"), hx('f"o\\o'), hx("b")))
    out.append("frame 1709251198 0 o 0 0 d ; R:3:%s R:1:%s:4:%s:5:%s R:5:%s" % (hx("first"), hx("outer"), hx("in1"), hx("in2"), hx("")))
    out.append("frame 1709251198 0 o 1 1 d ; R:3:%s R:1:%s R:5:%s" % (hx("first"), hx("second"), hx("third")))
    return out


def generate(rng, tier):
    n = 1500 if tier == "quick" else 60000
    return [gen_fmt(rng) if rng.random() < 0.8 else gen_frame(rng) for _ in range(n)]


def search(rng, tier, disagreeing):
    return generate(rng, "quick")


def stamps(hexbytes):
    """the time stamps of the lines of an output (opt/detailed: "[<ts>] ...", json: "timestamp":"<ts>")"""
    try:
        text = bytes.fromhex(hexbytes if hexbytes != "-" else "").decode("utf-8", "replace")
    except ValueError:
        return None
    out = []
    for line in text.replace("\r\n", "\n").split("\n"):
        if not line:
            continue
        if line.startswith("["):
            out.append(line[1:line.index("]")])
        elif '"timestamp":"' in line:
            i = line.index('"timestamp":"') + 13
            out.append(line[i:line.index('"', i)])
    return out


def compare(body, model, impl):
    if body.startswith("frame ") and body.split(" ")[5] != "0":
        return True          # advancing clock: the oracle decides
    return model == impl


def oracle(body, model, impl):
    if impl.startswith("PANIC") or impl.startswith("HARNESS-ERROR"):
        return "fail " + impl[:60]
    if body.startswith("fmt "):
        if model != impl:
            return "fail format-output-differs model=%s impl=%s" % (model[:200], impl[:200])
        if body.split(" ")[4] == "j":
            raw = bytes.fromhex(impl.split(" ")[0]) if impl.split(" ")[0] != "-" else b""
            if any(b < 0x20 for b in raw):
                return "fail json-line-contains-a-control-character"
        return "pass"
    f = dict(t.split("=", 1) for t in impl.split(" ")[1:] if "=" in t)
    if "r2" in impl.split(" ")[0]:
        return "fail log-call-panicked"
    if body.split(" ")[5] == "0":
        return "pass" if model == impl else "fail framing-differs model=%s impl=%s" % (model[:300], impl[:300])
    a, b, c = stamps(f.get("main", "")), stamps(f.get("w", "")), stamps(f.get("err", ""))
    n = len([t for t in body.split(" ; ", 1)[1].split(" ") if t])
    if a is None or len(a) != n or len(b) != n or len(c) != n:
        return "fail line-count main=%r w=%r err=%r" % (a, b, c)
    if a != b or a != c:
        return "fail outputs-of-one-record-carry-different-time-stamps main=%r w=%r err=%r" % (a, b, c)
    return "pass"


def nontrivial(body, obs, ghost):
    if body.startswith("frame "):
        t = body.split(" ")
        return t[5] != "0" or body.count(":") > 2 * len(body.split(" ; ")[1].split(" "))
    msg = body.split(" ")[-1]
    return any(x in msg for x in ("22", "5c", "0a", "09", "01", "c3", "7b", "00", "e2"))


def features(body, obs, ghost):
    t = body.split(" ")
    if t[0] == "fmt":
        return ["kind=fmt", "format=" + t[4], "coloured=" + t[5], "off=" + t[2]]
    return ["kind=frame", "format=" + t[3], "crlf=" + t[4], "tick=" + t[5], "mode=" + t[6][0]]
