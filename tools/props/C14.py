"""C14 - files outside the logger's naming pattern are never touched and never disturb it."""
import gen_flw as g

CLAIM = ('Proved in Coq END TO END for the model, Numbers naming without and with a cleanup strategy, EVERY history of a run and '
         'EVERY set of foreign files whose names the family test rejects (this covers near misses such as a_r00001.log.bak, '
         "a_rx.log, a_r1.log, ax_r00001.log, other suffixes): the logger's observations are exactly those of the run in the "
         'empty directory (snapshots modulo the foreign entries), every foreign file keeps its content, all other names and '
         'contents are those of the run in the empty directory - also under cleanup, which neither removes nor compresses a '
         'foreign file (C14_numbers_foreign_ignored, C14_numbers_stream_foreign, C14_numbers_cleanup_foreign_ignored; the proof '
         'is a step-by-step commutation of the whole model with an embedding of the directory). The first proof pinned down the '
         'family test of the code exactly: a_r1x.log WAS a family member for the number filter (r + digit + one more byte) - and '
         'the machinery then wrongly followed the code instead of the property: such a name does not carry an infix of the '
         'naming scheme. After an independent reviewer pointed at app_r1backup.log being deleted by the cleanup, the near-miss '
         'grammar was extended by such names (48 failing twin runs on the unchanged code), the defect repaired (1309209: the '
         'number filter wants r + digits only, latest_timestamp_file lists with the time-stamp filter) and the member tests of '
         'the theorems are now characterised as exactly the documented patterns (C14_num_member_pattern, '
         'C14_numd_member_pattern, C14_ts_member_pattern, C14_tsd_member_pattern; for the time-stamp namings the pattern was still '
         "\"what chrono's lenient parser reads as a time stamp\" until a second reviewer saw a_r+2024-01-05_03-04-05.log and "
         'a_r2024-1-5_3-4-5.log removed by the cleanup - repaired (b8c3c12), the pattern is now the canonical text of a time stamp, '
         'canonical_ts - the infix of every member is a text the format writes, C14_ts_infix_is_written_text; a number-named file is foreign to a time-stamp '
         'logger and vice versa: C14_number_files_foreign_ts, C14_ts_files_foreign_number; C14_num_foreign_non_digit). Decided '
         'per explored history by comparing, on the implementation, a run in a directory pre-populated with foreign files (near '
         'misses of the family pattern) with its twin run in a clean directory: every foreign file must still exist with '
         'unchanged bytes, and the family files, the results of existing_log_files and all return values must be identical in '
         'both runs (noninterference oracle), together with the correspondence check of both runs against the model. Proved in '
         'Coq: the characterisation of family names used by the oracles (full_infix recognises exactly '
         "fixed[_infix][.suffix][.gz], C14_family_name_shape) and that the model's listing never returns a name without the "
         "fixed part and separator (C14_listing_prefix); the listing's family test accepts exactly the documented pattern "
         '(C14_listing_accepts_family_only / _all_family) and an entry it rejects does not influence filter_files, on which '
         'numbering, collision handling and cleanup work (C14_foreign_ignored). The same end-to-end theorems are proved for the '
         'other three namings without cleanup (C14_numbersdirect_foreign_ignored, C14_numbersdirect_stream_foreign, '
         'C14_timestampsdirect_foreign_ignored, C14_timestampsdirect_stream_foreign, C14_timestamps_foreign_ignored, '
         'C14_timestamps_stream_foreign; time-stamp namings: clock not going backwards, up to the year 9999), each against the '
         "real family test of that naming's listings (C14_ts_member_shape: every member is fixed_r...). Still not foreign, "
         "legitimately - the names DO follow the pattern although the logger did not write them: a stranger's "
         "a_r1999-01-01_00-00-00.log, chrono's lenient a_r1970-1-1_0-0-0.log, a number of any length (a_r1.log), a stranger's "
         'a_rCURRENT.log (examples evaluated in Coq in Flw/MemberPattern.v, Flw/TsdForeign.v, Flw/TsForeign.v). NumbersDirect '
         'with a cleanup strategy is proved as well (C14_numbersdirect_cleanup_foreign_ignored, '
         'C14_numbersdirect_cleanup_foreign_dir: foreign files are neither removed nor compressed). The time-stamp namings with '
         'a cleanup strategy are proved as well (C14_timestampsdirect_cleanup_foreign_ignored, '
         'C14_timestamps_cleanup_foreign_ignored and the _foreign_dir variants). Partial: histories with queries, reopen, faults '
         'or kills, are decided by the twin runs only. ')
THEOREMS = ["C14_ts_infix_is_written_text", "C14_numbers_foreign_ignored", "C14_numbers_stream_foreign", "C14_numbers_cleanup_foreign_ignored", "C14_foreign_ignored", "C14_listing_accepts_family_only", "C14_listing_accepts_all_family", "C14_family_name_shape", "C14_listing_prefix", "C14_numbersdirect_foreign_ignored", "C14_numbersdirect_stream_foreign", "C14_timestampsdirect_foreign_ignored", "C14_timestampsdirect_stream_foreign", "C14_timestamps_foreign_ignored", "C14_timestamps_stream_foreign", "C14_ts_member_shape", "C14_num_member_pattern", "C14_numd_member_pattern", "C14_tsd_member_pattern", "C14_ts_member_pattern", "C14_num_foreign_non_digit", "C14_number_files_foreign_ts", "C14_ts_files_foreign_number", "C14_numbersdirect_cleanup_foreign_ignored", "C14_numbersdirect_cleanup_foreign_dir", "C14_timestampsdirect_cleanup_foreign_ignored", "C14_timestampsdirect_cleanup_foreign_dir", "C14_timestamps_cleanup_foreign_ignored", "C14_timestamps_cleanup_foreign_dir"]
TRUSTED = ["modelled, not verified: read_dir, Path::extension/file_stem (std semantics written out in coq/Base/PathName.v and tied by the try_from cases of C16)"]
ASSUMPTIONS = ["foreign names are generated from a near-miss grammar; file modification times are not compared (content and existence are)"]
RULE = ("pairs of cases: (a) 1-4 foreign files/sub-directories created first - other separator, longer/shorter basename with common "
        "prefix, other discriminant, other suffix, .gz of another suffix, extra dots, missing infix, infix-like fragments, multi-byte "
        "characters at the offsets the code slices at, sub-directory named like a log file - then 1-2 runs with rotations, cleanup and "
        "listings; (b) the same runs without the foreign files; non-trivial = a rotation with a cleanup strategy or a listing happened "
        "while foreign files were present; distinct = distinct case text")


def foreign_names(rng, cfg, naming):
    fixed = cfg.fixed()
    sfx = cfg.sfx or b"log"
    idx = b"r00001" if naming.startswith("num") else b"r2024-02-29_23-59-58"
    cands = [
        fixed + b"X" + idx + b"." + sfx,                 # other separator
        fixed + b"x_" + idx + b"." + sfx,                # longer basename with common prefix
        fixed + b"_" + idx + b".backup." + sfx,          # extra dot
        fixed + b"_" + idx + b".txt",                    # other suffix
        fixed + b"_" + idx + b".txt.gz",                 # .gz of another suffix
        fixed + b"." + sfx,                              # missing infix
        fixed + b"_notes." + sfx,                        # not an infix of the scheme
        fixed + b"_r." + sfx,
        fixed + b"_rXYZ." + sfx,
        fixed + "é".encode() + b"." + sfx,               # multi-byte right after the fixed part
        fixed + b"_" + "é".encode() + b"." + sfx,
        fixed[:-1] + b"_" + idx + b"." + sfx if len(fixed) > 1 else b"zz." + sfx,   # shorter basename
        fixed + b"_other_" + idx + b"." + sfx,           # other discriminant
        fixed + b"_" + idx + b"." + sfx + b".bak",
        fixed + b"_" + idx + b".restart-xy." + sfx,      # malformed restart fragment
        b"README.md",
        fixed + b"_" + idx + b"x." + sfx,                # an infix of the scheme with a trailing letter
        fixed + b"_r1backup." + sfx,                     # 'r' + digit + text
        fixed + b"_" + (b"r2024-02-29_23-59-58" if naming.startswith("num") else b"r00001") + b"." + sfx,   # an infix of another scheme
    ]
    if not naming.startswith("num"):
        # what only chrono's lenient parser reads as a time stamp (no padding, a sign, a blank in front): not a text the
        # format writes, hence foreign (fixed defect: such files were listed, counted and removed by the cleanup)
        cands += [fixed + b"_r2024-1-5_3-4-5." + sfx, fixed + b"_r+2024-01-05_03-04-05." + sfx,
                  fixed + b"_r 2024-01-05_03-04-05." + sfx, fixed + b"_r2024-01-05_03-04-5." + sfx + b".gz",
                  fixed + b"_r2024-02-29_23-59-5." + sfx]
    return rng.sample(cands, rng.randint(1, 4))


def gen_pair(rng, tier):
    naming = rng.choice(["num", "numd", "ts", "tsd"])
    cfg = g.Cfg(base=rng.choice([b"app", b"a"]), disc=rng.choice([None, None, b"d1"]), crit="s%d" % rng.choice([0, 4, 10]),
                naming=naming, cleanup=rng.choice(["n", "l1", "l2", "g1", "b1.1", "b0.1"]), append=rng.random() < 0.4,
                cap=rng.choice([None, None, 16]))
    pre = []
    for nm in foreign_names(rng, cfg, naming):
        if rng.random() < 0.12:
            pre.append("XM:%s" % g.hx(nm))
        elif rng.random() < 0.1:
            pre.append("XL:%s" % g.hx(nm))      # a symbolic link to a directory elsewhere
        else:
            kind = 1 if nm.endswith(b".gz") else 0
            pre.append("XC:%s:%d:%s" % (g.hx(nm), kind, g.hx(b"foreign " + nm[:6] + b"\n")))
    if rng.random() < 0.2:
        # a sub-directory, or a symbolic link to a directory elsewhere, that is NAMED like a file of the family: no regular file,
        # hence not the logger's
        fam = cfg.name(b"r00041" if naming.startswith("num") else b"r2031-01-01_00-00-00")
        pre.append("%s:%s" % (rng.choice(["XM", "XL"]), g.hx(fam)))
    ops = []
    n = 0
    for run in range(rng.randint(1, 2)):
        ops.append("B:" + cfg.token())
        for _ in range(rng.randint(2, 8)):
            r = rng.random()
            if r < 0.6:
                ops.append("W:" + g.hx(b"%c%d__\n" % (65 + n % 26, n)))
                n += 1
            elif r < 0.75:
                ops.append("T")
            elif r < 0.85:
                ops.append("Q:%s:~" % rng.choice(["100", "110", "111", "001", "010"]))
            else:
                ops.append("K:1")
        ops += ["Q:111:~", "S", "SN"]
    return ["flw %d 0 ; %s" % (g.T0, " ".join(pre + ["SN"] + ops)), "flw %d 0 ; %s" % (g.T0, " ".join(["SN"] + ops))]


def corpus():
    return []


def generate(rng, tier):
    n = 350 if tier == "quick" else 20000
    out = []
    for _ in range(n):
        out += gen_pair(rng, tier)
    return out


def search(rng, tier, disagreeing):
    out = []
    for _ in range(800):
        out += gen_pair(rng, "thorough")
    return out


def snapshots(obs):
    out = []
    for t in obs.split(" "):
        if t.startswith("s{"):
            inner = t[2:t.index("}")]
            d = {}
            for e in [x for x in inner.split(",") if x]:
                k, v = e.split("=")
                d[k] = v
            out.append(d)
    return out


def foreign_of(body):
    return [t.split(":")[1] for t in body.split(" ; ", 1)[1].split(" ") if t.startswith("XC:") or t.startswith("XM:") or t.startswith("XL:")]


def strip_snap(tok, foreign):
    if not tok.startswith("s{"):
        return tok
    inner = tok[2:tok.index("}")]
    kept = [e for e in inner.split(",") if e and e.split("=")[0] not in foreign]
    return "s{" + ",".join(kept) + "}" + tok[tok.index("}") + 1:]


def oracle_all(cases, model, impl):
    out = {}
    for i in range(0, len(cases) - 1, 2):
        (ida, ba), (idb, bb) = cases[i], cases[i + 1]
        if not ba.split(" ; ", 1)[1].startswith(("XC:", "XM:", "XL:")):
            out[ida] = out[idb] = "skip not-a-pair"
            continue
        ia, ib = impl.get(ida, ""), impl.get(idb, "")
        foreign = foreign_of(ba)
        sa = snapshots(ia)
        v = "pass"
        if "r2" in ia.split(" ") or "l2[]" in ia.split(" "):
            v = "fail panic-with-foreign-files-present"
        elif not sa:
            v = "fail observation-shape"
        else:
            first, last = sa[0], sa[-1]
            for f in foreign:
                if f not in last:
                    v = "fail foreign-file-removed-or-renamed " + f
                    break
                if last[f] != first.get(f):
                    v = "fail foreign-file-modified " + f
                    break
            if v == "pass":
                npre = len(foreign)
                ta = [strip_snap(t, foreign) for t in ia.split(" ")[npre:]]
                tb = ib.split(" ")
                if ta != tb:
                    k = next((j for j in range(min(len(ta), len(tb))) if ta[j] != tb[j]), -1)
                    v = "fail foreign-files-change-the-logger's-behaviour at op %d: with=%s without=%s" % (k, ta[k][:200] if k >= 0 else "?", tb[k][:200] if k >= 0 else "?")
        out[ida] = v
        out[idb] = "pass"
    if len(cases) % 2:
        out[cases[-1][0]] = "skip unpaired"
    return out


def classify(body, impl, verdict):
    return None


def nontrivial(body, obs, ghost):
    ops = body.split(" ; ", 1)[1]
    return ops.startswith(("XC:", "XM:", "XL:")) and (" Q:" in ops or " T" in ops or "+" in ghost)


def features(body, obs, ghost):
    toks = body.split(" ; ", 1)[1].split(" ")
    b = next(t for t in toks if t.startswith("B:"))[2:].split(",")
    return ["naming=" + b[7], "cleanup=" + b[8], "foreign=%d" % sum(t.startswith(("XC:", "XM:", "XL:")) for t in toks), "queries=%d" % min(4, sum(t.startswith("Q:") for t in toks))]
