"""C10 - logging operations never panic or hang, whatever the input or directory content."""
import gen_flw as g
import gen_lg as gl

CLAIM = ("Proved in Coq for the model's file writer: in every history covered by the stream theorems (Numbers with or without "
         'cleanup, NumbersDirect, Timestamps, TimestampsDirect) every operation returns normally - no panic, no error (C10_numbers_no_panic, '
         'C10_numbersdirect_no_panic, C10_timestamps_no_panic, C10_timestampsdirect_no_panic, C10_numbers_cleanup_no_panic, C10_numbersdirect_cleanup_no_panic). Proved in Coq for the model, where '
         'every Rust operation that can panic (string slicing at byte offsets, unwrap, parse) is an explicit Panic/None outcome: '
         'log() and enabled() never panic for any target, specification, writer set and record (C10_dispatch_total); parse is a '
         "total function (C17); the directory listing cannot panic for any set of file names (C10_listing_total). The model's "
         'remaining Panic outcomes (a poisoned state mutex after a panic inside a write) are not reached by any explored case since the repairs of section 9. Tied to the code by the '
         'correspondence check with fuzz-shaped inputs under catch_unwind and a per-case watchdog: brace targets of every shape '
         'incl. multi-byte characters next to the braces, arbitrary specification strings, FileSpec part combinations (empty '
         'basename, no suffix, multi-byte names, dots), custom time-stamp formats of any length with append on/off, directories '
         "pre-populated with names that share a prefix with the logger's files. The oracle applied to the implementation: no "
         'operation panics, and the writer keeps working afterwards. Partial: panics inside dependencies and real-thread hangs '
         'are outside the model (watchdog observation only). ')
THEOREMS = ["C10_numbers_no_panic", "C10_numbersdirect_no_panic", "C10_timestamps_no_panic", "C10_timestampsdirect_no_panic", "C10_numbers_cleanup_no_panic", "C10_numbersdirect_cleanup_no_panic", "C10_dispatch_total", "C10_listing_total"]
TRUSTED = ["modelled, not verified: which std/chrono calls can panic (slicing, unwrap) - tied by the correspondence; chrono formatting with "
           "an invalid custom strftime item and serde/regex internals are outside the model"]
ASSUMPTIONS = ["custom time-stamp formats are built from literals and %Y %m %d %H %M %S", "recursive logging is exercised by the C20 check (child processes)"]
RULE = ("three streams: (1) lg cases with malformed brace targets, multi-byte characters, empty strings, malformed specification "
        "strings in reconfigurations; (2) spec cases with Unicode soup; (3) flw cases with unusual FileSpec parts, custom formats of "
        "length 1-30, append on/off, and 1-5 pre-existing files whose names share a prefix with the family (near misses, multi-byte, "
        "short names, restart fragments, names of other naming schemes); non-trivial = the case contains a malformed target / a "
        "pre-populated directory / a malformed string; distinct = distinct case text")

FORMATS = [b"r%Y", b"r%Y%m%d", b"r%Y-%m-%d_%H-%M-%S", b"r%Y%m%d%H%M%S", b"r%H%M%S", b"r%Y-%m-%d_%H-%M-%S-and-a-long-literal-tail", b"r%d"]


def clutter(rng, cfg):
    fixed = cfg.fixed()
    sfx = (b"." + cfg.sfx) if cfg.sfx else b""
    pool = [fixed + b"_r00001" + sfx, fixed + b"_r2024-02-29_23-59-58" + sfx, fixed + b"_r1" + sfx, fixed + b"_r" + sfx,
            fixed + "é".encode() + sfx, fixed + b"_" + "é".encode() + sfx, fixed + b"_r2024" + sfx, fixed + b"_rCURRENT" + sfx,
            fixed + b"_r00001" + sfx + b".gz", fixed + b"_r2024-02-29_23-59-58.restart-0000" + sfx, fixed + b"_r2024-02-29_23-59-58.restart-xy" + sfx,
            fixed + b"_r2024-02-29_23-59-58.restart-00" + sfx, fixed + sfx, fixed + b"_r99999" + sfx, fixed + b"_r100000" + sfx,
            fixed + b"_r+3" + sfx, fixed + b"_r20240229-235958" + sfx, fixed + b"_r2024-13-45_99-99-99" + sfx, fixed + b"x" + sfx]
    # restart siblings of the very infix the logger is about to use, with counters of any length
    import datetime
    t = datetime.datetime.utcfromtimestamp(g.T0)
    nm = cfg.naming.split(".")
    infix = t.strftime(bytes.fromhex(nm[2]).decode()).encode() if nm[0] == "cu" else b"r2024-02-29_23-59-58"
    for cnt in (b"0000", b"9999", b"00000000000000000000001", b"99999999999999999999999", b"18446744073709551615", b"0007x"):
        pool.append(fixed + b"_" + infix + b".restart-" + cnt + sfx)
    pool.append(fixed + b"_" + infix + b".restart-123456789012345678901" + sfx + b".gz")
    # names that pass the number filter (r + digit ..) and carry a multi-byte character around byte 20 of the infix, where
    # the time-stamp namings cut the infix
    for k in (17, 18, 19, 20):
        pool.append(fixed + b"_r2" + b"0" * (k - 2) + "ü€".encode() + b"z" + sfx)
    pool.append(fixed + b"_r2023-11-05_kopie_f" + "ür_jo".encode() + sfx)
    # a file named exactly like the fixed name part (and its archive): with a basename that ends like the suffix ("srv.log" +
    # suffix "log") its stem is SHORTER than the fixed name part
    pool += [fixed, fixed + b".gz"]
    # indices at the end of u32 (the code's index type): the next index does not exist (fixed defect, section 9), and one that
    # does not fit into u32 at all
    pool += [fixed + b"_r4294967295" + sfx, fixed + b"_r4294967294" + sfx, fixed + b"_r4294967296" + sfx, fixed + b"_r4294967295" + sfx + b".gz"]
    # what only chrono's lenient parser reads as a time stamp
    pool += [fixed + b"_r2024-1-5_3-4-5" + sfx, fixed + b"_r+2024-01-05_03-04-05" + sfx, fixed + b"_r 2024-01-05_03-04-05" + sfx]
    pool = [n for n in pool if n]      # (an empty name is no file name)
    return rng.sample(pool, rng.randint(1, min(5, len(pool))))


def gen_flw(rng, tier):
    r = rng.random()
    if r < 0.4:
        naming = g.custom_naming(rng.choice([None, None, b"rNOW", b"rC"]), rng.choice(FORMATS))
    else:
        naming = rng.choice(g.NAMINGS)
    base = rng.choice([b"a", b"app", b"", "é".encode(), b"my.prog", b"a b", b"srv.log", b"x.trc"])
    disc = rng.choice([None, None, b"d", b"", "ü".encode()])
    cfg = g.Cfg(base=base, disc=disc, sfx=rng.choice([b"log", b"log", None, b"trc", "lög".encode()]),
                crit=rng.choice(["s0", "s8", "as", "xm8", None]), naming=naming,
                cleanup=rng.choice(["n", "n", "l1", "g1", "b1.1"]), append=rng.random() < 0.5, cap=rng.choice([None, None, 16]))
    if cfg.crit is None:
        cfg.cleanup = "n"
        if not cfg.fixed() and cfg.sfx is None:
            cfg.base = b"a"      # without rotation the file name must not be empty
    ops = []
    for nm in clutter(rng, cfg):
        ops.append("XC:%s:%d:%s" % (g.hx(nm), 1 if nm.endswith(b".gz") else 0, g.hx(b"x\n")))
    ops.append("B:" + cfg.token())
    n = 0
    for _ in range(rng.randint(1, 7)):
        k = rng.random()
        if k < 0.55:
            ops.append("W:" + g.hx(b"%c%d__\n" % (65 + n % 26, n)))
            n += 1
        elif k < 0.7:
            ops.append("T")
        elif k < 0.8:
            ops.append("Q:%s:~" % rng.choice(["111", "100", "010"]))
        elif k < 0.9:
            ops.append("K:%d" % rng.choice([1, 60]))
        else:
            ops.append("F")
    ops += ["S", "SN"]
    return "flw %d 0 ; %s" % (g.T0, " ".join(ops))


def corpus():
    h = gl.hx
    out = ["lg %s %s 0 0 0 %s ; L:1:%s:~:%s E:1:%s L:1:%s:~:%s E:1:%s L:1:%s:~:%s L:1:%s:~:%s" % (
        h("info"), h("A") + ":c:5", h("a"), h("{"), h("m"), h("{"), h("{é"), h("m"), h("{é"), h("{}"), h("m"), h(""), h("m"))]
    c = g.Cfg(crit="s8", naming="tsd", append=True)
    out.append("flw %d 0 ; XC:%s:0:%s B:%s W:%s S SN" % (g.T0, g.hx(c.name(b"r00001")), g.hx(b"x\n"), c.token(), g.hx(b"A0\n")))
    # fixed defect (f4bce48): the clock set back under TimestampsDirect naming with a cleanup strategy - the file opened by the next
    # rotation sorts behind its predecessors and the cleanup removed / compressed the file being written; now it is skipped
    for cl in ("l1", "g1", "b1.1"):
        c = g.Cfg(base=b"a", crit="s5", naming="tsd", cleanup=cl)
        out.append("flw %d 0 ; B:%s W:%s K:5 W:%s F SN K:-3600 W:%s F SN W:%s F SN W:%s S SN" % (
            g.T0, c.token(), g.hx(b"A0aaaa\n"), g.hx(b"B1bbbb\n"), g.hx(b"C2cccc\n"), g.hx(b"D3\n"), g.hx(b"E4eeee\n")))
    # a basename that ends like the suffix, and files named exactly like the fixed name part / its archive: their stems are
    # shorter than the fixed name part (whoever slices the stem at the length of the fixed part panics)
    for naming in g.NAMINGS[:4]:
        for cl in ("n", "g1"):
            c = g.Cfg(base=b"srv.log", sfx=b"log", crit="s8", naming=naming, cleanup=cl, append=naming == "tsd")
            out.append("flw %d 0 ; XC:%s:0:%s XC:%s:1:%s B:%s W:%s W:%s Q:111:~ T W:%s S SN" % (
                g.T0, g.hx(b"srv.log"), g.hx(b"x\n"), g.hx(b"srv.log.gz"), g.hx(b"y\n"), c.token(), g.hx(b"A0aaaaaaaa\n"), g.hx(b"B1\n"), g.hx(b"C2\n")))
    # fixed defect: an index at the end of u32 in the directory - `idx + 1` panicked (overflow checks on) with the state mutex
    # held, so every later call panicked too, or wrapped to 0 (overflow checks off) and the next rotation overwrote `_r00000`;
    # now the rotation / the start fails with an error that is reported, and nothing panics
    for naming in ("num", "numd"):
        for app in (True, False):
            for top in (b"r4294967295", b"r4294967294"):
                c = g.Cfg(base=b"a", crit="s8", naming=naming, append=app)
                out.append("flw %d 0 ; XC:%s:0:%s XC:%s:0:%s B:%s W:%s W:%s W:%s F SN W:%s S SN" % (
                    g.T0, g.hx(c.name(top)), g.hx(b"old-max\n"), g.hx(c.name(b"r00000")), g.hx(b"old-zero\n"), c.token(),
                    g.hx(b"A0aaaaaaaa\n"), g.hx(b"B1bbbbbbbbb\n"), g.hx(b"C2ccccccccc\n"), g.hx(b"D3\n")))
    return out


def u32_edge(body):
    """the history starts in a directory that holds an index at the end of u32 under a number naming: outside the model, whose
    indices are unbounded (DESIGN section 8) - such cases are decided by the oracle alone"""
    toks = body.split(" ")
    b = [t for t in toks if t.startswith("B:")]
    if not body.startswith("flw") or not b or b[0].split(",")[7] not in ("num", "numd"):
        return False
    return any(t.startswith("XC:") and (g.hx(b"r4294967295") in t or g.hx(b"r4294967294") in t) for t in toks)


def compare(body, m, im):
    return True if u32_edge(body) else m == im


def generate(rng, tier):
    n = 900 if tier == "quick" else 40000
    out = []
    for _ in range(n):
        r = rng.random()
        if r < 0.3:
            out.append(gl.gen_lg_case(rng, focus=rng.choice(["route", "handle"]), malformed=0.5, unique_names=False))
        elif r < 0.45:
            out.append(gl.gen_spec_case(rng))
        else:
            out.append(gen_flw(rng, tier))
    return out


def search(rng, tier, disagreeing):
    return generate(rng, "quick")


def oracle(body, model, impl):
    toks = impl.split(" ")
    if impl.startswith("HARNESS-ERROR"):
        return "fail harness-error " + impl[:100]
    if "PANIC" in toks or "r2" in toks or "l2[]" in toks or "HANG" in toks:
        return "fail an-operation-panicked"
    return "pass"


def classify(body, impl, verdict):
    return None


def nontrivial(body, obs, ghost):
    return body.startswith("flw") and "XC:" in body or "7b" in body or body.startswith("spec")


def features(body, obs, ghost):
    return ["kind=" + body.split(" ")[0], "panic_in_model=%d" % ("r2" in obs.split(" ") or "PANIC" in obs)]
