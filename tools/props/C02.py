"""C02 - a record is written iff the active specification (and text filter) enables it; gate; enabled()."""
import gen_lg as g

CLAIM = ("Proved in Coq for the model (LogSpec/): for every filter list with pairwise distinct non-empty names and at most one default, "
         "every level and target, the first-match loop over the length-sorted list returns exactly the level test of the unique best "
         "(longest-prefix) filter, the default, or off (C02_longest_prefix, C02_best_unique); a record addressed to the default channel "
         "reaches the primary writer / line filter iff the specification enables it and the text filter matches (C02_route); in every "
         "state reachable through the handle operations the global gate is the maximum of the specification's and the writers' levels, "
         "so no delivery is hidden by it (C02_gate); whenever a record is delivered anywhere, the enabled() query answers true "
         "(C02_enabled_query). The model is tied to the code by the correspondence check over generated loggers, records and queries.")
THEOREMS = ["C02_longest_prefix", "C02_best_unique", "C02_route", "C02_gate", "C02_enabled_query"]
TRUSTED = ["modelled, not verified: Vec::sort_by is a stable sort; str::starts_with; the regex crate (instantiated by literal patterns: "
           "a pattern without meta characters compiles and matches the texts containing it); log::set_max_level / max_level"]
ASSUMPTIONS = ["text filters are literal patterns in the correspondence runs", "single thread (concurrent changes are C12)"]
RULE = ("one built logger per case (specification string from a grammar rich in prefix-related names and level words as names, recording "
        "primary writer, 0-3 additional writers with ceilings, optional line filter) and 3-10 records / enabled() queries / gate and grid "
        "observations; non-trivial = the specification has at least two filters and at least one record is both enabled and one disabled "
        "in the run, or a brace target is used; distinct = distinct case text")


def corpus():
    h = g.hx
    return [
        # longest prefix wins, names equal to level words, empty target, unrelated target
        "lg %s - 0 0 0 %s ; %s G GR" % (h("warn, a = debug, a::b = off, info = trace"), ",".join(h(t) for t in ["a", "a::b", "a::bc", "info", ""]),
                                      " ".join("L:%d:%s:~:%s" % (l, h(t), h("m")) for l in (1, 3, 4, 5) for t in ("a", "a::b::c", "ab", "zzz", "infos"))),
        # text filter
        "lg %s - 0 0 1 %s ; L:3:%s:~:%s L:3:%s:~:%s G" % (h("info/needle"), h("a"), h("a"), h("needle in haystack"), h("a"), h("hay")),
        # additional writer raises the gate; enabled() for a record that only the writer takes
        "lg %s %s 0 0 0 %s ; G E:4:%s L:4:%s:~:%s E:5:%s L:5:%s:~:%s" % (h("error"), h("A") + ":c:4", h("a"), h("{A}"), h("{A}"), h("m"), h("{A}"), h("{A}"), h("m")),
    ]


def generate(rng, tier):
    n = 1200 if tier == "quick" else 40000
    # a quarter of the cases change the specification at run time (also only its text filter): the record must be
    # written iff the specification that is active THEN enables it
    return [g.gen_lg_case(rng, focus=rng.choice(["spec", "spec", "route", "handle"]), malformed=0.0) for _ in range(n)]


def search(rng, tier, disagreeing):
    return [g.gen_lg_case(rng, focus="spec", malformed=0.0) for _ in range(3000)]


def delivered(tok):
    if tok == "PANIC":
        return False
    return "+" in tok or "p1" in tok


def oracle(body, model, impl):
    pm, pi = g.pair_ops(body, model), g.pair_ops(body, impl)
    if pm is None or pi is None:
        return "fail observation-shape" if pm is not None else "skip model-shape"
    last_e = None
    for (op, m), (_, i) in zip(pm, pi):
        k = op.split(":")[0]
        if k == "L":
            if not g.is_brace(op) and m != i:
                return "fail default-channel-delivery %s model=%s impl=%s" % (op, m, i)
            if last_e is not None and last_e[0] == op.split(":")[1:3] and delivered(i) and last_e[1].startswith("e0"):
                return "fail enabled-query-false-for-delivered-record %s" % op
        if k == "E":
            last_e = (op.split(":")[1:3], i)
            if not g.is_brace(op) and m != i:
                return "fail enabled-query %s model=%s impl=%s" % (op, m, i)
        else:
            last_e = None if k != "L" else last_e
        if k == "G" and int(i[1:]) < int(m[1:]):
            return "fail gate-below-needed model=%s impl=%s" % (m, i)
        if k == "GR" and m != i:
            return "fail enabled-grid model=%s impl=%s" % (m, i)
    return "pass"


def nontrivial(body, obs, ghost):
    return ("p1" in obs and ("p0" in obs or "7b" in body)) and body.split(" ")[1].count("2c") >= 1


def features(body, obs, ghost):
    toks = body.split(" ")
    return ["filters=%d" % min(5, toks[1].count("2c") + 1), "writers=%d" % (0 if toks[2] == "-" else toks[2].count(",") + 1),
            "textfilter=%d" % ("2f" in toks[1]), "linefilter=" + toks[5]]
