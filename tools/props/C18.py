"""C18 - reopen_output and reset_flw switch files without losing or reordering records."""
import gen_flw as g

CLAIM = ('Proved in Coq for the model, configurations without rotation, any buffer capacity, EVERY history of writes and '
         'flushes: after an external rename (or removal) of the log file and reopen_output, the renamed file holds exactly what '
         'was logged before - including what was still buffered -, the file at the original path exactly what was logged '
         'afterwards, nothing else exists (C18_reopen_switches); after a reset to another log file the old file holds the '
         'records before, the new one those after (C18_reset_switches); for any alternation of such switches to fresh names the '
         'files tile the logged stream in switch order (C18_switches_tile). For custom formats with rotation, resets under '
         'Timestamps naming, resets between rotation settings and returns to an earlier file the property is decided per '
         "explored history by executable oracles defined in Coq applied to the implementation's directory after shutdown (the "
         'plain files tile the logged bytes - C18_tiles_sound -, or merge to them in order when a file was revisited; what was '
         'logged since the last switch is at the end of the newly specified file or family) together with the correspondence '
         'check (model = implementation after every step): partial. WITH ROTATION (proved, Numbers naming, any criterion and '
         'buffer capacity, every history before and after the switch): after an external rename of rCURRENT to a name outside '
         'the family and reopen_output the call succeeds, the renamed file holds exactly what was written since the last '
         'rotation incl. the buffered tail - on disk as soon as reopen returns -, the closed files are untouched, the later '
         'files continue the numbering, and all files together are exactly the written stream (C18_reopen_numbers, '
         'C18_reopen_numbers_at_once); with the file still in place it is continued, not truncated, and with a size criterion '
         'the files are those of the history without the reopen (C18_reopen_numbers_in_place); reset_flw to another Numbers '
         'family in the same write mode leaves everything logged before in the old family (buffered tail flushed) and everything '
         'after in the new one, which starts as from a fresh directory (C18_reset_numbers, C18_foreign_family_prefix: basenames '
         'that are no prefixes of each other suffice). Observations from these proofs, outside the property: the size count '
         'survives a reopen, so after a logrotate-style rename the new, empty rCURRENT may be rotated early '
         '(C18_reopen_numbers_partition states the exact partition); a rename of rCURRENT BY HAND onto the next numbered name of '
         'the family followed by reopen lets the next rotation overwrite that file (fresh_name is a necessary hypothesis - '
         'ReopenRot.ex_reopen_family_name_loses_records). The same theorems are proved for the DIRECT namings: NumbersDirect '
         '(C18_reopen_numbersdirect, _partition, _at_once, _in_place, C18_reset_numbersdirect: the new file sits at the original '
         'path - the same number -, the next rotation opens the next number, nothing is skipped or overwritten) and '
         'TimestampsDirect (C18_reopen_timestampsdirect, _in_place, C18_reset_timestampsdirect: same time stamp and restart '
         'counter at the original path, a later rotation in that second takes the next restart counter; any use_utc '
         'combination). The rename target must lie outside the family (shown necessary: a rename by hand onto the next number is '
         'truncated by the next rotation under NumbersDirect without append - ReopenRotD.exd_reopen_family_name_loses_records; '
         'under TimestampsDirect a family name is never overwritten, the records are only misplaced). Timestamps naming with '
         'rCURRENT: C18_reopen_timestamps, C18_reopen_timestamps_in_place (the renamed file holds the current part incl. the '
         'buffered tail, closed files untouched, no name used twice, reader order = writing order; observed: the naming state '
         "survives the reopen, so the rCURRENT created by the reopen is later closed under the time stamp of the MOVED file's "
         'start - a name that claims a start before the file existed). ')
THEOREMS = ["C18_reopen_switches", "C18_reset_switches", "C18_switches_tile", "C18_reset_other_write_mode_rejected", "C18_reset_rejected_keeps_file", "C18_tiles_sound", "C18_reopen_numbers", "C18_reopen_numbers_partition", "C18_reopen_numbers_at_once", "C18_reopen_numbers_in_place", "C18_reset_numbers", "C18_foreign_family_prefix", "C18_reopen_numbersdirect", "C18_reopen_numbersdirect_partition", "C18_reopen_numbersdirect_at_once", "C18_reopen_numbersdirect_in_place", "C18_reset_numbersdirect", "C18_reopen_timestampsdirect", "C18_reopen_timestampsdirect_in_place", "C18_reset_timestampsdirect", "C18_reopen_timestamps", "C18_reopen_timestamps_in_place"]
TRUSTED = ["modelled, not verified: Unix semantics of rename/unlink with an open file (inode model), BufWriter flush-on-drop"]
ASSUMPTIONS = ["synchronous write modes; a reset onto the same path without append truncates (documented) and is not generated - with append it is",
               "records carry distinct payloads, so a tiling is unambiguous"]
RULE = ("histories mixing writes, flushes, external rename/remove of the current file, reopen_output, reset_flw to another basename / "
        "discriminant / rotation setting, triggers; Direct and BufferDontFlush; with and without rotation; non-trivial = at least one "
        "reopen or reset with writes before and after it; distinct = distinct case text")


VIA_LOGGER = 0.5   # share of the file-writer histories that is run once more through Logger / LoggerHandle


def gen(rng, tier):
    rot = rng.random() < 0.5
    naming = rng.choice(["num", "num", "ts"])
    cap = rng.choice([None, None, 8, 64])
    cfg = g.Cfg(base=b"a", crit=("s%d" % rng.choice([6, 12, 40])) if rot else None, naming=naming, cap=cap, append=rng.random() < 0.5,
                # (a compressing cleanup with limits beyond what a history produces: nothing is deleted, the archives are read too)
                cleanup=rng.choice(["n", "n", "n", "g30", "b1.30"]) if rot else "n")
    cur = cfg.name(b"rCURRENT") if rot else cfg.name(b"")
    ops = ["B:" + cfg.token()]
    n = 0
    moved = 0
    used = {cur}       # the paths written to so far: a reset onto one of them without append truncates it (documented)
    for _ in range(rng.randint(2, 10 if tier == "quick" else 16)):
        r = rng.random()
        if r < 0.5:
            ops.append("W:" + g.hx(b"%c%d" % (65 + n % 26, n) + cfg.ending()))      # (the line ending of the configuration in force)
            n += 1
        elif r < 0.54:
            ops.append("F")
        elif r < 0.58:
            ops.append("R")      # reopen_output while the file is still in place (a second SIGHUP): nothing may be lost
        elif r < 0.72:
            # logrotate style: somebody moves (or removes) the current file, then reopen_output
            if rng.random() < 0.8:
                ops.append("XR:%s:%s" % (g.hx(cur), g.hx(b"moved%d.txt" % moved)))
                moved += 1
            else:
                if rng.random() < 0.5:
                    ops.append("F")
                ops.append("XD:%s" % g.hx(cur)) if False else ops.append("XR:%s:%s" % (g.hx(cur), g.hx(b"gone%d.txt" % moved)))
                moved += 1
            if rng.random() < 0.85:
                ops.append("R")
        elif r < 0.86:
            rot2 = rng.random() < 0.5
            if rng.random() < 0.1:
                # a reset that asks for another write mode is rejected and changes nothing: logging goes on where it was
                other = rng.choice([c for c in (None, 8, 64, 100) if c != cap])
                rej = g.Cfg(base=b"rej%d" % moved, crit=None, cap=other)
                ops.append("X:" + rej.token())
                continue
            if rng.random() < 0.35:
                # the same file specification with other rotation settings: another path (no rotation <-> rotation), or the
                # same current file under another criterion / naming (then with append: without it the reset truncates, as documented)
                old_rot = cfg.crit is not None
                rot2 = (not old_rot) if rng.random() < 0.6 else old_rot
                new_crit = ("s%d" % rng.choice([c for c in (6, 12, 40, 90) if "s%d" % c != cfg.crit])) if rot2 else None
                cfg = g.Cfg(base=cfg.base, disc=cfg.disc, crit=new_crit, naming=rng.choice(["num", "ts"]), cap=cap,
                            append=rng.random() < 0.5, cleanup=cfg.cleanup if rot2 else "n")
                # (a writer WITH rotation that finds rCURRENT and does not append closes it under the next name - nothing is
                #  truncated; only a writer without rotation opens its one file with truncation)
                if not rot2 and cfg.name(b"") in used:
                    cfg.append = True
            else:
                # (the new builder may also say another line ending: it is in force for the records after the reset)
                cfg = g.Cfg(base=rng.choice([b"b", b"c", b"a2"]) + b"%d" % moved, disc=rng.choice([None, b"x"]), crlf=rng.random() < 0.3,
                            crit=("s%d" % rng.choice([6, 40])) if rot2 else None, naming=rng.choice(["num", "ts"]), cap=cap,
                            append=rng.random() < 0.5)
            moved += 1
            cur = cfg.name(b"rCURRENT") if rot2 else cfg.name(b"")
            used.add(cur)
            ops.append("X:" + cfg.token())
        elif r < 0.93 and cfg.crit:
            ops.append("T")
        else:
            ops.append("K:1")
    ops += ["S", "SN"]
    return "flw %d 0 ; %s" % (g.T0, " ".join(ops))


def corpus():
    c = g.Cfg(base=b"a", crit=None, cap=16)
    c2 = g.Cfg(base=b"b", crit="s6", naming="num", cap=16)
    out = ["flw %d 0 ; B:%s W:%s W:%s XR:%s:%s R W:%s F X:%s W:%s W:%s W:%s S SN" % (
        g.T0, c.token(), g.hx(b"A0\n"), g.hx(b"B1\n"), g.hx(c.name(b"")), g.hx(b"moved.txt"), g.hx(b"C2\n"),
        c2.token(), g.hx(b"D3dddd\n"), g.hx(b"E4\n"), g.hx(b"F5\n"))]
    # reset_flw to the SAME rotating family without append while records are still buffered, with a compressing cleanup: the
    # new writer closes rCURRENT and the cleanup archives it - the buffered tail must be in that file before
    for naming in ("num", "ts"):
        for cl in ("g30", "b0.30"):
            a = g.Cfg(base=b"a", crit="s40", naming=naming, cap=64, cleanup=cl)
            b = g.Cfg(base=b"a", crit="s12", naming=naming, cap=64, cleanup=cl)
            out.append("flw %d 0 ; B:%s W:%s W:%s W:%s X:%s W:%s W:%s S SN" % (
                g.T0, a.token(), g.hx(b"A0\n"), g.hx(b"B1\n"), g.hx(b"C2\n"), b.token(), g.hx(b"D3\n"), g.hx(b"E4\n")))
    return out


def directed_direct_naming(rng, n):
    """direct namings (no rCURRENT): the file being written changes its name with every rotation, so the generator asks the
    model which file is current (the symlink target in the model's snapshot), lets somebody rename exactly that file, and
    reopens: the records after the reopen belong into a new file at that path, not into an older member of the family"""
    import os, subprocess, tempfile
    import lib
    lib.ocaml_build()
    pre = []
    for i in range(n):
        naming = rng.choice(["numd", "tsd"])
        cap = rng.choice([None, None, 8, 64])
        cfg = g.Cfg(base=b"a", crit="s%d" % rng.choice([6, 12]), naming=naming, cap=cap, link=True)
        ops = ["B:" + cfg.token()]
        k = 0
        for _ in range(rng.randint(2, 6)):
            r = rng.random()
            if r < 0.7:
                ops.append("W:" + g.hx(b"%c%d\n" % (65 + k % 26, k)))
                k += 1
            elif r < 0.85:
                ops.append("T")
            else:
                ops.append("K:1")
        pre.append((cfg, ops, k))
    with tempfile.TemporaryDirectory(dir="/dev/shm") as d:
        f = os.path.join(d, "pre.cases")
        with open(f, "w") as fh:
            for i, (cfg, ops, k) in enumerate(pre):
                fh.write("p%d flw %d 0 ; %s F SN\n" % (i, g.T0, " ".join(ops)))
        out = subprocess.run([lib.DRIVER, f], stdout=subprocess.PIPE).stdout.decode()
    cur = {}
    for line in out.split("\n"):
        if line.startswith("p") and "link=" in line:
            t = line.split(" ")
            snap = [x for x in t if x.startswith("s{")][-1]
            cur[int(t[0][1:])] = snap.split("link=")[1].split(";")[0]
    cases = []
    for i, (cfg, ops, k) in enumerate(pre):
        if cur.get(i, "~") in ("~", ""):
            continue
        tail = ["XR:%s:%s" % (cur[i], g.hx(b"moved.txt")), "R"]
        for _ in range(rng.randint(1, 3)):
            tail.append("W:" + g.hx(b"%c%d\n" % (65 + k % 26, k)))
            k += 1
        cases.append("flw %d 0 ; %s F SN %s S SN" % (g.T0, " ".join(ops), " ".join(tail)))
    return cases


def generate(rng, tier):
    n = 600 if tier == "quick" else 30000
    return [gen(rng, tier) for _ in range(n)] + directed_direct_naming(rng, 60 if tier == "quick" else 1500)


def search(rng, tier, disagreeing):
    return [gen(rng, "thorough") for _ in range(1500)]


def nontrivial(body, obs, ghost):
    ops = body.split(" ; ", 1)[1].split(" ")
    for i, o in enumerate(ops):
        if o == "R" or o.startswith("X:"):
            if any(x.startswith("W:") for x in ops[:i]) and any(x.startswith("W:") for x in ops[i:]):
                return True
    return False


def features(body, obs, ghost):
    ops = body.split(" ; ", 1)[1].split(" ")
    b = next(t for t in ops if t.startswith("B:"))[2:].split(",")
    return ["mode=" + ("direct" if b[5] == "~" else "buffered"), "rotation=%d" % (b[6] != "~"), "reopens=%d" % min(3, ops.count("R")),
            "resets=%d" % min(3, sum(o.startswith("X:") for o in ops)), "renames=%d" % min(3, sum(o.startswith("XR:") for o in ops))]
