"""C19 - I/O failures are reported, lose only the failing write, and logging recovers."""
import gen_flw as g

CLAIM = ('Decided per explored history and fault sequence: the implementation runs with injected failures of its file-system '
         'calls (open, rename, remove, read_dir, metadata, gzip create/open/copy/finish, write - one oracle bit per call) and '
         'must (1) return normally from every operation, (2) leave a stream that consists of records only, in logging order, '
         'containing every record that was written while no failure was pending (before the first and after the last injected '
         'failure), and (3) report on the error channel whenever a record is missing; this oracle is applied to the '
         "implementation's final directory. The model (Flw/Model.v) consumes the same fault oracle call by call, and the "
         'correspondence check compares results, error codes and directories after every step. Proved in Coq: with an exhausted '
         'fault oracle a model primitive behaves as its fault-free version (C19_no_fault_no_failure) and a failed write leaves '
         'the file untouched (C19_failed_write_no_effect). The history-level theorem is proved for a writer without rotation in '
         'direct mode (C19_faults_norotation: for every fault sequence and record list the file holds exactly the records whose '
         'open and write succeeded, every loss is reported, C19_lost_only_failed, C19_recovery) and for a ROTATING writer '
         '(Numbers naming, size criterion, direct mode) for EVERY fault oracle and record list: directory, error channel (exact '
         'codes) and remaining oracle are what the executable specification simr computes and every call returns normally '
         '(C19_rot_faults_rotation); a record whose own log call met no failure is in the stream, a missing record met one and '
         'reported EWrite; the stream is an in-order subsequence of the records; missing records = number of EWrite reports <= '
         'number of reports (C19_rot_lost_only_around_failures, C19_rot_loss_is_reported); once the oracle holds no more '
         'failures nothing is reported, every further record is written and rotation follows the fault-free size rule again '
         '(C19_rot_recovery_spec, C19_rot_recovery_run). The analysis behind simr (what a failing rename / create / listing / '
         'write does) is in Flw/FaultRotSpec.v. With the age criteria, and cleanup under other namings than Numbers, it is not '
         'proved: partial. BUFFERED modes (proved, without rotation and with rotation under Numbers naming): for every fault '
         'oracle and history of writes, flushes, shutdown and drop, file, buffer, error channel (exact codes), remaining oracle '
         'and result codes are what the executable specification computes (C19_buf_faults_buffered, C19_buf_rot_faults); the '
         'file is an in-order subsequence of the records, what was written out stays, every operation that loses something '
         'reports and met a failing call, a failing flush inside a log call loses the incoming record and keeps the buffered '
         'ones (C19_buf_loss_bounded, C19_buf_accepted, C19_buf_rot_loss_bounded); after the last failure everything is written '
         "and nothing more is reported (C19_buf_recovery, C19_buf_rot_recovery). The direct-mode statement 'missing records = "
         "reported errors' is false for buffered modes - a failing final flush loses the whole buffer for two reports "
         "(C19_buf_more_lost_than_reported, by a counterexample evaluated in Coq) - the proved form is 'every losing operation "
         "reports'. DIRECT NAMINGS (proved, direct mode, size criterion, every fault oracle and record list): NumbersDirect - "
         'directory (with gaps), error codes and remaining oracle are what the executable specification simd computes, every '
         'call returns normally (C19_numd_faults); a record whose own call met no failure is kept, missing records = EWrite '
         'reports, ELogFile = a failed rotation open whose record was kept in the over-full old file '
         '(C19_numd_lost_only_around_failures, C19_numd_loss_is_reported); after the last failure everything is written, the '
         'numbering continues strictly upwards and no file is overwritten (C19_numd_recovery, C19_numd_recovery_ops). '
         'Observation: every failed open at a rotation skips a number for good - nothing is lost or overwritten, the numbers '
         'just have gaps (C19_numd_gap). TimestampsDirect (clock not going backwards): the same four statements (C19_tsd_faults, '
         'C19_tsd_lost_only_around_failures, C19_tsd_loss_is_reported, C19_tsd_recovery; C19_tsd_recovery_ops_partial for '
         'arbitrary further operations when no rotation is pending). Timestamps naming with rCURRENT (same statements, '
         'C19_ts_faults, C19_ts_lost_only_around_failures, C19_ts_loss_is_reported, C19_ts_recovery, C19_ts_recovery_ops): a '
         'rotation makes four fallible calls (two listings, the rename, the open); when the rename succeeds and the open fails '
         'the writer keeps the renamed file open, later records go there, no rCURRENT exists meanwhile, and the next successful '
         'open starts a new rCURRENT - no name is used twice, no file overwritten, nothing lost silently '
         '(C19_ts_half_failed_rotation). WITH A CLEANUP STRATEGY (proved, Numbers naming, direct mode, size criterion, every '
         'fault oracle and record list, all three strategies): directory, error codes and remaining oracle are what the '
         'executable specifications simk / simg compute, every call returns normally (C19_cleanup_*, C19_gz_*: faults in '
         'read_dir, remove, and the five calls of a compression); a failure inside the cleanup at a rotation never loses a '
         'record - it can only leave more files than the limit, possibly with gaps in the numbers or an archive next to its '
         'original -, at the initialisation it loses the record being written, reported with EWrite; once the oracle is '
         'exhausted the next rotation restores the limits. ')
THEOREMS = ["C19_rot_faults_rotation", "C19_rot_lost_only_around_failures", "C19_rot_loss_is_reported", "C19_rot_recovery_spec", "C19_rot_recovery_run", "C19_faults_norotation", "C19_lost_only_failed", "C19_recovery", "C19_no_fault_no_failure", "C19_failed_write_no_effect", "C19_buf_faults_buffered", "C19_buf_loss_bounded", "C19_buf_accepted", "C19_buf_recovery", "C19_buf_more_lost_than_reported", "C19_buf_rot_faults", "C19_buf_rot_loss_bounded", "C19_buf_rot_recovery", "C19_numd_faults", "C19_numd_lost_only_around_failures", "C19_numd_loss_is_reported", "C19_numd_recovery", "C19_numd_recovery_ops", "C19_numd_gap", "C19_tsd_faults", "C19_tsd_lost_only_around_failures", "C19_tsd_loss_is_reported", "C19_tsd_recovery", "C19_tsd_recovery_ops_partial", "C19_buf_step", "C19_buf_rot_step", "C19_ts_faults", "C19_ts_faults_state", "C19_ts_lost_only_around_failures", "C19_ts_loss_is_reported", "C19_ts_recovery", "C19_ts_recovery_ops", "C19_ts_half_failed_rotation", "C19_cleanup_faults", "C19_cleanup_lost_only_around_failures", "C19_cleanup_loss_is_reported", "C19_cleanup_fault_loses_no_record", "C19_cleanup_init_fault_loses_record", "C19_cleanup_limit_restored", "C19_cleanup_recovery_spec", "C19_gz_faults", "C19_gz_lost_only_around_failures", "C19_gz_loss_is_reported", "C19_gz_cleanup_fault_loses_no_record", "C19_gz_limit_restored"]
TRUSTED = ["modelled, not verified: which calls can fail and how the code reacts is tied by the correspondence; injected failures are "
           "io::ErrorKind::Other returned before the call (the call is then not made); BufWriter keeps unwritten bytes on a failed flush"]
ASSUMPTIONS = ["failures are injected at the hook points (immediately before each file-system call), never in the middle of a call"]
RULE = ("one run per case: a few records, then a fault sequence (k successes, then a burst of 1-3 failures) armed before a write / "
        "trigger / flush / restart, more records, the faults cleared, a recovery phase with records and a rotation; all namings, cleanup "
        "never / synchronous limits, Direct and BufferDontFlush; non-trivial = the model consumed at least one failure bit that changed "
        "a result or an error code; distinct = distinct case text")


def gen(rng, tier):
    naming = rng.choice(g.NAMINGS[:4] + g.NAMINGS)
    cap = rng.choice([None, None, None, 8, 64])
    cfg = g.Cfg(crit="s%d" % rng.choice([0, 6, 12]), naming=naming, cap=cap, cleanup=rng.choice(["n", "n", "n", "l1", "b1.1"]),
                append=rng.random() < 0.3, link=rng.random() < 0.2)
    ops = ["B:" + cfg.token()]
    n = 0

    def rec():
        nonlocal n
        n += 1
        return "W:" + g.hx(b"%c%d__\n" % (65 + n % 26, n))
    for _ in range(rng.randint(0, 3)):
        ops.append(rec())
        if rng.random() < 0.2:
            ops.append("T")
    zeros = rng.choice([0, 0, 1, 2, 3, 4, 5, 7])
    ones = rng.choice([1, 1, 2, 3, 6])
    ops.append("FA:" + "0" * zeros + "1" * ones)
    for _ in range(rng.randint(1, 4)):
        r = rng.random()
        ops.append(rec() if r < 0.7 else "T" if r < 0.85 else "F")
    if rng.random() < 0.3:
        ops += ["S", "B:" + cfg.token()]
    ops.append("FA:-")
    for _ in range(rng.randint(1, 4)):
        ops.append(rec())
        if rng.random() < 0.3:
            ops.append("T")
    ops += ["F", "S", "SN"]
    return "flw %d 0 ; %s" % (g.T0, " ".join(ops))


def corpus():
    c = g.Cfg(crit="s6", naming="num")
    return ["flw %d 0 ; B:%s W:%s W:%s FA:1 W:%s FA:- W:%s W:%s S SN" % (g.T0, c.token(), g.hx(b"A1__\n"), g.hx(b"B2__\n"), g.hx(b"C3__\n"), g.hx(b"D4__\n"), g.hx(b"E5__\n"))]


def generate(rng, tier):
    n = 700 if tier == "quick" else 30000
    return [gen(rng, tier) for _ in range(n)]


def search(rng, tier, disagreeing):
    return [gen(rng, "thorough") for _ in range(1500)]


def classify(body, impl, verdict):
    """no recorded finding is left for this property: every failure is reported"""
    return None


def nontrivial(body, obs, ghost):
    return "errs=" in obs and not obs.rstrip().endswith("errs=")


def features(body, obs, ghost):
    toks = body.split(" ; ", 1)[1].split(" ")
    c = next(t for t in toks if t.startswith("B:"))[2:].split(",")
    fa = next(t for t in toks if t.startswith("FA:"))
    return ["naming=" + c[7].split(".")[0], "mode=" + ("direct" if c[5] == "~" else "buffered"), "cleanup=" + c[8][0],
            "zeros=%d" % fa.count("0"), "ones=%d" % fa.count("1"), "reported=%d" % nontrivial(body, obs, ghost)]
