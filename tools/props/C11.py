"""C11 - a killed process loses no acknowledged direct-mode record and restarts cleanly."""
import gen_flw as g

CLAIM = ('Proved in Coq for the model, Numbers naming, direct mode, EVERY history and EVERY kill point (a kill aborts the '
         'process at its k-th file-system effect; a dead process has no further effect: C11_dead_no_effect, C11_kill_point, '
         'C11_alive_effect): what the killed process leaves - r00000.., and rCURRENT if it exists - is exactly the acknowledged '
         'records in order, also for kills inside a rotation or the initialisation (C11_numbers_kill_keeps_acked); a logger '
         'started on that directory with any capacity, criterion and append flag succeeds in every operation and ends with '
         'exactly acknowledged ++ its own records (C11_numbers_kill_restart; bound: first run shorter than 2^32 operations). For '
         'custom formats and for cleanup with other namings than Numbers the property is decided per explored history and kill '
         'point: the first part of each history runs in a child process in which the k-th file-system effect (write, rename, '
         'create, remove, symlink replacement, gzip create / copy / finish) aborts the process; the parent starts a new logger '
         'on the directory as it is (append on or off), logs on, and an executable oracle checks that the restart and all later '
         'operations succeed, that every acknowledged direct-mode record and every later record is in the stream in order (a '
         'tail under a cleanup limit; an archive next to its complete original is ignored), and that a configured symlink leads '
         'to the file being written; the model predicts the directory the kill leaves and everything after it (correspondence): '
         'partial. Assumption: each file-system call is atomic with respect to the kill, and a killed process loses no page- '
         'cache data. The two history-level theorems are also proved for NumbersDirect naming '
         '(C11_numbersdirect_kill_keeps_acked, C11_numbersdirect_kill_restart). WITH A CLEANUP STRATEGY (proved, Numbers naming, '
         'cleanup in the logging thread, direct mode, every history and every kill point - those inside the cleanup included: '
         'remove_file, and in compress_file create archive / copy / finish / remove original): what the killed process leaves, '
         'read by number with archives decompressed and an archive next to its original ignored (it is unfinished or holds the '
         'same content; an unfinished archive never stands alone), is a tail of the acknowledged records that contains '
         'everything a completed cleanup would have kept, nothing twice (C11_numbers_cleanup_kill_keeps_acked); a new writer '
         'with the same configuration succeeds in every operation, repairs the leftovers with its first record and leaves a tail '
         'of acknowledged ++ own records in the shape a run without kill leaves (C11_numbers_cleanup_kill_restart; side '
         'conditions: the suffix does not end in .gz, the number of files closed by the killed writer fits into u32). All kill '
         'points of small histories are also enumerated in Coq against the plain oracles (Flw/NumCleanupKillEx.v). THE TIME- '
         'STAMP NAMINGS (proved, direct mode, clock not going backwards - it keeps running while the process is dead): '
         'TimestampsDirect - what a kill at any point leaves is a view of pairwise distinct, ordered names whose files '
         'concatenate to exactly the acknowledged records, possibly with one empty newest file (kill between creating a file and '
         'the first write into it: C11_timestampsdirect_kill_keeps_acked, C11_timestampsdirect_kill_shape); a logger restarted '
         'on it after any pause - own criterion, capacity, append flag - succeeds in every operation and ends with acknowledged '
         '++ own records, no name used twice, also within the second of the kill (C11_timestampsdirect_kill_restart); Timestamps '
         'with rCURRENT likewise, including the kill between the rename and the creation of the new rCURRENT, which leaves no '
         'rCURRENT at all (C11_timestamps_kill_keeps_acked, C11_timestamps_kill_restart). NumbersDirect with a cleanup strategy: '
         'C11_numbersdirect_cleanup_kill_keeps_acked (every kill point incl. those inside the cleanup: a tail of the '
         'acknowledged records containing everything a finished cleanup would keep; the file being written is plain, never an '
         'archive, never removed); the restart after such a kill is checked by enumeration of all kill points of small histories '
         'in Coq (Flw/NumDCleanupKillEx.v), not by a general theorem. ')
THEOREMS = ["C11_numbers_kill_keeps_acked", "C11_numbers_kill_restart", "C11_dead_no_effect", "C11_kill_point", "C11_alive_effect", "C11_numbersdirect_kill_keeps_acked", "C11_numbersdirect_kill_restart", "C11_numbers_cleanup_kill_keeps_acked", "C11_numbers_cleanup_kill_restart", "C11_timestampsdirect_kill_keeps_acked", "C11_timestampsdirect_kill_shape", "C11_timestampsdirect_kill_restart", "C11_timestamps_kill_keeps_acked", "C11_timestamps_kill_restart", "C11_numbersdirect_cleanup_kill_keeps_acked"]
TRUSTED = ["assumed: atomicity of single file-system calls under SIGABRT, no loss of written data in the page cache; the kill happens at "
           "the hook point immediately before a call, never inside one"]
ASSUMPTIONS = ["the virtual clock does not advance within a crash history (file birth times are not carried over to the restarted process)"]
RULE = ("one history per case: a few records (with rotations, cleanup, compression), then a kill armed at effect k (k sweeps 0..12 in "
        "quick, every effect of the history in thorough), more operations, the crash, a restart with append on/off, more records, stop; "
        "size criterion, namings Numbers/NumbersDirect/TimestampsDirect/Timestamps, cleanup never / KeepLogFiles / KeepCompressedFiles "
        "/ both, Direct and buffered; non-trivial = the child died (some operation is unobserved); distinct = distinct case text")


def gen(rng, tier, k=None):
    naming = rng.choice(["num", "num", "numd", "tsd", "ts"])
    cleanup = rng.choice(["n", "n", "l1", "g1", "b1.1", "b0.1", "g3", "b0.3", "b1.2", "g9"])
    cap = rng.choice([None, None, None, 16])
    cfg = g.Cfg(crit="s%d" % rng.choice([0, 6, 12]), naming=naming, cleanup=cleanup, cap=cap, link=rng.random() < 0.2)
    ops = ["B:" + cfg.token()]
    n = 0

    def rec():
        nonlocal n
        n += 1
        return "W:" + g.hx(b"%c%d__\n" % (65 + n % 26, n))
    for _ in range(rng.randint(0, 4)):
        ops.append(rec())
    ops.append("KI:%d" % (k if k is not None else rng.randint(0, 12)))
    for _ in range(rng.randint(1, 5)):
        ops.append(rec() if rng.random() < 0.8 else "T")
    ops += ["CR", "SN"]
    cfg2 = g.Cfg(crit=cfg.crit, naming=naming, cleanup=cleanup, cap=cap, link=cfg.link, append=rng.random() < 0.5)
    ops.append("B:" + cfg2.token())
    for _ in range(rng.randint(1, 4)):
        ops.append(rec() if rng.random() < 0.8 else "T")
    ops += ["F", "S", "SN"]
    return "flw %d 0 ; %s" % (g.T0, " ".join(ops))


def corpus():
    c = g.Cfg(crit="s6", naming="num", cleanup="g1")
    return ["flw %d 0 ; B:%s W:%s W:%s W:%s KI:%d W:%s W:%s CR SN B:%s W:%s S SN" % (
        g.T0, c.token(), g.hx(b"A1__\n"), g.hx(b"B2__\n"), g.hx(b"C3__\n"), k, g.hx(b"D4__\n"), g.hx(b"E5__\n"), c.token(), g.hx(b"F6__\n"))
        for k in range(0, 9)] + [
        # limits wide enough that the file whose compression was interrupted is compressed again by the restarted logger
        "flw %d 0 ; B:%s W:%s W:%s W:%s KI:%d W:%s W:%s CR SN B:%s W:%s T S SN" % (
        g.T0, c3.token(), g.hx(b"A1__\n"), g.hx(b"B2__\n"), g.hx(b"C3__\n"), k, g.hx(b"D4__\n"), g.hx(b"E5__\n"), c3a.token(), g.hx(b"F6__\n"))
        for c3, c3a in [(g.Cfg(crit="s6", naming=nm, cleanup=cl), g.Cfg(crit="s6", naming=nm, cleanup=cl, append=ap))
                        for nm in ("num", "numd", "tsd") for cl in ("g3", "b0.3") for ap in (False, True)]
        for k in range(2, 9)] + [
        # a configured symlink with a direct naming: kills around the replacement of the link at a rotation, restart with append
        "flw %d 0 ; B:%s W:%s W:%s KI:%d W:%s W:%s CR SN B:%s W:%s F SN S SN" % (
        g.T0, cl.token(), g.hx(b"A1__\n"), g.hx(b"B2__\n"), k, g.hx(b"C3__\n"), g.hx(b"D4__\n"), cla.token(), g.hx(b"E5__\n"))
        for cl, cla in [(g.Cfg(crit="s6", naming=nm, link=True), g.Cfg(crit=c2, naming=nm, link=True, append=ap))
                        for nm in ("numd", "tsd", "num") for ap in (True, False) for c2 in ("s6", "s40")]
        for k in range(0, 8)]


def generate(rng, tier):
    n = 250 if tier == "quick" else 6000
    return [gen(rng, tier) for _ in range(n)]


def search(rng, tier, disagreeing):
    return [gen(rng, "thorough") for _ in range(400)]


def classify(body, impl, verdict):
    """no recorded finding is left for this property: every failure is reported"""
    return None


def nontrivial(body, obs, ghost):
    return " x " in " " + obs + " "


def features(body, obs, ghost):
    toks = body.split(" ; ", 1)[1].split(" ")
    cfgs = [t[2:].split(",") for t in toks if t.startswith("B:")]
    ki = next(t for t in toks if t.startswith("KI:"))
    return ["naming=" + cfgs[0][7], "cleanup=" + cfgs[0][8], "mode=" + ("direct" if cfgs[0][5] == "~" else "buffered"),
            "kill_at=%s" % min(12, int(ki[3:])), "restart_append=" + cfgs[-1][4], "died=%d" % nontrivial(body, obs, ghost)]
