"""C16 - log files are named as documented; path-derived specs, listing and symlink agree."""
import gen_flw as g

CLAIM = ('Proved in Coq END TO END for the model: every file that any history of a Numbers (with or without cleanup), '
         'NumbersDirect, Timestamps or TimestampsDirect writer leaves is accepted by the oracle name_documented that is applied '
         'to the implementation (C16_*_names_documented; hypothesis: the suffix does not end in .gz), and existing_log_files '
         'returns exactly the existing family files the selector asks for, for every history and selector '
         '(C16_numbers_listing_exact, C16_numbersdirect_listing_exact, C16_timestamps_listing_exact, '
         'C16_timestampsdirect_listing_exact - there, without an rCURRENT file, with_r_current selects nothing: '
         'C16_timestampsdirect_listing_no_current; a custom current infix must not be a number / time-stamp infix, nor rCURRENT '
         'together with with_r_current - for those two combinations the proof attempt showed that the listing has an entry twice '
         'resp. lists a rotated file). Decided per explored history by executable oracles defined in Coq (Oracles/O_Names.v) and '
         "applied to the implementation's observations: every file in the log directory is named "
         '[basename][_discriminant][_infix][.suffix][.gz] with empty/absent parts and their separators omitted and an infix of '
         'the active naming scheme (name_documented); existing_log_files returns exactly the existing family files the selector '
         'asks for (oracle_listing, compared with a directory snapshot taken just before the query); the symlink resolves to the '
         'newest family file in reader order. For FileSpec::try_from: proved in Coq that stem and extension re-assemble the file '
         'name for every name (C16_stem_ext_roundtrip), and checked against the implementation that a logger built from the '
         "derived spec writes to exactly that path. The model's naming functions are tied to the code by the correspondence "
         'check. Partial: custom time-stamp formats, the start-time name part and directories left by earlier runs are decided '
         'by the oracles only. The symlink: proved that in every history without failures a configured symlink leads to the file '
         'being written after every operation (absent before the first write), for all four proved namings '
         '(C16_symlink_points_to_current, C16_*_symlink_current), and that a configuration with symlink behaves otherwise '
         'exactly like the one without (simulation in Flw/LinkSim.v). NumbersDirect with a cleanup strategy: names documented '
         'and listing exact, archives included (C16_numbersdirect_cleanup_*). ')
THEOREMS = ["C16_numbers_names_documented", "C16_numbers_cleanup_names_documented", "C16_numbersdirect_names_documented", "C16_timestamps_names_documented", "C16_numbers_listing_exact", "C16_numbersdirect_listing_exact", "C16_timestamps_listing_exact", "C16_timestampsdirect_names_documented", "C16_timestampsdirect_listing_exact", "C16_timestampsdirect_listing_no_current", "C16_stem_ext_roundtrip", "C16_doc_fixed_is_fixed", "C16_name_roundtrip", "C16_symlink_points_to_current", "C16_numbers_symlink_current", "C16_numbersdirect_symlink_current", "C16_timestampsdirect_symlink_current", "C16_numbersdirect_cleanup_names_documented", "C16_numbersdirect_cleanup_names_documented_always", "C16_numbersdirect_cleanup_snapshots_documented", "C16_numbersdirect_cleanup_listing_exact", "C16_numbersdirect_cleanup_listing_no_current"]
TRUSTED = ["modelled, not verified: std::path::Path (file_stem, extension, parent, join), symlink/read_link"]
ASSUMPTIONS = ["with a start-time name part the listing and symlink oracles are not applied (the names oracle and the correspondence are)"]
RULE = ("flw cases: all combinations of present/absent/empty basename and discriminant, suffix present/absent, all namings, rotation "
        "on/off, symlink on, cleanup with compression; directory snapshot + existing_log_files for random selectors after writes, "
        "rotations and at later virtual times; tryfrom cases: path strings (bare name, nested, dot files, several dots, no extension, "
        "trailing dot); non-trivial = at least one rotation and one listing, or a tryfrom path with a dot; distinct = distinct case text")


VIA_LOGGER = 0.3   # share of the file-writer histories that is run once more through Logger / LoggerHandle


def gen(rng, tier):
    rot = rng.random() < 0.85
    base = rng.choice([b"a", b"app", b"", b"my.prog"])
    disc = rng.choice([None, None, b"d1", b"", b"x_y"])
    sfx = rng.choice([b"log", b"log", b"trc", None])
    if not rot and not base and not disc and sfx is None:
        base = b"a"          # without rotation the file name must not be empty
    naming = rng.choice(g.NAMINGS)
    cfg = g.Cfg(base=base, disc=disc, sfx=sfx, ts=rng.choice([False, False, True, "d", "D"]), crit=("s%d" % rng.choice([0, 6, 30])) if rot else None, naming=naming,
                cleanup=rng.choice(["n", "n", "l2", "g1", "b1.1"]) if rot else "n", link=rng.random() < 0.6,
                append=rng.random() < 0.3, cap=rng.choice([None, None, 16]))
    ops = []
    n = 0
    runs = rng.choice([1, 1, 2, 3])
    for run in range(runs):
      # (a later run starts on the files of the earlier ones: what is listed before its first write?)
      ops.append("B:" + cfg.token())
      if rng.random() < (0.3 if run == 0 else 0.7):
        ops += ["SN", "Q:%s:~" % rng.choice(["100", "111", "001", "000", "110"])]
      for _ in range(rng.randint(1 if run == 0 else 0, 9 if runs == 1 else 5)):
          r = rng.random()
          if r < 0.5:
              ops.append("W:" + g.hx(b"%c%d__\n" % (65 + n % 26, n)))
              n += 1
          elif r < 0.62:
              ops.append("T")
          elif r < 0.72:
              ops.append("K:%d" % rng.choice([1, 2, 61, 3600]))
          else:
              custom = "~"
              if naming.startswith("cu.") and naming.split(".")[1] != "~" and rng.random() < 0.5:
                  custom = naming.split(".")[1]
              elif naming in ("num", "ts") and rng.random() < 0.15:
                  custom = g.hx(b"rCURRENT")      # the same file asked for twice (with_r_current and with_custom_current)
              ops += ["F", "SN", "Q:%s:%s" % (rng.choice(["100", "110", "111", "001", "010", "000", "101"]), custom)]
      ops += ["F", "SN", "Q:111:~", "S", "SN"]
      if rng.random() < 0.5:
        ops.append("K:%d" % rng.choice([1, 5]))
    return "flw %d 0 ; %s" % (g.T0, " ".join(ops))


TF_NAMES = ["bare.log", "noext", ".hidden", ".hidden.log", "a.b.c", "trailing.", "two..dots", "app_r00001.log", "é.log", "x.tar.gz",
            "UPPER.LOG", "sp ace.log", "-dash", "a_b_c.d_e"]
TF_DIRS = ["", "sub/", "sub/dir/", "./", "a.b/", "sub/./", ".hid/"]


def gen_tryfrom(rng):
    return "tryfrom " + g.hx(rng.choice(TF_DIRS) + rng.choice(TF_NAMES))


def corpus():
    return ["tryfrom " + g.hx(d + n) for d in ("", "sub/") for n in TF_NAMES]


def generate(rng, tier):
    n = 700 if tier == "quick" else 30000
    return [gen(rng, tier) for _ in range(n)] + [gen_tryfrom(rng) for _ in range(60 if tier == "quick" else 600)]


def search(rng, tier, disagreeing):
    return [gen(rng, "thorough") for _ in range(1500)]


def classify(body, impl, verdict):
    """no recorded finding is left for this property: every failure is reported"""
    return None


def nontrivial(body, obs, ghost):
    if body.startswith("tryfrom "):
        return "2e" in body
    return (" T" in body or "+" in ghost) and " Q:" in body


def features(body, obs, ghost):
    if body.startswith("tryfrom "):
        return ["kind=tryfrom"]
    toks = body.split(" ; ", 1)[1].split(" ")
    c = next(t for t in toks if t.startswith("B:"))[2:].split(",")
    return ["naming=" + c[7].split(".")[0], "base=%d" % (c[0] != "-"), "disc=" + ("absent" if c[1] == "~" else "empty" if c[1] == "-" else "set"),
            "sfx=%d" % (c[3] != "~"), "rotation=%d" % (c[6] != "~"), "link=" + c[10], "queries=%d" % min(5, sum(t.startswith("Q:") for t in toks))]
