"""C03 - concurrent logging keeps every line intact, exactly once, in per-thread order."""

CLAIM = ("Proved in Coq: the executable check that is applied to the implementation's output accepts only interleavings of the "
         "threads' line sequences - every line exactly once, intact, each thread's lines in their order (C03_merge_check_sound, "
         "C03_merge_length); for the synchronous file writer, whose state mutex serialises the threads' write_buffer calls, any "
         'schedule is a sequential history of an interleaving m, and for every one of the four namings, every criterion and '
         'buffer capacity the files then hold exactly concat m (C03_sync_numbers, C03_sync_numbersdirect, C03_sync_timestamps, '
         'C03_sync_timestampsdirect, from C01). ASYNCHRONOUS writer: for any threads and any schedule of sends into the FIFO '
         'channel and consumptions by the writer thread - which may lag arbitrarily - the final world is that of the sequential '
         "run of the send order m (for EVERY configuration), m is an interleaving of the threads' sequences and a permutation of "
         'all records, and the files hold exactly concat m under each of the four namings (C03_async_*, C03_sched_*; '
         'Flw/AsyncMerge.v). Note from that proof: the executable merge check is sound but not complete - it can reject a '
         "genuine interleaving when different threads log identical lines; the harness's threads log pairwise different lines. "
         'Partial: the atomicity granularity (one critical section = one step; crossbeam channel = FIFO; thread-local buffers '
         'private) is an assumption about std::sync::Mutex, thread_local! and crossbeam that the model cannot exhibit; it is '
         'stress-validated: 2-8 real threads log concurrently through Direct, Buffer*, Async (small pool and message capacity) '
         'to files under size rotation with every naming scheme and to stdout/stderr, line lengths around the buffer/message '
         'capacities, and the merge check is applied to the output read back in reader order. That part is testing in support of '
         'the assumption, not proof. ')
THEOREMS = ["C03_merge_check_sound", "C03_merge_length", "C03_sync_numbers", "C03_sync_numbersdirect", "C03_sync_timestampsdirect", "C03_sync_timestamps", "C03_async_schedule_is_sequential", "C03_async_send_order_is_merge", "C03_async_numbers"]
TRUSTED = ["assumed, stress-tested: std::sync::Mutex critical sections, crossbeam_channel FIFO order, ArrayQueue pool, "
           "io::stdout()/stderr() line locking"]
ASSUMPTIONS = ["real thread interleavings are sampled by the OS scheduler on 16 cores, not enumerated"]
RULE = ("one run per case: N in 2..8 threads, each logging 30-200 lines T<i>-<k>-<padding> of lengths around the buffer and message "
        "capacities (thread 0: the single letters A..Z, so that lines consisting of F or S alone occur), "
        "through mode Direct / BufferDontFlush(c) / BufferAndFlush(c, 20 ms) / Async{pool 1-3, message capacity 8-64} (with "
        "and without flusher), to a file with size rotation (all namings, limits 64-2000 bytes) or to stdout / stderr; after shutdown "
        "the output is read in reader order and merge-checked; with a size criterion every closed file may exceed the limit only by its "
        "last line; without rotation in a synchronous mode a further thread logs a line, calls flush() and must find the line in the file at once; non-trivial = every case (at least two threads and a rotation or a "
        "buffer smaller than the output); distinct = distinct case text")

MODES = ["d", "b16", "b64", "b4096", "f64", "a1.8", "a2.16", "a3.64", "A2.16"]


def gen(rng, tier):
    out = rng.choice(["file", "file", "file", "stdout", "stderr"])
    mode = rng.choice(MODES)
    rot = rng.choice(["s64", "s300", "s2000"]) if out == "file" and rng.random() < 0.85 else "~"
    naming = rng.choice(["num", "numd", "ts", "tsd"])
    threads = rng.randint(2, 8)
    lines = rng.choice([30, 60, 200]) if tier == "quick" else rng.choice([100, 400, 1500])
    if rot == "s64" and naming in ("ts", "tsd"):
        lines = min(lines, 60)      # restart counters: one listing per rotation
    return "mt %s %s %s %s %d %d %d" % (out, mode, rot, naming, threads, lines, rng.choice([12, 16, 24, 60]))


def corpus():
    return ["mt file a1.8 s64 num 4 50 20", "mt file d s300 ts 8 40 24", "mt stderr b64 ~ num 4 60 16", "mt stdout a2.16 ~ num 3 60 16",
            # one file, synchronous modes: a further thread logs, flushes and reads the file at once (C04 under contention)
            "mt file b64 ~ num 4 200 16", "mt file b4096 ~ num 6 200 24", "mt file d ~ num 4 200 16", "mt file f64 ~ num 4 200 16",
            # bursts into the asynchronous channel with a small size limit (C08 under concurrency)
            "mt file a2.16 s64 num 6 200 12", "mt file a3.64 s64 numd 8 200 12"]


def generate(rng, tier):
    n = 60 if tier == "quick" else 1500
    return [gen(rng, tier) for _ in range(n)]


def search(rng, tier, disagreeing):
    return [gen(rng, "quick") for _ in range(60)]


def compare(body, model, impl):
    return True       # nondeterministic interleaving: the oracle decides


def nontrivial(body, obs, ghost):
    return True


def features(body, obs, ghost):
    t = body.split(" ")
    return ["out=" + t[1], "mode=" + t[2][0], "rotation=%d" % (t[3] != "~"), "naming=" + t[4], "threads=" + t[5]]
