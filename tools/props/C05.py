"""C05 - run-time specification changes take full effect; push/pop is an exact stack."""
import gen_lg as g

CLAIM = ("Proved in Coq for the model: for every sequence of set_new_spec / parse_new_spec / push_temp_spec / parse_and_push_temp_spec / "
         "pop_temp_spec with arbitrary strings, the handle's active specification and saved stack equal those of an abstract stack "
         "machine (C05_refines_stack); push followed by pop restores exactly the earlier state (C05_push_pop, C05_parse_push_pop); a "
         "string that is rejected changes neither the active specification nor the stack (C05_malformed_unchanged); the global gate is "
         "recomputed for the active specification after every operation (C05_gate_follows). That filtering then follows the active "
         "specification is C02. Tied to the code by the correspondence check: op sequences on a built LoggerHandle, observing each "
         "result, log::max_level() and an enabled()-grid after every operation.")
THEOREMS = ["C05_refines_stack", "C05_push_pop", "C05_parse_push_pop", "C05_malformed_unchanged", "C05_gate_follows"]
TRUSTED = ["modelled, not verified: RwLock (single thread here; C12 covers concurrency), Vec as the stack, log::set_max_level"]
ASSUMPTIONS = ["one handle, one thread; clones of a handle have independent stacks (not exercised)"]
RULE = ("one built logger per case and 3-10 operations, about half of them reconfigurations with well-formed and malformed strings "
        "(white space in names, unknown level words, too many '=' or '/', invalid regex), nested pushes, pops on an empty stack, "
        "specifications with and without text filter; after each reconfiguration the gate and a 5x5 enabled()-grid are observed; "
        "non-trivial = at least one rejected string and one pop in the case; distinct = distinct case text")


def corpus():
    h = g.hx
    probes = ",".join(h(t) for t in ["a", "a::b", "b", "zzz", "info"])
    return [
        # a rejected parse_and_push must not leave a stack entry behind (found by this check, fixed in /repo)
        "lg %s - 0 0 0 %s ; HQ:%s G GR HQ:%s G GR HO G GR HO G GR HO G GR" % (h("info"), probes, h("warn"), h("a=xx")),
        "lg %s - 0 0 0 %s ; HU:%s HQ:%s HP:%s HO G GR HO G GR" % (h("debug, a = off"), probes, h("error"), h("a b=info"), h("b=trace,c=wrong")),
        "lg %s - 0 0 0 %s ; HO G GR HS:%s G GR HP:%s G GR" % (h("trace"), probes, h("off"), h("info/needle")),
        # only the text filter changes between two specifications
        "lg %s - 0 0 0 %s ; L:3:%s:~:%s HP:%s L:3:%s:~:%s L:3:%s:~:%s HP:%s L:3:%s:~:%s HP:%s L:3:%s:~:%s" % (
            h("info"), probes, h("a"), h("hello world"), h("info/needle"), h("a"), h("hello world"), h("a"), h("needle in haystack"),
            h("info/hello"), h("a"), h("needle in haystack"), h("info"), h("a"), h("xyz")),
    ]


def generate(rng, tier):
    n = 1000 if tier == "quick" else 40000
    return [g.gen_lg_case(rng, focus="handle", malformed=0.1) for _ in range(n)]


def search(rng, tier, disagreeing):
    return [g.gen_lg_case(rng, focus="handle", malformed=0.2) for _ in range(3000)]


def oracle(body, model, impl):
    pm, pi = g.pair_ops(body, model), g.pair_ops(body, impl)
    if pm is None or pi is None:
        return "fail observation-shape" if pm is not None else "skip model-shape"
    for (op, m), (_, i) in zip(pm, pi):
        k = op.split(":")[0]
        if k in ("HS", "HP", "HU", "HQ", "HO") and m != i:
            return "fail result-of-reconfiguration %s model=%s impl=%s" % (op[:40], m, i)
        if k == "L" and m != i:
            return "fail filtering-does-not-follow-the-active-specification %s model=%s impl=%s" % (op[:40], m, i)
        if k == "GR" and m != i:
            return "fail filtering-does-not-follow-the-active-specification model=%s impl=%s" % (m, i)
        if k == "G" and int(i[1:]) < int(m[1:]):
            return "fail gate-below-active-specification model=%s impl=%s" % (m, i)
    return "pass"


def nontrivial(body, obs, ghost):
    return " r1" in obs and " HO" in body


def features(body, obs, ghost):
    ops = body.split(" ; ", 1)[1].split(" ")
    return ["reconfigs=%d" % min(6, sum(1 for o in ops if o[:2] in ("HS", "HP", "HU", "HQ", "HO"))),
            "rejected=%d" % min(3, obs.count(" r1")), "pops=%d" % min(3, ops.count("HO"))]
