"""C13 - brace targets, writer level ceilings and duplication."""
import gen_lg as g

CLAIM = ("Proved in Coq for the model: for every brace target, level, specification, writer set and duplication state, log() serves "
         "exactly the registered writers named in the list - exactly once each (a repeated name is served once), never a writer that is not named - "
         "whatever the specification says, reports each unknown name once per occurrence and nothing else (C13_route, "
         "C13_served_exactly_once); the default channel is reached only through _Default and only if the specification enables the "
         "record's module path (C13_default_channel); no writer - custom, FileLogWriter or SyslogWriter - emits above its ceiling "
         "(C13_ceiling); stderr/stdout duplication happens exactly at or above the duplication level, also after adapt_duplication_to_* "
         "(C13_duplication, C13_adapt). Tied to the code by the correspondence check with recording writers, FileLogWriters with "
         "max_level, SyslogWriters with max_log_level connected to a unix datagram socket that the harness reads, captured stderr/stdout.")
THEOREMS = ["C13_route", "C13_served_exactly_once", "C13_ceiling", "C13_default_channel", "C13_duplication", "C13_adapt"]
TRUSTED = ["modelled, not verified: HashMap lookup by name, str::split, the LogWriter implementations' own max-level handling "
           "(FileLogWriter::write and - since fix 08aa8ee - SyslogWriter::write check it; the harness's recording writer checks it)"]
ASSUMPTIONS = ["stdout/stderr are captured through redirected file descriptors; the syslog socket is a unix datagram socket in the scratch directory"]
RULE = ("one built logger per case: 0-3 additional writers (recording writers, FileLogWriters and SyslogWriters, ceilings 0-5), duplication levels "
        "0-6 for stderr and stdout, optional line filter; 3-10 records, 60 % with brace targets over registered, unknown, duplicated "
        "and empty names and _Default in any order, 10 % malformed brace shapes; adapt_duplication_to_* in between; non-trivial = a "
        "brace target with at least two names was logged and at least one writer was served; distinct = distinct case text")


def corpus():
    h = g.hx
    return [
        "lg %s %s 3 1 0 %s ; L:1:%s:~:%s L:3:%s:%s:%s L:4:%s:%s:%s DE:0 L:1:%s:%s:%s" % (
            h("info"), ",".join([h("A") + ":c:5", h("B") + ":f:2", h("Sec") + ":c:1"]), h("a"),
            h("{A,B}"), h("m"), h("{Sec,_Default,Unknown,A}"), h("a"), h("m"), h("{B,_Default}"), h("a"), h("m"),
            h("{_Default}"), h("a"), h("m")),
        # a name listed twice must still be served once
        "lg %s %s 0 0 0 %s ; L:1:%s:~:%s" % (h("info"), h("A") + ":c:5", h("a"), h("{A,A}"), h("m")),
    ]


def generate(rng, tier):
    n = 1200 if tier == "quick" else 40000
    return [g.gen_lg_case(rng, focus="route", malformed=0.1) for _ in range(n)]


def search(rng, tier, disagreeing):
    return [g.gen_lg_case(rng, focus="route", malformed=0.1) for _ in range(3000)]


def oracle(body, model, impl):
    pm, pi = g.pair_ops(body, model), g.pair_ops(body, impl)
    if pm is None or pi is None:
        return "fail observation-shape" if pm is not None else "skip model-shape"
    for (op, m), (_, i) in zip(pm, pi):
        k = op.split(":")[0]
        if k == "L":
            if i.startswith("w["):
                ws = [x for x in i[2:i.index("]")].split(",") if x]
                if len(ws) != len(set(ws)):
                    return "fail writer-served-more-than-once %s impl=%s" % (op[:60], i)
            if m != i:
                return "fail routing %s model=%s impl=%s" % (op[:60], m, i)
        if k in ("DE", "DO") and m != i:
            return "fail adapt-duplication %s" % op
    return "pass"


def classify(body, impl, verdict):
    return "name-listed-twice" if "writer-served-more-than-once" in verdict else None


def nontrivial(body, obs, ghost):
    return "2c" in body.split(" ; ", 1)[1] and "+" in obs


def features(body, obs, ghost):
    toks = body.split(" ")
    ops = body.split(" ; ", 1)[1].split(" ")
    return ["writers=%d" % (0 if toks[2] == "-" else toks[2].count(",") + 1), "dup_err=" + toks[3], "dup_out=" + toks[4],
            "brace_records=%d" % min(6, sum(1 for o in ops if o.startswith("L:") and g.is_brace(o)))]
