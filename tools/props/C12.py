"""C12 - concurrent specification changes end in one consistent specification and gate."""
import itertools
import gen_lg as g

CLAIM = ('Proved in Coq over an interleaving model of WritersHandle::set_new_spec (micro-steps: take the write lock, replace the '
         'specification, set the global max level, release the lock): for any number of threads, any number of calls per thread '
         'and every schedule, once all calls have returned the active specification is one of the submitted ones as a whole and '
         'the gate is the one computed for it (C12_consistent); the order of the micro-steps before the fix is refuted by a '
         'four-step schedule (C12_old_order_refuted). Tied to the code by schedule points inside set_new_spec: the harness runs '
         '2-3 real threads with handle clones, a controller releases them point by point along EVERY interleaving of their '
         'points (quick: 2 threads x 1 call, plus sampled 2x2 and 3x1), threads that block on the lock are detected, the order '
         'in which the points were really passed is replayed through the extracted model, and final specification '
         '(enabled()-grid) and log::max_level() must agree. push_temp_spec / pop_temp_spec, which the property names as well, '
         'are exercised on the implementation only (a pop submits whatever the push found in force, so which specification it is '
         'depends on the schedule): a push and a pop on one clone against a set_new_spec on another along every interleaving of '
         'their points; there the oracle is the property itself on the final state - the enabled()-grid is that of one submitted '
         '(or the initial) specification as a whole and the gate admits it. Partial: the interleaving model has set_new_spec '
         'calls only; the atomicity of each micro-step (RwLock, atomic max level) is assumed; the specfile watcher calls the '
         'same function and is not exercised separately. ')
THEOREMS = ["C12_consistent", "C12_old_order_refuted"]
TRUSTED = ["modelled, not verified: std::sync::RwLock (mutual exclusion of writers), log::set_max_level (atomic store); the controller "
           "detects a blocked thread by a timeout"]
ASSUMPTIONS = ["each micro-step of the model is atomic in the implementation", "no additional writers in these runs (W = 0)"]
RULE = ("threads with 1-2 set_new_spec calls each on clones of one LoggerHandle, specifications with different maximum levels and "
        "module sets; the controller schedule is an interleaving of the threads' release counts (3 points per call); quick enumerates "
        "all 20 interleavings of 2x1 calls for two specification pairs and samples 2x2 and 3x1; push_temp_spec / pop_temp_spec on one "
        "clone against set_new_spec on another: all 84 interleavings of 6 + 3 points, and of the 9 + 3 ones (a call before the push) "
        "those in which the other thread is inside its critical section early; for cases with push / pop the verdict is the property "
        "on the final state (filtering = one specification as a whole, gate admits it); non-trivial = the schedule lets one "
        "thread pass a point while another is between its points; distinct = distinct case text")

SPECS = ["error", "trace", "warn, a = debug", "off", "info, b = trace", "a = error"]
PROBES = ["a", "b", "zzz"]


def interleavings(counts):
    """all sequences over thread ids with the given multiplicities (in lexicographic order)"""
    def go(left, prefix):
        if not any(left):
            yield prefix
            return
        for t, c in enumerate(left):
            if c:
                yield from go(left[:t] + [c - 1] + left[t + 1:], prefix + str(t))
    yield from go(list(counts), "")


def case(spec0, threads, sched):
    h = g.hx
    return "conc %s %s ; %s ; %s" % (h(spec0), ",".join(h(p) for p in PROBES),
                                     "|".join(",".join(h(c) for c in t) if t else "-" for t in threads), sched)


def case_calls(spec0, threads, sched):
    """threads: lists of calls "spec" (set_new_spec), ("U", spec) (push_temp_spec) or "O" (pop_temp_spec)"""
    h = g.hx
    def tok(c):
        return "O" if c == "O" else ("U" + h(c[1]) if isinstance(c, tuple) else h(c))
    return "conc %s %s ; %s ; %s" % (h(spec0), ",".join(h(p) for p in PROBES),
                                     "|".join(",".join(tok(c) for c in t) if t else "-" for t in threads), sched)


def stack_cases(rng, tier):
    """push / pop on one clone against set_new_spec on another: every interleaving of the 6 + 3 schedule points"""
    out = []
    for pushed, other in (("warn", "trace, a::b = debug"), ("trace", "error"), ("off", "info, a = trace"))[:2 if tier == "quick" else 3]:
        for s in interleavings([6, 3]):
            out.append(case_calls("info", [[("U", pushed), "O"], [other]], s))
    # (what a push reads before its own critical section is read when the thread arrives there: with a call before the push
    #  that moment can fall between the steps of the other thread)
    for pushed, other in (("warn", "trace, a::b = debug"), ("debug", "error")):
        all93 = list(interleavings([9, 3]))
        # (quick: the schedules in which the other thread takes one step early - it is inside its critical section - and the rest
        #  late, plus a random handful; thorough: all 220)
        early = [x for x in all93 if x.index("1") <= 2 and x.index("1", x.index("1") + 1) >= 6]
        for s in (all93 if tier != "quick" else early + rng.sample(all93, 10)):
            out.append(case_calls("info", [["info", ("U", pushed), "O"], [other]], s))
    return out


def corpus():
    # the schedule on which the order before the fix fails: thread 0 between its points while thread 1 runs through
    return [case("info", [["error"], ["trace"]], "0111000"), case("info", [["error"], ["trace"]], "1000111")]


def generate(rng, tier):
    out = stack_cases(rng, tier)
    for a, b in (("error", "trace"), ("warn, a = debug", "off")):
        for s in interleavings([3, 3]):
            out.append(case("info", [[a], [b]], s))
    n2 = 40 if tier == "quick" else 924
    all22 = list(interleavings([6, 6])) if tier != "quick" else None
    for i in range(n2):
        specs = rng.sample(SPECS, 4)
        if all22 is not None:
            s = all22[i]
        else:
            items = [0] * 6 + [1] * 6
            rng.shuffle(items)
            s = "".join(map(str, items))
        out.append(case("info", [specs[:2], specs[2:]], s))
    n3 = 30 if tier == "quick" else 1680
    all3 = list(interleavings([3, 3, 3])) if tier != "quick" else None
    for i in range(n3):
        specs = rng.sample(SPECS, 3)
        if all3 is not None:
            s = all3[i]
        else:
            items = [0] * 3 + [1] * 3 + [2] * 3
            rng.shuffle(items)
            s = "".join(map(str, items))
        out.append(case(rng.choice(SPECS), [[specs[0]], [specs[1]], [specs[2]]], s))
    return out


def search(rng, tier, disagreeing):
    return generate(rng, "quick")


def nontrivial(body, obs, ghost):
    s = body.split(" ; ")[2]
    # some thread is released while another one is between its first and last point
    return any(s[i] != s[i + 1] for i in range(len(s) - 1)) and not (s.startswith("000") and s.endswith("111"))


def features(body, obs, ghost):
    parts = body.split(" ; ")
    th = parts[1].split("|")
    return ["threads=%d" % len(th), "calls=%d" % sum(len(t.split(",")) for t in th)]


def compare(body, model, impl):
    # the model is not run ahead of time: it is driven by the order the implementation reports (oracle mode),
    # and a mismatch is reported there
    return True
