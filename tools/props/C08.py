"""C08 - size criterion."""
import gen_flw as g

CLAIM = ('Proved in Coq for the model, for every size limit, buffer capacity, append setting and every history of writes, raw '
         'chunks, flushes, triggers and clock ticks from an empty directory, under ALL FOUR standard namings - Numbers, '
         'NumbersDirect, Timestamps (with rCURRENT) and TimestampsDirect; for the two time-stamp namings: clock not going '
         'backwards, up to the year 9999 -: a write rotates iff the bytes counted for the current file (on disk + buffered) '
         'already exceed the limit (C08_rotates_iff_exceeds, C08_rotates_iff_numbersdirect, C08_rotates_iff_timestamps, '
         'C08_rotates_iff_timestampsdirect), and the files left after stop are exactly the greedy partition of the written '
         'records (C08_partition_numbers, C08_partition_numbersdirect, C08_partition_timestamps - closed files + rCURRENT, '
         'nothing at all when nothing was written -, C08_partition_timestampsdirect); the executable oracle is proved to be that '
         "partition (C08_oracle_sound) and to accept the reader's view of the Timestamps directory (C08_oracle_timestamps). "
         'START STATES (proved for all four namings; first Numbers and NumbersDirect): content found at start counts - two runs, '
         'the second with append: its files are the greedy partition that starts with what the first run left in the current '
         'file, and each write rotates iff what is counted, found content included, exceeds the limit '
         "(C08_append_partition_numbers, C08_append_rotates_iff_numbers: a trigger before the run's first write does nothing, "
         'the file is opened lazily); any number of runs, each with its own limit, capacity and append flag '
         '(C08_runs_partition_numbers, C08_runs_partition_numbersdirect). The same start-state theorems hold for '
         'TimestampsDirect and Timestamps naming (C08_append_partition_timestamps[direct], '
         'C08_append_rotates_iff_timestamps[direct], C08_runs_partition_timestamps[direct], '
         'C08_runs_rotates_iff_timestamps[direct]: with append the newest file / rCURRENT is continued under its old name and '
         "its bytes count from the run's first write on). For custom time-stamp formats, CRLF and AgeOrSize the same statement "
         'is decided by the correspondence check (model = implementation on every explored history) plus the verified oracle '
         "applied to the implementation's files: partial there. ")
THEOREMS = ["C08_rotates_iff_exceeds", "C08_partition_numbers", "C08_partition_numbersdirect", "C08_rotates_iff_numbersdirect", "C08_partition_timestampsdirect", "C08_rotates_iff_timestampsdirect", "C08_oracle_sound", "C08_partition_timestamps", "C08_rotates_iff_timestamps", "C08_oracle_timestamps", "C08_append_partition_numbers", "C08_append_rotates_iff_numbers", "C08_runs_partition_numbers", "C08_runs_partition_numbersdirect", "C08_append_partition_timestampsdirect", "C08_append_rotates_iff_timestampsdirect", "C08_runs_partition_timestampsdirect", "C08_runs_rotates_iff_timestampsdirect", "C08_append_partition_timestamps", "C08_append_rotates_iff_timestamps", "C08_runs_partition_timestamps", "C08_runs_rotates_iff_timestamps"]
TRUSTED = ["modelled, not verified: std BufWriter/File semantics, rename/open/truncate of the OS (Fs/Fs.v)"]
ASSUMPTIONS = ["no I/O faults, no kill, no external modification of the directory during the run (those are C19, C11, C18)",
               "the correspondence explores a finite sample; the theorems cover all inputs of the model"]
RULE = ("one run per case: optional pre-existing current file (append), builder, records of lengths around the limit "
        "{0,1,N-1,N,N+1,>>N} with LF/CRLF through LogWriter::write and io::Write, flushes, triggers, clock ticks, "
        "stop; all namings, buffer capacities below/at/above N; non-trivial = the model performed at least one "
        "rotation decided by the criterion; distinct = distinct case text")


VIA_LOGGER = 0.25   # share of the file-writer histories that is run once more through Logger / LoggerHandle


def compare(body, model, impl):
    return True if body.startswith("mt ") else model == impl      # (real interleavings: the oracle decides)


def corpus():
    # the size rule under concurrency (kind mt, the C03 machinery): bursts of records from several threads, also into the
    # asynchronous channel - every closed file may exceed the limit only by its last line
    out = ["mt file a2.16 s64 num 6 200 12", "mt file a3.64 s64 numd 8 200 12", "mt file d s64 num 6 100 12", "mt file b64 s300 numd 6 100 12"]
    cfg = g.Cfg(crit="s10", naming="num")
    # boundary: exactly N bytes do not rotate, N+1 do
    out.append("flw %d 0 ; B:%s W:%s W:%s W:%s S SN" % (g.T0, cfg.token(), g.hx(b"a" * 9 + b"\n"), g.hx(b"b\n"), g.hx(b"c\n")))
    out.append("flw %d 0 ; B:%s W:%s W:%s W:%s S SN" % (g.T0, cfg.token(), g.hx(b"a" * 10 + b"\n"), g.hx(b"b\n"), g.hx(b"c\n")))
    # append to a file that already exceeds the limit: the first record goes to a new file
    cfga = g.Cfg(crit="s10", naming="num", append=True)
    out.append("flw %d 0 start=%s ; XC:%s:0:%s B:%s W:%s S SN" % (g.T0, g.hx(b"s" * 11), g.hx(cfga.name(b"rCURRENT")), g.hx(b"s" * 11), cfga.token(), g.hx(b"b\n")))
    out.append("flw %d 0 start=%s ; XC:%s:0:%s B:%s W:%s S SN" % (g.T0, g.hx(b"s" * 10), g.hx(cfga.name(b"rCURRENT")), g.hx(b"s" * 10), cfga.token(), g.hx(b"b\n")))
    # buffered: the counter includes what is still pending
    cfgb = g.Cfg(crit="s10", naming="num", cap=64)
    out.append("flw %d 0 ; B:%s W:%s W:%s W:%s S SN" % (g.T0, cfgb.token(), g.hx(b"a" * 10 + b"\n"), g.hx(b"b\n"), g.hx(b"c\n")))
    # limit 0
    cfg0 = g.Cfg(crit="s0", naming="numd")
    out.append("flw %d 0 ; B:%s W:%s W:%s P:- W:%s S SN" % (g.T0, cfg0.token(), g.hx(b"\n"), g.hx(b"b\n"), g.hx(b"c\n")))
    return out


def generate(rng, tier):
    n = 600 if tier == "quick" else 20000
    out = [g.gen_size_history(rng, tier) for _ in range(n)]
    if tier == "thorough":
        alphabet = ["W:" + g.hx(b"a" * k + b"\n") for k in (0, 4, 5, 6, 14)] + ["T", "F"]
        for naming in ("num", "numd", "ts", "tsd"):
            for cap in (None, 4, 6):
                out += g.exhaustive_size_histories(5, naming, cap, alphabet, 4)
    return out


def search(rng, tier, disagreeing):
    return [g.gen_size_history(rng, "thorough") for _ in range(1500)]


def nontrivial(body, obs, ghost):
    return body.startswith("mt ") or "+" in ghost


def features(body, obs, ghost):
    if body.startswith("mt "):
        return ["concurrent-burst", "mode=" + body.split(" ")[2][0]]
    f = []
    toks = body.split(" ; ", 1)[1].split(" ")
    b = next(t for t in toks if t.startswith("B:"))
    c = b[2:].split(",")
    f.append("naming=" + c[7].split(".")[0])
    f.append("mode=" + ("direct" if c[5] == "~" else "buffered"))
    f.append("append=" + c[4])
    f.append("rotations=%d" % min(ghost.count("+"), 3))
    f.append("ops=%d" % min(10, len(toks) // 3 * 3))
    return f
