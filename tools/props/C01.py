"""C01 - rotated stream complete, duplicate-free, in order."""
import gen_flw as g

CLAIM = ('Proved in Coq for the model, for every criterion, buffer capacity and append setting and every history of writes / raw '
         'chunks / flushes / triggers / ticks from an empty directory: under Numbers (C01_stream_numbers), NumbersDirect '
         '(C01_stream_numbersdirect), Timestamps (C01_stream_timestamps) and TimestampsDirect naming '
         '(C01_stream_timestampsdirect) - for the two time-stamp namings: local time or UTC, clock not going backwards, up to '
         'the year 9999, any number of rotations per second, the files carry pairwise distinct names whose (second, restart '
         'position) keys increase in writing order - the files read in writing order hold exactly the written bytes, once, in '
         "order; for the time-stamp namings the oracle's reader (files ordered by parsed infix) is proved to read them in "
         'exactly that order (C01_reader_timestamps, C01_reader_timestampsdirect); the stream oracle is proved sound '
         '(C01_oracle_sound). Hypotheses (shown necessary by counterexamples evaluated in Coq): the suffix does not start with '
         '"restart-", neither it nor the fixed name part contains a full "<time stamp>.restart-", the suffix does not end in '
         '.gz. For custom time-stamp formats the statement is partial: decided on every explored history by the correspondence '
         "check plus the oracle applied to the implementation's directory. ")
THEOREMS = ["C01_stream_numbers", "C01_stream_numbersdirect", "C01_stream_timestamps", "C01_stream_timestampsdirect", "C01_reader_timestamps", "C01_reader_timestampsdirect", "C01_oracle_sound"]
TRUSTED = ["modelled, not verified: std BufWriter/File semantics, rename/open/truncate of the OS (Fs/Fs.v), chrono's formatting of timestamps (Time/)"]
ASSUMPTIONS = ["no I/O faults, no kill, no external modification of the directory during the run",
               "single logging thread, synchronous write modes; cleanup = Never"]
RULE = ("one run per case under the virtual clock: builder, records of lengths 0/1/around the size limit/larger than the "
        "buffer through LogWriter::write and io::Write, flushes, triggered rotations, clock ticks (same-second bursts and "
        "period changes), stop; all namings incl. custom formats with/without current infix, criteria size/age/age-or-size, "
        "Direct/BufferDontFlush(cap), LF/CRLF, name-part combinations; non-trivial = at least one rotation (criterion or trigger); "
        "distinct = distinct case text")


VIA_LOGGER = 0.25   # share of the file-writer histories that is run once more through Logger / LoggerHandle


def corpus():
    out = []
    for naming in g.NAMINGS:
        cfg = g.Cfg(crit="s5", naming=naming, cap=8)
        out.append("flw %d 0 ; B:%s W:%s W:%s T W:%s F SN K:1 W:%s T T W:%s S SN" % (
            g.T0, cfg.token(), g.hx(b"aaaaaa\n"), g.hx(b"b\n"), g.hx(b"c\n"), g.hx(b"dddddddddd\n"), g.hx(b"e\n")))
    return out


def gen_history(rng, tier):
    naming = rng.choice(g.NAMINGS)
    lim = rng.choice([0, 3, 10, 25])
    crit = rng.choice(["s%d" % lim, "a" + rng.choice("dhms"), "x%s%d" % (rng.choice("dhms"), lim)])
    cap = rng.choice([None, None, 1, 3, 8, 16, 100])
    cfg = g.Cfg(cap=cap, crit=crit, naming=naming, crlf=rng.random() < 0.2,
                base=rng.choice([b"a", b"app", b"my.prog", b""]), disc=rng.choice([None, None, b"d1", b"x_y"]),
                sfx=rng.choice([b"log", b"log", b"log", b"trc"]), append=rng.random() < 0.2)
    # (an empty fixed name part - no basename, no discriminant - is a legal configuration: the files are r00000.log ...)
    ops = ["B:" + cfg.token()]
    n = rng.randint(0, 8 if tier == "quick" else 16)
    for i in range(n):
        r = rng.random()
        if r < 0.02:
            # a record far longer than any buffer (the formatting buffer of the logging thread grows and is reused afterwards)
            ops.append("W:" + g.hx(g.record(rng, cfg, rng.choice([5000, 9000, 17000]), i)))
        elif r < 0.55:
            ops.append("W:" + g.hx(g.record(rng, cfg, g.sizes_around(rng, max(lim, 4)), i)))
        elif r < 0.65:
            ops.append("P:" + g.hx(bytes([65 + i % 26]) * g.sizes_around(rng, max(lim, 4))))
        elif r < 0.72:
            ops.append("F")
        elif r < 0.84:
            ops.append("T")
        else:
            ops.append("K:%d" % rng.choice([1, 1, 1, 2, 59, 60, 3600, 86400, 86400 * 31]))
        if rng.random() < 0.08:
            ops += ["F", "SN"]
    ops += ["S", "SN"]
    return "flw %d 0 ; %s" % (g.T0 - rng.choice([0, 0, 1, 30, 3000, 86000]), " ".join(ops))


def generate(rng, tier):
    n = 700 if tier == "quick" else 25000
    out = [gen_history(rng, tier) for _ in range(n)]
    if tier == "thorough":
        alphabet = ["W:" + g.hx(b"a" * k + b"\n") for k in (0, 5, 14)] + ["T", "F", "K:1"]
        for naming in g.NAMINGS:
            for cap in (None, 6):
                out += g.exhaustive_size_histories(5, naming, cap, alphabet, 4)
    return out


def search(rng, tier, disagreeing):
    return [gen_history(rng, "thorough") for _ in range(1500)]


def nontrivial(body, obs, ghost):
    return "+" in ghost or " T " in body


def features(body, obs, ghost):
    toks = body.split(" ; ", 1)[1].split(" ")
    b = next(t for t in toks if t.startswith("B:"))
    c = b[2:].split(",")
    return ["naming=" + c[7].split(".")[0], "crit=" + c[6][0], "mode=" + ("direct" if c[5] == "~" else "buffered"),
            "append=" + c[4], "rotations=%d" % min(ghost.count("+") + toks.count("T"), 4)]
