"""C17 - specification text forms round-trip; parsing reports exactly the malformed parts."""
import gen_lg as g

CLAIM = ("Proved in Coq for the model: LogSpecification::parse is total (it cannot panic) and has exactly this structure - more than one "
         "'/' gives an error carrying the specification `off`; otherwise the errors are exactly those of the malformed comma-separated "
         "parts (plus an invalid regex), and the carried specification is level_sort of exactly the well-formed parts "
         "(C17_parse_exact, C17_parse_ok_iff); Display followed by parse returns the identical filter list without error for every "
         "specification value with printable names and at most one default (C17_display_roundtrip); the TOML form read back decides "
         "identically for every level and target (C17_toml_roundtrip, semantic half: the TOML text syntax itself is library behaviour "
         "and is validated by the correspondence check, not proved). Tied to the code by the correspondence check: grammar-generated, "
         "malformed and arbitrary Unicode strings, builder-made specifications; compared: Ok/Err, carried filters, Display text, "
         "re-parsed filters, filters after a real to_toml/from_toml round trip, and the specfile route itself "
         "(Logger::build_with_specfile: a first start writes the file, a second start given another specification reads it and must decide, "
         "on a grid of levels and targets around the filter names, like a logger that got the specification directly). LogSpecBuilder incl. "
         "from_module_filters, insert_modules_from, the level constructors and the TryFrom impls go through the same observation.")
THEOREMS = ["C17_parse_exact", "C17_parse_ok_iff", "C17_display_roundtrip", "C17_toml_roundtrip"]
TRUSTED = ["modelled, not verified: str::split/trim/char::is_whitespace/to_lowercase (the White_Space table and the case folding used are written out in coq/LogSpec/Spec.v and tied by the Unicode-soup cases), "
           "Vec::sort_by stability, HashMap/BTreeMap, the toml crate's text syntax, Regex::new (literal patterns only)"]
ASSUMPTIONS = ["regex parts of generated strings are literal patterns or one of a few known-invalid patterns"]
RULE = ("`spec` cases: a specification string (45 % well-formed from the grammar, 35 % with malformed parts, 20 % Unicode soup incl. "
        "multi-byte white space, U+0130, U+212A); `specb` cases: LogSpecBuilder operation sequences over names that are prefixes of each "
        "other and level words; non-trivial = at least two filters result or the string is rejected; distinct = distinct case text")


def corpus():
    h = g.hx
    return ["spec " + h(s) for s in [
        "info", "", "info, a = debug, a::b=off", "a=info,a=debug", "info,debug", "=", "=info", "a=", "a==", "a=b=c", "a b=info",
        "warn = info", "info = warn", " Info ", "a=inf", "info/needle", "info/(", "a/b/c", "/", "info/", ",,,", " , a = trace , ",
        "İnfo", "a=İnfo", "Knfo", "é=debug", "a b", "　info　", "a=trace", "OFF"]] + \
           ["specb M:%s:4 M:%s:2 D:3 M:%s:0 R:%s" % (h("a"), h("a::b"), h("info"), h("a")), "specb", "specb D:5 D:0"]


def generate(rng, tier):
    n = 2500 if tier == "quick" else 80000
    return [g.gen_spec_case(rng) if rng.random() < 0.8 else g.gen_specb_case(rng) for _ in range(n)]


def search(rng, tier, disagreeing):
    return [g.gen_spec_case(rng) for _ in range(5000)]


def fields(obs):
    t = obs.split(" ")
    if len(t) != 8:
        return None
    return {"ok": t[0], "f": t[1][1:], "tf": t[2], "d": t[3], "r": t[4][1:], "rf": t[5][2:], "t": t[6][1:], "sf": t[7][2:]}


def unique_names(f):
    names = [x.split(":")[0] for x in f.strip("[]").split(",") if x]
    return len(names) == len(set(names)) and "-" not in names


def canon(f):
    items = [x for x in f.strip("[]").split(",") if x]
    return sorted(items, key=lambda x: (-(0 if x.split(":")[0] in ("~", "-") else len(x.split(":")[0]) // 2), x))


def oracle(body, model, impl):
    if impl == "PANIC":
        return "fail parse-panicked"
    fm, fi = fields(model), fields(impl)
    if fm is None:
        return "skip model-shape"
    if fi is None:
        return "fail observation-shape " + impl[:80]
    if fm["ok"] != fi["ok"]:
        return "fail error-reported-iff-malformed model=%s impl=%s" % (fm["ok"], fi["ok"])
    if fm["f"] != fi["f"] or fm["tf"] != fi["tf"]:
        return "fail carried-specification model=%s impl=%s" % (fm["f"], fi["f"])
    if unique_names(fi["f"]):
        if fi["r"] != "ok" or fi["rf"] != fi["f"]:
            return "fail display-roundtrip f=%s reparsed=%s" % (fi["f"], fi["rf"])
        # the TOML form lists the modules in key order: equal decisions = the same set of filters
        if fi["t"] != "-" and canon(fi["t"]) != canon(fi["f"]):
            return "fail toml-roundtrip f=%s read-back=%s" % (fi["f"], fi["t"])
        # a logger started on the specfile that an earlier start wrote decides like the specification itself
        if fi["sf"] not in ("-", "same"):
            return "fail specfile-roundtrip f=%s %s" % (fi["f"], fi["sf"])
    return "pass"


def nontrivial(body, obs, ghost):
    f = fields(obs)
    return f is not None and (f["f"].count(":") >= 2 or f["ok"] == "err")


def features(body, obs, ghost):
    f = fields(obs) or {"ok": "?", "f": "", "t": "-"}
    return ["kind=" + body.split(" ")[0], "result=" + f["ok"], "filters=%d" % min(6, f["f"].count(":")), "toml=%d" % (f["t"] != "-")]
