"""C04 - flush, shutdown and handle drop leave no accepted record behind."""
import gen_lg as gl

CLAIM = ('Decided per explored history: a Logger is built for each write mode (Direct, BufferDontFlush(c), BufferAndFlush(c, 20 '
         'ms), Async with and without flusher) and output (file, file with size rotation, stdout, stderr); records are logged, '
         'and at every checkpoint - flush() in a synchronous mode, shutdown(), the last handle dropped - the output is read at '
         'once (no sleep) and must hold every record whose log call had returned (oracle on the implementation); cloning handles '
         'and dropping clones in between must change nothing. The model (file-writer state machine, incl. the buffer, shutdown '
         'and the asynchronous message channel) predicts the same directories (correspondence). Proved in Coq: after OFlush / '
         "OShutdown / OStop the model's writer has nothing pending and the directory holds everything written (Numbers naming: "
         'C04_stop_durable, from the C01 invariant). Partial: real flusher-thread timing and WriteMode::SupportCapture are only '
         'sampled. Also proved: after flush in Direct / buffered mode and - once the flush message has been consumed - in '
         'asynchronous mode, and after stop in asynchronous mode, nothing is pending and the directory holds everything written '
         "(C04_flush_durable_sync, C04_flush_durable_async, C04_stop_durable_async); and, outside the property's scope: a record "
         'logged after shutdown() in asynchronous mode is accepted and lost (C04_async_dead_write_lost). The same durability '
         'theorems are proved for NumbersDirect, TimestampsDirect and Timestamps naming in every write mode: after flush (in '
         'asynchronous mode once the flush message is consumed) and after stop nothing is pending and the directory - in the '
         'view of that naming - holds everything written (C04_flush_durable_<naming>, C04_stop_durable_<naming>, '
         'C04_flush_durable_async_<naming>, C04_stop_durable_async_<naming>). ')
THEOREMS = ["C04_stop_durable", "C04_flush_durable_async", "C04_stop_durable_async", "C04_flush_durable_sync", "C04_async_dead_write_lost", "C04_flush_durable_numbersdirect", "C04_stop_durable_numbersdirect", "C04_flush_durable_timestampsdirect", "C04_stop_durable_timestampsdirect", "C04_flush_durable_timestamps", "C04_stop_durable_timestamps", "C04_flush_durable_async_numbersdirect", "C04_stop_durable_async_numbersdirect", "C04_flush_durable_async_timestampsdirect", "C04_stop_durable_async_timestampsdirect", "C04_flush_durable_async_timestamps", "C04_stop_durable_async_timestamps"]
TRUSTED = ["modelled, not verified: BufWriter::flush, the async writer thread joins on shutdown, stdout/stderr buffering of the std writers"]
ASSUMPTIONS = ["in asynchronous mode no records are logged after shutdown() (the writer thread has ended; C04_async_dead_write_lost)",
               "in asynchronous mode flush() only sends a request: no checkpoint is placed after it"]
RULE = ("histories over log / flush / shutdown / clone / drop-handle-i with 0-12 records of 2-40 bytes, buffer capacities below and above "
        "the total output, checkpoints (snapshot immediately after the call returns) after flush (sync modes), shutdown and the drop "
        "of the last handle; non-trivial = a clone is dropped before later records are logged, or the buffer is larger than what was "
        "logged at a checkpoint; distinct = distinct case text")

MODES = ["d", "b8", "b64", "b4096", "f4096", "a1.8", "a2.16", "A2.16"]


def gen(rng, tier):
    out = rng.choice(["file", "file", "file", "stdout", "stderr"])
    mode = rng.choice(MODES)
    sync = mode[0] in "dbf"
    rot = rng.choice(["s20", "s100"]) if out == "file" and rng.random() < 0.5 else "~"
    naming = rng.choice(["num", "numd", "ts", "tsd"])
    ops, n, handles = [], 0, [True]
    for _ in range(rng.randint(1, 12)):
        r = rng.random()
        if r < 0.55:
            ops.append("L:" + gl.hx(rng.choice("FSX") if rng.random() < 0.1 else "%c%d-%s" % (65 + n % 26, n, "x" * rng.choice([0, 3, 30]))))   # (a line that is just F or S: once the content of control messages)
            n += 1
        elif r < 0.7:
            ops.append("F")
            if sync:
                ops.append("SN")
        elif r < 0.82:
            ops.append("C")
            handles.append(True)
        elif r < 0.95:
            alive = [i for i, a in enumerate(handles) if a]
            if len(alive) > 1:
                i = rng.choice(alive)
                handles[i] = False
                ops.append("D:%d" % i)
    if sync and rng.random() < 0.3:
        # in the synchronous modes logging goes on after shutdown(): a later shutdown() or the drop of the last handle must
        # write out what was accepted in between
        ops += ["H", "SN"]
        for _ in range(rng.randint(1, 3)):
            ops.append("L:" + gl.hx(rng.choice("FSX") if rng.random() < 0.1 else "%c%d-%s" % (65 + n % 26, n, "x" * rng.choice([0, 3, 30]))))   # (a line that is just F or S: once the content of control messages)
            n += 1
    if rng.random() < 0.5:
        ops += ["H", "SN"]
    else:
        for i, a in enumerate(handles):
            if a:
                ops.append("D:%d" % i)
        ops.append("SN")
    return "lh %s %s %s %s ; %s" % (out, mode, rot, naming, " ".join(ops))


def corpus():
    h = gl.hx
    return ["lh file a2.16 ~ num ; L:%s C D:1 L:%s L:%s H SN" % (h("A0"), h("B1"), h("C2")),
            "lh file b4096 s20 num ; L:%s L:%s F SN C L:%s D:0 L:%s D:1 SN" % (h("A0-xxxxxxxxxxxx"), h("B1"), h("C2"), h("D3")),
            # flush() under contention (kind mt, the C03 machinery): while 4-6 threads keep the writer busy a further thread logs a
            # line, calls flush() and must find the line in the file at once
            "mt file b64 ~ num 4 200 16", "mt file b4096 ~ num 6 200 24", "mt file d ~ num 4 200 16", "mt file f64 ~ num 4 200 16"]


def compare(body, model, impl):
    return True if body.startswith("mt ") else model == impl      # (real interleavings: the oracle decides)


def generate(rng, tier):
    n = 400 if tier == "quick" else 20000
    return [gen(rng, tier) for _ in range(n)]


def search(rng, tier, disagreeing):
    return [gen(rng, "thorough") for _ in range(1000)]


def nontrivial(body, obs, ghost):
    if body.startswith("mt "):
        return True
    ops = body.split(" ; ", 1)[1].split(" ")
    for i, o in enumerate(ops):
        if o.startswith("D:") and any(x.startswith("L:") for x in ops[i:]):
            return True
    return body.split(" ")[2] in ("b4096", "f4096")


def features(body, obs, ghost):
    t = body.split(" ")
    if t[0] == "mt":
        return ["out=" + t[1], "mode=" + t[2][0], "flush-under-contention"]
    ops = body.split(" ; ", 1)[1].split(" ")
    return ["out=" + t[1], "mode=" + t[2][0], "rotation=%d" % (t[3] != "~"), "clones=%d" % min(3, ops.count("C")),
            "end=" + ("shutdown" if "H" in ops else "drop")]
