"""C07 - cleanup keeps exactly the newest files, compresses losslessly, spares the current file."""
import gen_flw as g

CLAIM = ('Proved in Coq for the model, END TO END for Numbers naming with KeepLogFiles / KeepCompressedFiles / '
         'KeepLogAndCompressedFiles and cleanup in the logging thread, every history of one run from an empty directory: in the '
         'end exactly rCURRENT, the newest n closed files (plain, as they were closed) and the next m (complete archives of '
         'exactly what the file held) exist, everything older is gone, and what survives is a suffix of what was written '
         '(C07_numbers_cleanup, C07_numbers_cleanup_vs_never; side condition, shown necessary by a counterexample in Coq: the '
         'suffix does not end in .gz; no bound on the number of rotations). The building blocks hold for every naming: (1) the '
         "listing the cleanup works on is a sorted permutation of the family's files under a total order (C07_listing_sorted) in "
         'which - for every suffix and every number of digits of the restart counter - a file written later under the same time '
         'stamp comes before the earlier ones, compressed or not (C07_listing_restart_order, C07_listing_plain_last; hypothesis: '
         'the suffix does not end in .gz); (2) without faults the cleanup keeps the first log_limit entries of that listing '
         'unchanged, turns the next compress_limit into archives with exactly the content of the files they replace, removes '
         'everything beyond, removes redundant archives first and touches nothing else (C07_cleanup_keeps_newest, '
         'C07_compress_lossless). For custom formats the end-to-end statement is decided per explored history by executable '
         'oracles defined in Coq (Oracles/O_Stream.v) on directory snapshots of the implementation after every flush and stop: '
         'the family files in reader order (archives decompressed) form a tail of the logged stream, the numbers of plain files '
         'and archives respect the limits, every archive is complete and is a segment of the logged stream, the file being '
         'written is plain (C07_tail_sound, C07_limits_sound: soundness of these oracles). The model (synchronous and queued '
         'background cleanup, compression step by step) is tied to the code by the correspondence check: partial. With cleanup '
         "in the background thread the same end-to-end statement holds under the model's and harness's scheduling, in which each "
         'request is finished before the next operation (C07_numbers_cleanup_bg). Also proved END TO END for NumbersDirect '
         'naming (cleanup in the logging thread): the file being written, r<L>, is entry 0 of the listing and counts for the '
         'first limit, which the code raises from 0 to 1 - this alone protects it -; in the end exactly the current file, the '
         'newest max(1,n)-1 closed files (plain) and the next m (complete archives of exactly what the file held) exist, the '
         'current file is never compressed or removed, and what survives is a suffix of what was written '
         '(C07_numbersdirect_cleanup, C07_numbersdirect_cleanup_vs_never, C07_numbersdirect_cleanup_no_panic; side condition '
         'shown necessary: suffix not ending in .gz). These proofs found a defect: the listing ordered number infixes as text, '
         'so from index 100000 on the cleanup took r99999 for the newest file and, with NumbersDirect naming, removed the file '
         'being written; confirmed on the code with a pre-seeded directory, repaired (d907c46: numeric order, '
         "C07_listing_number_order), the bound 'index below 100000' that the theorems needed is gone, and the failing "
         'directories are corpus cases. END TO END ALSO FOR THE TIME-STAMP NAMINGS (clock not going backwards): TimestampsDirect '
         'and Timestamps with rCURRENT, any of the three strategies: the listing the cleanup works on is exactly the keys '
         '(second, restart position) in descending order (C07_listing_key_order, C07_listing_ts); in the end exactly the current '
         'file, the newest plain files and the next complete archives of exactly what they replace exist, survivors are a suffix '
         'of what was written, closed / current are what the same history leaves without cleanup, and the oracles accept the '
         "reader's view (C07_timestampsdirect_cleanup, _no_panic, _vs_never, _oracles; C07_timestamps_cleanup, _no_panic, "
         "_vs_never, _oracles). These proofs found a defect: 'clock not going backwards' was necessary even for the last clause "
         '- after the clock is set back (the end of daylight saving time in local time) the TimestampsDirect file opened by the '
         'next rotation sorts behind its predecessors, and the cleanup, which protected the file being written only by its '
         'position in the listing, removed or compressed it; confirmed on the code (records lost silently), repaired (f4bce48: '
         'the cleanup is handed the current file and skips it), and now proved without any hypothesis on the clock or the order '
         'of the listing: C07_cleanup_spares_current (every world, listing order, limits, result) and C07_current_never_cleaned '
         '(every history of a TimestampsDirect writer with a cleanup strategy: the file being written exists, is plain and holds '
         "what was written to it since it was opened). What stays tied to the clock is the retention statement ('exactly the "
         "most recent ones'): time-stamp names order the files by their stamps. NumbersDirect with the background thread and "
         'with foreign files: C07_numbersdirect_cleanup_bg and C14. ')
THEOREMS = ["C07_numbers_cleanup", "C07_numbers_cleanup_vs_never", "C07_listing_sorted", "C07_listing_restart_order", "C07_listing_plain_last", "C07_compress_lossless", "C07_cleanup_keeps_newest", "C07_tail_sound", "C07_limits_sound", "C07_numbers_cleanup_bg", "C07_numbersdirect_cleanup", "C07_numbersdirect_cleanup_vs_never", "C07_numbersdirect_cleanup_no_panic", "C07_listing_number_order", "C07_listing_key_order", "C07_listing_ts", "C07_timestampsdirect_cleanup", "C07_timestampsdirect_cleanup_no_panic", "C07_timestamps_cleanup", "C07_timestamps_cleanup_no_panic", "C07_timestampsdirect_oracles", "C07_timestamps_oracles", "C07_timestampsdirect_cleanup_vs_never", "C07_timestamps_cleanup_vs_never", "C07_bg_worlds_numbersdirect_cleanup", "C07_numbersdirect_cleanup_bg", "C07_numbersdirect_cleanup_stream_bg", "C07_numbersdirect_cleanup_no_panic_bg", "C07_cleanup_spares_current", "C07_current_never_cleaned"]
TRUSTED = ["modelled, not verified: flate2 (validated by decompressing every archive), read_dir, the keyed sort of the listing (modelled as insertion sort by the same key), "
           "the background cleanup thread is modelled as a queue drained at shutdown (interleavings with rotations: not explored here)"]
ASSUMPTIONS = ["no I/O faults, no kill, no foreign files; the same cleanup strategy in all runs of a history"]
RULE = ("1-3 runs per case under the virtual clock with a cleanup strategy KeepLogFiles(0-3) / KeepCompressedFiles(0-2) / "
        "KeepLogAndCompressedFiles(0-2, 0-1), all namings incl. direct ones, suffixes log/trc/none, cleanup in the logging thread or in "
        "the background thread (checked after shutdown), several rotations by size, trigger and same-second bursts; non-trivial = the "
        "model removed or compressed at least one file; distinct = distinct case text")


VIA_LOGGER = 0.25   # share of the file-writer histories that is run once more through Logger / LoggerHandle


def corpus():
    out = []
    for naming in g.NAMINGS[:4]:
        for cl in ("l1", "g1", "b1.1", "l0"):
            c = g.Cfg(crit="s3", naming=naming, cleanup=cl)
            out.append("flw %d 0 ; B:%s %s F SN S SN" % (g.T0, c.token(), " ".join("W:" + g.hx(b"%c%d__\n" % (65 + i, i)) + (" K:1" if i % 2 else "") for i in range(6))))
    # fixed defect: number infixes above 99999 were sorted as text - the cleanup took r99999 for the newest file and, with
    # NumbersDirect naming, removed the file being written (with and without a fixed name part)
    for naming in ("numd", "num"):
        for base in (b"a", b""):
            for cl in ("l1", "g1", "b1.1"):
                c = g.Cfg(base=base, crit="s5", naming=naming, cleanup=cl)
                pre = ["XC:%s:0:%s" % (g.hx(c.name(b"r%05d" % i)), g.hx(b"old%d\n" % i)) for i in (99998, 99999)]
                out.append("flw %d 0 ; %s SN B:%s W:%s W:%s F SN W:%s F SN W:%s S SN" % (
                    g.T0, " ".join(pre), c.token(), g.hx(b"A0aaaa\n"), g.hx(b"B1\n"), g.hx(b"C2cccc\n"), g.hx(b"D3\n")))
    # (the regression case for fix f4bce48 - the clock set back under TimestampsDirect naming with cleanup - is in C10's corpus: there
    #  the correspondence decides; the C07 oracles read the files in the order of their time stamps, which a clock step breaks)
    return out


def gen(rng, tier):
    return g.gen_runs(rng, tier, cleanups=g.CLEANUPS, sfxs=(b"log", b"log", b"log", b"trc", None, b"log.txt"), bg=True,
                      crits=["s0", "s4", "s4", "s10", "xm4"], vary_append=True)


def generate(rng, tier):
    n = 500 if tier == "quick" else 30000
    return [gen(rng, tier) for _ in range(n)]


def search(rng, tier, disagreeing):
    return [gen(rng, "thorough") for _ in range(1500)]


def classify(body, impl, verdict):
    """no recorded finding is left for this property: every failure is reported"""
    return None


def nontrivial(body, obs, ghost):
    return "=1:" in obs or body.count(" W:") >= 4


def features(body, obs, ghost):
    toks = body.split(" ; ", 1)[1].split(" ")
    cfgs = [t[2:].split(",") for t in toks if t.startswith("B:")]
    return ["naming=" + cfgs[0][7].split(".")[0], "cleanup=" + cfgs[0][8], "sfx=" + cfgs[0][3], "runs=%d" % len(cfgs),
            "bg=%d" % any(c[11] == "1" for c in cfgs), "archives=%d" % min(3, obs.count("=1:"))]
