"""C09 - age criterion."""
import gen_flw as g

TZ_BY_OFFSET = True
CLAIM = ('Proved in Coq END TO END for the model, Numbers naming, Age and AgeOrSize criterion, every buffer capacity and append '
         'flag, EVERY history of writes / raw chunks / flushes / triggers / ticks of any sign from an empty directory: the '
         "rotation flag of every write is the oracle's decision (C09_numbers_age_flags), the files left are exactly the oracle's "
         'period partition of the timed history (C09_numbers_age_partition), and - stated without the oracle - every record of a '
         "file lies in the period of the file's start and consecutive files lie in different periods unless rotate() or the size "
         'limit separated them (C09_numbers_age_periods_pure, C09_numbers_age_or_size_periods_pure). Proved in Coq: the field- '
         'by-field comparison of broken-down local times that the age criterion makes equals the comparison of the numbers of '
         'the day / hour / minute / second the two instants lie in, for every pair of instants and every fixed zone offset '
         "(C09_period; rests on the proved bijection days <-> civil date); the executable oracle's partition keeps every file "
         "inside one period and never splits inside a period (C09_oracle_*). That the implementation's files are exactly this "
         'partition, for all namings, append-restarts, AgeOrSize and non-zero zone offsets, and that time-stamp-named files '
         'carry the instant their content was started, is decided by the correspondence check (virtual clock + creation-time '
         "hooks) plus the oracle applied to the implementation's directory; custom formats, append-restarts and sequences of "
         'runs under an age criterion are decided by oracle and correspondence only: partial there. Also proved END TO END for '
         "TimestampsDirect naming, any criterion, clock not going backwards: the rotation flag of every write is the oracle's "
         "decision (C09_timestampsdirect_age_flags), the files are the oracle's period partition and the time stamp in each "
         "file's name is the instant at which the file was started (C09_timestampsdirect_age_partition), which lies in the "
         'period of every record of the file (C09_timestampsdirect_name_in_period). Observation from that proof (not a '
         'violation: the property speaks of the local clock): with use_utc the names show UTC while the periods compared are '
         'local ones, so under a zone offset of 30 minutes two files named within one UTC hour can exist with Age::Hour '
         '(TsdAge.tsd_age_utc_names_local_periods). Likewise END TO END for NumbersDirect naming (clock may be set back: '
         'C09_numbersdirect_age_flags, C09_numbersdirect_age_partition, C09_numbersdirect_age_periods_pure) and for Timestamps '
         'naming with rCURRENT (clock not going backwards: C09_timestamps_age_flags, C09_timestamps_age_partition; a closed file '
         'is found under the time stamp of its START - its first record or the rotate() that started it -, not of its closing: '
         'C09_timestamps_name_is_start, C09_timestamps_name_in_period) - so all four standard namings are covered. For the time- '
         "stamp namings 'clock not going backwards' is needed: with the clock set back the flags are still the oracle's, but a "
         'reader who sorts by time stamp finds the files out of order (TsAge.ts_age_clock_set_back). ')
THEOREMS = ["C09_numbers_age_flags", "C09_numbers_age_partition", "C09_numbers_age_periods_pure", "C09_numbers_age_or_size_periods_pure", "C09_period", "C09_calendar_bijective", "C09_civil_roundtrip", "C09_rotation_iff_later_period", "C09_age_or_size", "C09_model_decision", "C09_timestampsdirect_age_flags", "C09_timestampsdirect_age_partition", "C09_timestampsdirect_name_in_period", "C09_numbersdirect_age_flags", "C09_numbersdirect_age_partition", "C09_numbersdirect_age_periods_pure", "C09_timestamps_age_flags", "C09_timestamps_age_partition", "C09_timestamps_name_is_start", "C09_timestamps_name_in_period"]
TRUSTED = ["modelled, not verified: chrono's conversion of instants to local broken-down time (validated: file names are direct outputs), "
           "the file system's creation times (replaced by the virtual clock through the hooks)"]
ASSUMPTIONS = ["fixed zone offset per process (DST transitions are outside the model)", "no I/O faults, single thread"]
RULE = ("one run per case under the virtual clock: start instant near a second/minute/hour/day/month/year boundary, writes separated by "
        "ticks of 0 s, 1 s, one unit +-1 s, several units; Age in {Second, Minute, Hour, Day}, AgeOrSize; all namings; zone offsets 0, "
        "+3 h, -9:30 h (one harness process per offset, TZ set); append-restarts onto a current file from an earlier or the same period; "
        "non-trivial = the model rotated at least once because of the age; distinct = distinct case text")

BOUNDARIES = [g.T0, 1709251140, 1709247600 + 3598, 1704067198, 1711929598, 1709164798, 951782398, 1740787198]
OFFSETS = [0, 0, 10800, -34200]


def gen_history(rng, tier):
    off = rng.choice(OFFSETS)
    age = rng.choice("dhms")
    unit = {"d": 86400, "h": 3600, "m": 60, "s": 1}[age]
    naming = rng.choice(g.NAMINGS)
    lim = rng.choice([5, 20, 1000])
    crit = rng.choice(["a" + age, "a" + age, "x%s%d" % (age, lim)])
    cfg = g.Cfg(crit=crit, naming=naming, cap=rng.choice([None, None, 8, 64]), append=rng.random() < 0.25,
                sfx=rng.choice([b"log", b"log", b"trc"]), utc=rng.random() < 0.1)
    t0 = rng.choice(BOUNDARIES) - off + rng.choice([0, 0, 1, -1, -unit])
    ops, ann = [], {}
    if cfg.append and naming in ("num", "ts") and rng.random() < 0.8:
        # a current file from an earlier (or the same) period
        start = b"old\n"
        back = rng.choice([0, 1, unit, unit * 3])
        ops += ["XC:%s:0:%s" % (g.hx(cfg.name(b"rCURRENT")), g.hx(start)), "K:%d" % back]
        ann = {"start": g.hx(start), "startt": str(t0)}
    ops.append("B:" + cfg.token())
    for i in range(rng.randint(1, 7 if tier == "quick" else 14)):
        r = rng.random()
        if r < 0.55:
            ops.append("W:" + g.hx(g.record(rng, cfg, rng.choice([1, 3, 6, 12]), i)))
        elif r < 0.6:
            ops.append("T")
        elif r < 0.65:
            ops.append("F")
        else:
            ops.append("K:%d" % rng.choice([0, 1, 1, 2, unit - 1, unit, unit + 1, 2 * unit, 59, 60, 3600, 86400, 86400 * 30]))
    ops += ["S", "SN"]
    pre = " ".join("%s=%s" % kv for kv in ann.items())
    return "flw %d %d %s ; %s" % (t0, off, pre, " ".join(ops))


def corpus():
    out = []
    for naming in g.NAMINGS[:5]:
        for age, unit in (("s", 1), ("m", 60), ("h", 3600), ("d", 86400)):
            cfg = g.Cfg(crit="a" + age, naming=naming)
            # 2024-02-29 23:59:58: two writes in one period, one in the next, a long gap, two more
            out.append("flw %d 0 ; B:%s W:%s K:1 W:%s K:1 W:%s K:%d W:%s W:%s S SN" % (
                g.T0, cfg.token(), g.hx(b"a\n"), g.hx(b"b\n"), g.hx(b"c\n"), 5 * unit, g.hx(b"d\n"), g.hx(b"e\n")))
    cfg = g.Cfg(crit="ad", naming="ts")
    out.append("flw %d 10800 ; B:%s W:%s K:3600 W:%s S SN" % (1709240400 - 10800 - 1800, cfg.token(), g.hx(b"a\n"), g.hx(b"b\n")))
    return out


def generate(rng, tier):
    n = 800 if tier == "quick" else 30000
    return [gen_history(rng, tier) for _ in range(n)]


def search(rng, tier, disagreeing):
    return [gen_history(rng, "thorough") for _ in range(2000)]


def nontrivial(body, obs, ghost):
    return "+" in ghost


def features(body, obs, ghost):
    toks = body.split(" ; ", 1)[1].split(" ")
    b = next(t for t in toks if t.startswith("B:"))
    c = b[2:].split(",")
    return ["naming=" + c[7].split(".")[0], "crit=" + c[6][:2], "off=" + body.split(" ")[2], "append=" + c[4],
            "rotations=%d" % min(4, ghost.count("+"))]
