"""C15 - file contents do not depend on the write mode; raw byte chunks pass unchanged."""
import gen_flw as g

CLAIM = ('Proved in Coq for the model (Numbers naming, size criterion): the files left after stop are the greedy partition of '
         'the written records and chunks, a function of the operation sequence alone - hence identical for Direct and for every '
         'buffer capacity (C15_modes_numbers, a corollary of C08_partition_numbers), and the stream is exactly the concatenation '
         'of the chunks (C15_raw_numbers, from C01). For custom formats and the age criteria across buffer capacities the '
         'property is decided per explored history: the same operation sequence is run through Direct, BufferDontFlush(c) and '
         'Async{pool, message capacity} on the implementation and the three final directories must be identical (names and '
         "bytes), and equal to the model's; raw chunks include empty chunks, chunks without line ending, every single byte "
         'value, the former control contents "F" and "S", and chunks larger than any buffer. The asynchronous writer thread is '
         'made deterministic for this comparison by schedule points (each message is worked off before the next operation): real '
         "interleavings are the subject of C03. Asynchronous mode (proved, under the model's and harness's scheduling in which "
         'the writer thread consumes each message before the next operation): for ANY configuration the asynchronous run passes '
         'through exactly the same worlds as the synchronous run of the same history as long as that one returns normal results, '
         'observations equal up to the rotation flag, which the asynchronous caller never sees (C15_async_simulates_sync); for '
         'Numbers naming unconditionally: same worlds at every point, same final files across Direct / Buffered / Async '
         '(C15_worlds_numbers_async, C15_modes_numbers_async, C15_raw_numbers_async, C15_async_observations). THE OTHER NAMINGS '
         '(proved): for NumbersDirect, TimestampsDirect and Timestamps naming with a size criterion two configurations that '
         'differ only in the write mode - Direct, buffered with any capacity, asynchronous with any pool - leave the same '
         'directory (same names, kinds and contents; for the time-stamp namings the names are computed as a function of limit, '
         'start time and history: C15_modes_numbersdirect, C15_modes_timestampsdirect, C15_modes_timestamps, '
         'C15_same_directory_*); in asynchronous mode stream, partition and observations are those of the synchronous run '
         '(C15_raw_*_async, C15_partition_*_async, C15_async_observations_*, C15_worlds_timestampsdirect_async: identical worlds '
         'for any criterion at the same capacity). Across different capacities the age criteria are not proved (the creation '
         'time of the current file is not in the invariants): decided by the comparison runs. ')
THEOREMS = ["C15_modes_numbers", "C15_raw_numbers", "C15_modes_numbers_async", "C15_raw_numbers_async", "C15_worlds_numbers_async", "C15_async_simulates_sync", "C15_async_observations", "C15_modes_numbersdirect", "C15_modes_timestampsdirect", "C15_modes_timestamps", "C15_raw_numbersdirect_async", "C15_partition_numbersdirect_async", "C15_raw_timestampsdirect_async", "C15_partition_timestampsdirect_async", "C15_raw_timestamps_async", "C15_partition_timestamps_async", "C15_async_observations_numbersdirect", "C15_async_observations_timestampsdirect", "C15_async_observations_timestamps", "C15_worlds_timestampsdirect_async", "C15_same_directory_numbersdirect", "C15_same_directory_timestampsdirect", "C15_same_directory_timestamps"]
TRUSTED = ["modelled, not verified: BufWriter, crossbeam channel (FIFO), the buffer pool; the async writer thread is synchronised with the "
           "caller through the schedule-point hooks during the correspondence runs"]
ASSUMPTIONS = ["single logging thread; with an age criterion the asynchronous mode reads the clock when the message is consumed - "
               "the runs consume each message before the clock is advanced"]
RULE = ("triples of cases: one operation sequence (records, raw chunks, flushes, triggers, clock ticks) through Direct, "
        "BufferDontFlush(1..200) and Async{pool 1-3, message capacity 4-64}; all namings; size / age / no rotation; non-trivial = at "
        "least one raw chunk and one rotation, or a chunk equal to F or S; distinct = distinct case text")

SPECIAL = [b"F", b"S", b"", b"\n", b"\x00", b"\xff", b"FS", b"x" * 300, b"no newline", "é".encode(), b"\r\n", b"F\n"]


def gen_triple(rng, tier):
    naming = rng.choice(g.NAMINGS)
    crit = rng.choice(["s%d" % rng.choice([0, 5, 20]), "s%d" % rng.choice([5, 20]), "as", None])
    base = dict(crit=crit, naming=naming, append=rng.random() < 0.2, crlf=rng.random() < 0.2)
    ops = []
    n = 0
    for _ in range(rng.randint(2, 9 if tier == "quick" else 16)):
        r = rng.random()
        if r < 0.4:
            e = b"\r\n" if base["crlf"] else b"\n"
            # the text of a record can be anything: empty, multi-line, or itself ending in the line ending
            txt = rng.choice([b"%c%d" % (65 + n % 26, n)] * 4 + [b"", e, b"%c%d" % (65 + n % 26, n) + e, b"m\nl" + e, b"x" * 70])
            ops.append("W:" + g.hx(txt + e))
            n += 1
        elif r < 0.75:
            if rng.random() < 0.5:
                ch = rng.choice(SPECIAL)
            else:
                ch = bytes([rng.randrange(256)]) * rng.choice([1, 1, 2, 7])
            ops.append("P:" + g.hx(ch))
        elif r < 0.81:
            ops.append("F")
        elif r < 0.85:
            ops.append("R")      # reopen_outputfile() with the file in place: what is counted and buffered must not depend on the mode
        elif r < 0.93 and crit:
            ops.append("T")
        else:
            ops.append("K:%d" % rng.choice([1, 2, 60]))
    # LogWriter::shutdown() with the writer kept alive (the handle of try_build_with_handle() dropped, a FileLogWriter
    # registered as additional writer): everything must be in the files right after it, in every mode
    tail = "H SN " if rng.random() < 0.35 else ""
    out = []
    for cap in (None, rng.choice([1, 3, 8, 64, 200]), "a%d.%d" % (rng.choice([1, 2, 3]), rng.choice([4, 16, 64]))):
        cfg = g.Cfg(cap=cap, **base)
        # (not in asynchronous mode: there shutdown() ends the writer thread, and the harness would wait for an answer to the
        #  second shutdown message at the drop)
        out.append("flw %d 0 ; B:%s %s %sS SN" % (g.T0, cfg.token(), " ".join(ops), "" if isinstance(cap, str) else tail))
    return out


def corpus():
    out = []
    for cap in (None, 8, "a2.8"):
        c = g.Cfg(cap=cap, crit="s6", naming="num")
        out.append("flw %d 0 ; B:%s W:%s W:%s P:%s P:%s W:%s T P:%s W:%s P:%s F S SN" % (
            g.T0, c.token(), g.hx(b"A0__\n"), g.hx(b"B1__\n"), g.hx(b"CC"), g.hx(b"F"), g.hx(b"D3__\n"), g.hx(b"S"), g.hx(b"E4__\n"), g.hx(b"G")))
    return out


def generate(rng, tier):
    n = 300 if tier == "quick" else 12000
    out = []
    for _ in range(n):
        out += gen_triple(rng, tier)
    return out


def search(rng, tier, disagreeing):
    out = []
    for _ in range(600):
        out += gen_triple(rng, "thorough")
    return out


def final_snapshot(obs):
    toks = [t for t in obs.split(" ") if t.startswith("s{")]
    return toks[-1] if toks else None


def after_shutdown(body, obs):
    """the snapshot taken right after the shutdown operation H"""
    ops = [t for t in body.split(" ; ", 1)[1].split(" ") if t]
    res = [t for t in obs.split(" ") if t]
    for k in range(len(ops) - 1):
        if ops[k] == "H" and ops[k + 1] == "SN" and k + 1 < len(res):
            return res[k + 1]
    return None


def oracle_all(cases, model, impl):
    out = {}
    for i in range(0, len(cases) - 2, 3):
        ids = [cases[i + k][0] for k in range(3)]
        snaps = [final_snapshot(impl.get(x, "")) for x in ids]
        results = [impl.get(x, "") for x in ids]
        v = "pass"
        if any(s is None for s in snaps):
            v = "fail observation-shape"
        elif any("r2" in r.split(" ") for r in results):
            v = "fail an-operation-panicked"
        elif snaps[0] != snaps[1]:
            v = "fail buffered-mode-leaves-other-files-than-direct-mode direct=%s buffered=%s" % (snaps[0][:300], snaps[1][:300])
        elif " H SN " in (" " + cases[i][1]) and " H SN " in (" " + cases[i + 1][1]) and after_shutdown(cases[i][1], results[0]) != after_shutdown(cases[i + 1][1], results[1]):
            # right after shutdown() - the writer is still alive - the buffered mode must have written out what Direct has
            v = "fail after-shutdown-buffered-mode-has-other-files-than-direct-mode direct=%s buffered=%s" % (
                str(after_shutdown(cases[i][1], results[0]))[:300], str(after_shutdown(cases[i + 1][1], results[1]))[:300])
        elif snaps[0] != snaps[2]:
            v = "fail async-mode-leaves-other-files-than-direct-mode direct=%s async=%s" % (snaps[0][:300], snaps[2][:300])
        for x in ids:
            out[x] = v
    for j in range(len(cases) - len(cases) % 3, len(cases)):
        out[cases[j][0]] = "skip unpaired"
    return out


def nontrivial(body, obs, ghost):
    return (" P:" in body and ("+" in ghost or " T" in body)) or " P:46 " in body or " P:53 " in body


def features(body, obs, ghost):
    toks = body.split(" ; ", 1)[1].split(" ")
    c = toks[0][2:].split(",")
    mode = "direct" if c[5] == "~" else "async" if c[5].startswith("a") else "buffered"
    return ["mode=" + mode, "naming=" + c[7].split(".")[0], "crit=" + (c[6][:1] if c[6] != "~" else "none"),
            "chunks=%d" % min(6, sum(t.startswith("P:") for t in toks))]
