#!/usr/bin/env python3
"""tools/seed_eval.py <name> <worktree> <property> : stores a confirmed seeded change under seeded/<name>/, applies it to
/repo, runs every registered check once (quick), records which ones report it, and restores /repo."""
import json, os, shutil, subprocess, sys, re
VERIF = os.path.dirname(os.path.dirname(os.path.abspath(__file__)))
name, wt, prop = sys.argv[1], sys.argv[2], sys.argv[3]
dst = os.path.join(VERIF, "seeded", name)
os.makedirs(dst, exist_ok=True)
for f in ("patch.diff", "SEEDED.md"):
    if os.path.exists(os.path.join(wt, f)):
        shutil.copy(os.path.join(wt, f), dst)
demo = os.path.join(wt, "tests", "seeded_demo.rs")
if os.path.exists(demo):
    shutil.copy(demo, dst)
st = subprocess.run("git -C /repo status --porcelain", shell=True, stdout=subprocess.PIPE).stdout.decode().strip()
assert st == "", "/repo is not clean: " + st
r = subprocess.run(["git", "-C", "/repo", "apply", os.path.join(dst, "patch.diff")], stdout=subprocess.PIPE, stderr=subprocess.STDOUT)
if r.returncode != 0:
    print("patch does not apply:", r.stdout.decode())
    sys.exit(1)
man = json.load(open(os.path.join(VERIF, "MANIFEST.json")))
results = {}
try:
    only = os.environ.get("CHECKS", "").split()     # optional: evaluate against these checks only (recorded in meta.json)
    for c in man["checks"]:
        pid = c["property_id"]
        if only and pid not in only:
            continue
        p = subprocess.run(["./check", pid, "--tier", "quick"], cwd=VERIF, stdout=subprocess.PIPE, stderr=subprocess.STDOUT)
        out = p.stdout.decode()
        last = [l for l in out.split("\n") if l.startswith(pid + " quick")]
        viol = [l for l in out.split("\n") if l.startswith("VIOLATION")]
        results[pid] = {"exit": p.returncode, "violation": viol[0] if viol else None, "summary": last[-1] if last else out[-300:]}
        print(pid, p.returncode, (viol[0] if viol else "")[:120])
finally:
    subprocess.run("git -C /repo checkout -- .", shell=True)
caught = [p for p, r in results.items() if r["exit"] != 0]
meta = {"name": name, "property": prop, "patch": "patch.diff", "demonstration": "seeded_demo.rs",
        "needs": "see SEEDED.md", "confirmed": "tools/seed_confirm.sh: demo fails with the change, passes without, full suite passes with it",
        "checks_run": sorted(results), "checks_reporting_it": caught,
        "with_failing_input": [p for p in caught if results[p]["violation"] and "no-failing-input-found" not in results[p]["violation"]],
        "results": results}
json.dump(meta, open(os.path.join(dst, "meta.json"), "w"), indent=1)
print("caught by:", caught)
