"""Generators of file-writer histories (case kind `flw`)."""

T0 = 1709251198  # 2024-02-29 23:59:58 UTC


def hx(b):
    if isinstance(b, str):
        b = b.encode()
    return b.hex() if b else "-"


def ohx(b):
    return "~" if b is None else hx(b)


class Cfg:
    def __init__(self, base=b"a", disc=None, ts=False, sfx=b"log", append=False, cap=None, crit=None, naming="num",
                 cleanup="n", utc=False, link=False, bg=False, crlf=False):
        self.__dict__.update(locals())
        del self.__dict__["self"]

    def token(self):
        # ts: True / False, or "d" / "D" = the FileSpec leaves it undecided (then a start time is used exactly if there is no
        # rotation); "D": the Logger is told about the rotation before it gets the FileSpec
        return ",".join([hx(self.base), ohx(self.disc), self.ts if self.ts in ("d", "D") else ("1" if self.ts else "0"), ohx(self.sfx),
                         "1" if self.append else "0", "~" if self.cap is None else str(self.cap),   # cap: int, or "a<pool>.<msg>" (async)
                         self.crit or "~", self.naming, self.cleanup, "1" if self.utc else "0",
                         "1" if self.link else "0", "1" if self.bg else "0", "1" if self.crlf else "0"])

    def ending(self):
        return b"\r\n" if self.crlf else b"\n"

    def fixed(self):
        f = self.base
        if self.disc is not None:
            f = (f + b"_" if f else b"") + self.disc
        return f

    def name(self, infix):
        f = self.fixed()
        if infix:
            f = (f + b"_" if f else b"") + infix
        if self.sfx is not None:
            f = f + b"." + self.sfx
        return f


def custom_naming(cur, fmt):
    return "cu.%s.%s" % (ohx(cur), hx(fmt))


NAMINGS = ["num", "numd", "ts", "tsd", custom_naming(b"rNOW", b"r%Y-%m-%d_%H-%M-%S"),
           custom_naming(None, b"r%Y%m%d-%H%M%S"), custom_naming(b"rCUR", b"r%Y-%m-%d"),
           # a direct naming whose format is coarser than a second: files of one day differ by the restart counter only
           custom_naming(None, b"r%Y-%m-%d")]


def record(rng, cfg, length, tag):
    """a line of exactly `length` bytes including the line ending (at least the ending)"""
    e = cfg.ending()
    n = max(length, len(e))
    body = bytes([97 + (tag % 26)]) * (n - len(e))
    return body + e


def sizes_around(rng, lim):
    c = [0, 1, 2, lim - 1, lim, lim + 1, lim + 2, 2 * lim + 1, 3 * lim + 7, lim // 2]
    return max(0, rng.choice(c))


def gen_size_history(rng, tier, with_trigger=True, with_append=True, namings=None, allow_ticks=True):
    """one run: [pre-existing current file] B, writes around the limit, flushes/triggers, S SN"""
    lim = rng.choice([0, 1, 5, 10, 10, 17, 40])
    naming = rng.choice(namings or NAMINGS)
    crlf = rng.random() < 0.25
    cap = rng.choice([None, None, 1, 2, max(1, lim - 1), max(1, lim), lim + 1, 8, 64, 200])
    crit = rng.choice(["s%d" % lim, "s%d" % lim, "xd%d" % lim])
    append = with_append and rng.random() < 0.3
    cfg = Cfg(append=append, cap=cap, crit=crit, naming=naming, crlf=crlf,
              base=rng.choice([b"a", b"app", b"my-prog", b""]), disc=rng.choice([None, None, b"d1"]),
              sfx=b"log")
    # (an empty fixed name part - no basename, no discriminant - is a legal configuration: the files are r00000.log ...)
    ops, ann = [], {}
    if append and naming in ("num", "ts") and rng.random() < 0.7:
        start = b"s" * sizes_around(rng, lim)
        ops.append("XC:%s:0:%s" % (hx(cfg.name(b"rCURRENT")), hx(start)))
        ann["start"] = hx(start)
    ops.append("B:" + cfg.token())
    n = rng.randint(0, 6 if tier == "quick" else 12)
    for i in range(n):
        r = rng.random()
        if r < 0.70:
            b = record(rng, cfg, sizes_around(rng, lim), i)
            ops.append("W:" + hx(b))
        elif r < 0.80:
            ops.append("P:" + hx(bytes([65 + i % 26]) * sizes_around(rng, lim)))
        elif r < 0.88:
            ops.append("F")
        elif r < 0.92 and with_trigger:
            ops.append("T")
        elif r < 0.95 and with_trigger:
            ops.append("R")      # reopen_output with the file in place: the size accounting must go on unchanged
        elif allow_ticks and crit.startswith("s"):
            ops.append("K:%d" % rng.choice([1, 1, 2, 61]))
        if rng.random() < 0.1:
            ops.append("F")
            ops.append("SN")
    ops += ["S", "SN"]
    pre = " ".join("%s=%s" % kv for kv in ann.items())
    return "flw %d 0 %s ; %s" % (T0, pre, " ".join(ops))


def exhaustive_size_histories(lim, naming, cap, alphabet, maxlen):
    """all sequences over `alphabet` (op tokens) up to maxlen, one run each"""
    cfg = Cfg(cap=cap, crit="s%d" % lim, naming=naming)
    out = []

    def rec(prefix):
        out.append("flw %d 0 ; B:%s %s S SN" % (T0, cfg.token(), " ".join(prefix)))
        if len(prefix) < maxlen:
            for a in alphabet:
                rec(prefix + [a])
    rec([])
    return out


CLEANUPS = ["l0", "l1", "l2", "l3", "g0", "g1", "g2", "b0.1", "b1.1", "b2.1", "b1.0", "b0.0"]


def gen_runs(rng, tier, cleanups=("n",), namings=None, sfxs=(b"log",), bg=False, preseed=0.0, max_runs=3, crits=None, vary_append=True, offs=(0,), utc_p=0.0):
    """several runs of a writer on one file specification: B .. S SN B .. S SN
    (offs: zone offsets to choose from - the check must then set TZ_BY_OFFSET; utc_p: share of histories with use_utc)"""
    naming = rng.choice(namings or NAMINGS)
    off = rng.choice(offs)
    utc = rng.random() < utc_p
    lim = rng.choice([0, 4, 10, 25])
    crit = rng.choice(crits or ["s%d" % lim, "s%d" % lim, "as", "xm%d" % lim])
    cleanup = rng.choice(cleanups)
    base = rng.choice([b"a", b"app", b"", b"a.restart-7"])
    disc = rng.choice([None, None, b"d1"])
    sfx = rng.choice(sfxs)
    append0 = rng.random() < 0.5
    ops = []
    t0 = T0 - rng.choice([0, 0, 1, 30, 86000])
    rec_no = 0
    cfg0 = Cfg(base=base, disc=disc, sfx=sfx, crit=crit, naming=naming, cleanup=cleanup, utc=utc)
    if rng.random() < preseed:
        # a directory as an earlier run (or a crash) may have left it
        kind = rng.choice(["gz-only", "gap", "no-current", "plain"])
        idxs = {"gz-only": [3, 7], "gap": [0, 2, 5], "no-current": [0, 1], "plain": [0]}[kind]
        if naming in ("ts", "tsd"):
            # restart siblings of the first time stamp of this history, around the point where the counter outgrows four digits
            import datetime
            infix = datetime.datetime.utcfromtimestamp(t0 + (0 if utc else off)).strftime("r%Y-%m-%d_%H-%M-%S").encode()
            for cnt in rng.choice([[9998, 9999], [9999, 10000], [9, 10000, 10001], [99999], [0]]):
                nm = cfg0.name(infix + b".restart-%04d" % cnt)
                ops.append("XC:%s:0:%s" % (hx(nm), hx(b"old%d\n" % cnt)))
            idxs = []
        for i in idxs:
            if naming in ("num", "numd"):
                nm = cfg0.name(b"r%05d" % i)
            else:
                continue
            if kind == "gz-only" or (kind == "gap" and i == 0 and cleanup[0] in "gb"):
                ops.append("XC:%s:1:%s" % (hx(nm + b".gz"), hx(b"old%d\n" % i)))
            else:
                ops.append("XC:%s:0:%s" % (hx(nm), hx(b"old%d\n" % i)))
        if kind != "no-current" and naming == "num" and rng.random() < 0.5:
            ops.append("XC:%s:0:%s" % (hx(cfg0.name(b"rCURRENT")), hx(b"cur\n")))
        if ops:
            ops.append("SN")
    for run in range(rng.randint(1, max_runs)):
        cfg = Cfg(base=base, disc=disc, sfx=sfx, crit=crit, naming=naming, cleanup=cleanup, utc=utc,
                  append=(rng.random() < 0.5) if vary_append else append0, cap=rng.choice([None, None, 6, 32]),
                  # (with a suffix that sorts after "restart-" the cleanup can hit the file being written - known finding
                  #  S1 -, which races with the writing thread when it runs in the background: keep that deterministic)
                  bg=bg and rng.random() < 0.5 and (sfx is None or sfx <= b"restart-"))
        ops.append("B:" + cfg.token())
        for _ in range(rng.randint(0, 6 if tier == "quick" else 10)):
            r = rng.random()
            if r < 0.6:
                ops.append("W:" + hx(b"%c%d\n" % (65 + rec_no % 26, rec_no)))
                rec_no += 1
            elif r < 0.75:
                ops.append("T")
            elif r < 0.85:
                ops.append("K:%d" % rng.choice([1, 1, 2, 60]))
            else:
                ops += ["F", "SN"]
        ops += ["S", "SN"]
        if rng.random() < 0.5:
            ops.append("K:%d" % rng.choice([1, 1, 5, 3600]))
    return "flw %d %d ; %s" % (t0, off, " ".join(ops))


def same_second_rotations(toks):
    """two events that can rotate (a write, a trigger, a start) not separated by a clock tick"""
    n = 0
    for t in toks:
        if t.startswith("K:") and not t.startswith("K:0"):
            n = 0
        elif t[0] in "WTB":
            n += 1
            if n >= 2:
                return True
    return False


def s1_class(cfg_fields, toks):
    """known finding S1: time-stamp naming, a suffix that sorts after 'restart-', several rotations within one second"""
    c = cfg_fields
    return (c[7].split(".")[0] in ("ts", "tsd", "cu") and c[3] != "~" and bytes.fromhex(c[3]) > b"restart-"
            and same_second_rotations(toks))
