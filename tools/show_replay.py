#!/usr/bin/env python3
"""prints a replay file with hex tokens decoded (debugging aid)"""
import json, re, sys, glob, os
def dec(s):
    def r(m):
        try:
            t = bytes.fromhex(m.group(0)).decode('utf-8')
            return t.replace('\n', '\\n') if all(31 < ord(c) or c == '\n' for c in t) else m.group(0)
        except Exception:
            return m.group(0)
    return re.sub(r'(?<![0-9a-zA-Z])(?:[0-9a-f]{2}){2,}(?![0-9a-zA-Z])', r, s)
p = sys.argv[1]
if os.path.isdir(p):
    p = sorted(glob.glob(p + '/*.json'), key=os.path.getmtime)[-1]
d = json.load(open(p))
n = int(sys.argv[2]) if len(sys.argv) > 2 else 4
print(p, d.get('kind'))
keys = list(d.get('oracle') or d.get('model') or [])
for i, c in enumerate(keys[:n]):
    print('##', (d.get('oracle') or {}).get(c, ''))
    print(' C', dec(d['cases'][i])[:900])
    print(' M', dec(d['model'][c])[-700:])
    print(' I', dec(d['implementation'][c])[-700:])
for b in d.get('broken', []):
    print('BROKEN', b.get('kind'), b.get('what'))
