#!/usr/bin/env python3
"""Regenerates /verif/MANIFEST.json from the table below (run after adding a check)."""
import json, os, subprocess

VERIF = os.path.dirname(os.path.dirname(os.path.abspath(__file__)))

NOTE_COMMON = ("Trusted: Coq 8.16.1 kernel + VM; extraction (ExtrOcamlBasic only) and the hand-written OCaml driver; "
               "the correspondence check (Rust harness on /repo's public API with hooks on, generators, canonicalisation) "
               "which ties the hand-written model to the code on a finite sample; std/OS/chrono/flate2 semantics are modelled, "
               "not verified. Theorem axioms: see evidence trusted_base (Print Assumptions).")

# id -> (level text, technique, design section, extra note)
CLAIMS = {
}

NOT_YET = "not yet built (work in progress; see DESIGN.md section 10)"
NA = {}


def load_claims():
    import importlib, sys
    sys.path.insert(0, os.path.join(VERIF, "tools"))
    out = {}
    for i in range(1, 21):
        pid = "C%02d" % i
        try:
            mod = importlib.import_module("props." + pid)
        except ImportError:
            continue
        if getattr(mod, "CLAIM", None):
            out[pid] = mod
    return out


def main():
    claims = load_claims()
    hooks = subprocess.run("git -C /repo log --format=%H --grep='^verif hooks\?:'", shell=True, stdout=subprocess.PIPE).stdout.decode().split()
    checks, na = [], []
    for i in range(1, 21):
        pid = "C%02d" % i
        if pid in claims:
            m = claims[pid]
            checks.append({
                "property_id": pid,
                "quick_cmd": "./check %s --tier quick" % pid,
                "thorough_cmd": "./check %s --tier thorough" % pid,
                "evidence_file": "evidence/%s.json" % pid,
                "replay_cmd_template": "./check %s --replay {path}" % pid,
                "engine": "coq-model+correspondence",
                "level_claimed": {"category": "proof", "text": m.CLAIM, "design_ref": "DESIGN.md section 6 (%s)" % pid},
                "level_note": NOTE_COMMON + " " + getattr(m, "NOTE", ""),
                "technique": getattr(m, "TECHNIQUE", "machine-checked proof in Coq over a hand-written executable model; "
                                                   "model tied to the code by differential execution (correspondence check); "
                                                   "verified oracle applied to the implementation's observations"),
            })
        else:
            na.append({"property_id": pid, "reason": NA.get(pid, NOT_YET)})
    man = {
        "version": 1,
        "setup_cmd": "./setup.sh",
        "hooks": {
            "guard": "--cfg flexi_logger_verif",
            "enable": "harness/.cargo/config.toml sets rustflags = [\"--cfg\", \"flexi_logger_verif\"]; the harness crate has a path dependency on /repo and is rebuilt by every check",
            "baseline_off_cmd": "cd /repo && cargo test --workspace --no-fail-fast --offline",
            "source_commits": hooks,
            "add_only": True,
        },
        "engines": [{"name": "coq-model+correspondence", "path": "check",
                     "serves_properties": sorted(claims.keys()),
                     "kind_free_text": "Coq 8.16.1 development under coq/ (model, theorems, oracles), extracted to OCaml (ocaml/driver); "
                                       "Rust harness (harness/) runs the same cases on /repo; tools/ generate cases, diff, write evidence"}],
        "checks": checks,
        "not_applicable": na,
        "notes": "One entry point: ./check <ID> [--tier quick|thorough] [--replay file]. See DESIGN.md.",
    }
    with open(os.path.join(VERIF, "MANIFEST.json"), "w") as f:
        json.dump(man, f, indent=1)
        f.write("\n")
    print("MANIFEST.json: %d checks, %d not applicable / not yet built" % (len(checks), len(na)))


if __name__ == "__main__":
    main()
