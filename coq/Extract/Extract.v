(* Extraction of the executable model for the correspondence check.  ExtrOcamlBasic only. *)
Require Import ExtrOcamlBasic.
Require Import FL.Base.PathName FL.Base.Bytes FL.Fs.Fs FL.Time.Civil FL.Time.TsFormat FL.Names.FileSpec FL.Flw.Model FL.Flw.Run FL.Oracles.O_Flw FL.Oracles.ReaderOrder FL.Oracles.O_Age FL.Oracles.O_Stream FL.Oracles.O_Names FL.LogSpec.Spec FL.LogSpec.Dispatch FL.LogSpec.LRun FL.Conc.CModel.
Extraction Language OCaml.
Extraction "model.ml" run sys0 std_fmt oracle_C08 oracle_C01 family_in_order crun cinit code_fixed schedule_of done_b cspec cgate max_level file_stem extension name_documented oracle_listing current_name expected_listing oracle_tail oracle_all oracle_limits oracle_current_plain oracle_tiles stream_of oracle_C09_partition tpartition crit_parts expected_ts_infix reader_order full_infix split_restart fixed_name_part cur_infix_of run_spec run_builder lrun new_logger spec_of_string.
