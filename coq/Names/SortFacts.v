(* The listing order of read_dir_related_files (sort_key / key_le / sort_by_key in FileSpec.v):
   1. key_le is a total order on names (reflexive, total, transitive, antisymmetric);
   2. sort_by_key yields a sorted permutation;
   3. THE NAMING THEOREM: the order agrees with the order in which the logger creates the files of one infix -
      the file without restart counter first, then the restart counters numerically, whatever the suffix is,
      however many digits the counter has, whether or not the files are compressed, and whatever the fixed name
      part and the infix contain (the sort key reads the counter behind the LAST ".restart-" of the stem);
   4. hence in the listing (newest first) a higher restart counter comes before a lower one;
   5. THE NUMBER INFIX: names  <head>_r<digits>  with the same head are ordered by the NUMBER, however many digits it
      has (r99999 before r100000), compressed or not; the number is the one behind the LAST "_r" of the main part - or,
      in a main part without any "_r" (no basename, no discriminant), behind the leading "r". *)
Require Import FL.Base.Bytes FL.Base.BytesFacts FL.Base.PathName FL.Fs.Fs FL.Names.FileSpec FL.Names.NamesFacts.
From Coq Require Import ZifyN ZifyNat ZifyBool Permutation Sorted.
Open Scope N_scope.

(* ------------------------------------------------------------------------------------------------------ *)
(* 0. boolean orders                                                                                        *)

Record order {A} (eqb le : A -> A -> bool) : Prop := {
  o_eq      : forall a b, eqb a b = true <-> a = b;
  o_refl    : forall a, le a a = true;
  o_total   : forall a b, le a b = true \/ le b a = true;
  o_trans   : forall a b c, le a b = true -> le b c = true -> le a c = true;
  o_antisym : forall a b, le a b = true -> le b a = true -> a = b }.

(* lexicographic product: first component decides unless equal *)
Definition lexc {A B} (eqa lea : A -> A -> bool) (leb : B -> B -> bool) (p q : A * B) : bool :=
  if eqa (fst p) (fst q) then leb (snd p) (snd q) else lea (fst p) (fst q).
Definition eqprod {A B} (eqa : A -> A -> bool) (eqb : B -> B -> bool) (p q : A * B) : bool :=
  eqa (fst p) (fst q) && eqb (snd p) (snd q).

Lemma o_eq_refl {A} (eqb le : A -> A -> bool) : order eqb le -> forall a, eqb a a = true.
Proof. intros O a. apply (o_eq _ _ O). reflexivity. Qed.

Lemma lexc_order {A B} (eqa lea : A -> A -> bool) (eqb leb : B -> B -> bool) :
  order eqa lea -> order eqb leb -> order (eqprod eqa eqb) (lexc eqa lea leb).
Proof.
  intros OA OB.
  assert (RA := o_eq_refl _ _ OA).
  assert (EA : forall a b, eqa a b = true -> a = b) by (intros a b; apply (o_eq _ _ OA)).
  split.
  - intros [a1 b1] [a2 b2]. unfold eqprod. cbn [fst snd]. rewrite andb_true_iff, (o_eq _ _ OA), (o_eq _ _ OB).
    split; [intros [-> ->]; reflexivity | intros H; injection H; auto].
  - intros [a b]. unfold lexc. cbn [fst snd]. rewrite RA. apply (o_refl _ _ OB).
  - intros [a1 b1] [a2 b2]. unfold lexc. cbn [fst snd].
    destruct (eqa a1 a2) eqn:E12.
    + apply EA in E12. subst a2. rewrite RA. apply (o_total _ _ OB).
    + destruct (eqa a2 a1) eqn:E21; [apply EA in E21; subst a2; rewrite RA in E12; discriminate|].
      apply (o_total _ _ OA).
  - intros [a1 b1] [a2 b2] [a3 b3]. unfold lexc. cbn [fst snd].
    destruct (eqa a1 a2) eqn:E12; [apply EA in E12; subst a1|];
    (destruct (eqa a2 a3) eqn:E23; [apply EA in E23; subst a3|]);
    try rewrite RA; try rewrite E12; try rewrite E23; try (apply (o_trans _ _ OB)); auto.
    destruct (eqa a1 a3) eqn:E13.
    + apply EA in E13. subst a3. intros H1 H2. pose proof (o_antisym _ _ OA _ _ H1 H2) as ->.
      rewrite RA in E12. discriminate.
    + apply (o_trans _ _ OA).
  - intros [a1 b1] [a2 b2]. unfold lexc. cbn [fst snd].
    destruct (eqa a1 a2) eqn:E12.
    + apply EA in E12. subst a2. rewrite RA. intros H1 H2. f_equal. apply (o_antisym _ _ OB); assumption.
    + destruct (eqa a2 a1) eqn:E21; [apply EA in E21; subst a2; rewrite RA in E12; discriminate|].
      intros H1 H2. pose proof (o_antisym _ _ OA _ _ H1 H2) as ->. rewrite RA in E12. discriminate.
Qed.

(* ------------------------------------------------------------------------------------------------------ *)
(* 1a. lex_le is a total order on byte strings                                                             *)

Lemma lex_lt_irrefl a : lex_lt a a = false.
Proof.
  induction a as [|x a IH]; [reflexivity|]. cbn [lex_lt]. rewrite IH, N.ltb_irrefl, andb_false_r. reflexivity.
Qed.

Lemma lex_lt_asym a : forall b, lex_lt a b = true -> lex_lt b a = false.
Proof.
  induction a as [|x a IH]; intros [|y b]; cbn [lex_lt]; try (intros; congruence || reflexivity).
  intros H. specialize (IH b).
  destruct (N.ltb_spec x y), (N.ltb_spec y x), (N.eqb_spec x y), (N.eqb_spec y x); cbn [orb andb] in *;
    try reflexivity; try discriminate; try lia; auto.
Qed.

Lemma lex_lt_connex a : forall b, lex_lt a b = false -> lex_lt b a = false -> a = b.
Proof.
  induction a as [|x a IH]; intros [|y b]; cbn [lex_lt]; try (intros; congruence || reflexivity).
  intros H1 H2. specialize (IH b).
  destruct (N.ltb_spec x y), (N.ltb_spec y x), (N.eqb_spec x y), (N.eqb_spec y x); cbn [orb andb] in *;
    try discriminate; try lia. subst y. f_equal. auto.
Qed.

(* negative transitivity of lex_lt = transitivity of lex_le *)
Lemma lex_lt_negtrans a : forall b c, lex_lt b a = false -> lex_lt c b = false -> lex_lt c a = false.
Proof.
  induction a as [|x a IH]; intros [|y b] [|z c]; cbn [lex_lt]; try (intros; congruence || reflexivity).
  intros H1 H2. specialize (IH b c).
  destruct (N.ltb_spec y x), (N.ltb_spec z y), (N.ltb_spec z x), (N.eqb_spec y x), (N.eqb_spec z y), (N.eqb_spec z x);
    cbn [orb andb] in *; try reflexivity; try discriminate; try lia; auto.
Qed.

Lemma lex_le_refl a : lex_le a a = true.
Proof. unfold lex_le. rewrite lex_lt_irrefl. reflexivity. Qed.
Lemma lex_le_total a b : lex_le a b = true \/ lex_le b a = true.
Proof.
  unfold lex_le. destruct (lex_lt b a) eqn:E; [right | left; reflexivity]. rewrite (lex_lt_asym _ _ E). reflexivity.
Qed.
Lemma lex_le_trans a b c : lex_le a b = true -> lex_le b c = true -> lex_le a c = true.
Proof.
  unfold lex_le. rewrite !negb_true_iff. intros H1 H2. exact (lex_lt_negtrans a b c H1 H2).
Qed.
Lemma lex_le_antisym a b : lex_le a b = true -> lex_le b a = true -> a = b.
Proof. unfold lex_le. rewrite !negb_true_iff. intros H1 H2. apply lex_lt_connex; assumption. Qed.

Lemma beq_true_iff a b : beq a b = true <-> a = b.
Proof. split; [apply beq_eq | intros ->; apply beq_refl]. Qed.

Lemma lex_le_order : order beq lex_le.
Proof.
  split; [apply beq_true_iff | apply lex_le_refl | apply lex_le_total | apply lex_le_trans | apply lex_le_antisym].
Qed.

(* ------------------------------------------------------------------------------------------------------ *)
(* 1b. rkey_le is a total order on restart keys                                                            *)

Lemma rkey_eq_iff a b : rkey_eq a b = true <-> a = b.
Proof.
  destruct a as [[la da]|], b as [[lb db]|]; cbn [rkey_eq]; try (split; congruence).
  rewrite andb_true_iff, Nat.eqb_eq, beq_true_iff. split; [intros [-> ->]; reflexivity | intros H; injection H; auto].
Qed.
Lemma rkey_le_refl a : rkey_le a a = true.
Proof. destruct a as [[la da]|]; cbn [rkey_le]; [|reflexivity]. rewrite Nat.eqb_refl. apply lex_le_refl. Qed.
Lemma rkey_le_total a b : rkey_le a b = true \/ rkey_le b a = true.
Proof.
  destruct a as [[la da]|], b as [[lb db]|]; cbn [rkey_le]; auto.
  destruct (Nat.eqb_spec la lb) as [->|Hne].
  - rewrite Nat.eqb_refl. apply lex_le_total.
  - destruct (Nat.eqb_spec lb la) as [->|_]; [congruence|].
    destruct (Nat.ltb_spec la lb), (Nat.ltb_spec lb la); auto. lia.
Qed.
Lemma rkey_le_trans a b c : rkey_le a b = true -> rkey_le b c = true -> rkey_le a c = true.
Proof.
  destruct a as [[la da]|], b as [[lb db]|], c as [[lc dc]|]; cbn [rkey_le]; try (intros; congruence || reflexivity).
  destruct (Nat.eqb_spec la lb) as [->|H1], (Nat.eqb_spec lb lc) as [->|H2].
  - apply lex_le_trans.
  - auto.
  - destruct (Nat.eqb_spec la lc); [congruence|]. auto.
  - intros L1 L2. apply Nat.ltb_lt in L1, L2. destruct (Nat.eqb_spec la lc); [lia|]. apply Nat.ltb_lt. lia.
Qed.
Lemma rkey_le_antisym a b : rkey_le a b = true -> rkey_le b a = true -> a = b.
Proof.
  destruct a as [[la da]|], b as [[lb db]|]; cbn [rkey_le]; try (intros; congruence || reflexivity).
  destruct (Nat.eqb_spec la lb) as [->|H1].
  - rewrite Nat.eqb_refl. intros L1 L2. rewrite (lex_le_antisym _ _ L1 L2). reflexivity.
  - destruct (Nat.eqb_spec lb la); [congruence|]. intros L1 L2. apply Nat.ltb_lt in L1, L2. lia.
Qed.
Lemma rkey_le_order : order rkey_eq rkey_le.
Proof.
  split; [apply rkey_eq_iff | apply rkey_le_refl | apply rkey_le_total | apply rkey_le_trans | apply rkey_le_antisym].
Qed.

(* ------------------------------------------------------------------------------------------------------ *)
(* 1c. key_le is a total order on names                                                                    *)

(* key_le compares the tuples (main part, number key, restart key, name) lexicographically *)
Definition key3 (sfx : option bytes) (x : bytes) : bytes * (option (nat * bytes) * (option (nat * bytes) * bytes)) :=
  (fst (fst (sort_key sfx x)), (snd (fst (sort_key sfx x)), (snd (sort_key sfx x), x))).
Definition key3_le := lexc beq lex_le (lexc rkey_eq rkey_le (lexc rkey_eq rkey_le lex_le)).

Lemma key_le_key3 sfx x y : key_le sfx x y = key3_le (key3 sfx x) (key3 sfx y).
Proof.
  unfold key_le, key3_le, key3, lexc. destruct (sort_key sfx x) as [[mx nx] rx], (sort_key sfx y) as [[my ny] ry]. reflexivity.
Qed.

Lemma key3_order : order (eqprod beq (eqprod rkey_eq (eqprod rkey_eq beq))) key3_le.
Proof.
  apply lexc_order; [apply lex_le_order|]. apply lexc_order; [apply rkey_le_order|].
  apply lexc_order; [apply rkey_le_order | apply lex_le_order].
Qed.

Theorem key_le_refl sfx x : key_le sfx x x = true.
Proof. rewrite key_le_key3. apply (o_refl _ _ key3_order). Qed.

Theorem key_le_total sfx x y : key_le sfx x y = true \/ key_le sfx y x = true.
Proof. rewrite !key_le_key3. apply (o_total _ _ key3_order). Qed.

Theorem key_le_trans sfx x y z : key_le sfx x y = true -> key_le sfx y z = true -> key_le sfx x z = true.
Proof. rewrite !key_le_key3. apply (o_trans _ _ key3_order). Qed.

Theorem key_le_antisym sfx x y : key_le sfx x y = true -> key_le sfx y x = true -> x = y.
Proof.
  rewrite !key_le_key3. intros H1 H2. pose proof (o_antisym _ _ key3_order _ _ H1 H2) as E.
  unfold key3 in E. injection E as _ _ _ E. exact E.
Qed.

(* ------------------------------------------------------------------------------------------------------ *)
(* 2. sort_by_key: a sorted permutation                                                                    *)

Definition key_rel (sfx : option bytes) (x y : bytes) : Prop := key_le sfx x y = true.

Lemma insert_by_perm le x l : Permutation (insert_by le x l) (x :: l).
Proof.
  induction l as [|y l IH]; cbn [insert_by]; [apply Permutation_refl|].
  destruct (le x y); [apply Permutation_refl|].
  eapply Permutation_trans; [apply perm_skip, IH | apply perm_swap].
Qed.

Theorem sort_by_key_perm sfx l : Permutation (sort_by_key sfx l) l.
Proof.
  induction l as [|x l IH]; cbn [sort_by_key fold_right]; [apply Permutation_refl|]. fold (sort_by_key sfx l).
  eapply Permutation_trans; [apply insert_by_perm | apply perm_skip, IH].
Qed.

Lemma In_sort_by_key sfx l y : In y (sort_by_key sfx l) <-> In y l.
Proof.
  split; apply Permutation_in; [apply sort_by_key_perm | apply Permutation_sym, sort_by_key_perm].
Qed.

Lemma insert_by_sorted sfx x l :
  StronglySorted (key_rel sfx) l -> StronglySorted (key_rel sfx) (insert_by (key_le sfx) x l).
Proof.
  induction 1 as [|y l Hs IH Hy]; cbn [insert_by].
  - constructor; constructor.
  - destruct (key_le sfx x y) eqn:E.
    + constructor; [constructor; assumption|]. constructor; [exact E|].
      rewrite Forall_forall in *. intros z Hz. eapply key_le_trans; [exact E | apply Hy, Hz].
    + constructor; [exact IH|].
      assert (Hyx : key_le sfx y x = true) by (destruct (key_le_total sfx x y); congruence).
      rewrite Forall_forall in *. intros z Hz.
      apply (Permutation_in _ (insert_by_perm _ _ _)) in Hz. destruct Hz as [<-|Hz]; [exact Hyx | apply Hy, Hz].
Qed.

Theorem sort_by_key_strongly_sorted sfx l : StronglySorted (key_rel sfx) (sort_by_key sfx l).
Proof.
  induction l as [|x l IH]; cbn [sort_by_key fold_right]; [constructor|]. fold (sort_by_key sfx l).
  apply insert_by_sorted, IH.
Qed.

Theorem sort_by_key_sorted sfx l : Sorted (fun x y => key_le sfx x y = true) (sort_by_key sfx l).
Proof. apply StronglySorted_Sorted, sort_by_key_strongly_sorted. Qed.

(* a strictly smaller name stands before a larger one in the sorted list, hence after it in the listing *)
Lemma strongly_sorted_split sfx s x y :
  StronglySorted (key_rel sfx) s -> In x s -> In y s -> key_le sfx y x = false ->
  exists l1 l2 l3, s = l1 ++ x :: l2 ++ y :: l3.
Proof.
  intros Hs Hx Hy Hlt. apply in_split in Hx. destruct Hx as [l1 [r ->]].
  apply in_app_or in Hy. destruct Hy as [Hy|[Hy|Hy]].
  - exfalso. apply in_split in Hy. destruct Hy as [a [b ->]]. rewrite <- app_assoc in Hs. cbn [app] in Hs.
    clear - Hs Hlt. induction a as [|c a IH]; cbn [app] in Hs.
    + inversion Hs as [|? ? _ Hf]; subst. rewrite Forall_forall in Hf.
      assert (key_rel sfx y x) by (apply Hf; apply in_or_app; right; left; reflexivity). unfold key_rel in *. congruence.
    + inversion Hs; subst. auto.
  - subst y. rewrite key_le_refl in Hlt. discriminate.
  - apply in_split in Hy. destruct Hy as [a [b ->]]. exists l1, a, b. reflexivity.
Qed.

Theorem listing_order sfx l x y :
  In x l -> In y l -> key_le sfx y x = false ->
  exists l1 l2 l3, rev (sort_by_key sfx l) = l1 ++ y :: l2 ++ x :: l3.
Proof.
  intros Hx Hy Hlt.
  destruct (strongly_sorted_split sfx (sort_by_key sfx l) x y) as [l1 [l2 [l3 E]]];
    [apply sort_by_key_strongly_sorted | apply In_sort_by_key, Hx | apply In_sort_by_key, Hy | exact Hlt |].
  exists (rev l3), (rev l2), (rev l1). rewrite E.
  rewrite rev_app_distr. cbn [rev]. rewrite rev_app_distr. cbn [rev]. rewrite <- !app_assoc. reflexivity.
Qed.

(* ------------------------------------------------------------------------------------------------------ *)
(* 3a. decimal strings: value, length and byte order                                                        *)

Lemma is_digit_iff c : is_digit c = true <-> 48 <= c <= 57.
Proof. unfold is_digit. lia. Qed.

Lemma all_digits_app a b : all_digits (a ++ b) = all_digits a && all_digits b.
Proof. induction a as [|c a IH]; cbn [all_digits app]; [reflexivity|]. rewrite IH, andb_assoc. reflexivity. Qed.

Lemma forallb_is_digit s : forallb is_digit s = all_digits s.
Proof. induction s as [|c s IH]; cbn [forallb all_digits]; [reflexivity|]. rewrite IH. reflexivity. Qed.

Lemma all_digits_repeat0 n : all_digits (repeat 48 n) = true.
Proof. induction n as [|n IH]; cbn [repeat all_digits]; [reflexivity|]. rewrite IH. reflexivity. Qed.

Lemma dec_digits_all fuel : forall n acc, all_digits acc = true -> all_digits (dec_digits fuel n acc) = true.
Proof.
  induction fuel as [|f IH]; intros n acc Ha; cbn [dec_digits]; [exact Ha|].
  assert (X : all_digits ((48 + n mod 10) :: acc) = true).
  { cbn [all_digits]. rewrite Ha, andb_true_r. apply is_digit_iff. pose proof (N.mod_lt n 10 ltac:(lia)). lia. }
  destruct (n <? 10); [exact X | apply IH, X].
Qed.

Lemma dec_all_digits n : all_digits (dec n) = true.
Proof. unfold dec. apply dec_digits_all. reflexivity. Qed.

Lemma dec_nonempty n : dec n <> [].
Proof. unfold dec. apply dec_digits_nonempty. Qed.

Lemma all_digits_bound s : all_digits s = true -> dec_value s < 10 ^ N.of_nat (length s).
Proof.
  induction s as [|c s IH]; [intros _; cbn; lia|]. cbn [all_digits]. rewrite andb_true_iff, is_digit_iff. intros [Hc Hs].
  specialize (IH Hs). rewrite dec_value_cons. cbn [length]. rewrite Nat2N.inj_succ, N.pow_succ_r'. nia.
Qed.

(* on digit strings of equal length the byte order is the numeric order *)
Lemma lex_lt_value a : forall b, all_digits a = true -> all_digits b = true -> length a = length b ->
  lex_lt a b = (dec_value a <? dec_value b).
Proof.
  induction a as [|x a IH]; intros [|y b]; try discriminate; [reflexivity|].
  cbn [all_digits length]. rewrite !andb_true_iff, !is_digit_iff. intros [Hx Ha] [Hy Hb] Hl. injection Hl as Hl.
  cbn [lex_lt]. rewrite (IH b Ha Hb Hl), !dec_value_cons, Hl.
  pose proof (all_digits_bound a Ha) as Ba. pose proof (all_digits_bound b Hb) as Bb. rewrite Hl in Ba.
  set (P := 10 ^ N.of_nat (length b)) in *. set (va := dec_value a) in *. set (vb := dec_value b) in *.
  destruct (N.ltb_spec x y), (N.eqb_spec x y), (N.ltb_spec va vb), (N.ltb_spec ((x - 48) * P + va) ((y - 48) * P + vb));
    cbn [orb andb]; try reflexivity; exfalso; nia.
Qed.

(* a shorter digit string has a smaller value than a longer one without leading zero *)
Lemma shorter_smaller a b : all_digits a = true -> all_digits b = true -> (forall r, b <> 48 :: r) ->
  (length a < length b)%nat -> dec_value a < dec_value b.
Proof.
  intros Ha Hb Hz Hl. destruct b as [|c b]; [cbn [length] in Hl; lia|].
  cbn [all_digits] in Hb. rewrite andb_true_iff, is_digit_iff in Hb. destruct Hb as [Hc Hb].
  assert (c <> 48) by (intros ->; apply (Hz b); reflexivity).
  pose proof (all_digits_bound a Ha) as Ba. rewrite dec_value_cons.
  assert (10 ^ N.of_nat (length a) <= 10 ^ N.of_nat (length b)) by (apply N.pow_le_mono_r; cbn [length] in Hl; lia).
  nia.
Qed.

(* drop_zeros *)
Lemma drop_zeros_cons c r : drop_zeros (c :: r) = if c =? 48 then drop_zeros r else c :: r.
Proof.
  destruct (N.eqb_spec c 48) as [->|H]; [reflexivity|].
  destruct c as [|p]; [reflexivity|].
  do 6 (try (destruct p as [p|p|]; try reflexivity)). congruence.
Qed.

Lemma drop_zeros_value s : dec_value (drop_zeros s) = dec_value s.
Proof.
  induction s as [|c s IH]; [reflexivity|]. rewrite drop_zeros_cons. destruct (N.eqb_spec c 48) as [->|H]; [|reflexivity].
  rewrite IH, dec_value_cons. lia.
Qed.

Lemma drop_zeros_all_digits s : all_digits s = true -> all_digits (drop_zeros s) = true.
Proof.
  induction s as [|c s IH]; [auto|]. rewrite drop_zeros_cons. destruct (c =? 48); [|auto].
  cbn [all_digits]. rewrite andb_true_iff. intros [_ H]. auto.
Qed.

Lemma drop_zeros_head s r : drop_zeros s <> 48 :: r.
Proof.
  induction s as [|c s IH]; [discriminate|]. rewrite drop_zeros_cons. destruct (N.eqb_spec c 48) as [->|H]; [exact IH|].
  congruence.
Qed.

Lemma drop_zeros_repeat n s : drop_zeros (repeat 48 n ++ s) = drop_zeros s.
Proof. induction n as [|n IH]; cbn [repeat app]; [reflexivity|]. rewrite drop_zeros_cons. exact IH. Qed.

Lemma drop_zeros_id s : (forall r, s <> 48 :: r) -> drop_zeros s = s.
Proof.
  destruct s as [|c s]; [reflexivity|]. intros H. rewrite drop_zeros_cons.
  destruct (N.eqb_spec c 48) as [->|_]; [exfalso; apply (H s); reflexivity | reflexivity].
Qed.

(* the first digit of dec k is not 0 unless k = 0 *)
Lemma dec_digits_head_nz fuel : forall n acc, 0 < n -> n < 10 ^ N.of_nat fuel ->
  forall r, dec_digits fuel n acc <> 48 :: r.
Proof.
  induction fuel as [|f IH]; intros n acc Hp Hn r.
  - change (10 ^ N.of_nat 0) with 1 in Hn. lia.
  - cbn [dec_digits]. destruct (N.ltb_spec n 10) as [Hlt|Hge].
    + rewrite N.mod_small by assumption. intros E. assert (E0 : 48 + n = 48) by congruence. lia.
    + rewrite Nat2N.inj_succ, N.pow_succ_r' in Hn.
      apply IH; [|apply N.div_lt_upper_bound; lia].
      apply N.div_str_pos. lia.
Qed.

Lemma dec_head_nz k : 0 < k -> forall r, dec k <> 48 :: r.
Proof.
  intros Hk. unfold dec. apply dec_digits_head_nz; [exact Hk|].
  rewrite Nat2N.inj_succ, N2Nat.id. destruct k as [|p]; [lia|].
  pose proof (N.log2_spec (N.pos p) ltac:(lia)) as [_ H]. pose proof (pow2_le_pow10 (N.succ (N.log2 (N.pos p)))). lia.
Qed.

(* the digits that the model writes for a restart counter, and what the sort key keeps of them *)
Definition restart_digits (k : N) : bytes := pad_left 4 48 (dec k).

Lemma restart_digits_all k : all_digits (restart_digits k) = true.
Proof. unfold restart_digits, pad_left. rewrite all_digits_app, all_digits_repeat0, dec_all_digits. reflexivity. Qed.

Lemma restart_digits_nonempty k : restart_digits k <> [].
Proof.
  unfold restart_digits, pad_left. intros E. apply app_eq_nil in E. destruct E as [_ E]. exact (dec_nonempty k E).
Qed.

Theorem drop_zeros_restart_digits k : 0 < k -> drop_zeros (pad_left 4 48 (dec k)) = dec k.
Proof. intros Hk. unfold pad_left. rewrite drop_zeros_repeat. apply drop_zeros_id, dec_head_nz, Hk. Qed.

Theorem drop_zeros_restart_digits_0 : drop_zeros (pad_left 4 48 (dec 0)) = [].
Proof. reflexivity. Qed.

Lemma restart_digits_value k : dec_value (drop_zeros (restart_digits k)) = k.
Proof. unfold restart_digits, pad_left. rewrite drop_zeros_value, dec_value_zeros. apply dec_value_dec. Qed.

Theorem dec_length_mono k1 k2 : k1 <= k2 -> (length (dec k1) <= length (dec k2))%nat.
Proof.
  intros Hle. destruct (N.eq_dec k1 0) as [->|Hnz].
  - pose proof (dec_nonempty k2). destruct (dec k2); [congruence|]. cbn. lia.
  - destruct (Nat.le_gt_cases (length (dec k1)) (length (dec k2))) as [H|H]; [exact H|exfalso].
    pose proof (shorter_smaller (dec k2) (dec k1) (dec_all_digits _) (dec_all_digits _) (dec_head_nz k1 ltac:(lia)) H) as X.
    rewrite !dec_value_dec in X. lia.
Qed.

Theorem dec_lex_le_iff k1 k2 : length (dec k1) = length (dec k2) -> (lex_le (dec k1) (dec k2) = true <-> k1 <= k2).
Proof.
  intros Hl. unfold lex_le. rewrite (lex_lt_value _ _ (dec_all_digits _) (dec_all_digits _) (eq_sym Hl)), !dec_value_dec. lia.
Qed.

(* the restart keys of two counters are ordered like the counters *)
Lemma rkey_digits_lt a b :
  all_digits a = true -> all_digits b = true -> (forall r, a <> 48 :: r) -> (forall r, b <> 48 :: r) ->
  dec_value a < dec_value b ->
  rkey_le (Some (length a, a)) (Some (length b, b)) = true /\
  rkey_le (Some (length b, b)) (Some (length a, a)) = false /\
  rkey_eq (Some (length a, a)) (Some (length b, b)) = false.
Proof.
  intros Ha Hb Za Zb Hlt. cbn [rkey_le rkey_eq].
  destruct (Nat.eqb_spec (length a) (length b)) as [El|Nl].
  - rewrite <- El, Nat.eqb_refl. unfold lex_le.
    rewrite (lex_lt_value b a Hb Ha (eq_sym El)), (lex_lt_value a b Ha Hb El). cbn [andb].
    repeat split; try lia. apply beq_neq. intros ->. lia.
  - destruct (Nat.eqb_spec (length b) (length a)); [congruence|]. cbn [andb].
    assert (length a < length b)%nat.
    { destruct (Nat.lt_trichotomy (length a) (length b)) as [H|[H|H]]; [exact H|congruence|].
      pose proof (shorter_smaller b a Hb Ha Za H). lia. }
    repeat split; [apply Nat.ltb_lt; lia | apply Nat.ltb_ge; lia].
Qed.

Lemma rkey_restart_lt k1 k2 : k1 < k2 ->
  let d1 := drop_zeros (restart_digits k1) in let d2 := drop_zeros (restart_digits k2) in
  rkey_le (Some (length d1, d1)) (Some (length d2, d2)) = true /\
  rkey_le (Some (length d2, d2)) (Some (length d1, d1)) = false /\
  rkey_eq (Some (length d1, d1)) (Some (length d2, d2)) = false.
Proof.
  intros Hlt d1 d2. apply rkey_digits_lt; subst d1 d2;
    try (apply drop_zeros_all_digits, restart_digits_all); try (intros r; apply drop_zeros_head).
  rewrite !restart_digits_value. exact Hlt.
Qed.

(* ------------------------------------------------------------------------------------------------------ *)
(* 3b. the sort key of the names that the logger builds                                                     *)

Lemma sk_is_prefix_app p r : is_prefix p (p ++ r) = true.
Proof. induction p as [|x p IH]; cbn [is_prefix app]; [reflexivity|]. rewrite N.eqb_refl, IH. reflexivity. Qed.
Lemma sk_skipn_app {A} (p r : list A) n : skipn (length p + n) (p ++ r) = skipn n r.
Proof. induction p as [|x p IH]; cbn [length skipn app Nat.add]; auto. Qed.
Lemma sk_firstn_app {A} (p r : list A) : firstn (length p) (p ++ r) = p.
Proof. induction p as [|x p IH]; cbn [length firstn app]; [reflexivity|]. rewrite IH. reflexivity. Qed.
Lemma sk_strip_suffix_app x r : strip_suffix x (r ++ x) = Some r.
Proof.
  unfold strip_suffix, strip_prefix. rewrite rev_app_distr, sk_is_prefix_app.
  replace (length (rev x)) with (length (rev x) + 0)%nat by lia. rewrite sk_skipn_app. cbn [skipn].
  rewrite rev_involutive. reflexivity.
Qed.
Lemma sk_strip_suffix_none x s : strip_suffix x s = None <-> is_prefix (rev x) (rev s) = false.
Proof. unfold strip_suffix, strip_prefix. destruct (is_prefix (rev x) (rev s)); split; congruence. Qed.

(* whether a name with a suffix ends with ".gz" depends on "." ++ suffix only *)
Lemma sk_gz_app B s :
  is_prefix (rev (dot :: gz_sfx)) (rev (B ++ dot :: s)) = is_prefix (rev (dot :: gz_sfx)) (rev (dot :: s)).
Proof.
  rewrite rev_app_distr. cbn [rev gz_sfx app]. rewrite <- !app_assoc.
  destruct (rev s) as [|c [|d [|e t]]]; cbn [app is_prefix].
  - reflexivity.
  - destruct (122 =? c); cbn [andb]; reflexivity.
  - destruct (122 =? c); cbn [andb]; [|reflexivity]. destruct (103 =? d); cbn [andb]; reflexivity.
  - reflexivity.
Qed.

(* a name that ends with a digit does not end with ".gz" *)
Lemma sk_gz_digits X D : D <> [] -> all_digits D = true -> strip_suffix (dot :: gz_sfx) (X ++ D) = None.
Proof.
  intros Hne Hd. apply sk_strip_suffix_none.
  destruct (exists_last Hne) as [D' [c ->]]. rewrite all_digits_app in Hd. apply andb_prop in Hd. destruct Hd as [_ Hc].
  cbn [all_digits] in Hc. rewrite andb_true_r, is_digit_iff in Hc.
  rewrite app_assoc, rev_app_distr. cbn [rev gz_sfx app is_prefix].
  destruct (N.eqb_spec 122 c); [lia|reflexivity].
Qed.

(* the two stripping steps of sort_key, and what follows them *)
Definition sk_stem (sfx : option bytes) (n : bytes) : bytes :=
  let s1 := match strip_suffix (dot :: gz_sfx) n with Some s => s | None => n end in
  match sfx with
  | Some x => match strip_suffix (dot :: x) s1 with Some s => s | None => s1 end
  | None => s1
  end.
Definition stem_key (stem : bytes) : bytes * option (nat * bytes) :=
  match find_last_sub restart_tag stem with
  | Some ix => let digits := skipn (ix + 9) stem in
               if negb (beq digits []) && forallb is_digit digits
               then let d := drop_zeros digits in (firstn ix stem, Some (length d, d))
               else (stem, None)
  | None => (stem, None)
  end.
(* the second split: the number behind the last "_r" of the main part - or, without any "_r", behind a leading "r" *)
Definition main_split (main : bytes) : option (bytes * bytes) :=
  match find_last_sub number_tag main with
  | Some ix => Some (firstn ix main ++ number_tag, skipn (ix + 2) main)
  | None => match strip_prefix [r_char] main with
            | Some digits => Some ([r_char], digits)
            | None => None
            end
  end.
Definition main_key (main : bytes) : bytes * option (nat * bytes) :=
  match main_split main with
  | Some (head, digits) => if negb (beq digits []) && forallb is_digit digits
                           then let d := drop_zeros digits in (head, Some (length d, d))
                           else (main, None)
  | None => (main, None)
  end.
Definition full_key (stem : bytes) : bytes * option (nat * bytes) * option (nat * bytes) :=
  (fst (main_key (fst (stem_key stem))), snd (main_key (fst (stem_key stem))), snd (stem_key stem)).
Lemma sort_key_stem sfx n : sort_key sfx n = full_key (sk_stem sfx n).
Proof.
  unfold full_key. change (sort_key sfx n) with
    (let '(main, restart) := stem_key (sk_stem sfx n) in
     match main_split main with
     | Some (head, digits) => if negb (beq digits []) && forallb is_digit digits
                              then let d := drop_zeros digits in (head, Some (length d, d), restart)
                              else (main, None, restart)
     | None => (main, None, restart)
     end).
  destruct (stem_key (sk_stem sfx n)) as [m r]. cbn [fst snd]. unfold main_key.
  destruct (main_split m) as [[h d]|]; [|reflexivity].
  destruct (negb (beq d []) && forallb is_digit d); reflexivity.
Qed.

Definition add_gz (g : bool) (n : bytes) : bytes := if g then n ++ dot :: gz_sfx else n.

(* with or without an additional ".gz", the stem of a name built by with_suffix is the part before the suffix *)
Lemma sk_stem_with_suffix sp B g :
  strip_suffix (dot :: gz_sfx) (with_suffix sp B) = None ->
  sk_stem (fsfx sp) (add_gz g (with_suffix sp B)) = B.
Proof.
  intros Hgz. unfold sk_stem.
  assert (E : match strip_suffix (dot :: gz_sfx) (add_gz g (with_suffix sp B)) with Some s => s | None => add_gz g (with_suffix sp B) end
              = with_suffix sp B).
  { destruct g; cbn [add_gz]; [rewrite sk_strip_suffix_app | rewrite Hgz]; reflexivity. }
  rewrite E. unfold with_suffix. destruct (fsfx sp) as [s|]; [|reflexivity]. rewrite sk_strip_suffix_app. reflexivity.
Qed.

(* ".restart-" does not overlap itself: behind a part without it, its first occurrence is where it was appended *)
Lemma sk_is_prefix_split p : forall a b, is_prefix p (a ++ b) = true ->
  is_prefix p a = true \/ exists p2, p = a ++ p2 /\ is_prefix p2 b = true.
Proof.
  induction p as [|x p IH]; intros a b H; [left; reflexivity|].
  destruct a as [|y a].
  - right. exists (x :: p). split; [reflexivity | exact H].
  - cbn [app is_prefix] in *. apply andb_prop in H. destruct H as [Hxy H]. rewrite Hxy. cbn [andb].
    apply N.eqb_eq in Hxy. subst y.
    destruct (IH a b H) as [Hp|[p2 [-> Hp]]]; [left; exact Hp|right]. exists p2. split; [reflexivity | exact Hp].
Qed.

Lemma sk_tag_no_overlap c a D : is_prefix restart_tag (c :: a) = false ->
  is_prefix restart_tag ((c :: a) ++ restart_tag ++ D) = false.
Proof.
  intros Hn. destruct (is_prefix restart_tag ((c :: a) ++ restart_tag ++ D)) eqn:E; [exfalso|reflexivity].
  apply sk_is_prefix_split in E. destruct E as [E|[p2 [E1 E2]]]; [congruence|].
  unfold restart_tag in E1 at 1. cbn [app] in E1. injection E1 as Ec E1.
  assert (Hin : In 46 [114; 101; 115; 116; 97; 114; 116; 45]).
  { rewrite E1. apply in_or_app. right. destruct p2 as [|q p2].
    - exfalso. rewrite app_nil_r in E1. subst c a. vm_compute in Hn. discriminate.
    - left. unfold restart_tag in E2. cbn [app is_prefix] in E2. apply andb_prop in E2. destruct E2 as [E2 _].
      apply N.eqb_eq in E2. exact E2. }
  cbn [In] in Hin. intuition discriminate.
Qed.

Lemma sk_find_tag_app B D : contains restart_tag B = false ->
  find_sub restart_tag (B ++ restart_tag ++ D) = Some (length B).
Proof.
  induction B as [|c B IH]; intros Hc.
  - cbn [app length]. assert (P := sk_is_prefix_app restart_tag D).
    destruct (restart_tag ++ D) as [|x r] eqn:E; [discriminate|]. cbn [find_sub]. rewrite P. reflexivity.
  - unfold contains in Hc. cbn [find_sub] in Hc.
    destruct (is_prefix restart_tag (c :: B)) eqn:Ep; [discriminate|].
    assert (Hc' : contains restart_tag B = false).
    { unfold contains. destruct (find_sub restart_tag B); [discriminate|reflexivity]. }
    pose proof (sk_tag_no_overlap c B D Ep) as Eq. cbn [app] in Eq |- *. cbn [find_sub]. rewrite Eq, (IH Hc'). reflexivity.
Qed.

(* find_last_sub (str::rsplit_once): the LAST occurrence *)
Lemma find_last_sub_prefix pat : forall s ix, find_last_sub pat s = Some ix -> is_prefix pat (skipn ix s) = true.
Proof.
  induction s as [|x s IH]; intros ix H; cbn [find_last_sub] in H.
  - destruct (is_prefix pat []) eqn:E; [injection H as <-; exact E | discriminate].
  - destruct (find_last_sub pat s) as [j|] eqn:Ej.
    + injection H as <-. cbn [skipn]. apply IH. reflexivity.
    + destruct (is_prefix pat (x :: s)) eqn:E; [injection H as <-; exact E | discriminate].
Qed.

Lemma find_last_sub_none pat : forall s, find_last_sub pat s = None <-> find_sub pat s = None.
Proof.
  induction s as [|x s IH]; cbn [find_last_sub find_sub].
  - destruct (is_prefix pat []); split; congruence.
  - destruct (find_last_sub pat s) as [j|], (find_sub pat s) as [j'|]; destruct (is_prefix pat (x :: s));
      try (split; congruence); exfalso; destruct IH as [I1 I2]; (discriminate (I1 eq_refl) || discriminate (I2 eq_refl)).
Qed.

Lemma find_last_sub_lt pat : pat <> [] -> forall s ix, find_last_sub pat s = Some ix -> (ix < length s)%nat.
Proof.
  intros Hp. induction s as [|x s IH]; intros ix H; cbn [find_last_sub] in H.
  - destruct pat; [congruence | discriminate H].
  - cbn [length]. destruct (find_last_sub pat s) as [j|].
    + injection H as <-. specialize (IH j eq_refl). lia.
    + destruct (is_prefix pat (x :: s)); [injection H as <-; lia | discriminate].
Qed.

(* in front of the last occurrence anything may stand *)
Lemma find_last_sub_skip pat p : forall s i, find_last_sub pat s = Some i -> find_last_sub pat (p ++ s) = Some (length p + i)%nat.
Proof. induction p as [|c p IH]; intros s i H; cbn [app length Nat.add find_last_sub]; [exact H|]. rewrite (IH s i H). reflexivity. Qed.

Lemma find_last_sub_here pat c s : is_prefix pat (c :: s) = true -> find_sub pat s = None -> find_last_sub pat (c :: s) = Some O.
Proof. intros Hp Hn. cbn [find_last_sub]. rewrite (proj2 (find_last_sub_none pat s) Hn), Hp. reflexivity. Qed.

(* ".restart-" starts with a dot: it neither starts within a part without dot, nor is it found there *)
Lemma sk_skip_no_dot A B : ~ In dot A -> contains restart_tag (A ++ B) = contains restart_tag B.
Proof.
  induction A as [|c A IH]; intros H; [reflexivity|].
  assert (Hc : c <> dot) by (intros ->; apply H; left; reflexivity).
  assert (IH' : contains restart_tag (A ++ B) = contains restart_tag B) by (apply IH; intros I; apply H; right; exact I).
  assert (E : is_prefix restart_tag (c :: A ++ B) = false).
  { unfold restart_tag. cbn [is_prefix]. destruct (N.eqb_spec 46 c) as [E0|_]; [exfalso; apply Hc; symmetry; exact E0 | reflexivity]. }
  unfold contains in *. cbn [app find_sub]. rewrite E. destruct (find_sub restart_tag (A ++ B)); exact IH'.
Qed.

Lemma sk_no_dot_no_tag s : ~ In dot s -> contains restart_tag s = false.
Proof. intros H. rewrite <- (app_nil_r s), (sk_skip_no_dot s [] H). reflexivity. Qed.

Lemma all_digits_no_dot D : all_digits D = true -> ~ In dot D.
Proof.
  induction D as [|c D IH]; [intros _ []|]. cbn [all_digits]. rewrite andb_true_iff, is_digit_iff. intros [Hc Hd] [E|I]; [|exact (IH Hd I)].
  unfold dot in E. lia.
Qed.

(* THE LAST OCCURRENCE: behind ANY part B, when no further ".restart-" follows *)
Lemma sk_find_last_tag_app B D : contains restart_tag D = false ->
  find_last_sub restart_tag (B ++ restart_tag ++ D) = Some (length B).
Proof.
  intros Hd. rewrite (find_last_sub_skip restart_tag B (restart_tag ++ D) O); [f_equal; lia|].
  change (restart_tag ++ D) with (dot :: restart_word ++ D).
  apply find_last_sub_here; [exact (sk_is_prefix_app restart_tag D)|].
  assert (X : contains restart_tag (restart_word ++ D) = false).
  { rewrite sk_skip_no_dot; [exact Hd|]. unfold restart_word, dot. cbn [In]. intros X. repeat (destruct X as [X|X]; [discriminate X|]). exact X. }
  unfold contains in X. destruct (find_sub restart_tag (restart_word ++ D)); [discriminate | reflexivity].
Qed.

Lemma sk_find_last_tag_digits B D : all_digits D = true -> find_last_sub restart_tag (B ++ restart_tag ++ D) = Some (length B).
Proof. intros Hd. apply sk_find_last_tag_app, sk_no_dot_no_tag, all_digits_no_dot, Hd. Qed.

Lemma stem_key_plain B : contains restart_tag B = false -> stem_key B = (B, None).
Proof.
  unfold contains, stem_key. intros H. destruct (find_sub restart_tag B) eqn:E; [discriminate|].
  rewrite (proj2 (find_last_sub_none restart_tag B) E). reflexivity.
Qed.

(* whatever the stem is: either it is its own main part, or the main part is a proper prefix of it *)
Lemma stem_key_cases B : stem_key B = (B, None) \/ exists ix r, (ix < length B)%nat /\ stem_key B = (firstn ix B, Some r).
Proof.
  unfold stem_key. destruct (find_last_sub restart_tag B) as [ix|] eqn:E; [|left; reflexivity]. cbv zeta.
  destruct (negb (beq (skipn (ix + 9) B) []) && forallb is_digit (skipn (ix + 9) B)); [right | left; reflexivity].
  exists ix. eexists. split; [|reflexivity]. apply (find_last_sub_lt restart_tag) in E; [exact E | discriminate].
Qed.

(* no hypothesis on B: the counter is read behind the LAST ".restart-" *)
Lemma stem_key_restart B D : D <> [] -> all_digits D = true ->
  stem_key (B ++ restart_tag ++ D) = (B, Some (length (drop_zeros D), drop_zeros D)).
Proof.
  intros Hne Hd. unfold stem_key. rewrite (sk_find_last_tag_digits B D Hd). cbv zeta.
  rewrite sk_skipn_app. change (skipn 9 (restart_tag ++ D)) with D.
  rewrite forallb_is_digit, Hd, sk_firstn_app. destruct D; [congruence|]. reflexivity.
Qed.

(* the decomposition  <anything> <non-digit> <digits>  of a string is unique *)
Lemma sk_all_digits_in s c : all_digits s = true -> In c s -> is_digit c = true.
Proof.
  induction s as [|x s IH]; [intros _ []|]. cbn [all_digits]. rewrite andb_true_iff. intros [Hx Hs] [<-|I]; [exact Hx | exact (IH Hs I)].
Qed.

Lemma sk_last_nondigit (u v a b : bytes) (x y : N) :
  all_digits a = true -> all_digits b = true -> is_digit x = false -> is_digit y = false ->
  u ++ x :: a = v ++ y :: b -> x = y.
Proof.
  intros Ha Hb Hx Hy. revert v. induction u as [|p u IH]; intros [|q v] H; cbn [app] in H.
  - injection H as H _. exact H.
  - injection H as _ H. exfalso. assert (I : In y a) by (rewrite H; apply in_or_app; right; left; reflexivity).
    rewrite (sk_all_digits_in _ _ Ha I) in Hy. discriminate.
  - injection H as _ H. exfalso. assert (I : In x b) by (rewrite <- H; apply in_or_app; right; left; reflexivity).
    rewrite (sk_all_digits_in _ _ Hb I) in Hx. discriminate.
  - injection H as _ H. apply (IH v H).
Qed.

Lemma sk_skipn_skipn {A} (l : list A) : forall b a, skipn a (skipn b l) = skipn (b + a) l.
Proof.
  induction l as [|x l IH]; intros b a; [rewrite !skipn_nil; reflexivity|].
  destruct b as [|b]; [reflexivity|]. cbn [skipn Nat.add]. apply IH.
Qed.

Lemma sk_prefix_split pat s ix : is_prefix pat (skipn ix s) = true -> s = firstn ix s ++ pat ++ skipn (ix + length pat) s.
Proof.
  intros E. assert (S : strip_prefix pat (skipn ix s) = Some (skipn (length pat) (skipn ix s))) by (unfold strip_prefix; rewrite E; reflexivity).
  apply strip_prefix_spec in S. rewrite sk_skipn_skipn in S.
  rewrite <- (firstn_skipn ix s) at 1. rewrite S at 1. reflexivity.
Qed.

(* whatever the stem is: either it is its own main part, or it is  <main part> .restart- <digits> *)
Lemma stem_key_cases' B : stem_key B = (B, None) \/
  exists X D r, B = X ++ restart_tag ++ D /\ D <> [] /\ all_digits D = true /\ stem_key B = (X, Some r).
Proof.
  unfold stem_key. destruct (find_last_sub restart_tag B) as [ix|] eqn:E; [|left; reflexivity]. cbv zeta.
  destruct (negb (beq (skipn (ix + 9) B) []) && forallb is_digit (skipn (ix + 9) B)) eqn:C; [right | left; reflexivity].
  apply andb_prop in C. destruct C as [C1 C2]. rewrite forallb_is_digit in C2.
  exists (firstn ix B), (skipn (ix + 9) B). eexists. split; [|split; [|split; [exact C2 | reflexivity]]].
  - apply find_last_sub_prefix in E. exact (sk_prefix_split restart_tag B ix E).
  - intros Z. rewrite Z in C1. discriminate C1.
Qed.

(* a stem that ends with  <non-digit other than "-"> <digits>  has no restart counter *)
Lemma stem_key_tail B u x D : B = u ++ x :: D -> all_digits D = true -> is_digit x = false -> x <> 45 -> stem_key B = (B, None).
Proof.
  intros HB HD Hx Hne. destruct (stem_key_cases' B) as [E|(X & D' & r & HB' & _ & HD' & _)]; [exact E | exfalso].
  rewrite HB in HB'. change (restart_tag ++ D') with ([46; 114; 101; 115; 116; 97; 114; 116] ++ 45 :: D') in HB'. rewrite app_assoc in HB'.
  exact (Hne (sk_last_nondigit _ _ _ _ x 45 HD HD' Hx eq_refl HB')).
Qed.

(* the main part: either it is its own head, or it is  <head ending with "r"> <digits> *)
Lemma main_split_spec B h E : main_split B = Some (h, E) -> B = h ++ E /\ exists h0, h = h0 ++ [r_char].
Proof.
  unfold main_split. destruct (find_last_sub number_tag B) as [ix|] eqn:F.
  - intros H. injection H as <- <-. apply find_last_sub_prefix in F. split.
    + rewrite <- app_assoc. exact (sk_prefix_split number_tag B ix F).
    + exists (firstn ix B ++ [uscore]). rewrite <- app_assoc. reflexivity.
  - destruct (strip_prefix [r_char] B) as [d|] eqn:P; [|discriminate]. intros H. injection H as <- <-.
    apply strip_prefix_spec in P. split; [exact P | exists []; reflexivity].
Qed.

Lemma main_key_cases B : main_key B = (B, None) \/
  exists h0 E, B = (h0 ++ [r_char]) ++ E /\ E <> [] /\ all_digits E = true /\
               main_key B = (h0 ++ [r_char], Some (length (drop_zeros E), drop_zeros E)).
Proof.
  unfold main_key. destruct (main_split B) as [[h E]|] eqn:S; [|left; reflexivity].
  destruct (negb (beq E []) && forallb is_digit E) eqn:C; [right | left; reflexivity].
  apply andb_prop in C. destruct C as [C1 C2]. rewrite forallb_is_digit in C2.
  destruct (main_split_spec B h E S) as [HB [h0 ->]].
  exists h0, E. split; [exact HB|]. split; [|split; [exact C2 | reflexivity]].
  intros Z. rewrite Z in C1. discriminate C1.
Qed.

(* a main part that ends with  <non-digit other than "r"> <digits>  has no number *)
Lemma main_key_tail B u x D : B = u ++ x :: D -> all_digits D = true -> is_digit x = false -> x <> r_char -> main_key B = (B, None).
Proof.
  intros HB HD Hx Hne. destruct (main_key_cases B) as [E|(h0 & D' & HB' & _ & HD' & _)]; [exact E | exfalso].
  rewrite HB, <- app_assoc in HB'.
  exact (Hne (sk_last_nondigit _ _ _ _ x r_char HD HD' Hx eq_refl HB')).
Qed.

(* the head is a prefix of the main part *)
Lemma main_key_head B : exists t, B = fst (main_key B) ++ t.
Proof.
  destruct (main_key_cases B) as [E|(h0 & D & HB & _ & _ & E)]; rewrite E; cbn [fst].
  - exists []. rewrite app_nil_r. reflexivity.
  - exists D. exact HB.
Qed.

(* "_r" is not found in a part without "_" *)
Lemma sk_no_uscore_no_tag s : ~ In uscore s -> find_sub number_tag s = None.
Proof.
  induction s as [|c s IH]; intros H; [reflexivity|].
  assert (Hc : (uscore =? c) = false) by (apply N.eqb_neq; intros E; apply H; left; symmetry; exact E).
  cbn [find_sub]. unfold number_tag at 1. cbn [is_prefix]. change 95 with uscore. rewrite Hc. cbn [andb].
  rewrite IH; [reflexivity | intros I; apply H; right; exact I].
Qed.

Lemma all_digits_no_uscore D : all_digits D = true -> ~ In uscore D.
Proof. intros HD I. pose proof (sk_all_digits_in _ _ HD I) as X. discriminate X. Qed.

(* no hypothesis on F: the number is read behind the LAST "_r" *)
Lemma main_key_number F D : D <> [] -> all_digits D = true ->
  main_key (F ++ number_tag ++ D) = (F ++ number_tag, Some (length (drop_zeros D), drop_zeros D)).
Proof.
  intros Hne Hd. unfold main_key, main_split.
  assert (E : find_last_sub number_tag (F ++ number_tag ++ D) = Some (length F)).
  { rewrite (find_last_sub_skip number_tag F (number_tag ++ D) O); [f_equal; lia|].
    change (number_tag ++ D) with (uscore :: r_char :: D). apply find_last_sub_here; [reflexivity|].
    apply sk_no_uscore_no_tag. intros [X|X]; [discriminate X | exact (all_digits_no_uscore D Hd X)]. }
  rewrite E. cbv beta iota. rewrite sk_skipn_app. change (skipn 2 (number_tag ++ D)) with D.
  rewrite forallb_is_digit, Hd, sk_firstn_app. destruct D; [congruence|]. reflexivity.
Qed.

(* a main part without any "_r" that is  r <digits>  (no basename, no discriminant): the number behind the leading "r" *)
Lemma main_key_number_nil D : D <> [] -> all_digits D = true ->
  main_key (r_char :: D) = ([r_char], Some (length (drop_zeros D), drop_zeros D)).
Proof.
  intros Hne Hd. unfold main_key, main_split.
  rewrite (proj2 (find_last_sub_none number_tag (r_char :: D))).
  - change (strip_prefix [r_char] (r_char :: D)) with (Some D). cbv beta iota.
    rewrite forallb_is_digit, Hd. destruct D; [congruence|]. reflexivity.
  - apply sk_no_uscore_no_tag. intros [X|X]; [discriminate X | exact (all_digits_no_uscore D Hd X)].
Qed.

(* both: behind the fixed name part and its "_" - if there is one - the infix  r <digits> *)
Lemma main_key_number_under fixed D : D <> [] -> all_digits D = true ->
  main_key (under fixed ++ r_char :: D) = (under fixed ++ [r_char], Some (length (drop_zeros D), drop_zeros D)).
Proof.
  intros Hne Hd. destruct fixed as [|c fx]; [exact (main_key_number_nil D Hne Hd)|].
  unfold under. rewrite <- !app_assoc. exact (main_key_number (c :: fx) D Hne Hd).
Qed.

(* ------------------------------------------------------------------------------------------------------ *)
(* 3c. THE NAMING THEOREM                                                                                    *)

Definition restart_infix (i : bytes) (k : N) : bytes := i ++ restart_tag ++ pad_left 4 48 (dec k).

Lemma restart_infix_nonempty i k : restart_infix i k <> [].
Proof. unfold restart_infix, restart_tag. destruct i; discriminate. Qed.

Lemma sk_as_name_some sp fixed j : j <> [] -> as_name sp fixed (Some j) = with_suffix sp (under fixed ++ j).
Proof. intros Hne. unfold as_name. destruct j; [congruence|reflexivity]. Qed.

Lemma as_name_restart sp fixed i k :
  as_name sp fixed (Some (restart_infix i k)) = with_suffix sp ((under fixed ++ i) ++ restart_tag ++ restart_digits k).
Proof.
  rewrite (sk_as_name_some _ _ _ (restart_infix_nonempty i k)). unfold restart_infix, restart_digits.
  rewrite app_assoc. reflexivity.
Qed.

(* the hypothesis on the uncompressed name (the same as in FamilyFacts.full_infix_as_name): with a suffix s it
   says that s is not "gz" and does not end with ".gz"; it carries over to the names with restart counter *)
Lemma with_suffix_no_gz_restart sp fixed i j k : j <> [] ->
  strip_suffix (dot :: gz_sfx) (as_name sp fixed (Some j)) = None ->
  strip_suffix (dot :: gz_sfx) (with_suffix sp ((under fixed ++ i) ++ restart_tag ++ restart_digits k)) = None.
Proof.
  intros Hne. rewrite (sk_as_name_some _ _ _ Hne). unfold with_suffix. destruct (fsfx sp) as [s|].
  - rewrite !sk_strip_suffix_none, !sk_gz_app. auto.
  - intros _. rewrite app_assoc. apply sk_gz_digits; [apply restart_digits_nonempty | apply restart_digits_all].
Qed.

(* the key of a stem without restart counter *)
Definition plain_key (B : bytes) : bytes * option (nat * bytes) * option (nat * bytes) :=
  (fst (main_key B), snd (main_key B), None).

Lemma sort_key_plain_name sp fixed i g : i <> [] ->
  contains restart_tag (under fixed ++ i) = false ->
  strip_suffix (dot :: gz_sfx) (as_name sp fixed (Some i)) = None ->
  sort_key (fsfx sp) (add_gz g (as_name sp fixed (Some i))) = plain_key (under fixed ++ i).
Proof.
  intros Hne Hc Hgz. rewrite (sk_as_name_some _ _ _ Hne) in *.
  rewrite sort_key_stem, (sk_stem_with_suffix _ _ _ Hgz). unfold full_key, plain_key. rewrite (stem_key_plain _ Hc). reflexivity.
Qed.

(* without the hypothesis on ".restart-": the stem is its own main part, or it is  <main part> .restart- <digits> *)
Lemma sort_key_plain_name_cases sp fixed i g : i <> [] ->
  strip_suffix (dot :: gz_sfx) (as_name sp fixed (Some i)) = None ->
  let n0 := add_gz g (as_name sp fixed (Some i)) in
  sort_key (fsfx sp) n0 = plain_key (under fixed ++ i)
  \/ exists X D r, under fixed ++ i = X ++ restart_tag ++ D /\ D <> [] /\ all_digits D = true /\
                   sort_key (fsfx sp) n0 = (fst (main_key X), snd (main_key X), Some r).
Proof.
  intros Hne Hgz n0. subst n0. rewrite (sk_as_name_some _ _ _ Hne) in *.
  rewrite sort_key_stem, (sk_stem_with_suffix _ _ _ Hgz). unfold full_key, plain_key.
  destruct (stem_key_cases' (under fixed ++ i)) as [E|(X & D & r & HB & HD1 & HD2 & E)]; rewrite E; cbn [fst snd].
  - left. reflexivity.
  - right. exists X, D, r. repeat split; assumption.
Qed.

(* the fixed name part and the infix may contain ".restart-" themselves: the counter is the one behind the last one *)
Lemma sort_key_restart_name sp fixed i j k g : j <> [] ->
  strip_suffix (dot :: gz_sfx) (as_name sp fixed (Some j)) = None ->
  sort_key (fsfx sp) (add_gz g (as_name sp fixed (Some (restart_infix i k))))
  = (fst (main_key (under fixed ++ i)), snd (main_key (under fixed ++ i)),
     Some (length (drop_zeros (restart_digits k)), drop_zeros (restart_digits k))).
Proof.
  intros Hne Hgz. rewrite as_name_restart.
  rewrite sort_key_stem, (sk_stem_with_suffix _ _ _ (with_suffix_no_gz_restart sp fixed i j k Hne Hgz)).
  unfold full_key. rewrite stem_key_restart; [reflexivity | apply restart_digits_nonempty | apply restart_digits_all].
Qed.

(* names with the same main part and number key and different restart keys are ordered by the restart keys *)
Lemma key_le_by_rkey sfx x y m n rx ry :
  sort_key sfx x = (m, n, rx) -> sort_key sfx y = (m, n, ry) -> rkey_eq rx ry = false -> key_le sfx x y = rkey_le rx ry.
Proof. intros Ex Ey Hne. unfold key_le. rewrite Ex, Ey, beq_refl, (proj2 (rkey_eq_iff n n) eq_refl), Hne. reflexivity. Qed.

(* names with the same main part and different number keys are ordered by the number keys *)
Lemma key_le_by_nkey sfx x y m nx ny rx ry :
  sort_key sfx x = (m, nx, rx) -> sort_key sfx y = (m, ny, ry) -> rkey_eq nx ny = false -> key_le sfx x y = rkey_le nx ny.
Proof. intros Ex Ey Hne. unfold key_le. rewrite Ex, Ey, beq_refl, Hne. reflexivity. Qed.

(* names with different main parts are ordered by the main parts *)
Lemma key_le_by_main sfx x y mx my nx ny rx ry :
  sort_key sfx x = (mx, nx, rx) -> sort_key sfx y = (my, ny, ry) -> mx <> my -> key_le sfx x y = lex_le mx my.
Proof. intros Ex Ey Hne. unfold key_le. rewrite Ex, Ey, (beq_neq _ _ Hne). reflexivity. Qed.

(* a proper prefix is smaller *)
Lemma lex_lt_firstn B : forall ix, (ix < length B)%nat -> lex_lt (firstn ix B) B = true.
Proof.
  induction B as [|x B IH]; intros ix H; [cbn [length] in H; lia|].
  destruct ix as [|ix]; [reflexivity|]. cbn [firstn lex_lt length] in *. rewrite N.ltb_irrefl, N.eqb_refl. cbn [orb andb].
  apply IH. lia.
Qed.

Lemma firstn_proper (B : bytes) ix : (ix < length B)%nat -> firstn ix B <> B.
Proof. intros H E. apply (f_equal (@length N)) in E. rewrite firstn_length in E. lia. Qed.

Lemma lex_lt_app_proper (h t : bytes) : t <> [] -> lex_lt h (h ++ t) = true /\ h <> h ++ t.
Proof.
  intros Ht. assert (L : (length h < length (h ++ t))%nat) by (rewrite app_length; destruct t; [congruence | cbn [length]; lia]).
  rewrite <- (sk_firstn_app h t) at 1 3. split; [apply lex_lt_firstn, L | apply firstn_proper, L].
Qed.

Lemma rkey_eq_sym a b : rkey_eq a b = rkey_eq b a.
Proof.
  destruct (rkey_eq a b) eqn:E1, (rkey_eq b a) eqn:E2; try reflexivity.
  - apply rkey_eq_iff in E1. subst b. rewrite (proj2 (rkey_eq_iff a a) eq_refl) in E2. discriminate.
  - apply rkey_eq_iff in E2. subst b. rewrite (proj2 (rkey_eq_iff a a) eq_refl) in E1. discriminate.
Qed.

(* (a)+(c): the file without restart counter sorts strictly before every file with one; g0, g1 say whether
   the respective file is compressed (carries an additional ".gz").  No hypothesis on ".restart-" in the fixed
   name part or in the infix: if the stem under fixed ++ i itself ends with ".restart-<digits>", the main part of
   the plain name is a proper prefix of the main part of the other one (which, ending with "-<digits>", carries no
   number), and the plain name still comes first *)
Theorem naming_plain_before_restart : forall sp sfx fixed i k (g0 g1 : bool),
  fsfx sp = sfx -> i <> [] ->
  strip_suffix (dot :: gz_sfx) (as_name sp fixed (Some i)) = None ->
  let n0 := add_gz g0 (as_name sp fixed (Some i)) in
  let n1 := add_gz g1 (as_name sp fixed (Some (restart_infix i k))) in
  key_le sfx n0 n1 = true /\ key_le sfx n1 n0 = false.
Proof.
  intros sp sfx fixed i k g0 g1 <- Hne Hgz n0 n1. subst n0 n1.
  pose proof (sort_key_restart_name sp fixed i i k g1 Hne Hgz) as E1.
  destruct (sort_key_plain_name_cases sp fixed i g0 Hne Hgz) as [E0|(X & D & r & HB & HD1 & HD2 & E0)].
  - unfold plain_key in E0. split.
    + rewrite (key_le_by_rkey _ _ _ _ _ _ _ E0 E1); reflexivity.
    + rewrite (key_le_by_rkey _ _ _ _ _ _ _ E1 E0); reflexivity.
  - assert (EB : main_key (under fixed ++ i) = (under fixed ++ i, None)).
    { apply (main_key_tail _ (X ++ [46; 114; 101; 115; 116; 97; 114; 116]) 45 D); [|exact HD2 | reflexivity | discriminate].
      rewrite HB, <- app_assoc. reflexivity. }
    rewrite EB in E1. cbn [fst snd] in E1.
    destruct (main_key_head X) as [t Ht].
    assert (HP : under fixed ++ i = fst (main_key X) ++ (t ++ restart_tag ++ D)) by (rewrite app_assoc, <- Ht; exact HB).
    destruct (lex_lt_app_proper (fst (main_key X)) (t ++ restart_tag ++ D)) as [Hl Hd].
    { intros Z. apply app_eq_nil in Z. destruct Z as [_ Z]. discriminate Z. }
    rewrite <- HP in Hl, Hd. split.
    + rewrite (key_le_by_main _ _ _ _ _ _ _ _ _ E0 E1 Hd). unfold lex_le. rewrite (lex_lt_asym _ _ Hl). reflexivity.
    + rewrite (key_le_by_main _ _ _ _ _ _ _ _ _ E1 E0 (fun E => Hd (eq_sym E))). unfold lex_le. rewrite Hl. reflexivity.
Qed.

(* (b)+(c): restart counters sort numerically, strictly.  No hypothesis on the number of digits, none on ".restart-"
   in the fixed name part or in the infix (the sort key reads the counter behind the LAST ".restart-"); the hypothesis
   on ".gz" may be given for any non-empty infix j (it only concerns the suffix when there is one, and is not
   needed at all without suffix) *)
Theorem naming_restart_order : forall sp sfx fixed i j k1 k2 (g1 g2 : bool),
  fsfx sp = sfx -> j <> [] ->
  strip_suffix (dot :: gz_sfx) (as_name sp fixed (Some j)) = None ->
  k1 < k2 ->
  let n1 := add_gz g1 (as_name sp fixed (Some (restart_infix i k1))) in
  let n2 := add_gz g2 (as_name sp fixed (Some (restart_infix i k2))) in
  key_le sfx n1 n2 = true /\ key_le sfx n2 n1 = false.
Proof.
  intros sp sfx fixed i j k1 k2 g1 g2 <- Hne Hgz Hlt n1 n2. subst n1 n2.
  pose proof (sort_key_restart_name sp fixed i j k1 g1 Hne Hgz) as E1.
  pose proof (sort_key_restart_name sp fixed i j k2 g2 Hne Hgz) as E2.
  destruct (rkey_restart_lt k1 k2 Hlt) as [L12 [L21 Q]].
  split.
  - rewrite (key_le_by_rkey _ _ _ _ _ _ _ E1 E2 Q). exact L12.
  - rewrite (key_le_by_rkey _ _ _ _ _ _ _ E2 E1); [exact L21|]. rewrite rkey_eq_sym. exact Q.
Qed.

(* the uncompressed instances, as in the task statement *)
Corollary naming_a : forall sp sfx fixed i k,
  fsfx sp = sfx -> i <> [] ->
  strip_suffix (dot :: gz_sfx) (as_name sp fixed (Some i)) = None ->
  key_le sfx (as_name sp fixed (Some i)) (as_name sp fixed (Some (restart_infix i k))) = true /\
  key_le sfx (as_name sp fixed (Some (restart_infix i k))) (as_name sp fixed (Some i)) = false.
Proof. intros sp sfx fixed i k Hs Hne Hgz. exact (naming_plain_before_restart sp sfx fixed i k false false Hs Hne Hgz). Qed.

Corollary naming_b : forall sp sfx fixed i k1 k2,
  fsfx sp = sfx -> i <> [] ->
  strip_suffix (dot :: gz_sfx) (as_name sp fixed (Some i)) = None ->
  k1 < k2 ->
  key_le sfx (as_name sp fixed (Some (restart_infix i k1))) (as_name sp fixed (Some (restart_infix i k2))) = true /\
  key_le sfx (as_name sp fixed (Some (restart_infix i k2))) (as_name sp fixed (Some (restart_infix i k1))) = false.
Proof.
  intros sp sfx fixed i k1 k2 Hs Hne Hgz Hlt.
  exact (naming_restart_order sp sfx fixed i i k1 k2 false false Hs Hne Hgz Hlt).
Qed.

(* ------------------------------------------------------------------------------------------------------ *)
(* 4. in the listing (newest first) the higher restart counter comes first, the file without counter last  *)

Theorem listing_restart_order : forall sp sfx fixed i j k1 k2 (g1 g2 : bool) l,
  fsfx sp = sfx -> j <> [] ->
  strip_suffix (dot :: gz_sfx) (as_name sp fixed (Some j)) = None ->
  k1 < k2 ->
  let n1 := add_gz g1 (as_name sp fixed (Some (restart_infix i k1))) in
  let n2 := add_gz g2 (as_name sp fixed (Some (restart_infix i k2))) in
  In n1 l -> In n2 l ->
  exists l1 l2 l3, rev (sort_by_key sfx l) = l1 ++ n2 :: l2 ++ n1 :: l3.
Proof.
  intros sp sfx fixed i j k1 k2 g1 g2 l Hs Hne Hgz Hlt n1 n2 H1 H2.
  apply listing_order; [exact H1 | exact H2 |].
  exact (proj2 (naming_restart_order sp sfx fixed i j k1 k2 g1 g2 Hs Hne Hgz Hlt)).
Qed.

Theorem listing_plain_last : forall sp sfx fixed i k (g0 g1 : bool) l,
  fsfx sp = sfx -> i <> [] ->
  strip_suffix (dot :: gz_sfx) (as_name sp fixed (Some i)) = None ->
  let n0 := add_gz g0 (as_name sp fixed (Some i)) in
  let n1 := add_gz g1 (as_name sp fixed (Some (restart_infix i k))) in
  In n0 l -> In n1 l ->
  exists l1 l2 l3, rev (sort_by_key sfx l) = l1 ++ n1 :: l2 ++ n0 :: l3.
Proof.
  intros sp sfx fixed i k g0 g1 l Hs Hne Hgz n0 n1 H0 H1.
  apply listing_order; [exact H0 | exact H1 |].
  exact (proj2 (naming_plain_before_restart sp sfx fixed i k g0 g1 Hs Hne Hgz)).
Qed.

(* the same for the listing of a directory *)
Corollary related_files_restart_order : forall f sp sfx fixed i j k1 k2 (g1 g2 : bool),
  fsfx sp = sfx -> j <> [] ->
  strip_suffix (dot :: gz_sfx) (as_name sp fixed (Some j)) = None ->
  k1 < k2 ->
  let n1 := add_gz g1 (as_name sp fixed (Some (restart_infix i k1))) in
  let n2 := add_gz g2 (as_name sp fixed (Some (restart_infix i k2))) in
  In n1 (related_files f sfx fixed) -> In n2 (related_files f sfx fixed) ->
  exists l1 l2 l3, related_files f sfx fixed = l1 ++ n2 :: l2 ++ n1 :: l3.
Proof.
  intros f sp sfx fixed i j k1 k2 g1 g2 Hs Hne Hgz Hlt n1 n2. unfold related_files.
  rewrite <- !in_rev, !In_sort_by_key. apply listing_restart_order with (j := j); assumption.
Qed.

(* ------------------------------------------------------------------------------------------------------ *)
(* the hypotheses are satisfiable, and the conclusion computes: suffix "trc" (sorts after "restart-"),
   counters 9999 and 10000 (4 and 5 digits) *)
Import String.StringSyntax.
Delimit Scope string_scope with string.
Definition ex_sp : file_spec := {| fbase := bs "a"%string; fdisc := None; fts := false; fsfx := Some (bs "trc"%string) |}.
Definition ex_fixed : bytes := bs "a"%string.
Definition ex_infix : bytes := bs "r2024-02-29_23-59-58"%string.

Example ex_hypotheses :
  ex_infix <> [] /\
  strip_suffix (dot :: gz_sfx) (as_name ex_sp ex_fixed (Some ex_infix)) = None /\
  as_name ex_sp ex_fixed (Some (restart_infix ex_infix 9999)) = bs "a_r2024-02-29_23-59-58.restart-9999.trc"%string /\
  as_name ex_sp ex_fixed (Some (restart_infix ex_infix 10000)) = bs "a_r2024-02-29_23-59-58.restart-10000.trc"%string.
Proof. split; [discriminate|]. vm_compute. repeat split; reflexivity. Qed.

Example ex_conclusion :
  let n0 := as_name ex_sp ex_fixed (Some ex_infix) in
  let n1 := as_name ex_sp ex_fixed (Some (restart_infix ex_infix 9999)) in
  let n2 := as_name ex_sp ex_fixed (Some (restart_infix ex_infix 10000)) in
  let gz n := n ++ dot :: gz_sfx in
  (key_le (Some (bs "trc"%string)) n0 n1 && negb (key_le (Some (bs "trc"%string)) n1 n0) &&
   key_le (Some (bs "trc"%string)) n1 n2 && negb (key_le (Some (bs "trc"%string)) n2 n1) &&
   key_le (Some (bs "trc"%string)) (gz n1) n2 && negb (key_le (Some (bs "trc"%string)) n2 (gz n1)) &&
   key_le (Some (bs "trc"%string)) n1 (gz n2) && negb (key_le (Some (bs "trc"%string)) (gz n2) n1) &&
   (* the plain byte order would put 10000 before 9999 *)
   negb (lex_le n1 n2)) = true /\
  rev (sort_by_key (Some (bs "trc"%string)) [n1; gz n2; n0]) = [gz n2; n1; n0].
Proof. vm_compute. split; reflexivity. Qed.

(* the fixed name part may contain ".restart-" itself: basename "a.restart-7".  The sort key reads the counter behind
   the LAST ".restart-" of the stem (str::rsplit_once), so 9999 still sorts before 10000, and the file without counter
   first; with the first occurrence (str::split_once, the code before the repair) all three names had the main part "a"
   and no restart key, and the byte order put 10000 before 9999 *)
Definition ex_sp7 : file_spec := {| fbase := bs "a.restart-7"%string; fdisc := None; fts := false; fsfx := Some (bs "trc"%string) |}.
Definition ex_fixed7 : bytes := bs "a.restart-7"%string.
Example ex_tag_in_basename :
  let n0 := as_name ex_sp7 ex_fixed7 (Some ex_infix) in
  let n1 := as_name ex_sp7 ex_fixed7 (Some (restart_infix ex_infix 9999)) in
  let n2 := as_name ex_sp7 ex_fixed7 (Some (restart_infix ex_infix 10000)) in
  let gz n := n ++ dot :: gz_sfx in
  contains restart_tag (under ex_fixed7 ++ ex_infix) = true /\
  n1 = bs "a.restart-7_r2024-02-29_23-59-58.restart-9999.trc"%string /\
  n2 = bs "a.restart-7_r2024-02-29_23-59-58.restart-10000.trc"%string /\
  sort_key (Some (bs "trc"%string)) n1 = (bs "a.restart-7_r2024-02-29_23-59-58"%string, None, Some (4%nat, bs "9999"%string)) /\
  sort_key (Some (bs "trc"%string)) n2 = (bs "a.restart-7_r2024-02-29_23-59-58"%string, None, Some (5%nat, bs "10000"%string)) /\
  sort_key (Some (bs "trc"%string)) n0 = (bs "a.restart-7_r2024-02-29_23-59-58"%string, None, None) /\
  (key_le (Some (bs "trc"%string)) n0 n1 && negb (key_le (Some (bs "trc"%string)) n1 n0) &&
   key_le (Some (bs "trc"%string)) n1 n2 && negb (key_le (Some (bs "trc"%string)) n2 n1) &&
   key_le (Some (bs "trc"%string)) (gz n1) n2 && negb (key_le (Some (bs "trc"%string)) n2 (gz n1)) &&
   negb (lex_le n1 n2)) = true /\
  rev (sort_by_key (Some (bs "trc"%string)) [n1; gz n2; n0]) = [gz n2; n1; n0].
Proof. vm_compute. repeat split; reflexivity. Qed.

(* the same from the theorems, which have no hypothesis on ".restart-" any more *)
Example ex_tag_in_basename_thm :
  key_le (Some (bs "trc"%string)) (as_name ex_sp7 ex_fixed7 (Some (restart_infix ex_infix 9999)))
                                   (as_name ex_sp7 ex_fixed7 (Some (restart_infix ex_infix 10000))) = true /\
  key_le (Some (bs "trc"%string)) (as_name ex_sp7 ex_fixed7 (Some (restart_infix ex_infix 10000)))
                                   (as_name ex_sp7 ex_fixed7 (Some (restart_infix ex_infix 9999))) = false.
Proof. apply (naming_b ex_sp7 (Some (bs "trc"%string)) ex_fixed7 ex_infix 9999 10000); [reflexivity | discriminate | vm_compute; reflexivity | lia]. Qed.

(* a plain name whose own stem ends with ".restart-<digits>" (infix "x.restart-3"): its main part is a proper prefix
   of the main part of its restart siblings, it still sorts first *)
Example ex_tag_at_end_of_infix :
  let i := bs "x.restart-3"%string in
  let n0 := as_name ex_sp ex_fixed (Some i) in
  let n1 := as_name ex_sp ex_fixed (Some (restart_infix i 0)) in
  sort_key (Some (bs "trc"%string)) n0 = (bs "a_x"%string, None, Some (1%nat, bs "3"%string)) /\
  sort_key (Some (bs "trc"%string)) n1 = (bs "a_x.restart-3"%string, None, Some (0%nat, [])) /\
  key_le (Some (bs "trc"%string)) n0 n1 = true /\ key_le (Some (bs "trc"%string)) n1 n0 = false.
Proof. vm_compute. repeat split; reflexivity. Qed.

(* the hypothesis on ".gz" cannot be dropped: with a suffix that ends with ".gz" the sort key takes the suffix for
   the compression mark, finds no restart counter, and 10000 sorts before 9999 *)
Definition ex_sp_bad : file_spec := {| fbase := bs "a"%string; fdisc := None; fts := false; fsfx := Some (bs "log.gz"%string) |}.
Example ex_gz_suffix_needed :
  strip_suffix (dot :: gz_sfx) (as_name ex_sp_bad ex_fixed (Some ex_infix)) <> None /\
  key_le (fsfx ex_sp_bad) (as_name ex_sp_bad ex_fixed (Some (restart_infix ex_infix 10000)))
                          (as_name ex_sp_bad ex_fixed (Some (restart_infix ex_infix 9999))) = true /\
  key_le (fsfx ex_sp_bad) (as_name ex_sp_bad ex_fixed (Some (restart_infix ex_infix 9999)))
                          (as_name ex_sp_bad ex_fixed (Some (restart_infix ex_infix 10000))) = false.
Proof. vm_compute. repeat split; (discriminate || reflexivity). Qed.

Print Assumptions key_le_refl.
Print Assumptions key_le_total.
Print Assumptions key_le_trans.
Print Assumptions key_le_antisym.
Print Assumptions sort_by_key_perm.
Print Assumptions sort_by_key_strongly_sorted.
Print Assumptions sort_by_key_sorted.
Print Assumptions naming_plain_before_restart.
Print Assumptions naming_restart_order.
Print Assumptions naming_a.
Print Assumptions naming_b.
Print Assumptions listing_restart_order.
Print Assumptions listing_plain_last.
Print Assumptions related_files_restart_order.
Print Assumptions drop_zeros_restart_digits.
Print Assumptions dec_length_mono.
Print Assumptions dec_lex_le_iff.

(* ------------------------------------------------------------------------------------------------------ *)
(* 5. THE NUMBER INFIX: the files  <fixed>_r<number>  are ordered by the number, however many digits it has  *)

(* the digits that the model writes for a number infix, and what the sort key keeps of them *)
Definition number_digits (k : N) : bytes := pad_left 5 48 (dec k).

Lemma number_digits_all k : all_digits (number_digits k) = true.
Proof. unfold number_digits, pad_left. rewrite all_digits_app, all_digits_repeat0, dec_all_digits. reflexivity. Qed.

Lemma number_digits_nonempty k : number_digits k <> [].
Proof.
  unfold number_digits, pad_left. intros E. apply app_eq_nil in E. destruct E as [_ E]. exact (dec_nonempty k E).
Qed.

Lemma number_digits_value k : dec_value (drop_zeros (number_digits k)) = k.
Proof. unfold number_digits, pad_left. rewrite drop_zeros_value, dec_value_zeros. apply dec_value_dec. Qed.

Lemma number_infix_digits k : number_infix k = r_char :: number_digits k.
Proof. reflexivity. Qed.

(* the hypothesis on ".gz" (given for any non-empty infix j) carries over to the names that end with digits *)
Lemma with_suffix_no_gz_digits sp fixed j X D : j <> [] ->
  strip_suffix (dot :: gz_sfx) (as_name sp fixed (Some j)) = None ->
  D <> [] -> all_digits D = true ->
  strip_suffix (dot :: gz_sfx) (with_suffix sp (X ++ D)) = None.
Proof.
  intros Hne. rewrite (sk_as_name_some _ _ _ Hne). unfold with_suffix. destruct (fsfx sp) as [s|].
  - rewrite !sk_strip_suffix_none, !sk_gz_app. auto.
  - intros _ HD1 HD2. apply sk_gz_digits; assumption.
Qed.

(* the key of a number name: the part up to and including the "r" of the infix, the number without leading zeros, no
   restart counter - with a fixed name part (the "r" is the one of the last "_r") or without (the leading "r") *)
Lemma sort_key_number_name sp fixed j k g : j <> [] ->
  strip_suffix (dot :: gz_sfx) (as_name sp fixed (Some j)) = None ->
  sort_key (fsfx sp) (add_gz g (as_name sp fixed (Some (number_infix k))))
  = (under fixed ++ [r_char], Some (length (drop_zeros (number_digits k)), drop_zeros (number_digits k)), None).
Proof.
  intros Hne Hgz. rewrite (sk_as_name_some _ _ _ (number_infix_nonempty k)), number_infix_digits.
  change (under fixed ++ r_char :: number_digits k) with (under fixed ++ [r_char] ++ number_digits k). rewrite app_assoc.
  rewrite sort_key_stem, (sk_stem_with_suffix _ _ _ (with_suffix_no_gz_digits sp fixed j _ _ Hne Hgz (number_digits_nonempty k) (number_digits_all k))).
  unfold full_key. rewrite <- app_assoc. change ([r_char] ++ number_digits k) with (r_char :: number_digits k).
  rewrite (stem_key_tail _ (under fixed) r_char (number_digits k)); [| reflexivity | apply number_digits_all | reflexivity | discriminate].
  cbn [fst snd]. rewrite (main_key_number_under fixed _ (number_digits_nonempty k) (number_digits_all k)). reflexivity.
Qed.

(* THE NUMBER THEOREM: numbers sort numerically, strictly - no hypothesis on the number of digits, none on the fixed
   name part (the number is read behind the LAST "_r"; with an empty fixed name part behind the leading "r");
   g1, g2: compressed or not *)
Theorem naming_number_order : forall sp sfx fixed j k1 k2 (g1 g2 : bool),
  fsfx sp = sfx -> j <> [] ->
  strip_suffix (dot :: gz_sfx) (as_name sp fixed (Some j)) = None ->
  k1 < k2 ->
  let n1 := add_gz g1 (as_name sp fixed (Some (number_infix k1))) in
  let n2 := add_gz g2 (as_name sp fixed (Some (number_infix k2))) in
  key_le sfx n1 n2 = true /\ key_le sfx n2 n1 = false.
Proof.
  intros sp sfx fixed j k1 k2 g1 g2 <- Hne Hgz Hlt n1 n2. subst n1 n2.
  pose proof (sort_key_number_name sp fixed j k1 g1 Hne Hgz) as E1.
  pose proof (sort_key_number_name sp fixed j k2 g2 Hne Hgz) as E2.
  destruct (rkey_digits_lt (drop_zeros (number_digits k1)) (drop_zeros (number_digits k2))) as [L12 [L21 Q]];
    try (apply drop_zeros_all_digits, number_digits_all); try (intros r; apply drop_zeros_head);
    [rewrite !number_digits_value; exact Hlt|].
  split.
  - rewrite (key_le_by_nkey _ _ _ _ _ _ _ _ E1 E2 Q). exact L12.
  - rewrite (key_le_by_nkey _ _ _ _ _ _ _ _ E2 E1); [exact L21|]. rewrite rkey_eq_sym. exact Q.
Qed.

(* in the listing (newest first) the higher number comes first *)
Theorem listing_number_order : forall sp sfx fixed j k1 k2 (g1 g2 : bool) l,
  fsfx sp = sfx -> j <> [] ->
  strip_suffix (dot :: gz_sfx) (as_name sp fixed (Some j)) = None ->
  k1 < k2 ->
  let n1 := add_gz g1 (as_name sp fixed (Some (number_infix k1))) in
  let n2 := add_gz g2 (as_name sp fixed (Some (number_infix k2))) in
  In n1 l -> In n2 l ->
  exists l1 l2 l3, rev (sort_by_key sfx l) = l1 ++ n2 :: l2 ++ n1 :: l3.
Proof.
  intros sp sfx fixed j k1 k2 g1 g2 l Hs Hne Hgz Hlt n1 n2 H1 H2.
  apply listing_order; [exact H1 | exact H2 |].
  exact (proj2 (naming_number_order sp sfx fixed j k1 k2 g1 g2 Hs Hne Hgz Hlt)).
Qed.

Corollary related_files_number_order : forall f sp sfx fixed j k1 k2 (g1 g2 : bool),
  fsfx sp = sfx -> j <> [] ->
  strip_suffix (dot :: gz_sfx) (as_name sp fixed (Some j)) = None ->
  k1 < k2 ->
  let n1 := add_gz g1 (as_name sp fixed (Some (number_infix k1))) in
  let n2 := add_gz g2 (as_name sp fixed (Some (number_infix k2))) in
  In n1 (related_files f sfx fixed) -> In n2 (related_files f sfx fixed) ->
  exists l1 l2 l3, related_files f sfx fixed = l1 ++ n2 :: l2 ++ n1 :: l3.
Proof.
  intros f sp sfx fixed j k1 k2 g1 g2 Hs Hne Hgz Hlt n1 n2. unfold related_files.
  rewrite <- !in_rev, !In_sort_by_key. apply listing_number_order with (j := j); assumption.
Qed.

Print Assumptions naming_number_order.
Print Assumptions listing_number_order.
Print Assumptions related_files_number_order.

(* --- examples --- *)
Definition ex_lsp : file_spec := {| fbase := bs "a"%string; fdisc := None; fts := false; fsfx := Some (bs "log"%string) |}.
Definition ex_log : option bytes := Some (bs "log"%string).

(* the hypotheses are satisfiable and the conclusion computes: 99999 (five digits) and 100000 (six digits) *)
Example ex_number_thm :
  as_name ex_lsp (bs "a"%string) (Some (number_infix 99999)) = bs "a_r99999.log"%string /\
  as_name ex_lsp (bs "a"%string) (Some (number_infix 100000)) = bs "a_r100000.log"%string /\
  key_le ex_log (bs "a_r99999.log"%string) (bs "a_r100000.log.gz"%string) = true /\
  key_le ex_log (bs "a_r100000.log.gz"%string) (bs "a_r99999.log"%string) = false /\
  (* the plain byte order would put 100000 first *)
  lex_le (bs "a_r100000.log.gz"%string) (bs "a_r99999.log"%string) = true.
Proof.
  split; [reflexivity|]. split; [reflexivity|].
  destruct (naming_number_order ex_lsp ex_log (bs "a"%string) (number_infix 0) 99999 100000 false true) as [H1 H2];
    [reflexivity | discriminate | vm_compute; reflexivity | lia |].
  split; [exact H1|]. split; [exact H2|]. vm_compute. reflexivity.
Qed.

(* a basename that contains "_r12": the name sorts by its LAST "_r" part *)
Example ex_last_number_tag :
  sort_key ex_log (bs "x_r12_r00005.log"%string) = (bs "x_r12_r"%string, Some (1%nat, bs "5"%string), None) /\
  sort_key ex_log (bs "x_r12_r100000.log.gz"%string) = (bs "x_r12_r"%string, Some (6%nat, bs "100000"%string), None) /\
  sort_key ex_log (bs "x_r12_rCURRENT.log"%string) = (bs "x_r12_rCURRENT"%string, None, None) /\
  sort_key ex_log (bs "x_r12.log"%string) = (bs "x_r"%string, Some (2%nat, bs "12"%string), None) /\
  rev (sort_by_key ex_log [bs "x_r12_r00005.log"%string; bs "x_r12_r100000.log.gz"%string; bs "x_r12_r99999.log"%string;
                           bs "x_r12_rCURRENT.log"%string; bs "x_r12_r00010.log"%string])
  = [bs "x_r12_rCURRENT.log"%string; bs "x_r12_r100000.log.gz"%string; bs "x_r12_r99999.log"%string;
     bs "x_r12_r00010.log"%string; bs "x_r12_r00005.log"%string].
Proof. vm_compute. repeat split; reflexivity. Qed.

(* the listing of a directory, newest first: rCURRENT, then the numbers descending, compressed or not *)
Definition ex_dir (l : list bytes) : fs := fold_left (fun f n => fst (create_file f n 0 0%Z)) l empty_fs.

Example ex_related_files_numbers :
  related_files (ex_dir [bs "a_r99999.log"%string; bs "a_r100000.log"%string; bs "a_r100001.log"%string;
                         bs "a_rCURRENT.log"%string; bs "a_r00007.log.gz"%string; bs "b_r00001.log"%string]) ex_log (bs "a"%string)
  = [bs "a_rCURRENT.log"%string; bs "a_r100001.log"%string; bs "a_r100000.log"%string; bs "a_r99999.log"%string;
     bs "a_r00007.log.gz"%string].
Proof. vm_compute. reflexivity. Qed.

(* time-stamp names and restart counters: the order is what it was (nothing behind their last "_r" is a number) *)
Example ex_related_files_timestamps :
  sort_key ex_log (bs "a_r2024-02-29_23-59-58.restart-0001.log"%string)
  = (bs "a_r2024-02-29_23-59-58"%string, None, Some (1%nat, bs "1"%string)) /\
  related_files (ex_dir [bs "a_r2024-02-29_23-59-58.restart-10000.log"%string; bs "a_r2024-02-29_23-59-58.log.gz"%string;
                         bs "a_r2024-02-29_23-59-58.restart-9999.log.gz"%string; bs "a_rCURRENT.log"%string;
                         bs "a_r2024-02-29_23-59-57.restart-0000.log"%string; bs "a_r2024-03-01_00-00-00.log"%string;
                         bs "a_r2024-02-29_23-59-58.restart-0000.log"%string]) ex_log (bs "a"%string)
  = [bs "a_rCURRENT.log"%string; bs "a_r2024-03-01_00-00-00.log"%string;
     bs "a_r2024-02-29_23-59-58.restart-10000.log"%string; bs "a_r2024-02-29_23-59-58.restart-9999.log.gz"%string;
     bs "a_r2024-02-29_23-59-58.restart-0000.log"%string; bs "a_r2024-02-29_23-59-58.log.gz"%string;
     bs "a_r2024-02-29_23-59-57.restart-0000.log"%string].
Proof. vm_compute. split; reflexivity. Qed.

(* AN EMPTY FIXED NAME PART (basename suppressed, no discriminant, no start time): the number names are
   r<digits>.<suffix>  without "_"; there is no "_r" in them, and the key reads the number behind the leading "r":
   "r100000" sorts after "r99999" and is listed before it.  (This was the counterexample ex_empty_fixed_unrepaired
   to the first version of the repair, which split at "_r" only.) *)
Definition ex_nsp : file_spec := {| fbase := []; fdisc := None; fts := false; fsfx := Some (bs "log"%string) |}.
Example ex_empty_fixed_repaired :
  fixed_name_part ex_nsp [] = [] /\
  as_name ex_nsp [] (Some (number_infix 99999)) = bs "r99999.log"%string /\
  as_name ex_nsp [] (Some (number_infix 100000)) = bs "r100000.log"%string /\
  sort_key ex_log (bs "r100000.log"%string) = (bs "r"%string, Some (6%nat, bs "100000"%string), None) /\
  key_le ex_log (bs "r100000.log"%string) (bs "r99999.log"%string) = false /\
  key_le ex_log (bs "r99999.log"%string) (bs "r100000.log"%string) = true /\
  related_files (ex_dir [bs "r99999.log"%string; bs "r100000.log"%string; bs "rCURRENT.log"%string; bs "r00007.log.gz"%string]) ex_log []
  = [bs "rCURRENT.log"%string; bs "r100000.log"%string; bs "r99999.log"%string; bs "r00007.log.gz"%string].
Proof. vm_compute. repeat split; reflexivity. Qed.

(* the same from the theorem, which has no hypothesis on the fixed name part *)
Example ex_empty_fixed_thm :
  key_le ex_log (bs "r99999.log"%string) (bs "r100000.log.gz"%string) = true /\
  key_le ex_log (bs "r100000.log.gz"%string) (bs "r99999.log"%string) = false.
Proof.
  exact (naming_number_order ex_nsp ex_log [] (number_infix 0) 99999 100000 false true eq_refl ltac:(discriminate) eq_refl ltac:(lia)).
Qed.

(* the leading "r" counts only when there is no "_r" at all, and only in front of digits: other names are as they were *)
Example ex_leading_r_only :
  sort_key ex_log (bs "r12_rCURRENT.log"%string) = (bs "r12_rCURRENT"%string, None, None) /\
  sort_key ex_log (bs "rCURRENT.log"%string) = (bs "rCURRENT"%string, None, None) /\
  sort_key ex_log (bs "r2024-02-29_23-59-58.restart-0001.log"%string) = (bs "r2024-02-29_23-59-58"%string, None, Some (1%nat, bs "1"%string)) /\
  sort_key ex_log (bs "xr00005.log"%string) = (bs "xr00005"%string, None, None).
Proof. vm_compute. repeat split; reflexivity. Qed.
