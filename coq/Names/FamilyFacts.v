(* The family test of the listing (infix_candidate / filter_files) against the documented name pattern, and the
   round trip between building a name and recognising it. *)
Require Import FL.Base.Bytes FL.Base.BytesFacts FL.Base.PathName FL.Fs.Fs FL.Names.FileSpec FL.Oracles.ReaderOrder.
Import String.StringSyntax.
Delimit Scope string_scope with string.
Open Scope nat_scope.

Definition no_dot (s : bytes) : Prop := ~ In dot s.
Definition restart_part (rs : bytes) : Prop :=
  rs = [] \/ exists d, rs = dot :: restart_word ++ d /\ 4 <= length d /\ all_digits d = true.

(* the documented pattern of a (plain) family member: fixed [_] infix [.restart-NNNN] [.suffix] *)
Definition family_plain (sp : file_spec) (fixed name infix : bytes) : Prop :=
  exists rs, restart_part rs /\ infix <> [] /\ no_dot infix /\
    name = (match fixed with [] => [] | _ => fixed ++ [uscore] end) ++ infix ++ rs
           ++ (match fsfx sp with Some s => dot :: s | None => [] end).

(* ---------- auxiliary facts about the byte-string functions ---------- *)

Lemma is_prefix_app p r : is_prefix p (p ++ r) = true.
Proof.
  induction p as [|x p IH]; cbn [is_prefix app]; [reflexivity|].
  rewrite N.eqb_refl, IH. reflexivity.
Qed.

Lemma skipn_length_app {A} (p r : list A) : skipn (length p) (p ++ r) = r.
Proof. induction p as [|x p IH]; cbn [length skipn app]; auto. Qed.

Lemma firstn_length_app {A} (p r : list A) : firstn (length p) (p ++ r) = p.
Proof. induction p as [|x p IH]; cbn [length firstn app]; [reflexivity|]. rewrite IH. reflexivity. Qed.

Lemma strip_prefix_app p r : strip_prefix p (p ++ r) = Some r.
Proof. unfold strip_prefix. rewrite is_prefix_app, skipn_length_app. reflexivity. Qed.

Lemma strip_suffix_app x r : strip_suffix x (r ++ x) = Some r.
Proof. unfold strip_suffix. rewrite rev_app_distr, strip_prefix_app, rev_involutive. reflexivity. Qed.

Lemma strip_prefix_iff p s r : strip_prefix p s = Some r <-> s = p ++ r.
Proof. split; [apply strip_prefix_spec|]. intros ->. apply strip_prefix_app. Qed.

Lemma strip_suffix_iff x s r : strip_suffix x s = Some r <-> s = r ++ x.
Proof. split; [apply strip_suffix_spec|]. intros ->. apply strip_suffix_app. Qed.

Lemma find_byte_some c s : forall e, find_byte c s = Some e ->
  s = firstn e s ++ c :: skipn (S e) s /\ ~ In c (firstn e s).
Proof.
  induction s as [|x s IH]; intros e H; cbn [find_byte] in H; [discriminate|].
  destruct (N.eqb_spec x c) as [Hx|Hx].
  - injection H as <-. subst x. cbn [firstn skipn app]. split; [reflexivity|]. intros [].
  - destruct (find_byte c s) as [i|] eqn:Ei; [|discriminate]. injection H as <-.
    destruct (IH i eq_refl) as [H1 H2]. cbn [firstn skipn app]. split.
    + f_equal. exact H1.
    + cbn [In]. intros [Hc|Hc]; [exact (Hx Hc)|exact (H2 Hc)].
Qed.

Lemma find_byte_none c s : find_byte c s = None <-> ~ In c s.
Proof.
  induction s as [|x s IH]; cbn [find_byte In].
  - split; [intros _ []|reflexivity].
  - destruct (N.eqb_spec x c) as [Hx|Hx].
    + split; [discriminate|]. intros H. exfalso. apply H. left. exact Hx.
    + destruct (find_byte c s) as [i|].
      * split; [discriminate|]. intros H. exfalso.
        assert (Hn : ~ In c s) by (intros Hc; apply H; right; exact Hc).
        apply IH in Hn. discriminate.
      * split; [|reflexivity]. intros _ [Hc|Hc]; [exact (Hx Hc)|]. destruct IH as [IH1 _]. exact (IH1 eq_refl Hc).
Qed.

Lemma find_byte_app c a b : ~ In c a -> find_byte c (a ++ c :: b) = Some (length a).
Proof.
  induction a as [|x a IH]; intros Hn; cbn [find_byte app length].
  - rewrite N.eqb_refl. reflexivity.
  - destruct (N.eqb_spec x c) as [Hx|Hx].
    + exfalso. apply Hn. left. exact Hx.
    + rewrite IH; [reflexivity|]. intros Hc. apply Hn. right. exact Hc.
Qed.

Lemma tail_ok_spec tail : tail_ok tail = true <->
  exists d, tail = restart_word ++ d /\ 4 <= length d /\ all_digits d = true.
Proof.
  unfold tail_ok. split.
  - destruct (strip_prefix restart_word tail) as [d|] eqn:E; [|discriminate]. intros H.
    apply andb_prop in H. destruct H as [H1 H2]. apply strip_prefix_spec in E.
    exists d. split; [exact E|]. split; [apply Nat.leb_le; exact H1|exact H2].
  - intros [d [-> [H1 H2]]]. rewrite strip_prefix_app. apply Nat.leb_le in H1. rewrite H1, H2. reflexivity.
Qed.

(* ---------- the family test, reduced to its core ---------- *)

(* the part of infix_candidate after the suffixes have been removed *)
Definition cand_core (fixed st : bytes) : option bytes :=
  match (match fixed with [] => Some st | _ => strip_prefix (fixed ++ [uscore]) st end) with
  | None => None
  | Some [] => None
  | Some rest =>
    match find_byte dot rest with
    | None => Some rest
    | Some e => if tail_ok (skipn (S e) rest) then Some (firstn e rest) else None
    end
  end.

(* plain listing: the gz special case cannot apply when the listing suffix is the family's own *)
Lemma infix_candidate_plain o fixed name :
  infix_candidate o o fixed name =
  match (match o with Some l => strip_suffix (dot :: l) name | None => Some name end) with
  | None => None
  | Some st => cand_core fixed st
  end.
Proof.
  unfold infix_candidate, cand_core. destruct o as [l|].
  - destruct (strip_suffix (dot :: l) name) as [st|]; [|reflexivity].
    rewrite andb_negb_r. reflexivity.
  - reflexivity.
Qed.

Lemma strip_fixed_iff fixed st rest :
  (match fixed with [] => Some st | _ => strip_prefix (fixed ++ [uscore]) st end) = Some rest
  <-> st = under fixed ++ rest.
Proof.
  unfold under. destruct fixed as [|f0 fr].
  - cbn [app]. split; [intros H; injection H as ->; reflexivity|intros ->; reflexivity].
  - apply strip_prefix_iff.
Qed.

(* exact description of what the core accepts; note `infix ++ rs <> []`, not `infix <> []` *)
Lemma cand_core_spec fixed st infix :
  cand_core fixed st = Some infix <->
  exists rs, restart_part rs /\ no_dot infix /\ infix ++ rs <> [] /\ st = under fixed ++ infix ++ rs.
Proof.
  unfold cand_core. split.
  - destruct (match fixed with [] => Some st | _ => strip_prefix (fixed ++ [uscore]) st end) as [rest|] eqn:E;
      [|discriminate].
    apply strip_fixed_iff in E. destruct rest as [|r0 rr]; [discriminate|].
    set (rest := r0 :: rr) in *. assert (Hrest : rest <> []) by (unfold rest; discriminate). clearbody rest.
    destruct (find_byte dot rest) as [e|] eqn:Ef.
    + destruct (tail_ok (skipn (S e) rest)) eqn:Et; [|discriminate]. intros H. injection H as <-.
      apply find_byte_some in Ef. destruct Ef as [Hsplit Hnd].
      apply tail_ok_spec in Et. destruct Et as [d [Hd [Hlen Hdig]]].
      exists (dot :: restart_word ++ d). split; [right; exists d; auto|]. split; [exact Hnd|].
      rewrite <- Hd, <- Hsplit. split; [exact Hrest|exact E].
    + intros H. injection H as <-. apply find_byte_none in Ef.
      exists []. split; [left; reflexivity|]. split; [exact Ef|]. rewrite app_nil_r. split; [exact Hrest|exact E].
  - intros [rs [Hrs [Hnd [Hne Hst]]]]. apply strip_fixed_iff in Hst. rewrite Hst.
    remember (infix ++ rs) as rest eqn:Er. destruct rest as [|r0 rr]; [congruence|]. rewrite Er.
    destruct Hrs as [->|[d [-> [Hlen Hdig]]]].
    + rewrite app_nil_r. apply find_byte_none in Hnd. rewrite Hnd. reflexivity.
    + rewrite find_byte_app by exact Hnd.
      change (infix ++ dot :: restart_word ++ d) with (infix ++ [dot] ++ restart_word ++ d).
      rewrite app_assoc. replace (S (length infix)) with (length (infix ++ [dot])) by (rewrite app_length; cbn [length]; lia).
      rewrite skipn_length_app. rewrite <- app_assoc. rewrite firstn_length_app.
      assert (Ht : tail_ok (restart_word ++ d) = true) by (apply tail_ok_spec; exists d; auto).
      rewrite Ht. reflexivity.
Qed.

Lemma family_plain_alt sp fixed name infix :
  family_plain sp fixed name infix <->
  exists rs, restart_part rs /\ infix <> [] /\ no_dot infix /\
    name = (under fixed ++ infix ++ rs) ++ (match fsfx sp with Some s => dot :: s | None => [] end).
Proof.
  unfold family_plain. fold (under fixed).
  split; intros [rs [H1 [H2 [H3 H4]]]]; exists rs; repeat split; auto; rewrite H4; rewrite <- !app_assoc; reflexivity.
Qed.

(* 1. what the listing accepts has the documented shape (listing of plain files: listing suffix = family suffix).
   Hypothesis added: the extracted infix is not empty.  The listing also accepts names whose infix is empty
   when a restart part follows ("app_.restart-0001.log" yields Some []), which the documented pattern excludes. *)
Theorem candidate_is_family : forall sp fixed name infix,
  infix <> [] ->
  infix_candidate (fsfx sp) (fsfx sp) fixed name = Some infix -> family_plain sp fixed name infix.
Proof.
  intros sp fixed name infix Hne H. rewrite infix_candidate_plain in H. apply family_plain_alt.
  destruct (fsfx sp) as [s|].
  - destruct (strip_suffix (dot :: s) name) as [st|] eqn:Es; [|discriminate].
    apply strip_suffix_spec in Es. apply cand_core_spec in H. destruct H as [rs [Hrs [Hnd [_ Hst]]]].
    exists rs. repeat split; auto. rewrite <- Hst. exact Es.
  - apply cand_core_spec in H. destruct H as [rs [Hrs [Hnd [_ Hst]]]].
    exists rs. repeat split; auto. rewrite app_nil_r. exact Hst.
Qed.
Print Assumptions candidate_is_family.

(* without `infix <> []` statement 1 fails: the listing returns an empty infix for these names, and no name
   is a family member with an empty infix *)
Example candidate_is_family_infix_nonempty_needed :
  let sp := {| fbase := bs "app"%string; fdisc := None; fts := false; fsfx := Some (bs "log"%string) |} in
  infix_candidate (fsfx sp) (fsfx sp) (bs "app"%string) (bs "app_.restart-0001.log"%string) = Some []
  /\ infix_candidate (fsfx sp) (fsfx sp) [] (bs ".restart-0001.log"%string) = Some []
  /\ forall fixed name, ~ family_plain sp fixed name [].
Proof.
  split; [vm_compute; reflexivity|]. split; [vm_compute; reflexivity|].
  intros fixed name [rs [_ [Hne _]]]. apply Hne. reflexivity.
Qed.

(* 2. and every name of the documented shape is accepted, with that infix *)
Theorem family_is_candidate : forall sp fixed name infix,
  family_plain sp fixed name infix -> infix_candidate (fsfx sp) (fsfx sp) fixed name = Some infix.
Proof.
  intros sp fixed name infix H. apply family_plain_alt in H. destruct H as [rs [Hrs [Hne [Hnd Hname]]]].
  rewrite infix_candidate_plain.
  assert (Hcore : cand_core fixed (under fixed ++ infix ++ rs) = Some infix).
  { apply cand_core_spec. exists rs. repeat split; auto.
    intros Hnil. apply app_eq_nil in Hnil. destruct Hnil as [Hnil _]. exact (Hne Hnil). }
  destruct (fsfx sp) as [s|].
  - rewrite Hname, strip_suffix_app. exact Hcore.
  - rewrite app_nil_r in Hname. rewrite Hname. exact Hcore.
Qed.
Print Assumptions family_is_candidate.

(* 3. a name the listing does not accept does not influence it: noninterference of foreign files for filter_files *)
Lemma filter_opt_skip {A} (p : A -> option bool) n : p n = Some false ->
  forall l1 l2, filter_opt p (l1 ++ n :: l2) = filter_opt p (l1 ++ l2).
Proof.
  intros Hn l1 l2. induction l1 as [|x l1 IH]; cbn [app filter_opt].
  - rewrite Hn. destruct (filter_opt p l2); reflexivity.
  - rewrite IH. reflexivity.
Qed.

Theorem foreign_ignored : forall off sp fixed files flt sfx n,
  infix_candidate (fsfx sp) sfx fixed n = None ->
  forall l1 l2, files = l1 ++ n :: l2 ->
    filter_files off (fsfx sp) fixed files flt sfx = filter_files off (fsfx sp) fixed (l1 ++ l2) flt sfx.
Proof.
  intros off sp fixed files flt sfx n Hn l1 l2 ->. unfold filter_files.
  apply filter_opt_skip. rewrite Hn. reflexivity.
Qed.
Print Assumptions foreign_ignored.

(* 4. building a name and recognising it (the oracle's full_infix): round trip for every non-empty infix.
   Hypothesis added: the built name does not end with ".gz".  full_infix first removes a trailing ".gz"
   (the mark of a compressed file), so a family whose own suffix is "gz" (or ends with ".gz"), or a family without
   suffix whose infix ends with ".gz", is not recognised. *)
Lemma under_infix_not_fixed fixed infix : infix <> [] -> beq (under fixed ++ infix) fixed = false.
Proof.
  intros Hne. apply beq_neq. intros H. apply (f_equal (@length N)) in H. unfold under in H.
  destruct fixed as [|f0 fr].
  - destruct infix; [congruence|discriminate].
  - rewrite !app_length in H. cbn [length] in H. lia.
Qed.

Lemma full_infix_core fixed infix :
  infix <> [] ->
  (if beq (under fixed ++ infix) fixed then Some [] else
     match fixed with
     | [] => Some (under fixed ++ infix)
     | _ => strip_prefix (fixed ++ [uscore]) (under fixed ++ infix)
     end) = Some infix.
Proof.
  intros Hne. rewrite under_infix_not_fixed by exact Hne. unfold under. destruct fixed as [|f0 fr].
  - reflexivity.
  - apply strip_prefix_app.
Qed.

Lemma as_name_some sp fixed infix : infix <> [] ->
  as_name sp fixed (Some infix) = with_suffix sp (under fixed ++ infix).
Proof. intros Hne. unfold as_name. destruct infix; [congruence|reflexivity]. Qed.

Theorem full_infix_as_name : forall sp fixed infix,
  infix <> [] ->
  strip_suffix (dot :: gz_sfx) (as_name sp fixed (Some infix)) = None ->
  full_infix sp fixed (as_name sp fixed (Some infix)) = Some infix.
Proof.
  intros sp fixed infix Hne Hgz. unfold full_infix.
  destruct (strip_suffix (dot :: gz_sfx) (as_name sp fixed (Some infix))) as [n|] eqn:En.
  - discriminate.
  - rewrite as_name_some by exact Hne. unfold with_suffix. destruct (fsfx sp) as [s|].
    + rewrite strip_suffix_app. apply full_infix_core; exact Hne.
    + apply full_infix_core; exact Hne.
Qed.
Print Assumptions full_infix_as_name.

(* the hypothesis is not only sufficient but necessary: a built name that ends with ".gz" is never recognised
   with its infix (the recognised infix is at least three bytes shorter) *)
Theorem full_infix_as_name_iff : forall sp fixed infix,
  infix <> [] ->
  (full_infix sp fixed (as_name sp fixed (Some infix)) = Some infix
   <-> strip_suffix (dot :: gz_sfx) (as_name sp fixed (Some infix)) = None).
Proof.
  intros sp fixed infix Hne. split; [|apply full_infix_as_name; exact Hne].
  intros H.
  destruct (strip_suffix (dot :: gz_sfx) (as_name sp fixed (Some infix))) as [n|] eqn:En; [exfalso|reflexivity].
  unfold full_infix in H. rewrite En in H. apply strip_suffix_spec in En.
  rewrite as_name_some in En by exact Hne.
  assert (Hlen : exists n2, (match fsfx sp with Some s => strip_suffix (dot :: s) n | None => Some n end) = Some n2 /\
                            length n2 + 3 = length (under fixed) + length infix).
  { destruct (match fsfx sp with Some s => strip_suffix (dot :: s) n | None => Some n end) as [n2|] eqn:E2; [|discriminate].
    exists n2. split; [reflexivity|]. unfold with_suffix in En. destruct (fsfx sp) as [s|].
    - apply strip_suffix_spec in E2. subst n. apply (f_equal (@length N)) in En.
      rewrite ?app_length in En. cbn [length gz_sfx] in En. rewrite ?app_length in En. cbn [length] in En. lia.
    - injection E2 as <-. apply (f_equal (@length N)) in En. rewrite ?app_length in En. cbn [length gz_sfx] in En. lia. }
  destruct Hlen as [n2 [E2 Hlen]]. rewrite E2 in H.
  destruct (beq n2 fixed).
  - injection H as H. congruence.
  - unfold under in Hlen. destruct fixed as [|f0 fr].
    + injection H as ->. cbn [length] in Hlen. lia.
    + apply strip_prefix_spec in H. subst n2. rewrite !app_length in Hlen. cbn [length] in Hlen. lia.
Qed.
Print Assumptions full_infix_as_name_iff.

(* the same condition on the parts of the name: with a suffix s, ".s" must not end with ".gz" (s is not "gz" and
   does not end with ".gz"); without a suffix, the infix must not end with ".gz" *)
Lemma strip_suffix_none_iff x s : strip_suffix x s = None <-> is_prefix (rev x) (rev s) = false.
Proof.
  unfold strip_suffix, strip_prefix. destruct (is_prefix (rev x) (rev s)); split; intros H; (discriminate || reflexivity).
Qed.

Lemma gz_prefix_sfx a s :
  is_prefix (rev (dot :: gz_sfx)) (rev (a ++ dot :: s)) = is_prefix (rev (dot :: gz_sfx)) (rev (dot :: s)).
Proof.
  rewrite rev_app_distr. cbn [rev gz_sfx app]. rewrite <- !app_assoc.
  destruct (rev s) as [|c [|d [|e t]]]; cbn [app is_prefix].
  - reflexivity.
  - destruct (c =? 122)%N; cbn [andb]; reflexivity.
  - destruct (c =? 122)%N; cbn [andb]; [|reflexivity]. destruct (d =? 103)%N; cbn [andb]; reflexivity.
  - reflexivity.
Qed.

Lemma gz_prefix_nosfx fixed infix : infix <> [] ->
  is_prefix (rev (dot :: gz_sfx)) (rev (under fixed ++ infix)) = is_prefix (rev (dot :: gz_sfx)) (rev infix).
Proof.
  intros Hne. rewrite rev_app_distr. cbn [rev gz_sfx app].
  assert (Hu : rev (under fixed) = [] \/ exists t, rev (under fixed) = uscore :: t).
  { unfold under. destruct fixed as [|f0 fr]; [left; reflexivity|right].
    rewrite rev_app_distr. cbn [rev app]. eexists. reflexivity. }
  destruct (rev infix) as [|c [|d [|e t]]] eqn:Er.
  - exfalso. apply Hne. apply (f_equal (@rev N)) in Er. rewrite rev_involutive in Er. exact Er.
  - destruct Hu as [->|[u ->]]; cbn [app is_prefix]; [reflexivity|].
    destruct (c =? 122)%N; cbn [andb]; reflexivity.
  - destruct Hu as [->|[u ->]]; cbn [app is_prefix]; [reflexivity|].
    destruct (c =? 122)%N; cbn [andb]; [|reflexivity]. destruct (d =? 103)%N; cbn [andb]; reflexivity.
  - cbn [app is_prefix]. reflexivity.
Qed.

Lemma as_name_gz_parts sp fixed infix : infix <> [] ->
  (strip_suffix (dot :: gz_sfx) (as_name sp fixed (Some infix)) = None <->
   match fsfx sp with
   | Some s => strip_suffix (dot :: gz_sfx) (dot :: s) = None
   | None => strip_suffix (dot :: gz_sfx) infix = None
   end).
Proof.
  intros Hne. rewrite as_name_some by exact Hne. unfold with_suffix. destruct (fsfx sp) as [s|].
  - rewrite !strip_suffix_none_iff, gz_prefix_sfx. reflexivity.
  - rewrite !strip_suffix_none_iff, gz_prefix_nosfx by exact Hne. reflexivity.
Qed.

Corollary full_infix_as_name_parts : forall sp fixed infix,
  infix <> [] ->
  (full_infix sp fixed (as_name sp fixed (Some infix)) = Some infix <->
   match fsfx sp with
   | Some s => strip_suffix (dot :: gz_sfx) (dot :: s) = None
   | None => strip_suffix (dot :: gz_sfx) infix = None
   end).
Proof.
  intros sp fixed infix Hne. rewrite full_infix_as_name_iff by exact Hne. apply as_name_gz_parts. exact Hne.
Qed.
Print Assumptions full_infix_as_name_parts.

(* without the hypothesis statement 4 fails: (a) the family's suffix is "gz"; (b) no suffix and the infix ends
   with ".gz"; (c) the suffix ends with ".gz" *)
Example full_infix_as_name_not_gz_needed :
  let sp s := {| fbase := bs "app"%string; fdisc := None; fts := false; fsfx := s |} in
  full_infix (sp (Some (bs "gz"%string))) (bs "app"%string) (as_name (sp (Some (bs "gz"%string))) (bs "app"%string) (Some (bs "r00001"%string))) = None
  /\ full_infix (sp None) (bs "app"%string) (as_name (sp None) (bs "app"%string) (Some (bs "r00001.gz"%string))) = Some (bs "r00001"%string)
  /\ full_infix (sp None) [] (as_name (sp None) [] (Some (bs ".gz"%string))) = Some []
  /\ full_infix (sp (Some (bs "log.gz"%string))) (bs "app"%string) (as_name (sp (Some (bs "log.gz"%string))) (bs "app"%string) (Some (bs "r00001"%string))) = None.
Proof. vm_compute. repeat split; reflexivity. Qed.
