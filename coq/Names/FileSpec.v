(* M4: file names of a FileSpec, the directory listing and its filters, number and timestamp infixes,
   collision-free infixes.  Mirrors src/parameters/file_spec.rs, infix_filter.rs, state/numbers.rs,
   state/timestamps.rs on byte strings.  `None` results model Rust panics. *)
Require Import FL.Base.Bytes FL.Base.PathName FL.Fs.Fs FL.Time.Civil FL.Time.TsFormat.
Open Scope N_scope.

Record file_spec := { fbase : bytes;            (* basename ("" = suppressed) *)
                      fdisc : option bytes;     (* discriminant *)
                      fts   : bool;             (* start-time part in the name *)
                      fsfx  : option bytes }.   (* suffix *)

Definition uscore : N := 95.
Definition under (s : bytes) : bytes := match s with [] => [] | _ => s ++ [uscore] end.

(* fixed_name_part: basename [_discriminant] [_starttime]; the start-time text is recomputed from
   the clock at every call in the code (TimestampCfg::get_timestamp), hence an argument here *)
Definition fixed_name_part (sp : file_spec) (nowtxt : bytes) : bytes :=
  let f1 := match fdisc sp with Some (d0 :: dr) => under (fbase sp) ++ d0 :: dr | _ => fbase sp end in
  if fts sp then under f1 ++ nowtxt else f1.

Definition with_suffix (sp : file_spec) (f : bytes) : bytes :=
  match fsfx sp with Some s => f ++ dot :: s | None => f end.

(* as_pathbuf(o_infix), file name only *)
Definition as_name (sp : file_spec) (fixed : bytes) (o_infix : option bytes) : bytes :=
  with_suffix sp
    match o_infix with
    | Some (c :: i) => under fixed ++ c :: i
    | _ => fixed
    end.

Inductive infix_filter := IFTs (f : tsfmt) | IFNum | IFEq (s : bytes) | IFNone.

Definition r_char : N := 114.
Definition filter_infix (off : Z) (flt : infix_filter) (infix : bytes) : bool :=
  match flt with
  | IFTs f => canonical_ts f infix      (* chrono reads it with the format AND the format writes exactly this text *)
  | IFNum => (* 'r' and the number (one or more ASCII digits), nothing else *)
             match infix with
             | a :: d :: ds => (a =? r_char) && forallb is_digit (d :: ds)
             | _ => false end
  | IFEq s => beq infix s
  | IFNone => false
  end.

Definition gz_sfx : bytes := [103; 122].                              (* "gz" *)

(* the sort key of read_dir_related_files: the name without ".gz", suffix, restart counter and the number of a number
   infix "_r<digits>" (cut behind the LAST "_r"; or, in a name without any "_r", behind a leading "r"); then that number and the restart counter - both numerically, a name
   without number / without counter first -, then the name itself *)
Definition restart_tag : bytes := [46; 114; 101; 115; 116; 97; 114; 116; 45].   (* ".restart-" *)
Definition number_tag : bytes := [95; 114].                                      (* "_r" *)
(* str::rsplit_once: the last occurrence of the pattern *)
Fixpoint find_last_sub (pat s : bytes) : option nat :=
  match s with
  | [] => if is_prefix pat [] then Some O else None
  | _ :: s' => match find_last_sub pat s' with
               | Some i => Some (S i)
               | None => if is_prefix pat s then Some O else None
               end
  end.
Fixpoint drop_zeros (s : bytes) : bytes := match s with 48 :: r => drop_zeros r | _ => s end.
Definition sort_key (sfx : option bytes) (n : bytes) : bytes * option (nat * bytes) * option (nat * bytes) :=
  let s1 := match strip_suffix (dot :: gz_sfx) n with Some s => s | None => n end in
  let stem := match sfx with
              | Some x => match strip_suffix (dot :: x) s1 with Some s => s | None => s1 end
              | None => s1
              end in
  let '(main, restart) :=
    match find_last_sub restart_tag stem with
    | Some ix => let digits := skipn (ix + 9) stem in
                 if negb (beq digits []) && forallb is_digit digits
                 then let d := drop_zeros digits in (firstn ix stem, Some (length d, d))
                 else (stem, None)
    | None => (stem, None)
    end in
  (* the number of a number infix can outgrow its five digits
     (without basename and discriminant the name starts with the infix) *)
  let split := match find_last_sub number_tag main with
               | Some ix => Some (firstn ix main ++ number_tag, skipn (ix + 2) main)
               | None => match strip_prefix [r_char] main with
                         | Some digits => Some ([r_char], digits)
                         | None => None
                         end
               end in
  match split with
  | Some (head, digits) => if negb (beq digits []) && forallb is_digit digits
                           then let d := drop_zeros digits in (head, Some (length d, d), restart)
                           else (main, None, restart)
  | None => (main, None, restart)
  end.
(* Option<(usize, String)>: None < Some, the pairs (length, digits) lexicographically *)
Definition rkey_le (a b : option (nat * bytes)) : bool :=
  match a, b with
  | None, _ => true
  | Some _, None => false
  | Some (la, da), Some (lb, db) => if Nat.eqb la lb then lex_le da db else Nat.ltb la lb
  end.
Definition rkey_eq (a b : option (nat * bytes)) : bool :=
  match a, b with
  | None, None => true
  | Some (la, da), Some (lb, db) => Nat.eqb la lb && beq da db
  | _, _ => false
  end.
(* the tuples (main part, number key, restart key, name) lexicographically *)
Definition key_le (sfx : option bytes) (x y : bytes) : bool :=
  let '(mx, nx, rx) := sort_key sfx x in
  let '(my, ny, ry) := sort_key sfx y in
  if beq mx my then
    (if rkey_eq nx ny then (if rkey_eq rx ry then lex_le x y else rkey_le rx ry) else rkey_le nx ny)
  else lex_le mx my.
Fixpoint insert_by (le : bytes -> bytes -> bool) (x : bytes) (l : list bytes) : list bytes :=
  match l with
  | [] => [x]
  | y :: r => if le x y then x :: l else y :: insert_by le x r
  end.
Definition sort_by_key (sfx : option bytes) (l : list bytes) : list bytes := fold_right (insert_by (key_le sfx)) [] l.

(* read_dir_related_files: regular files whose name starts with the fixed part, newest first *)
Definition related_files (f : fs) (sfx : option bytes) (fixed : bytes) : list bytes :=
  rev (sort_by_key sfx (filter (fun n => is_reg_file f n && is_prefix fixed n) (dir_names f))).

Fixpoint filter_opt {A} (p : A -> option bool) (l : list A) : option (list A) :=
  match l with
  | [] => Some []
  | x :: r => match p x with
              | None => None
              | Some b => match filter_opt p r with
                          | None => None
                          | Some r' => Some (if b then x :: r' else r')
                          end
              end
  end.

(* the infix that filter_files extracts from a name, None if the name is not one of the family:
   [fixed _] infix [.restart-NNNN], where the stem of a compressed file still ends with the family's suffix *)
Definition restart_word : bytes := [114; 101; 115; 116; 97; 114; 116; 45].   (* "restart-" *)
Definition tail_ok (tail : bytes) : bool :=
  match strip_prefix restart_word tail with
  | Some d => Nat.leb 4 (length d) && all_digits d
  | None => false
  end.
Definition infix_candidate (sp_sfx listing_sfx : option bytes) (fixed : bytes) (name : bytes) : option bytes :=
  (* the name must end with "." ++ the suffix asked for (which may contain dots, as may the rest of the name) *)
  match (match listing_sfx with Some l => strip_suffix (dot :: l) name | None => Some name end) with
  | None => None
  | Some stem =>
  let o_stem := match listing_sfx, sp_sfx with
                | Some l, Some s => if beq l [103; 122] && negb (beq s [103; 122]) then strip_suffix (dot :: s) stem else Some stem
                | _, _ => Some stem
                end in
  match o_stem with
  | None => None
  | Some st =>
    match (match fixed with [] => Some st | _ => strip_prefix (fixed ++ [uscore]) st end) with
    | None => None
    | Some [] => None
    | Some rest =>
      match find_byte dot rest with
      | None => Some rest
      | Some e => if tail_ok (skipn (S e) rest) then Some (firstn e rest) else None
      end
    end
  end
  end.

(* never panics any more; the option is kept for the callers *)
Definition filter_files (off : Z) (sp_sfx : option bytes) (fixed : bytes) (files : list bytes) (flt : infix_filter) (o_sfx : option bytes)
  : option (list bytes) :=
  filter_opt (fun n =>
      match infix_candidate sp_sfx o_sfx fixed n with
      | None => Some false
      | Some i => Some (filter_infix off flt i)
      end) files.

Record selector := { sel_plain : bool; sel_gz : bool; sel_rcur : bool; sel_custom : option bytes }.

Definition cur_infix : bytes := [114; 67; 85; 82; 82; 69; 78; 84].   (* "rCURRENT" *)

Definition app_opt {A} (a b : option (list A)) : option (list A) :=
  match a, b with Some x, Some y => Some (x ++ y) | _, _ => None end.

(* existing_log_files with rotation *)
Definition existing_rot (off : Z) (sp : file_spec) (fixed : bytes) (f : fs) (flt : infix_filter) (sel : selector)
  : option (list bytes) :=
  let rel := related_files f (fsfx sp) fixed in
  let r1 := if sel_plain sel then filter_files off (fsfx sp) fixed rel flt (fsfx sp) else Some [] in
  let r2 := if sel_gz sel then filter_files off (fsfx sp) fixed rel flt (Some gz_sfx) else Some [] in
  let r3 := if sel_rcur sel then filter_files off (fsfx sp) fixed rel (IFEq cur_infix) (fsfx sp) else Some [] in
  let r4 := match sel_custom sel with
            | Some c => (* not a second time, if it is the rCURRENT file that is listed already *)
                        if sel_rcur sel && beq c cur_infix then Some []
                        else filter_files off (fsfx sp) fixed rel (IFEq c) (fsfx sp)
            | None => Some [] end in
  app_opt (app_opt (app_opt r1 r2) r3) r4.

Definition sel_log_gz : selector := {| sel_plain := true; sel_gz := true; sel_rcur := false; sel_custom := None |}.
Definition list_log_gz off sp fixed f flt := existing_rot off sp fixed f flt sel_log_gz.

(* numbers *)
Definition number_infix (i : N) : bytes := r_char :: pad_left 5 48 (dec i).

(* get_highest_index: the infix follows the fixed name part (and an underscore, if that is not empty) and starts with r;
   a listed name of another shape is ignored (None) *)
Definition index_of_listed (fixed : bytes) (name : bytes) : option N :=
  let prefix := match fixed with [] => [r_char] | _ => fixed ++ [uscore; r_char] end in
  match strip_prefix prefix name with
  | None => None
  | Some i => (* the number ends at the first dot: the stem of a compressed file still carries the suffix *)
              let digits := match find_byte dot i with Some e => firstn e i | None => i end in
              Some (match parse_uint u32_max digits with Some v => v | None => 0 end)
  end.

Fixpoint filter_map_opt {A B} (g : A -> option B) (l : list A) : list B :=
  match l with
  | [] => []
  | x :: r => match g x with Some y => y :: filter_map_opt g r | None => filter_map_opt g r end
  end.

Fixpoint max_opt (l : list N) : option N :=
  match l with
  | [] => None
  | x :: r => match max_opt r with Some m => Some (N.max x m) | None => Some x end
  end.

Fixpoint map_opt {A B} (g : A -> option B) (l : list A) : option (list B) :=
  match l with
  | [] => Some []
  | x :: r => match g x, map_opt g r with Some y, Some r' => Some (y :: r') | _, _ => None end
  end.

(* get_highest_index: outer None = panic *)
Definition get_highest_index (off : Z) (sp : file_spec) (fixed : bytes) (f : fs) : option (option N) :=
  match list_log_gz off sp fixed f IFNum with
  | None => None
  | Some files => Some (max_opt (filter_map_opt (index_of_listed fixed) files))
  end.

(* collision_free_infix_for_rotated_file *)
Definition strip_gz (n : bytes) : bytes := if ext_is n gz_sfx then set_extension n [] else n.

(* the restart number in a file name: all digits that follow the first ".restart-", as u64 *)
Fixpoint take_digits (s : bytes) : bytes :=
  match s with
  | c :: r => if is_digit c then c :: take_digits r else []
  | [] => []
  end.
(* (the tag is looked for together with the infix in front of it: the fixed name part or the suffix may contain
   ".restart-", too) *)
Definition restart_number (infix : bytes) (n : bytes) : option N :=
  match find_sub (infix ++ restart_tag) n with
  | None => None
  | Some ix => parse_uint usize_max (take_digits (skipn (ix + length infix + 9) n))
  end.

(* outer None: panic; inner None: the error "restart numbers are exhausted" *)
Definition collision_free_infix (off : Z) (sp : file_spec) (fixed : bytes) (f : fs) (infix : bytes) : option (option bytes) :=
  let rel := related_files f (fsfx sp) fixed in
  match filter_files off (fsfx sp) fixed rel (IFEq infix) (fsfx sp), filter_files off (fsfx sp) fixed rel (IFEq infix) (Some gz_sfx) with
  | Some unc, Some cmp =>
    let sibs := filter (fun n => contains (infix ++ restart_tag) n) (unc ++ cmp) in
    let new_name := as_name sp fixed (Some infix) in
    let new_gz := new_name ++ dot :: gz_sfx in
    let exists_ n := match lookup f n with Some _ => true | None => false end in
    if exists_ new_name || exists_ new_gz || match sibs with [] => false | _ => true end then
      match max_opt (filter_map_opt (restart_number infix) sibs) with
      | None => Some (Some (infix ++ restart_tag ++ pad_left 4 48 (dec 0)))
      | Some k => if k <? usize_max then Some (Some (infix ++ restart_tag ++ pad_left 4 48 (dec (k + 1)))) else Some None
      end
    else Some (Some infix)
  | _, _ => None
  end.

(* ts_infix_from_path: 20 bytes starting where the infix starts *)
Definition ts_infix_from_name (sp : file_spec) (fixed : bytes) (name : bytes) : option bytes :=
  match find_sub [114; 88; 88; 88; 88; 88] (as_name sp fixed (Some [114; 88; 88; 88; 88; 88])) with
  | None => None
  | Some idx => (* a name that is too short carries no time stamp *)
                if Nat.leb (idx + 20) (length name) then Some (firstn 20 (skipn idx name)) else Some []
  end.
