(* Facts about file names: number infixes are injective, names are injective in a non-empty infix. *)
Require Import FL.Base.Bytes FL.Base.BytesFacts FL.Base.PathName FL.Fs.Fs FL.Names.FileSpec.
From Coq Require Import ZifyN ZifyNat ZifyBool.
Open Scope N_scope.

Lemma dec_value_acc_spec s a : dec_value_acc s a = a * 10 ^ N.of_nat (length s) + dec_value_acc s 0.
Proof.
  revert a; induction s as [|c s IH]; intros a.
  - cbn. lia.
  - cbn [dec_value_acc length]. rewrite IH, (IH (0 * 10 + (c - 48))).
    rewrite Nat2N.inj_succ, N.pow_succ_r'. lia.
Qed.

Lemma dec_value_cons c s : dec_value (c :: s) = (c - 48) * 10 ^ N.of_nat (length s) + dec_value s.
Proof. unfold dec_value. cbn [dec_value_acc]. rewrite dec_value_acc_spec. lia. Qed.

Lemma dec_digits_value fuel : forall n acc, n < 10 ^ N.of_nat fuel ->
  dec_value (dec_digits fuel n acc) = n * 10 ^ N.of_nat (length acc) + dec_value acc.
Proof.
  induction fuel as [|f IH]; intros n acc Hn.
  - change (10 ^ N.of_nat 0) with 1 in Hn. assert (n = 0) by lia. subst. cbn [dec_digits]. lia.
  - cbn [dec_digits]. destruct (N.ltb_spec n 10) as [Hlt|Hge].
    + rewrite dec_value_cons. rewrite N.mod_small by assumption. lia.
    + rewrite IH.
      * rewrite dec_value_cons. cbn [length]. rewrite Nat2N.inj_succ, N.pow_succ_r'.
        pose proof (N.div_mod n 10 ltac:(lia)) as D. pose proof (N.mod_lt n 10 ltac:(lia)) as M.
        replace (48 + n mod 10 - 48) with (n mod 10) by lia. nia.
      * rewrite Nat2N.inj_succ, N.pow_succ_r' in Hn. apply N.div_lt_upper_bound; lia.
Qed.

Lemma pow2_le_pow10 k : 2 ^ k <= 10 ^ k.
Proof. apply N.pow_le_mono_l. lia. Qed.

Lemma dec_value_dec n : dec_value (dec n) = n.
Proof.
  unfold dec. rewrite dec_digits_value.
  - cbn. lia.
  - rewrite Nat2N.inj_succ, N2Nat.id.
    destruct n as [|p]; [cbn; lia|].
    pose proof (N.log2_spec (N.pos p) ltac:(lia)) as [_ H]. pose proof (pow2_le_pow10 (N.succ (N.log2 (N.pos p)))). lia.
Qed.

Lemma dec_value_zeros k s : dec_value (repeat 48 k ++ s) = dec_value s.
Proof. induction k as [|k IH]; cbn [repeat app]; [reflexivity|]. rewrite dec_value_cons, IH. lia. Qed.

Lemma number_infix_inj i j : number_infix i = number_infix j -> i = j.
Proof.
  unfold number_infix, pad_left. intros H. injection H as H.
  apply (f_equal dec_value) in H. rewrite !dec_value_zeros, !dec_value_dec in H. exact H.
Qed.

(* the second character of a number infix is a digit *)
Lemma dec_digits_nonempty fuel n acc : dec_digits (S fuel) n acc <> [].
Proof.
  revert n acc. induction fuel as [|f IH]; intros n acc; cbn [dec_digits].
  - destruct (n <? 10); discriminate.
  - destruct (n <? 10); [discriminate|]. apply IH.
Qed.

Lemma dec_digits_head fuel : forall n acc, (forall c r, acc = c :: r -> c <> 67) ->
  forall c r, dec_digits fuel n acc = c :: r -> c <> 67.
Proof.
  induction fuel as [|f IH]; intros n acc Hacc c r; cbn [dec_digits]; [apply Hacc|].
  assert (X : forall c0 r0, (48 + n mod 10) :: acc = c0 :: r0 -> c0 <> 67).
  { intros c0 r0 E. assert (E0 : c0 = 48 + n mod 10) by congruence. pose proof (N.mod_lt n 10 ltac:(lia)) as M. lia. }
  destruct (n <? 10); [apply X | apply IH; exact X].
Qed.

Lemma zeros_head k s : (forall c r, s = c :: r -> c <> 67) -> forall c r, repeat 48 k ++ s = c :: r -> c <> 67.
Proof. destruct k as [|k]; cbn [repeat app]; [auto|]. intros _ c r E. assert (c = 48) by congruence. lia. Qed.

Lemma number_infix_not_cur i : number_infix i <> cur_infix.
Proof.
  unfold number_infix, cur_infix, pad_left. intros H. injection H as H.
  eapply zeros_head; [|exact H|reflexivity].
  unfold dec. apply dec_digits_head. intros c r E; discriminate.
Qed.

Lemma under_app_inv fixed x y : under fixed ++ x = under fixed ++ y -> x = y.
Proof. apply app_inv_head. Qed.

Lemma with_suffix_inj sp x y : with_suffix sp x = with_suffix sp y -> x = y.
Proof. unfold with_suffix. destruct (fsfx sp) as [s|]; [apply app_inv_tail | auto]. Qed.

Lemma as_name_inj sp fixed i j : i <> [] -> j <> [] ->
  as_name sp fixed (Some i) = as_name sp fixed (Some j) -> i = j.
Proof.
  intros Hi Hj. unfold as_name. destruct i as [|a i]; [congruence|]. destruct j as [|b j]; [congruence|].
  intros H. apply with_suffix_inj, under_app_inv in H. exact H.
Qed.

Lemma number_infix_nonempty i : number_infix i <> [].
Proof. discriminate. Qed.
Lemma cur_infix_nonempty : cur_infix <> [].
Proof. discriminate. Qed.
