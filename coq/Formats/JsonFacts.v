(* JSON string escaping as serde_json does it: it can be undone, and it produces a single line.
   Key-value pairs: the Debug form of the text formats can be undone, the map of the JSON format is sorted strictly by
   key, has the keys of the source and the value of the last occurrence of each key, and decodes back. *)
Require Import FL.Base.Bytes FL.Base.BytesFacts FL.Names.NamesFacts FL.Formats.Formats.
Require Import Lia ZifyN ZifyBool.
From Coq Require Import Sorted.
Open Scope N_scope.

(* every byte value *)
Definition is_byte (c : N) : Prop := c < 256.

(* ---- the 256 byte values, for proofs by a finite sweep ---- *)
Definition all_bytes : list N := Eval vm_compute in map N.of_nat (seq 0 256).

Lemma all_bytes_complete : forall c, c < 256 -> In c all_bytes.
Proof.
  intros c Hc. change all_bytes with (map N.of_nat (seq 0 256)).
  rewrite <- (N2Nat.id c). apply in_map, in_seq. lia.
Qed.

Lemma byte_sweep (P : N -> Prop) : Forall P all_bytes -> forall c, c < 256 -> P c.
Proof.
  intros H c Hc. rewrite Forall_forall in H. apply H, all_bytes_complete, Hc.
Qed.

(* ---- "printable": no byte below 32 ---- *)
Definition ok (s : bytes) : Prop := Forall (fun c => 32 <= c) s.

Lemma ok_app a b : ok a -> ok b -> ok (a ++ b).
Proof. intros; apply Forall_app; split; assumption. Qed.

Lemma ok_escape_byte c : ok (json_escape_byte c).
Proof.
  unfold ok, json_escape_byte, hex_digit.
  repeat match goal with |- context [if ?b then _ else _] => destruct b eqn:? end;
    repeat (constructor; try lia).
Qed.

Lemma ok_escape s : ok (json_escape s).
Proof.
  unfold json_escape. induction s as [|c s IH]; cbn [flat_map].
  - constructor.
  - apply ok_app; [apply ok_escape_byte | exact IH].
Qed.

(* stronger and the one we want: no byte below 32 at all *)
Theorem escape_no_control : forall s, Forall is_byte s -> forall c, In c (json_escape s) -> 32 <= c.
Proof.
  intros s _ c Hc. pose proof (ok_escape s) as H. unfold ok in H. rewrite Forall_forall in H. apply H, Hc.
Qed.
Print Assumptions escape_no_control.

(* ---- decoding undoes escaping ---- *)

(* one escaped byte in front: one unit of fuel decodes it *)
Lemma unescape_escape_byte : forall c, c < 256 -> forall f r,
  json_unescape (S f) (json_escape_byte c ++ r)
  = match json_unescape f r with Some t => Some (c :: t) | None => None end.
Proof.
  apply (byte_sweep (fun c => forall f r,
    json_unescape (S f) (json_escape_byte c ++ r)
    = match json_unescape f r with Some t => Some (c :: t) | None => None end)).
  unfold all_bytes.
  repeat (apply Forall_cons; [intros f r; reflexivity | ]).
  apply Forall_nil.
Qed.

Lemma unescape_nil fuel : json_unescape fuel [] = Some [].
Proof. destruct fuel; reflexivity. Qed.

Lemma unescape_escape_fuel : forall s, Forall is_byte s ->
  forall fuel, (length s <= fuel)%nat -> json_unescape fuel (json_escape s) = Some s.
Proof.
  induction 1 as [|c s Hc Hs IH]; intros fuel Hf.
  - apply unescape_nil.
  - destruct fuel as [|f]; [cbn [length] in Hf; lia|].
    unfold json_escape; cbn [flat_map]. fold (json_escape s).
    rewrite (unescape_escape_byte c Hc), IH; [reflexivity | cbn [length] in Hf; lia].
Qed.

Lemma escape_byte_length c : (1 <= length (json_escape_byte c))%nat.
Proof.
  unfold json_escape_byte.
  repeat match goal with |- context [if ?b then _ else _] => destruct b end; cbn [length]; lia.
Qed.

Lemma escape_length s : (length s <= length (json_escape s))%nat.
Proof.
  unfold json_escape. induction s as [|c s IH]; cbn [flat_map length]; [lia|].
  rewrite app_length. pose proof (escape_byte_length c). lia.
Qed.

(* a quote in the escaped text is always preceded by a backslash that escapes it: stated through decoding *)
Theorem unescape_escape : forall s, Forall is_byte s ->
  json_unescape (length (json_escape s)) (json_escape s) = Some s.
Proof.
  intros s Hs. apply unescape_escape_fuel; [exact Hs | apply escape_length].
Qed.
Print Assumptions unescape_escape.

(* ---- the JSON line ---- *)

Lemma dec_digits_range fuel : forall n acc,
  Forall (fun c => 48 <= c <= 57) acc -> Forall (fun c => 48 <= c <= 57) (dec_digits fuel n acc).
Proof.
  induction fuel as [|f IH]; intros n acc Hacc; cbn [dec_digits]; [exact Hacc|].
  assert (Forall (fun c => 48 <= c <= 57) ((48 + n mod 10) :: acc)) as H.
  { constructor; [|exact Hacc]. pose proof (N.mod_upper_bound n 10). lia. }
  destruct (n <? 10); [exact H | apply IH, H].
Qed.

Lemma dec_range n c : In c (dec n) -> 48 <= c <= 57.
Proof.
  intros Hc. pose proof (dec_digits_range (S (N.to_nat (N.log2 n))) n [] (Forall_nil _)) as H.
  rewrite Forall_forall in H. apply H, Hc.
Qed.

Lemma ok_dec n : ok (dec n).
Proof.
  unfold ok. rewrite Forall_forall. intros c Hc. apply dec_range in Hc. lia.
Qed.

Lemma join_in sep l c : In c (join sep l) -> In c sep \/ exists x, In x l /\ In c x.
Proof.
  induction l as [|x l IH]; cbn [join]; intros H; [destruct H|].
  destruct l as [|y l].
  - right; exists x; split; [left; reflexivity | exact H].
  - apply in_app_or in H. destruct H as [H|H].
    + right; exists x; split; [left; reflexivity | exact H].
    + apply in_app_or in H. destruct H as [H|H]; [left; exact H|].
      destruct (IH H) as [H'|[z [Hz Hc]]]; [left; exact H'|].
      right; exists z; split; [right; exact Hz | exact Hc].
Qed.

Lemma ok_join sep l : ok sep -> Forall ok l -> ok (join sep l).
Proof.
  intros Hsep Hl. unfold ok in *. rewrite Forall_forall. intros c Hc.
  apply join_in in Hc. destruct Hc as [Hc|[x [Hx Hc]]].
  - rewrite Forall_forall in Hsep. apply Hsep, Hc.
  - rewrite Forall_forall in Hl. specialize (Hl x Hx). rewrite Forall_forall in Hl. apply Hl, Hc.
Qed.

Lemma ok_json_string s : ok (json_string s).
Proof.
  unfold json_string. apply ok_app; [repeat (constructor; try lia)|].
  apply ok_app; [apply ok_escape | repeat (constructor; try lia)].
Qed.

Lemma ok_json_field k v : ok v -> ok (json_field k v).
Proof.
  intros Hv. unfold json_field. apply ok_app; [apply ok_json_string|].
  apply ok_app; [repeat (constructor; try lia) | exact Hv].
Qed.

Lemma ok_opt_field k o : Forall ok (opt_field k o).
Proof.
  destruct o; cbn [opt_field]; [|constructor].
  apply Forall_cons; [|apply Forall_nil]. apply ok_json_field, ok_json_string.
Qed.

Lemma ok_json_kv_value v : ok (json_kv_value v).
Proof. destruct v as [n|s]; cbn [json_kv_value]; [apply ok_dec | apply ok_json_string]. Qed.

Lemma ok_json_kv_object m : ok (json_kv_object m).
Proof.
  unfold json_kv_object.
  apply ok_app; [repeat (constructor; try lia)|].
  apply ok_app; [|repeat (constructor; try lia)].
  apply ok_join; [repeat (constructor; try lia)|].
  rewrite Forall_forall. intros x Hx. apply in_map_iff in Hx. destruct Hx as [[k v] [Hkv _]]. subst x. cbn [fst snd].
  apply ok_app; [apply ok_json_string|].
  apply ok_app; [repeat (constructor; try lia) | apply ok_json_kv_value].
Qed.

Lemma ok_json_line ts r : ok (json_line ts r).
Proof.
  unfold json_line.
  apply ok_app; [repeat (constructor; try lia)|].
  apply ok_app; [|repeat (constructor; try lia)].
  apply ok_join; [repeat (constructor; try lia)|].
  assert (forall a b : list bytes, Forall ok a -> Forall ok b -> Forall ok (a ++ b)) as FA
    by (intros; apply Forall_app; split; assumption).
  apply FA; [|apply FA; [|apply FA; [|apply FA; [|apply FA; [|apply FA]]]]].
  - repeat (apply Forall_cons; [apply ok_json_field, ok_json_string|]). apply Forall_nil.
  - apply ok_opt_field.
  - apply ok_opt_field.
  - apply ok_opt_field.
  - destruct (fr_line r); [|apply Forall_nil].
    apply Forall_cons; [apply ok_json_field, ok_dec | apply Forall_nil].
  - destruct (kv_map (fr_kv r)) as [|p m]; [apply Forall_nil|].
    apply Forall_cons; [apply ok_json_field, ok_json_kv_object | apply Forall_nil].
  - apply Forall_cons; [apply ok_json_field, ok_json_string | apply Forall_nil].
Qed.

(* the texts of the key-value pairs are byte strings: every key and every string value *)
Definition kvval_bytes_ok (v : kvval) : Prop := match v with KInt _ => True | KStr s => Forall is_byte s end.
Definition kv_bytes_ok (kvs : list (bytes * kvval)) : Prop :=
  Forall (fun kv : bytes * kvval => Forall is_byte (fst kv) /\ kvval_bytes_ok (snd kv)) kvs.

(* the whole JSON line of a record has no control character: one record = one line, whatever the texts and the
   key-value pairs are *)
Theorem json_line_single_line : forall ts r,
  Forall is_byte ts -> Forall is_byte (fr_msg r) ->
  (forall m, fr_module r = Some m -> Forall is_byte m) -> (forall f, fr_file r = Some f -> Forall is_byte f) ->
  (forall t, fr_thread r = Some t -> Forall is_byte t) ->
  kv_bytes_ok (fr_kv r) ->
  forall c, In c (json_line ts r) -> 32 <= c.
Proof.
  intros ts r _ _ _ _ _ _ c Hc. pose proof (ok_json_line ts r) as H.
  unfold ok in H. rewrite Forall_forall in H. apply H, Hc.
Qed.
Print Assumptions json_line_single_line.

(* ====================================================================================================== *)
(* Key-value pairs                                                                                         *)
(* ====================================================================================================== *)

(* ---- the text formats: Rust's Debug form of a string can be undone ---- *)

Lemma byte_sweep_b (p : N -> bool) : forallb p all_bytes = true -> forall c, c < 256 -> p c = true.
Proof.
  intros H c Hc. rewrite forallb_forall in H. apply H, all_bytes_complete, Hc.
Qed.

(* the decoder: the specification of "is the Debug form of" *)
Fixpoint undebug (fuel : nat) (s : bytes) : option bytes :=
  match fuel with
  | O => match s with [] => Some [] | _ => None end
  | S f =>
    match s with
    | [] => Some []
    | 92 :: 117 :: 123 :: a :: 125 :: r =>
      match unhex_digit a, undebug f r with
      | Some x, Some t => Some (x :: t)
      | _, _ => None
      end
    | 92 :: 117 :: 123 :: a :: b :: 125 :: r =>
      match unhex_digit a, unhex_digit b, undebug f r with
      | Some x, Some y, Some t => Some ((x * 16 + y) :: t)
      | _, _, _ => None
      end
    | 92 :: c :: r =>
      match (if c =? 34 then Some 34 else if c =? 92 then Some 92 else if c =? 110 then Some 10 else if c =? 114 then Some 13
             else if c =? 116 then Some 9 else if c =? 48 then Some 0 else None), undebug f r with
      | Some x, Some t => Some (x :: t)
      | _, _ => None
      end
    | c :: r => if (c =? 34) || (c =? 92) || (c <? 32) || (c =? 127) then None
                else match undebug f r with Some t => Some (c :: t) | None => None end
    end
  end.

(* one byte in Debug form in front: one unit of fuel decodes it *)
Lemma undebug_debug_byte : forall c, c < 256 -> forall f r,
  undebug (S f) (debug_byte c ++ r)
  = match undebug f r with Some t => Some (c :: t) | None => None end.
Proof.
  apply (byte_sweep (fun c => forall f r,
    undebug (S f) (debug_byte c ++ r)
    = match undebug f r with Some t => Some (c :: t) | None => None end)).
  unfold all_bytes.
  repeat (apply Forall_cons; [intros f r; reflexivity | ]).
  apply Forall_nil.
Qed.

Lemma undebug_nil fuel : undebug fuel [] = Some [].
Proof. destruct fuel; reflexivity. Qed.

Lemma undebug_debug_fuel : forall s, Forall is_byte s ->
  forall fuel, (length s <= fuel)%nat -> undebug fuel (flat_map debug_byte s) = Some s.
Proof.
  induction 1 as [|c s Hc Hs IH]; intros fuel Hf.
  - apply undebug_nil.
  - destruct fuel as [|f]; [cbn [length] in Hf; lia|].
    cbn [flat_map].
    rewrite (undebug_debug_byte c Hc), IH; [reflexivity | cbn [length] in Hf; lia].
Qed.

Lemma debug_byte_length c : (1 <= length (debug_byte c))%nat.
Proof.
  unfold debug_byte.
  repeat match goal with |- context [if ?b then _ else _] => destruct b end; cbn [length app]; lia.
Qed.

Lemma debug_length s : (length s <= length (flat_map debug_byte s))%nat.
Proof.
  induction s as [|c s IH]; cbn [flat_map length]; [lia|].
  rewrite app_length. pose proof (debug_byte_length c). lia.
Qed.

Theorem undebug_debug : forall s, Forall is_byte s ->
  undebug (length (flat_map debug_byte s)) (flat_map debug_byte s) = Some s.
Proof.
  intros s Hs. apply undebug_debug_fuel; [exact Hs | apply debug_length].
Qed.

(* the whole Debug form, with its two delimiters *)
Definition undebug_str (t : bytes) : option bytes :=
  match t with
  | c :: r => if c =? 34
              then match rev r with
                   | e :: q => if e =? 34 then undebug (length q) (rev q) else None
                   | [] => None
                   end
              else None
  | [] => None
  end.

Theorem undebug_str_debug : forall s, Forall is_byte s -> undebug_str (debug_str s) = Some s.
Proof.
  intros s Hs. unfold debug_str, undebug_str. cbn [app]. rewrite N.eqb_refl.
  rewrite rev_unit, N.eqb_refl, rev_length, rev_involutive. apply undebug_debug, Hs.
Qed.

(* hence the Debug form determines the string *)
Theorem debug_str_inj : forall a b, Forall is_byte a -> Forall is_byte b -> debug_str a = debug_str b -> a = b.
Proof.
  intros a b Ha Hb H. pose proof (undebug_str_debug a Ha) as Ea. rewrite H, (undebug_str_debug b Hb) in Ea.
  injection Ea as Ea. symmetry. exact Ea.
Qed.
Print Assumptions debug_str_inj.

(* the Debug form has no control character and no DEL, whatever the string is; a quote is there only in the escape backslash-quote *)
Lemma hexd_range n : n < 16 -> 48 <= hexd n <= 102.
Proof. intros Hn. unfold hexd. destruct (N.ltb_spec n 10); lia. Qed.

Lemma debug_byte_printable c d : In d (debug_byte c) -> 32 <= d /\ d <> 127.
Proof.
  intros H.
  assert (Hd : c < 256 -> c / 16 < 16) by (intros Hc; apply N.div_lt_upper_bound; lia).
  assert (Hm : c mod 16 < 16) by (apply N.mod_lt; lia).
  pose proof (hexd_range c) as H1. pose proof (hexd_range (c / 16)) as H2. pose proof (hexd_range (c mod 16) Hm) as H3.
  unfold debug_byte in H.
  repeat match type of H with context [if ?b then _ else _] => destruct b eqn:? end;
    cbn [In app] in H; repeat (destruct H as [H|H]; [subst d; lia|]); destruct H.
Qed.

Theorem debug_str_printable : forall s d, In d (debug_str s) -> 32 <= d /\ d <> 127.
Proof.
  intros s d H. unfold debug_str in H. apply in_app_or in H. destruct H as [H|H].
  - cbn [In] in H. destruct H as [H|[]]. subst d. lia.
  - apply in_app_or in H. destruct H as [H|H].
    + apply in_flat_map in H. destruct H as [c [_ H]]. exact (debug_byte_printable c d H).
    + cbn [In] in H. destruct H as [H|[]]. subst d. lia.
Qed.

Lemma debug_byte_quote c : debug_byte c = [92; 34] \/ ~ In 34 (debug_byte c).
Proof.
  unfold debug_byte, hexd.
  repeat match goal with |- context [if ?b then _ else _] => destruct b eqn:? end;
    try (left; reflexivity); right; cbn [In app]; intros H;
    repeat (destruct H as [H|H]; [lia|]); destruct H.
Qed.

Theorem debug_str_quotes : forall s,
  debug_str s = [34] ++ concat (map debug_byte s) ++ [34]
  /\ Forall (fun t => t = [92; 34] \/ ~ In 34 t) (map debug_byte s).
Proof.
  intros s. split.
  - unfold debug_str. rewrite flat_map_concat_map. reflexivity.
  - rewrite Forall_forall. intros t Ht. apply in_map_iff in Ht. destruct Ht as [c [Hc _]]. subst t. apply debug_byte_quote.
Qed.

(* the value of a pair in the text formats: a number in decimal or a string in Debug form; it can be read back *)
Definition kv_undebug (t : bytes) : option kvval :=
  match t with
  | c :: _ => if c =? 34 then match undebug_str t with Some s => Some (KStr s) | None => None end
              else Some (KInt (dec_value t))
  | [] => None
  end.

Theorem kv_text_roundtrip : forall v, kvval_bytes_ok v -> kv_undebug (kv_debug v) = Some v.
Proof.
  intros [n|s] Hv; cbn [kv_debug].
  - destruct (dec n) as [|c r] eqn:E.
    + exfalso. exact (dec_digits_nonempty _ _ _ E).
    + assert (48 <= c <= 57) as Hc by (apply (dec_range n); rewrite E; left; reflexivity).
      unfold kv_undebug. destruct (N.eqb_spec c 34) as [Hq|_]; [lia|].
      rewrite <- E, dec_value_dec. reflexivity.
  - cbn [kvval_bytes_ok] in Hv. unfold kv_undebug.
    rewrite (undebug_str_debug s Hv). unfold debug_str. cbn [app]. rewrite N.eqb_refl. reflexivity.
Qed.
Print Assumptions kv_text_roundtrip.

Corollary kv_debug_inj : forall v w, kvval_bytes_ok v -> kvval_bytes_ok w -> kv_debug v = kv_debug w -> v = w.
Proof.
  intros v w Hv Hw H. pose proof (kv_text_roundtrip v Hv) as E. rewrite H, (kv_text_roundtrip w Hw) in E.
  injection E as E. symmetry. exact E.
Qed.

(* the pairs are rendered in the order of the source, each as key=value, between "{" and "} " *)
Lemma kv_text_nil : kv_text [] = [].
Proof. reflexivity. Qed.
Lemma kv_text_cons p kvs :
  kv_text (p :: kvs)
  = [123] ++ join [44; 32] (map (fun kv : bytes * kvval => fst kv ++ [61] ++ kv_debug (snd kv)) (p :: kvs)) ++ [125; 32].
Proof. reflexivity. Qed.

(* the pairs do not break the line: when the keys have no control character the text of the pairs has none *)
Lemma ok_kv_debug v : ok (kv_debug v).
Proof.
  destruct v as [n|s]; cbn [kv_debug]; [apply ok_dec|].
  unfold ok. rewrite Forall_forall. intros d Hd. apply debug_str_printable in Hd. lia.
Qed.

Theorem kv_text_single_line : forall kvs, Forall (fun kv : bytes * kvval => ok (fst kv)) kvs -> ok (kv_text kvs).
Proof.
  intros [|p kvs] Hk; [constructor|]. rewrite kv_text_cons.
  apply ok_app; [repeat (constructor; try lia)|].
  apply ok_app; [|repeat (constructor; try lia)].
  apply ok_join; [repeat (constructor; try lia)|].
  rewrite Forall_forall. intros x Hx. apply in_map_iff in Hx. destruct Hx as [kv [Hkv Hin]]. subst x.
  rewrite Forall_forall in Hk.
  apply ok_app; [apply Hk, Hin|]. apply ok_app; [repeat (constructor; try lia) | apply ok_kv_debug].
Qed.

(* ---- the JSON format: the map of the pairs ---- *)

Lemma kv_lex_lt_irrefl a : lex_lt a a = false.
Proof.
  induction a as [|x a IH]; [reflexivity|]. cbn [lex_lt]. rewrite IH, N.ltb_irrefl, andb_false_r. reflexivity.
Qed.

Lemma kv_lex_lt_connex a : forall b, lex_lt a b = false -> lex_lt b a = false -> a = b.
Proof.
  induction a as [|x a IH]; intros [|y b]; cbn [lex_lt]; try (intros; congruence || reflexivity).
  intros H1 H2. specialize (IH b).
  destruct (N.ltb_spec x y), (N.ltb_spec y x), (N.eqb_spec x y), (N.eqb_spec y x); cbn [orb andb] in *;
    try discriminate; try lia. subst y. f_equal. auto.
Qed.

Lemma kv_lex_lt_trans a : forall b c, lex_lt a b = true -> lex_lt b c = true -> lex_lt a c = true.
Proof.
  induction a as [|x a IH]; intros [|y b] [|z c]; cbn [lex_lt]; try (intros; congruence || reflexivity).
  intros H1 H2. specialize (IH b c).
  destruct (N.ltb_spec x y), (N.ltb_spec y z), (N.ltb_spec x z), (N.eqb_spec x y), (N.eqb_spec y z), (N.eqb_spec x z);
    cbn [orb andb] in *; try reflexivity; try discriminate; try lia; auto.
Qed.

(* strictly ascending keys *)
Definition kv_lt (a b : bytes * kvval) : Prop := lex_lt (fst a) (fst b) = true.

(* the value of a key: the first pair with that key *)
Fixpoint assoc (k : bytes) (l : list (bytes * kvval)) : option kvval :=
  match l with
  | [] => None
  | (k', v) :: r => if beq k k' then Some v else assoc k r
  end.

Lemma assoc_app k a b : assoc k (a ++ b) = match assoc k a with Some v => Some v | None => assoc k b end.
Proof.
  induction a as [|[k' v'] a IH]; cbn [app assoc]; [reflexivity|]. destruct (beq k k'); [reflexivity | exact IH].
Qed.

Lemma assoc_some_in k v l : assoc k l = Some v -> In (k, v) l.
Proof.
  induction l as [|[k' v'] l IH]; cbn [assoc]; [discriminate|].
  destruct (beq_spec k k') as [Hk|Hk]; intros H.
  - injection H as H. subst. left; reflexivity.
  - right; apply IH, H.
Qed.

Lemma assoc_none_iff k l : assoc k l = None <-> ~ In k (map fst l).
Proof.
  induction l as [|[k' v'] l IH]; cbn [assoc map In fst].
  - split; [intros _ H; exact H | reflexivity].
  - destruct (beq_spec k k') as [Hk|Hk].
    + split; [discriminate | intros H; exfalso; apply H; left; symmetry; exact Hk].
    + rewrite IH. split; [intros H [H'|H']; [apply Hk; symmetry; exact H' | exact (H H')] | intros H H'; apply H; right; exact H'].
Qed.

Lemma in_assoc_nodup k v l : NoDup (map fst l) -> In (k, v) l -> assoc k l = Some v.
Proof.
  induction l as [|[k' v'] l IH]; cbn [map fst assoc]; intros Hnd Hin; [destruct Hin|].
  inversion Hnd as [|x xs Hnotin Hnd']; subst. destruct Hin as [Hin|Hin].
  - injection Hin as Hk Hv. subst. rewrite beq_refl. reflexivity.
  - destruct (beq_spec k k') as [Hk|Hk]; [|apply IH; assumption].
    subst k'. exfalso. apply Hnotin. apply in_map_iff. exists (k, v). split; [reflexivity | exact Hin].
Qed.

(* inserting into the map: the new key gets the new value, every other key keeps its value *)
Lemma kv_insert_assoc k v m k0 : assoc k0 (kv_insert k v m) = if beq k0 k then Some v else assoc k0 m.
Proof.
  induction m as [|[k' v'] m IH]; cbn [kv_insert assoc]; [reflexivity|].
  destruct (beq_spec k k') as [Hk|Hk].
  - subst k'. cbn [assoc]. destruct (beq k0 k); reflexivity.
  - destruct (lex_le k k'); cbn [assoc]; [reflexivity|]. rewrite IH.
    destruct (beq_spec k0 k') as [H1|H1], (beq_spec k0 k) as [H2|H2]; try reflexivity. exfalso. apply Hk. congruence.
Qed.

Lemma kv_insert_hd a k v m : HdRel kv_lt a m -> kv_lt a (k, v) -> HdRel kv_lt a (kv_insert k v m).
Proof.
  destruct m as [|[k' v'] r]; cbn [kv_insert]; intros H1 H2; [constructor; exact H2|].
  destruct (beq k k'); [constructor; exact H2|].
  destruct (lex_le k k'); constructor; [exact H2|]. inversion H1; assumption.
Qed.

Lemma kv_insert_sorted k v m : Sorted kv_lt m -> Sorted kv_lt (kv_insert k v m).
Proof.
  induction m as [|[k' v'] r IH]; intros Hs; cbn [kv_insert]; [repeat constructor|].
  inversion Hs as [|x xs Hr Hh]; subst. destruct (beq_spec k k') as [Hk|Hk].
  - subst k'. constructor; [exact Hr|]. destruct Hh as [|b l Hb]; constructor. exact Hb.
  - destruct (lex_le k k') eqn:Ele; unfold lex_le in Ele.
    + apply negb_true_iff in Ele. constructor; [exact Hs|]. constructor. unfold kv_lt; cbn [fst].
      destruct (lex_lt k k') eqn:E; [reflexivity|]. exfalso; apply Hk, kv_lex_lt_connex; assumption.
    + apply negb_false_iff in Ele. constructor; [apply IH, Hr|]. apply kv_insert_hd; [exact Hh | exact Ele].
Qed.

Lemma kv_fold_sorted l : forall m, Sorted kv_lt m ->
  Sorted kv_lt (fold_left (fun m kv => kv_insert (fst kv) (snd kv) m) l m).
Proof.
  induction l as [|[k v] l IH]; intros m Hm; cbn [fold_left fst snd]; [exact Hm|]. apply IH, kv_insert_sorted, Hm.
Qed.

Lemma kv_fold_assoc k l : forall m,
  assoc k (fold_left (fun m kv => kv_insert (fst kv) (snd kv) m) l m)
  = match assoc k (rev l) with Some v => Some v | None => assoc k m end.
Proof.
  induction l as [|[k' v'] l IH]; intros m; cbn [fold_left fst snd rev]; [reflexivity|].
  rewrite IH, assoc_app, kv_insert_assoc. cbn [assoc]. destruct (assoc k (rev l)); [reflexivity|].
  destruct (beq k k'); reflexivity.
Qed.

(* (1) the map is sorted strictly by key, hence no key occurs twice *)
Theorem kv_map_sorted : forall l, Sorted kv_lt (kv_map l).
Proof. intros l. unfold kv_map. apply kv_fold_sorted. constructor. Qed.

Theorem kv_map_strongly_sorted : forall l, StronglySorted kv_lt (kv_map l).
Proof.
  intros l. apply Sorted_StronglySorted; [|apply kv_map_sorted].
  intros x y z Hxy Hyz. exact (kv_lex_lt_trans _ _ _ Hxy Hyz).
Qed.

Lemma strongly_sorted_nodup m : StronglySorted kv_lt m -> NoDup (map fst m).
Proof.
  induction 1 as [|a m Hs IH Ha]; cbn [map]; constructor; [|exact IH].
  intros Hin. apply in_map_iff in Hin. destruct Hin as [b [Hb Hin]]. rewrite Forall_forall in Ha.
  specialize (Ha b Hin). unfold kv_lt in Ha. rewrite Hb, kv_lex_lt_irrefl in Ha. discriminate.
Qed.

Theorem kv_map_nodup : forall l, NoDup (map fst (kv_map l)).
Proof. intros l. apply strongly_sorted_nodup, kv_map_strongly_sorted. Qed.

(* (2) each key has the value of its LAST occurrence in the source *)
Theorem kv_map_lookup : forall k l, assoc k (kv_map l) = assoc k (rev l).
Proof.
  intros k l. unfold kv_map. rewrite kv_fold_assoc. cbn [assoc]. destruct (assoc k (rev l)); reflexivity.
Qed.

(* (3) the keys are exactly the keys of the source *)
Theorem kv_map_keys : forall k l, In k (map fst (kv_map l)) <-> In k (map fst l).
Proof.
  intros k l.
  assert (In k (map fst (kv_map l)) <-> assoc k (kv_map l) <> None) as E1.
  { pose proof (assoc_none_iff k (kv_map l)) as H. destruct (in_dec (list_eq_dec N.eq_dec) k (map fst (kv_map l))) as [Hi|Hn].
    - split; [intros _ E; apply H in E; exact (E Hi) | intros _; exact Hi].
    - split; [intros Hi; exact (False_ind _ (Hn Hi)) | intros E; exfalso; apply E, H, Hn]. }
  assert (In k (map fst (rev l)) <-> assoc k (rev l) <> None) as E2.
  { pose proof (assoc_none_iff k (rev l)) as H. destruct (in_dec (list_eq_dec N.eq_dec) k (map fst (rev l))) as [Hi|Hn].
    - split; [intros _ E; apply H in E; exact (E Hi) | intros _; exact Hi].
    - split; [intros Hi; exact (False_ind _ (Hn Hi)) | intros E; exfalso; apply E, H, Hn]. }
  rewrite E1, kv_map_lookup, <- E2, map_rev. symmetry. apply in_rev.
Qed.

(* the pairs of the map are the pairs (key, value at its last occurrence) *)
Theorem kv_map_in : forall k v l, In (k, v) (kv_map l) <-> assoc k (rev l) = Some v.
Proof.
  intros k v l. rewrite <- kv_map_lookup. split.
  - apply in_assoc_nodup, kv_map_nodup.
  - apply assoc_some_in.
Qed.

Lemma kv_map_incl p l : In p (kv_map l) -> In p l.
Proof.
  destruct p as [k v]. intros H. apply kv_map_in in H. apply assoc_some_in in H. apply in_rev, H.
Qed.

(* the object is left out exactly when the record has no pairs *)
Theorem kv_map_nil_iff : forall l, kv_map l = [] <-> l = [].
Proof.
  intros l. split; [|intros H; subst; reflexivity].
  destruct l as [|[k v] l]; [reflexivity|]. intros H.
  assert (In k (map fst (kv_map ((k, v) :: l)))) as Hin by (apply kv_map_keys; left; reflexivity).
  rewrite H in Hin. destruct Hin.
Qed.

Print Assumptions kv_map_sorted.
Print Assumptions kv_map_lookup.
Print Assumptions kv_map_keys.

(* ---- the JSON format: the object of the pairs decodes back ---- *)

Lemma kv_bytes_ok_map l : kv_bytes_ok l -> kv_bytes_ok (kv_map l).
Proof.
  unfold kv_bytes_ok. rewrite !Forall_forall. intros H p Hp. apply H, kv_map_incl, Hp.
Qed.

(* the object is "{" key:value,... "}" over the sorted map (by definition) *)
Lemma json_kv_object_shape m :
  json_kv_object m
  = [123] ++ join [44] (map (fun kv : bytes * kvval => json_string (fst kv) ++ [58] ++ json_kv_value (snd kv)) m) ++ [125].
Proof. reflexivity. Qed.

(* where it sits in the line: directly before "text"; and it is left out when there are no pairs *)
Lemma json_line_kv ts r :
  json_line ts r
  = [123] ++ join [44]
      ([json_field k_level (json_string (level_name (fr_level r))); json_field k_timestamp (json_string ts)]
       ++ opt_field k_thread (fr_thread r) ++ opt_field k_module_path (fr_module r) ++ opt_field k_file (fr_file r)
       ++ match fr_line r with Some n => [json_field k_line (dec n)] | None => [] end
       ++ (if match fr_kv r with [] => true | _ => false end then []
           else [json_field k_kv (json_kv_object (kv_map (fr_kv r)))])
       ++ [json_field k_text (json_string (fr_msg r))])
    ++ [125].
Proof.
  unfold json_line. destruct (fr_kv r) as [|p l] eqn:E; [reflexivity|].
  destruct (kv_map (p :: l)) as [|q m] eqn:Em; [|reflexivity].
  exfalso. pose proof (proj1 (kv_map_nil_iff (p :: l)) Em) as Hnil. discriminate Hnil.
Qed.

(* every key and every string value is recovered exactly by JSON decoding, every number by reading the decimal *)
Theorem json_kv_roundtrip : forall r, kv_bytes_ok (fr_kv r) ->
  forall k v, In (k, v) (kv_map (fr_kv r)) ->
    json_unescape (length (json_escape k)) (json_escape k) = Some k
    /\ match v with
       | KStr s => json_kv_value v = json_string s /\ json_unescape (length (json_escape s)) (json_escape s) = Some s
       | KInt n => json_kv_value v = dec n /\ dec_value (dec n) = n
       end.
Proof.
  intros r Hok k v Hin. apply kv_bytes_ok_map in Hok. unfold kv_bytes_ok in Hok. rewrite Forall_forall in Hok.
  destruct (Hok (k, v) Hin) as [Hk Hv]. cbn [fst snd] in Hk, Hv. split; [apply unescape_escape, Hk|].
  destruct v as [n|s]; cbn [json_kv_value]; (split; [reflexivity|]).
  - apply dec_value_dec.
  - apply unescape_escape, Hv.
Qed.
Print Assumptions json_kv_roundtrip.
