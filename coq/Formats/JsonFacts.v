(* JSON string escaping as serde_json does it: it can be undone, and it produces a single line. *)
Require Import FL.Base.Bytes FL.Base.BytesFacts FL.Formats.Formats.
Require Import Lia ZifyN ZifyBool.
Open Scope N_scope.

(* every byte value *)
Definition is_byte (c : N) : Prop := c < 256.

(* ---- the 256 byte values, for proofs by a finite sweep ---- *)
Definition all_bytes : list N := Eval vm_compute in map N.of_nat (seq 0 256).

Lemma all_bytes_complete : forall c, c < 256 -> In c all_bytes.
Proof.
  intros c Hc. change all_bytes with (map N.of_nat (seq 0 256)).
  rewrite <- (N2Nat.id c). apply in_map, in_seq. lia.
Qed.

Lemma byte_sweep (P : N -> Prop) : Forall P all_bytes -> forall c, c < 256 -> P c.
Proof.
  intros H c Hc. rewrite Forall_forall in H. apply H, all_bytes_complete, Hc.
Qed.

(* ---- "printable": no byte below 32 ---- *)
Definition ok (s : bytes) : Prop := Forall (fun c => 32 <= c) s.

Lemma ok_app a b : ok a -> ok b -> ok (a ++ b).
Proof. intros; apply Forall_app; split; assumption. Qed.

Lemma ok_escape_byte c : ok (json_escape_byte c).
Proof.
  unfold ok, json_escape_byte, hex_digit.
  repeat match goal with |- context [if ?b then _ else _] => destruct b eqn:? end;
    repeat (constructor; try lia).
Qed.

Lemma ok_escape s : ok (json_escape s).
Proof.
  unfold json_escape. induction s as [|c s IH]; cbn [flat_map].
  - constructor.
  - apply ok_app; [apply ok_escape_byte | exact IH].
Qed.

(* stronger and the one we want: no byte below 32 at all *)
Theorem escape_no_control : forall s, Forall is_byte s -> forall c, In c (json_escape s) -> 32 <= c.
Proof.
  intros s _ c Hc. pose proof (ok_escape s) as H. unfold ok in H. rewrite Forall_forall in H. apply H, Hc.
Qed.
Print Assumptions escape_no_control.

(* ---- decoding undoes escaping ---- *)

(* one escaped byte in front: one unit of fuel decodes it *)
Lemma unescape_escape_byte : forall c, c < 256 -> forall f r,
  json_unescape (S f) (json_escape_byte c ++ r)
  = match json_unescape f r with Some t => Some (c :: t) | None => None end.
Proof.
  apply (byte_sweep (fun c => forall f r,
    json_unescape (S f) (json_escape_byte c ++ r)
    = match json_unescape f r with Some t => Some (c :: t) | None => None end)).
  unfold all_bytes.
  repeat (apply Forall_cons; [intros f r; reflexivity | ]).
  apply Forall_nil.
Qed.

Lemma unescape_nil fuel : json_unescape fuel [] = Some [].
Proof. destruct fuel; reflexivity. Qed.

Lemma unescape_escape_fuel : forall s, Forall is_byte s ->
  forall fuel, (length s <= fuel)%nat -> json_unescape fuel (json_escape s) = Some s.
Proof.
  induction 1 as [|c s Hc Hs IH]; intros fuel Hf.
  - apply unescape_nil.
  - destruct fuel as [|f]; [cbn [length] in Hf; lia|].
    unfold json_escape; cbn [flat_map]. fold (json_escape s).
    rewrite (unescape_escape_byte c Hc), IH; [reflexivity | cbn [length] in Hf; lia].
Qed.

Lemma escape_byte_length c : (1 <= length (json_escape_byte c))%nat.
Proof.
  unfold json_escape_byte.
  repeat match goal with |- context [if ?b then _ else _] => destruct b end; cbn [length]; lia.
Qed.

Lemma escape_length s : (length s <= length (json_escape s))%nat.
Proof.
  unfold json_escape. induction s as [|c s IH]; cbn [flat_map length]; [lia|].
  rewrite app_length. pose proof (escape_byte_length c). lia.
Qed.

(* a quote in the escaped text is always preceded by a backslash that escapes it: stated through decoding *)
Theorem unescape_escape : forall s, Forall is_byte s ->
  json_unescape (length (json_escape s)) (json_escape s) = Some s.
Proof.
  intros s Hs. apply unescape_escape_fuel; [exact Hs | apply escape_length].
Qed.
Print Assumptions unescape_escape.

(* ---- the JSON line ---- *)

Lemma dec_digits_range fuel : forall n acc,
  Forall (fun c => 48 <= c <= 57) acc -> Forall (fun c => 48 <= c <= 57) (dec_digits fuel n acc).
Proof.
  induction fuel as [|f IH]; intros n acc Hacc; cbn [dec_digits]; [exact Hacc|].
  assert (Forall (fun c => 48 <= c <= 57) ((48 + n mod 10) :: acc)) as H.
  { constructor; [|exact Hacc]. pose proof (N.mod_upper_bound n 10). lia. }
  destruct (n <? 10); [exact H | apply IH, H].
Qed.

Lemma dec_range n c : In c (dec n) -> 48 <= c <= 57.
Proof.
  intros Hc. pose proof (dec_digits_range (S (N.to_nat (N.log2 n))) n [] (Forall_nil _)) as H.
  rewrite Forall_forall in H. apply H, Hc.
Qed.

Lemma ok_dec n : ok (dec n).
Proof.
  unfold ok. rewrite Forall_forall. intros c Hc. apply dec_range in Hc. lia.
Qed.

Lemma join_in sep l c : In c (join sep l) -> In c sep \/ exists x, In x l /\ In c x.
Proof.
  induction l as [|x l IH]; cbn [join]; intros H; [destruct H|].
  destruct l as [|y l].
  - right; exists x; split; [left; reflexivity | exact H].
  - apply in_app_or in H. destruct H as [H|H].
    + right; exists x; split; [left; reflexivity | exact H].
    + apply in_app_or in H. destruct H as [H|H]; [left; exact H|].
      destruct (IH H) as [H'|[z [Hz Hc]]]; [left; exact H'|].
      right; exists z; split; [right; exact Hz | exact Hc].
Qed.

Lemma ok_join sep l : ok sep -> Forall ok l -> ok (join sep l).
Proof.
  intros Hsep Hl. unfold ok in *. rewrite Forall_forall. intros c Hc.
  apply join_in in Hc. destruct Hc as [Hc|[x [Hx Hc]]].
  - rewrite Forall_forall in Hsep. apply Hsep, Hc.
  - rewrite Forall_forall in Hl. specialize (Hl x Hx). rewrite Forall_forall in Hl. apply Hl, Hc.
Qed.

Lemma ok_json_string s : ok (json_string s).
Proof.
  unfold json_string. apply ok_app; [repeat (constructor; try lia)|].
  apply ok_app; [apply ok_escape | repeat (constructor; try lia)].
Qed.

Lemma ok_json_field k v : ok v -> ok (json_field k v).
Proof.
  intros Hv. unfold json_field. apply ok_app; [apply ok_json_string|].
  apply ok_app; [repeat (constructor; try lia) | exact Hv].
Qed.

Lemma ok_opt_field k o : Forall ok (opt_field k o).
Proof.
  destruct o; cbn [opt_field]; [|constructor].
  apply Forall_cons; [|apply Forall_nil]. apply ok_json_field, ok_json_string.
Qed.

Lemma ok_json_line ts r : ok (json_line ts r).
Proof.
  unfold json_line.
  apply ok_app; [repeat (constructor; try lia)|].
  apply ok_app; [|repeat (constructor; try lia)].
  apply ok_join; [repeat (constructor; try lia)|].
  assert (forall a b : list bytes, Forall ok a -> Forall ok b -> Forall ok (a ++ b)) as FA
    by (intros; apply Forall_app; split; assumption).
  apply FA; [|apply FA; [|apply FA; [|apply FA; [|apply FA]]]].
  - repeat (apply Forall_cons; [apply ok_json_field, ok_json_string|]). apply Forall_nil.
  - apply ok_opt_field.
  - apply ok_opt_field.
  - apply ok_opt_field.
  - destruct (fr_line r); [|apply Forall_nil].
    apply Forall_cons; [apply ok_json_field, ok_dec | apply Forall_nil].
  - apply Forall_cons; [apply ok_json_field, ok_json_string | apply Forall_nil].
Qed.

(* the whole JSON line of a record has no control character: one record = one line, whatever the texts are *)
Theorem json_line_single_line : forall ts r,
  Forall is_byte ts -> Forall is_byte (fr_msg r) ->
  (forall m, fr_module r = Some m -> Forall is_byte m) -> (forall f, fr_file r = Some f -> Forall is_byte f) ->
  (forall t, fr_thread r = Some t -> Forall is_byte t) ->
  forall c, In c (json_line ts r) -> 32 <= c.
Proof.
  intros ts r _ _ _ _ _ c Hc. pose proof (ok_json_line ts r) as H.
  unfold ok in H. rewrite Forall_forall in H. apply H, Hc.
Qed.
Print Assumptions json_line_single_line.
