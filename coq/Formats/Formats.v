(* M8: the provided format functions and the framing of a record.  Mirrors src/formats.rs (default, opt, detailed,
   with_thread, their coloured variants for the default palette, json), deferred_now.rs.  Text = bytes.
   No proofs in this file. *)
Require Import FL.Base.Bytes FL.Time.Civil FL.Time.TsFormat.
From Coq Require String.
Import String.StringSyntax.
Delimit Scope string_scope with string.
Open Scope N_scope.

(* text constants (computed here, so that no Coq string reaches the extracted code) *)
Definition k_error : bytes := Eval compute in bs "ERROR"%string.
Definition k_warn : bytes := Eval compute in bs "WARN"%string.
Definition k_info : bytes := Eval compute in bs "INFO"%string.
Definition k_debug : bytes := Eval compute in bs "DEBUG"%string.
Definition k_trace : bytes := Eval compute in bs "TRACE"%string.
Definition k_unnamed : bytes := Eval compute in bs "<unnamed>"%string.
Definition k_38_5 : bytes := Eval compute in bs "38;5;"%string.
Definition k_sp : bytes := Eval compute in bs " ["%string.
Definition k_sp2 : bytes := Eval compute in bs "] "%string.
Definition k_sp3 : bytes := Eval compute in bs "["%string.
Definition k_sp4 : bytes := Eval compute in bs ": "%string.
Definition k_t : bytes := Eval compute in bs "] T["%string.
Definition k_level : bytes := Eval compute in bs "level"%string.
Definition k_timestamp : bytes := Eval compute in bs "timestamp"%string.
Definition k_thread : bytes := Eval compute in bs "thread"%string.
Definition k_module_path : bytes := Eval compute in bs "module_path"%string.
Definition k_file : bytes := Eval compute in bs "file"%string.
Definition k_line : bytes := Eval compute in bs "line"%string.
Definition k_text : bytes := Eval compute in bs "text"%string.

(* the value of a key-value pair: an unsigned number or a string *)
Inductive kvval := KInt (n : N) | KStr (s : bytes).

Record frec := { fr_level : nat;                 (* 1 Error .. 5 Trace *)
                 fr_module : option bytes;
                 fr_file : option bytes;
                 fr_line : option N;
                 fr_thread : option bytes;
                 fr_kv : list (bytes * kvval);   (* key-value pairs in the order of the source *)
                 fr_msg : bytes }.

Definition level_name (l : nat) : bytes :=
  match l with
  | 1%nat => k_error | 2%nat => k_warn | 3%nat => k_info | 4%nat => k_debug | _ => k_trace
  end.
Definition unnamed : bytes := k_unnamed.
Definition or_unnamed (o : option bytes) : bytes := match o with Some s => s | None => unnamed end.
Definition line_text (o : option N) : bytes := dec (match o with Some n => n | None => 0 end).

(* "%Y-%m-%d %H:%M:%S%.6f %:z" of an instant (seconds, microseconds) in a zone with a fixed offset *)
Definition ts_text (secs : Z) (micros : N) (off : Z) : bytes :=
  let c := civil_of (secs + off) in
  let a := Z.abs off in
  fmt_year (cy c) ++ [45] ++ pad_dec 2 (cmo c) ++ [45] ++ pad_dec 2 (cd c) ++ [32]
  ++ pad_dec 2 (ch c) ++ [58] ++ pad_dec 2 (cmi c) ++ [58] ++ pad_dec 2 (cs c) ++ [46] ++ pad_left 6 48 (dec micros) ++ [32]
  ++ [if (off <? 0)%Z then 45 else 43] ++ pad_dec 2 (a / 3600) ++ [58] ++ pad_dec 2 ((a mod 3600) / 60).

(* the text formats: "{k=v, k2=v2} " in front of the message, values in Rust's Debug form (ASCII strings: quotes,
   backslash, \t \r \n \0 escaped, other control characters as \u{..}); nothing at all without pairs *)
Definition hexd (n : N) : N := if n <? 10 then 48 + n else 87 + n.
Definition debug_byte (c : N) : bytes :=
  if c =? 34 then [92; 34] else if c =? 92 then [92; 92] else if c =? 10 then [92; 110] else if c =? 13 then [92; 114]
  else if c =? 9 then [92; 116] else if c =? 0 then [92; 48]
  else if (c <? 32) || (c =? 127) then [92; 117; 123] ++ (if c <? 16 then [hexd c] else [hexd (c / 16); hexd (c mod 16)]) ++ [125]
  else [c].
Definition debug_str (s : bytes) : bytes := [34] ++ flat_map debug_byte s ++ [34].
Definition kv_debug (v : kvval) : bytes := match v with KInt n => dec n | KStr s => debug_str s end.
Definition kv_text (kvs : list (bytes * kvval)) : bytes :=
  match kvs with
  | [] => []
  | _ => [123] ++ join [44; 32] (List.map (fun kv : bytes * kvval => fst kv ++ [61] ++ kv_debug (snd kv)) kvs) ++ [125; 32]
  end.

Inductive fmt_kind := FDefault | FOpt | FDetailed | FWithThread | FJson.

(* ANSI colouring with the default palette: error 196, warn 208, info plain, debug 27, trace 8 *)
Definition paint (l : nat) (s : bytes) : bytes :=
  let code := match l with 1%nat => Some 196 | 2%nat => Some 208 | 3%nat => None | 4%nat => Some 27 | _ => Some 8 end in
  match code with
  | None => s
  | Some c => [27; 91] ++ k_38_5 ++ dec c ++ [109] ++ s ++ [27; 91; 48; 109]
  end.

(* ---- JSON string escaping as serde_json does it ---- *)
Definition hex_digit (n : N) : N := if n <? 10 then 48 + n else 87 + n.
Definition json_escape_byte (c : N) : bytes :=
  if c =? 34 then [92; 34] else if c =? 92 then [92; 92]
  else if c =? 8 then [92; 98] else if c =? 12 then [92; 102] else if c =? 10 then [92; 110]
  else if c =? 13 then [92; 114] else if c =? 9 then [92; 116]
  else if c <? 32 then [92; 117; 48; 48; hex_digit (c / 16); hex_digit (c mod 16)]
  else [c].
Definition json_escape (s : bytes) : bytes := flat_map json_escape_byte s.
Definition json_string (s : bytes) : bytes := [34] ++ json_escape s ++ [34].

Definition json_field (k : bytes) (v : bytes) : bytes := json_string k ++ [58] ++ v.
Definition opt_field (k : bytes) (o : option bytes) : list bytes :=
  match o with Some v => [json_field k (json_string v)] | None => [] end.

(* the JSON format collects the pairs in a BTreeMap: sorted by key, a later pair replaces an earlier one with the same key;
   the object is left out when there are no pairs *)
Fixpoint kv_insert (k : bytes) (v : kvval) (m : list (bytes * kvval)) : list (bytes * kvval) :=
  match m with
  | [] => [(k, v)]
  | (k', v') :: r => if beq k k' then (k, v) :: r
                     else if lex_le k k' then (k, v) :: m else (k', v') :: kv_insert k v r
  end.
Definition kv_map (kvs : list (bytes * kvval)) : list (bytes * kvval) :=
  fold_left (fun m kv => kv_insert (fst kv) (snd kv) m) kvs [].
Definition json_kv_value (v : kvval) : bytes := match v with KInt n => dec n | KStr s => json_string s end.
Definition json_kv_object (m : list (bytes * kvval)) : bytes :=
  [123] ++ join [44] (List.map (fun kv : bytes * kvval => json_string (fst kv) ++ [58] ++ json_kv_value (snd kv)) m) ++ [125].
Definition k_kv : bytes := [107; 118].

Definition json_line (ts : bytes) (r : frec) : bytes :=
  [123] ++ join [44]
     ([json_field k_level (json_string (level_name (fr_level r))); json_field k_timestamp (json_string ts)]
      ++ opt_field k_thread (fr_thread r) ++ opt_field k_module_path (fr_module r) ++ opt_field k_file (fr_file r)
      ++ match fr_line r with Some n => [json_field k_line (dec n)] | None => [] end
      ++ match kv_map (fr_kv r) with [] => [] | m => [json_field k_kv (json_kv_object m)] end
      ++ [json_field k_text (json_string (fr_msg r))])
  ++ [125].

Definition format_record (k : fmt_kind) (colored : bool) (ts : bytes) (r : frec) : bytes :=
  let l := fr_level r in
  let p s := if colored then paint l s else s in
  match k with
  | FDefault => p (level_name l) ++ k_sp ++ or_unnamed (fr_module r) ++ k_sp2 ++ kv_text (fr_kv r) ++ p (fr_msg r)
  | FOpt => k_sp3 ++ p ts ++ k_sp2 ++ p (level_name l) ++ k_sp ++ or_unnamed (fr_file r) ++ [58] ++ line_text (fr_line r) ++ k_sp2
            ++ kv_text (fr_kv r) ++ p (fr_msg r)
  | FDetailed => k_sp3 ++ p ts ++ k_sp2 ++ p (level_name l) ++ k_sp ++ or_unnamed (fr_module r) ++ k_sp2
                 ++ or_unnamed (fr_file r) ++ [58] ++ line_text (fr_line r) ++ k_sp4 ++ kv_text (fr_kv r) ++ p (fr_msg r)
  | FWithThread => k_sp3 ++ p ts ++ k_t ++ p (or_unnamed (fr_thread r)) ++ k_sp2 ++ p (level_name l) ++ k_sp
                   ++ or_unnamed (fr_file r) ++ [58] ++ line_text (fr_line r) ++ k_sp2 ++ kv_text (fr_kv r) ++ p (fr_msg r)
  | FJson => json_line ts r
  end.

(* ---- framing: what one log call puts into the outputs.  The outputs of a record are served one after the other,
   each one formats the record itself; a record whose Display logs further records therefore logs them once per
   output that formats it, and in each output those inner records - complete lines of their own - come before the
   line of the outer record.  An event is (index of the output, line without ending). ---- *)
Inductive rtree := RNode (r : frec) (inner : list rtree).
Fixpoint log_events (n_out : nat) (k : fmt_kind) (ts : bytes) (t : rtree) : list (nat * bytes) :=
  match t with
  | RNode r inner =>
    flat_map (fun o => flat_map (log_events n_out k ts) inner ++ [(o, format_record k false ts r)]) (seq 0 n_out)
  end.
(* the bytes that arrive in output o, whose line ending is `ending` *)
Definition output_of (o : nat) (ending : bytes) (evs : list (nat * bytes)) : bytes :=
  flat_map (fun e : nat * bytes => if Nat.eqb (fst e) o then snd e ++ ending else []) evs.
Definition line_of (k : fmt_kind) (colored : bool) (ts : bytes) (ending : bytes) (r : frec) : bytes :=
  format_record k colored ts r ++ ending.

(* ---- JSON string decoding: the specification of "decodes to" ---- *)
Definition unhex_digit (c : N) : option N :=
  if (48 <=? c) && (c <=? 57) then Some (c - 48) else if (97 <=? c) && (c <=? 102) then Some (c - 87)
  else if (65 <=? c) && (c <=? 70) then Some (c - 55) else None.
Fixpoint json_unescape (fuel : nat) (s : bytes) : option bytes :=
  match fuel with
  | O => match s with [] => Some [] | _ => None end
  | S f =>
    match s with
    | [] => Some []
    | 92 :: 117 :: 48 :: 48 :: a :: b :: r =>
      match unhex_digit a, unhex_digit b, json_unescape f r with
      | Some x, Some y, Some t => Some ((x * 16 + y) :: t)
      | _, _, _ => None
      end
    | 92 :: c :: r =>
      match (if c =? 34 then Some 34 else if c =? 92 then Some 92 else if c =? 98 then Some 8 else if c =? 102 then Some 12
             else if c =? 110 then Some 10 else if c =? 114 then Some 13 else if c =? 116 then Some 9 else if c =? 47 then Some 47
             else None), json_unescape f r with
      | Some x, Some t => Some (x :: t)
      | _, _ => None
      end
    | c :: r => if (c =? 34) || (c <? 32) then None
                else match json_unescape f r with Some t => Some (c :: t) | None => None end
    end
  end.
