(* Characterising lemmas of the file-system primitives; later proofs never unfold the association lists. *)
Require Import FL.Base.Bytes FL.Base.BytesFacts FL.Fs.Fs.
Open Scope nat_scope.

Lemma upd_length {A} (l : list A) i x : length (upd l i x) = length l.
Proof. revert i; induction l; destruct i; simpl; auto. Qed.
Lemma nth_upd {A} (l : list A) i j x d : (i < length l)%nat -> nth j (upd l i x) d = if Nat.eqb j i then x else nth j l d.
Proof. revert i j; induction l as [|y l IH]; intros i j H; simpl in *; [lia|].
  destruct i, j; simpl; auto. rewrite IH by lia. reflexivity. Qed.
Lemma nth_upd_out {A} (l : list A) i x : (length l <= i)%nat -> upd l i x = l.
Proof. revert i; induction l as [|y l IH]; intros i H; simpl in *; [reflexivity|].
  destruct i; [lia|]. rewrite IH by lia. reflexivity. Qed.

(* ---- append_ino ---- *)
Lemma lookup_append f i b n : lookup (append_ino f i b) n = lookup f n.
Proof. reflexivity. Qed.
Lemma names_append f i b : names (append_ino f i b) = names f.
Proof. reflexivity. Qed.
Lemma len_append f i b : length (inodes (append_ino f i b)) = length (inodes f).
Proof. simpl. apply upd_length. Qed.
Lemma content_append f i b j : (i < length (inodes f))%nat ->
  content (append_ino f i b) j = if Nat.eqb j i then content f i ++ b else content f j.
Proof. intros H. unfold content at 1, inode at 1. simpl. rewrite nth_upd by assumption.
  destruct (Nat.eqb j i); reflexivity. Qed.
Lemma append_ino_nil f i : (i < length (inodes f))%nat -> content (append_ino f i []) i = content f i.
Proof. intros H. rewrite content_append, Nat.eqb_refl, app_nil_r by assumption. reflexivity. Qed.

Lemma upd_same_data (l : list file) i : upd l i (with_data (nth i l nofile) (fdata (nth i l nofile) ++ [])) = l.
Proof. revert i; induction l as [|y l IH]; intros i; cbn; [reflexivity|]. destruct i; cbn.
  - unfold with_data. rewrite app_nil_r. destruct y; reflexivity.
  - f_equal. apply IH. Qed.
Lemma append_ino_nil_id f i : append_ino f i [] = f.
Proof. unfold append_ino, content, inode. rewrite upd_same_data. destruct f; reflexivity. Qed.
Lemma upd_upd {A} (l : list A) i x y : upd (upd l i x) i y = upd l i y.
Proof. revert i; induction l as [|z l IH]; intros i; cbn; [reflexivity|]. destruct i; cbn; [reflexivity|]. f_equal. apply IH. Qed.
Lemma append_ino_app f i a b : append_ino (append_ino f i a) i b = append_ino f i (a ++ b).
Proof.
  unfold append_ino; cbn [names inodes]. f_equal. rewrite upd_upd.
  destruct (Nat.ltb_spec i (length (inodes f))) as [Hi|Hi].
  - f_equal. unfold content, inode; cbn [inodes]. rewrite nth_upd, Nat.eqb_refl by assumption.
    unfold with_data; cbn. rewrite app_assoc. reflexivity.
  - rewrite !nth_upd_out by assumption. reflexivity.
Qed.

(* ---- lookup on modified name lists ---- *)
Lemma lookup_cons_eq f' a i l ino : names f' = (a, i) :: l -> inodes f' = ino -> lookup f' a = Some i.
Proof. intros H _. unfold lookup. rewrite H. cbn [find fst snd]. rewrite beq_refl. reflexivity. Qed.

Lemma find_filter_other (l : list (bytes * nat)) (p : bytes * nat -> bool) n :
  (forall x, fst x = n -> p x = true) ->
  find (fun q => beq (fst q) n) (filter p l) = find (fun q => beq (fst q) n) l.
Proof. intros Hp. induction l as [|[m j] l IH]; cbn [filter find fst]; auto.
  destruct (p (m, j)) eqn:Ep; cbn [find fst].
  - destruct (beq m n); [reflexivity | exact IH].
  - destruct (beq_spec m n) as [->|Hn]; [rewrite Hp in Ep by reflexivity; discriminate | exact IH]. Qed.
Lemma find_filter_none (l : list (bytes * nat)) (p : bytes * nat -> bool) n :
  (forall x, fst x = n -> p x = false) ->
  find (fun q => beq (fst q) n) (filter p l) = None.
Proof. intros Hp. induction l as [|[m j] l IH]; cbn [filter find fst]; auto.
  destruct (p (m, j)) eqn:Ep; cbn [find fst]; [|exact IH].
  destruct (beq_spec m n) as [->|Hn]; [rewrite Hp in Ep by reflexivity; discriminate | exact IH]. Qed.

(* ---- rename ---- *)
Lemma rename_spec f a b i : a <> b -> lookup f a = Some i ->
  exists f', rename f a b = Some f' /\ inodes f' = inodes f /\
    lookup f' b = Some i /\ lookup f' a = None /\ (forall n, n <> a -> n <> b -> lookup f' n = lookup f n).
Proof.
  intros Hab Ha. unfold rename. rewrite Ha. eexists; split; [reflexivity|]. split; [reflexivity|].
  split; [|split].
  - unfold lookup; cbn [names find fst snd]. rewrite beq_refl. reflexivity.
  - unfold lookup; cbn [names find fst snd]. rewrite (beq_neq b a) by congruence.
    rewrite find_filter_none; [reflexivity|]. intros x ->. rewrite beq_refl. reflexivity.
  - intros n Hna Hnb. unfold lookup; cbn [names find fst snd]. rewrite (beq_neq b n) by congruence.
    rewrite find_filter_other; [reflexivity|]. intros x ->. rewrite !beq_neq by congruence. reflexivity.
Qed.
Lemma rename_none f a b : lookup f a = None -> rename f a b = None.
Proof. intros H. unfold rename. rewrite H. reflexivity. Qed.

(* ---- unlink ---- *)
Lemma unlink_spec f a : inodes (unlink f a) = inodes f /\ lookup (unlink f a) a = None
  /\ (forall n, n <> a -> lookup (unlink f a) n = lookup f n).
Proof.
  split; [reflexivity|]. split.
  - unfold lookup, unlink; cbn [names]. rewrite find_filter_none; [reflexivity|]. intros x ->. rewrite beq_refl. reflexivity.
  - intros n Hn. unfold lookup, unlink; cbn [names]. rewrite find_filter_other; [reflexivity|].
    intros x ->. rewrite beq_neq by congruence. reflexivity.
Qed.

(* ---- create / open ---- *)
Lemma create_file_spec f a gz now :
  let '(f', i) := create_file f a gz now in
  i = length (inodes f) /\ inodes f' = inodes f ++ [{| fdata := []; fgz := gz; fborn := now; fdir := false |}]
  /\ lookup f' a = Some i /\ (forall n, n <> a -> lookup f' n = lookup f n).
Proof.
  unfold create_file. repeat split.
  - unfold lookup; cbn [names find fst snd]. rewrite beq_refl. reflexivity.
  - intros n Hn. unfold lookup; cbn [names find fst snd]. rewrite beq_neq by congruence. reflexivity.
Qed.

Lemma inode_app_old l i x : (i < length l)%nat -> nth i (l ++ [x]) nofile = nth i l nofile.
Proof. intros; apply app_nth1; assumption. Qed.
Lemma inode_app_new l x : nth (length l) (l ++ [x]) nofile = x.
Proof. rewrite app_nth2 by lia. rewrite Nat.sub_diag. reflexivity. Qed.

(* well-formed: every directory entry points to an allocated inode, no inode has two names *)
Record fs_wf (f : fs) : Prop := {
  wf_bound : forall a j, lookup f a = Some j -> (j < length (inodes f))%nat;
  wf_inj : forall a b j, lookup f a = Some j -> lookup f b = Some j -> a = b }.

Lemma wf_empty : fs_wf empty_fs.
Proof. split; unfold lookup; simpl; intros; discriminate. Qed.

Lemma wf_append f i b : fs_wf f -> fs_wf (append_ino f i b).
Proof. intros [Hb Hi]. split.
  - intros a j. rewrite lookup_append, len_append. apply Hb.
  - intros a c j. rewrite !lookup_append. apply Hi. Qed.

Lemma wf_rename f a b f' : fs_wf f -> rename f a b = Some f' -> fs_wf f'.
Proof.
  intros [Hb Hi] H. destruct (lookup f a) as [i|] eqn:Ea; [|rewrite rename_none in H by assumption; discriminate].
  destruct (beq_spec a b) as [<-|Hab].
  - (* rename onto itself *)
    unfold rename in H. rewrite Ea in H. injection H as <-.
    assert (L : forall n, lookup {| names := (a, i) :: filter (fun p => negb (beq (fst p) a) && negb (beq (fst p) a)) (names f); inodes := inodes f |} n = lookup f n).
    { intros n. unfold lookup at 1; cbn [names find fst snd]. destruct (beq_spec a n) as [<-|Hn]; [rewrite Ea; reflexivity|].
      rewrite find_filter_other; [reflexivity|]. intros x ->. rewrite beq_neq by congruence. reflexivity. }
    split.
    + intros n j. rewrite L. cbn [inodes]. apply Hb.
    + intros n m j. rewrite !L. apply Hi.
  - destruct (rename_spec f a b i Hab Ea) as [f'' [E [Hino [Lb [La Lo]]]]]. rewrite H in E. injection E as <-.
    split.
    + intros n j Hn. rewrite Hino. destruct (beq_spec n b) as [->|Hnb]; [rewrite Lb in Hn; injection Hn as <-; eapply Hb; eassumption|].
      destruct (beq_spec n a) as [->|Hna]; [rewrite La in Hn; discriminate|]. rewrite Lo in Hn by assumption. eapply Hb; eassumption.
    + intros n m j Hn Hm.
      assert (X : forall n, lookup f' n = Some j -> (n = b /\ j = i) \/ (n <> a /\ n <> b /\ lookup f n = Some j)).
      { intros k Hk. destruct (beq_spec k b) as [->|Hkb]; [left; rewrite Lb in Hk; split; congruence|].
        destruct (beq_spec k a) as [->|Hka]; [rewrite La in Hk; discriminate|]. right. rewrite Lo in Hk by assumption. auto. }
      destruct (X n Hn) as [[-> ->]|[Hna [Hnb Hn']]], (X m Hm) as [[-> Hji]|[Hma [Hmb Hm']]]; auto.
      * exfalso. apply Hma. eapply Hi; eassumption.
      * exfalso. subst j. apply Hna. eapply Hi; eassumption.
      * eapply Hi; eassumption.
Qed.

Lemma wf_unlink f a : fs_wf f -> fs_wf (unlink f a).
Proof.
  intros [Hb Hi]. destruct (unlink_spec f a) as [Hino [La Lo]]. split.
  - intros n j Hn. rewrite Hino. destruct (beq_spec n a) as [->|Hna]; [rewrite La in Hn; discriminate|].
    rewrite Lo in Hn by assumption. eapply Hb; eassumption.
  - intros n m j Hn Hm. destruct (beq_spec n a) as [->|Hna]; [rewrite La in Hn; discriminate|].
    destruct (beq_spec m a) as [->|Hma]; [rewrite La in Hm; discriminate|].
    rewrite Lo in Hn, Hm by assumption. eapply Hi; eassumption.
Qed.

Lemma wf_create f a gz now : fs_wf f -> lookup f a = None -> fs_wf (fst (create_file f a gz now)).
Proof.
  intros [Hb Hi] Ha. pose proof (create_file_spec f a gz now) as S. destruct (create_file f a gz now) as [f' i].
  destruct S as [-> [Hino [La Lo]]]. cbn [fst]. split.
  - intros n j Hn. rewrite Hino, app_length; cbn [length].
    destruct (beq_spec n a) as [->|Hna]; [rewrite La in Hn; injection Hn as <-; lia|].
    rewrite Lo in Hn by assumption. apply Hb in Hn. lia.
  - intros n m j Hn Hm.
    destruct (beq_spec n a) as [->|Hna], (beq_spec m a) as [->|Hma]; auto.
    + rewrite La in Hn. injection Hn as <-. rewrite Lo in Hm by assumption. apply Hb in Hm. lia.
    + rewrite La in Hm. injection Hm as <-. rewrite Lo in Hn by assumption. apply Hb in Hn. lia.
    + rewrite Lo in Hn, Hm by assumption. eapply Hi; eassumption.
Qed.

(* open_trunc / open_append in one statement: the returned inode is valid, named by a, and
   either fresh and empty, or the existing one (emptied by truncate) *)
Lemma open_trunc_spec f a gz now : fs_wf f ->
  let '(f', i) := open_trunc f a gz now in
  fs_wf f' /\ lookup f' a = Some i /\ (i < length (inodes f'))%nat /\ content f' i = []
  /\ length (inodes f) <= length (inodes f') /\ (forall n, n <> a -> lookup f' n = lookup f n)
  /\ (forall j, (j < length (inodes f))%nat -> j <> i -> inode f' j = inode f j)
  /\ (lookup f a = None -> i = length (inodes f)) /\ (forall j, lookup f a = Some j -> i = j).
Proof.
  intros W. unfold open_trunc. destruct (lookup f a) as [i|] eqn:Ea.
  - pose proof (wf_bound f W a i Ea) as Hi.
    split; [|split; [|split; [|split; [|split; [|split; [|split; [|split]]]]]]].
    + destruct W as [Hb Hj]. split; unfold lookup in *; cbn [names inodes]; [intros n j Hn; rewrite upd_length; eapply Hb; eassumption | exact Hj].
    + exact Ea.
    + cbn [inodes]. rewrite upd_length. exact Hi.
    + unfold content, inode; cbn [inodes]. rewrite nth_upd, Nat.eqb_refl by assumption. reflexivity.
    + cbn [inodes]. rewrite upd_length. lia.
    + reflexivity.
    + intros j Hj Hne. unfold inode; cbn [inodes]. rewrite nth_upd by assumption.
      destruct (Nat.eqb_spec j i); [congruence | reflexivity].
    + discriminate.
    + intros j Hj. congruence.
  - pose proof (create_file_spec f a gz now) as S. pose proof (wf_create f a gz now W Ea) as W'.
    destruct (create_file f a gz now) as [f' i]. cbn [fst] in W'. destruct S as [-> [Hino [La Lo]]].
    split; [exact W'|]. split; [exact La|]. rewrite Hino, app_length; cbn [length].
    split; [lia|]. split; [unfold content, inode; rewrite Hino, inode_app_new; reflexivity|].
    split; [lia|]. split; [exact Lo|]. split; [|split; [reflexivity | discriminate]].
    intros j Hj _. unfold inode. rewrite Hino, inode_app_old by assumption. reflexivity.
Qed.

Lemma open_append_spec f a now : fs_wf f ->
  let '(f', i) := open_append f a now in
  fs_wf f' /\ lookup f' a = Some i /\ (i < length (inodes f'))%nat
  /\ length (inodes f) <= length (inodes f') /\ (forall n, n <> a -> lookup f' n = lookup f n)
  /\ (forall j, (j < length (inodes f))%nat -> inode f' j = inode f j)
  /\ (lookup f a = None -> i = length (inodes f) /\ content f' i = []) /\ (forall j, lookup f a = Some j -> i = j /\ f' = f).
Proof.
  intros W. unfold open_append. destruct (lookup f a) as [i|] eqn:Ea.
  - pose proof (wf_bound f W a i Ea) as Hi. repeat split; auto; try lia; try congruence; try discriminate; try apply W.
  - pose proof (create_file_spec f a 0%N now) as S. pose proof (wf_create f a 0%N now W Ea) as W'.
    destruct (create_file f a 0%N now) as [f' i]. cbn [fst] in W'. destruct S as [-> [Hino [La Lo]]].
    split; [exact W'|]. split; [exact La|]. rewrite Hino, app_length; cbn [length].
    split; [lia|]. split; [lia|]. split; [exact Lo|]. split; [|split; [|discriminate]].
    + intros j Hj. unfold inode. rewrite Hino, inode_app_old by assumption. reflexivity.
    + intros _. split; [reflexivity|]. unfold content, inode; rewrite Hino, inode_app_new; reflexivity.
Qed.
