(* A one-directory file system with inodes, so that open handles survive rename/unlink (Unix). *)
Require Import FL.Base.Bytes.
Open Scope N_scope.

Record file := { fdata : bytes;     (* logical content; for a gz file: what gunzip yields *)
                 fgz   : N;         (* 0 plain, 1 complete gzip stream, 2 unfinished gzip stream *)
                 fborn : Z;         (* creation (birth) time, seconds *)
                 fdir  : bool }.    (* a sub-directory (never a log file) *)

Record fs := { names : list (bytes * nat);      (* directory entries: name -> inode number *)
               inodes : list file }.            (* inode number = position; inodes are never freed *)

Definition empty_fs : fs := {| names := []; inodes := [] |}.

Definition lookup (f : fs) (n : bytes) : option nat :=
  match find (fun p => beq (fst p) n) (names f) with Some p => Some (snd p) | None => None end.

Definition nofile : file := {| fdata := []; fgz := 0; fborn := 0%Z; fdir := false |}.
Definition inode (f : fs) (i : nat) : file := nth i (inodes f) nofile.
Definition content (f : fs) (i : nat) : bytes := fdata (inode f i).

Fixpoint upd {A} (l : list A) (i : nat) (x : A) : list A :=
  match l, i with [], _ => [] | _ :: r, O => x :: r | y :: r, S k => y :: upd r k x end.

Definition with_data (fl : file) (d : bytes) : file :=
  {| fdata := d; fgz := fgz fl; fborn := fborn fl; fdir := fdir fl |}.

Definition append_ino (f : fs) (i : nat) (b : bytes) : fs :=
  {| names := names f; inodes := upd (inodes f) i (with_data (inode f i) (content f i ++ b)) |}.

Definition unlink (f : fs) (a : bytes) : fs :=
  {| names := filter (fun p => negb (beq (fst p) a)) (names f); inodes := inodes f |}.

(* rename(a, b): None = NotFound; an existing b is replaced *)
Definition rename (f : fs) (a b : bytes) : option fs :=
  match lookup f a with
  | None => None
  | Some i => Some {| names := (b, i) :: filter (fun p => negb (beq (fst p) a) && negb (beq (fst p) b)) (names f);
                      inodes := inodes f |}
  end.

(* open(create, truncate) / open(create, append): returns the inode *)
Definition create_file (f : fs) (a : bytes) (gz : N) (now : Z) : fs * nat :=
  ({| names := (a, length (inodes f)) :: names f;
      inodes := inodes f ++ [{| fdata := []; fgz := gz; fborn := now; fdir := false |}] |}, length (inodes f)).

Definition open_trunc (f : fs) (a : bytes) (gz : N) (now : Z) : fs * nat :=
  match lookup f a with
  | Some i => ({| names := names f;
                  inodes := upd (inodes f) i {| fdata := []; fgz := gz; fborn := fborn (inode f i); fdir := false |} |}, i)
  | None => create_file f a gz now
  end.

Definition open_append (f : fs) (a : bytes) (now : Z) : fs * nat :=
  match lookup f a with
  | Some i => (f, i)
  | None => create_file f a 0 now
  end.

Definition file_of (f : fs) (n : bytes) : option file :=
  match lookup f n with Some i => Some (inode f i) | None => None end.

Definition is_reg_file (f : fs) (n : bytes) : bool :=
  match file_of f n with Some fl => negb (fdir fl) | None => false end.

(* insertion sort of names, ascending byte order *)
Fixpoint insert_name (x : bytes) (l : list bytes) : list bytes :=
  match l with
  | [] => [x]
  | y :: r => if lex_le x y then x :: l else y :: insert_name x r
  end.
Definition sort_names (l : list bytes) : list bytes := fold_right insert_name [] l.

Definition dir_names (f : fs) : list bytes := List.map fst (names f).
