(* Runs of the specification / logger model for the correspondence check.  No proofs here. *)
Require Import FL.Base.Bytes FL.LogSpec.Spec FL.LogSpec.Dispatch.
Open Scope N_scope.

(* the regex library as the correspondence check instantiates it: literal patterns only.
   A pattern without meta characters compiles and matches exactly the texts that contain it. *)
Definition is_meta (c : N) : bool :=
  existsb (N.eqb c) [92; 46; 43; 42; 63; 40; 41; 124; 91; 93; 123; 125; 94; 36; 35; 38; 45; 126].
Definition lit_re_ok (p : ustr) : bool := negb (existsb is_meta p).
Definition lit_re_match (p m : ustr) : bool := contains p m.

(* names that can be written between single quotes in the TOML specfile and come back unchanged *)
Definition toml_safe_char (c : N) : bool :=
  ((48 <=? c) && (c <=? 58)) || ((65 <=? c) && (c <=? 90)) || ((97 <=? c) && (c <=? 122)) || (c =? 95).
Fixpoint keys_distinct (fs : list mfilter) : bool :=
  match fs with
  | [] => true
  | f :: r => negb (existsb (fun g : mfilter => key_eqb (fst f) (fst g)) r) && keys_distinct r
  end.
(* (a TOML table cannot repeat a key, so a specification that names a module twice has no TOML form) *)
Definition toml_safe (fs : list mfilter) : bool :=
  keys_distinct fs &&
  forallb (fun f : mfilter => match fst f with Some n => forallb toml_safe_char n && negb (beq n []) | None => true end) fs.

(* ---- kind `spec`: parse a string ---- *)
Record spec_obs := { so_ok : bool; so_filters : list mfilter; so_text : bool; so_display : ustr;
                     so_reparse_ok : bool; so_reparse : list mfilter; so_toml : option (list mfilter) }.

Definition observe_filters (ok : bool) (fs : list mfilter) (tf : bool) : spec_obs :=
  let d := display fs in
  let '(es, s2) := parse lit_re_ok d in
  {| so_ok := ok; so_filters := fs; so_text := tf; so_display := d;
     so_reparse_ok := match es with [] => true | _ => false end; so_reparse := sp_filters s2;
     so_toml := if toml_safe fs then Some (from_doc (to_doc fs)) else None |}.

Definition run_spec (s : ustr) : spec_obs :=
  let '(es, sp) := parse lit_re_ok s in
  observe_filters (match es with [] => true | _ => false end) (sp_filters sp)
                  (match sp_text sp with Some _ => true | None => false end).

(* ---- kind `specb`: LogSpecBuilder ---- *)
(* BFrom s: LogSpecBuilder::from_module_filters(parse(s).module_filters()) - a NEW map, without the entry (None, Off) that
   LogSpecBuilder::new() starts with; BInsertFrom s: insert_modules_from(parse(s)); BLevel l:
   from_module_filters(LogSpecification::from(l).module_filters()), i.e. one of LogSpecification::off() .. trace() *)
Inductive bop := BModule (n : ustr) (l : level) | BDefault (l : level) | BRemove (n : ustr)
               | BFrom (s : ustr) | BInsertFrom (s : ustr) | BLevel (l : level).
Definition insert_all (fs : list mfilter) (m : list mfilter) : list mfilter :=
  fold_left (fun acc f => map_insert (fst f) (snd f) acc) fs m.
Definition bstep (m : list mfilter) (o : bop) : list mfilter :=
  match o with
  | BModule n l => map_insert (Some n) l m
  | BDefault l => map_insert None l m
  | BRemove n => filter (fun f : mfilter => negb (key_eqb (fst f) (Some n))) m
  | BFrom s => insert_all (sp_filters (snd (parse lit_re_ok s))) []
  | BInsertFrom s => insert_all (sp_filters (snd (parse lit_re_ok s))) m
  | BLevel l => match l with O => [] | _ => [(None, l)] end   (* off() is the empty specification *)
  end.
Definition run_builder (ops : list bop) : spec_obs :=
  observe_filters true (builder_finalize (fold_left bstep ops builder_new)) false.

(* ---- kind `lg`: a logger and its handle ---- *)
Inductive lop :=
| LLog (r : record)
| LEnabled (lvl : level) (target : ustr)
| LH (h : hop)
| LGate
| LGrid.

Inductive lobs :=
| OLog (o : out (list event))
| OEn (o : out (bool * list event))
| ORes (ok : bool)
| OGate (l : level)
| OGrid (bits : list bool).

Definition grid (lg : logger) (probes : list ustr) : list bool :=
  flat_map (fun t => List.map (fun l => enabled (sp_filters (lg_spec lg)) l t) [1; 2; 3; 4; 5]%nat) probes.

Definition lstep (probes : list ustr) (lg : logger) (o : lop) : logger * lobs :=
  match o with
  | LLog r => (lg, OLog (log_record lit_re_match lg r))
  | LEnabled l t => (lg, OEn (enabled_query lg l t))
  | LH h => let '(lg', ok) := hstep lit_re_ok lg h in (lg', ORes ok)
  | LGate => (lg, OGate (lg_gate lg))
  | LGrid => (lg, OGrid (grid lg probes))
  end.

Fixpoint lrun (probes : list ustr) (lg : logger) (ops : list lop) : list lobs :=
  match ops with
  | [] => []
  | o :: r => let '(lg', ob) := lstep probes lg o in ob :: lrun probes lg' r
  end.

(* the specification a string stands for when it is handed over as a LogSpecification value:
   the parsed one, or the one carried by the parse error *)
Definition spec_of_string (s : ustr) : spec := snd (parse lit_re_ok s).
