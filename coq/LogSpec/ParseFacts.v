(* Structure of LogSpecification::parse: errors come exactly from the malformed parts, the carried
   specification consists of exactly the well-formed parts. *)
Require Import FL.Base.Bytes FL.Base.BytesFacts FL.LogSpec.Spec FL.LogSpec.SpecFacts.
Open Scope nat_scope.

(* the comma-separated parts that count: trimmed and non-empty *)
Definition live_parts (mods : ustr) : list ustr :=
  filter (fun s => match s with [] => false | _ => true end) (List.map trim_u (split_on c_comma mods)).
Definition errors_of (l : list ustr) : list perr :=
  flat_map (fun s => match parse_part s with inl e => [e] | inr _ => [] end) l.
Definition filters_of (l : list ustr) : list mfilter :=
  flat_map (fun s => match parse_part s with inl _ => [] | inr f => [f] end) l.

Lemma parse_parts_spec ps :
  parse_parts ps = (errors_of (filter (fun s => match s with [] => false | _ => true end) (List.map trim_u ps)),
                    filters_of (filter (fun s => match s with [] => false | _ => true end) (List.map trim_u ps))).
Proof.
  induction ps as [|p r IH]; [reflexivity|]. cbn [parse_parts List.map filter]. rewrite IH.
  destruct (trim_u p) as [|c s] eqn:T; [reflexivity|].
  cbn [errors_of filters_of flat_map]. destruct (parse_part (c :: s)); reflexivity.
Qed.

Lemma errors_nil_iff l : errors_of l = [] <-> forall s, In s l -> exists f, parse_part s = inr f.
Proof.
  induction l as [|x r IH]; cbn [errors_of flat_map]; [split; [intros _ s [] | reflexivity]|].
  fold (errors_of r). split.
  - intros H s [<-|I].
    + destruct (parse_part x) as [e|f]; [discriminate | eexists; reflexivity].
    + destruct (parse_part x) as [e|f]; [discriminate|]. apply IH; assumption.
  - intros H. destruct (H x (or_introl eq_refl)) as [f E]. rewrite E. cbn [app]. apply IH. intros s I. apply H. right; exact I.
Qed.

Lemma filters_of_in l f : In f (filters_of l) <-> exists s, In s l /\ parse_part s = inr f.
Proof.
  unfold filters_of. rewrite in_flat_map. split; intros [s [I H]]; exists s; split; auto.
  - destruct (parse_part s) as [e|g]; [destruct H | destruct H as [<-|[]]; reflexivity].
  - rewrite H. left; reflexivity.
Qed.

(* the overall structure: at most one '/' *)
Inductive shape := ShMods (mods : ustr) | ShModsRe (mods re : ustr) | ShTooMany.
Definition shape_of (s : ustr) : shape :=
  match split_on c_slash s with
  | [m] => ShMods m
  | [m; r] => ShModsRe m r
  | [] => ShMods []
  | _ => ShTooMany
  end.

Theorem parse_exact re_ok s :
  match shape_of s with
  | ShTooMany => parse re_ok s = ([PTooManySlashes], spec_off)
  | ShMods m =>
    parse re_ok s = (errors_of (live_parts m), {| sp_filters := level_sort (filters_of (live_parts m)); sp_text := None |})
  | ShModsRe m r =>
    parse re_ok s = (errors_of (live_parts m) ++ (if re_ok r then [] else [PRegex]),
                     {| sp_filters := level_sort (filters_of (live_parts m)); sp_text := if re_ok r then Some r else None |})
  end.
Proof.
  unfold shape_of, parse, live_parts. destruct (split_on c_slash s) as [|m [|r [|x y]]] eqn:E.
  - pose proof (parse_parts_spec (split_on c_comma [])) as P. cbn in P |- *. reflexivity.
  - rewrite parse_parts_spec. rewrite app_nil_r. reflexivity.
  - rewrite parse_parts_spec. destruct (re_ok r); reflexivity.
  - reflexivity.
Qed.

(* ---- totality: parse is a total function, it cannot panic; and it errs exactly on malformed input ---- *)
Corollary parse_ok_iff re_ok s :
  fst (parse re_ok s) = [] <->
  match shape_of s with
  | ShTooMany => False
  | ShMods m => forall p, In p (live_parts m) -> exists f, parse_part p = inr f
  | ShModsRe m r => (forall p, In p (live_parts m) -> exists f, parse_part p = inr f) /\ re_ok r = true
  end.
Proof.
  pose proof (parse_exact re_ok s) as H. destruct (shape_of s) as [m|m r|]; rewrite H; cbn [fst].
  - apply errors_nil_iff.
  - rewrite <- errors_nil_iff. destruct (re_ok r); split.
    + intros A. rewrite app_nil_r in A. split; [exact A | reflexivity].
    + intros [A _]. rewrite A. reflexivity.
    + intros A. apply app_eq_nil in A. destruct A as [_ A]. discriminate.
    + intros [_ A]. discriminate.
  - split; [discriminate | intros []].
Qed.
