(* M1: LogSpecification.  Mirrors src/log_specification.rs.
   Strings are lists of Unicode scalar values (Rust `char`s) as N; `String::len` is the UTF-8 byte length.
   Levels: 0 Off, 1 Error, 2 Warn, 3 Info, 4 Debug, 5 Trace (record levels are 1..5).  No proofs here. *)
From Coq Require Export List NArith Bool Arith Lia.
Export ListNotations.
Require Import FL.Base.Bytes.
Open Scope N_scope.

Definition ustr := list N.
Definition level := nat.

Definition utf8_len1 (c : N) : nat := if c <? 128 then 1 else if c <? 2048 then 2 else if c <? 65536 then 3 else 4.
Fixpoint utf8_len (s : ustr) : nat := match s with [] => O | c :: r => (utf8_len1 c + utf8_len r)%nat end.

(* ------------------------------------------------------------------ filters *)
Definition mfilter := (option ustr * level)%type.
Definition keylen (f : mfilter) : nat := match fst f with Some n => utf8_len n | None => O end.

(* Vec::sort_by(|a, b| b_len.cmp(&a_len)): a stable sort by descending key; every stable sort gives this list *)
Fixpoint insert_f (x : mfilter) (l : list mfilter) : list mfilter :=
  match l with
  | [] => [x]
  | y :: r => if Nat.leb (keylen y) (keylen x) then x :: l else y :: insert_f x r
  end.
(* fold_right inserts the elements from the last to the first; an element is put in front of the
   equal ones already there, so equal keys keep their original order *)
Definition level_sort (l : list mfilter) : list mfilter := fold_right insert_f [] l.

(* LogSpecification::enabled: first match in the sorted list *)
Fixpoint enabled (l : list mfilter) (lvl : level) (t : ustr) : bool :=
  match l with
  | [] => false
  | (Some n, f) :: r => if is_prefix n t then Nat.leb lvl f else enabled r lvl t
  | (None, f) :: _ => Nat.leb lvl f
  end.

Fixpoint max_level (l : list mfilter) : level :=
  match l with [] => O | f :: r => Nat.max (snd f) (max_level r) end.

(* ------------------------------------------------------------------ text helpers *)
(* char::is_whitespace: the White_Space property *)
Definition is_whitespace (c : N) : bool :=
  ((9 <=? c) && (c <=? 13)) || (c =? 32) || (c =? 133) || (c =? 160) || (c =? 5760)
  || ((8192 <=? c) && (c <=? 8202)) || (c =? 8232) || (c =? 8233) || (c =? 8239) || (c =? 8287) || (c =? 12288).

Fixpoint trim_start_u (s : ustr) : ustr :=
  match s with c :: r => if is_whitespace c then trim_start_u r else s | [] => [] end.
Definition trim_u (s : ustr) : ustr := rev (trim_start_u (rev (trim_start_u s))).
Definition has_whitespace (s : ustr) : bool := existsb is_whitespace s.

Definition ascii_lower (c : N) : N := if (65 <=? c) && (c <=? 90) then c + 32 else c.
Definition lower (s : ustr) : ustr := List.map ascii_lower s.

Definition w_off := [111; 102; 102]. Definition w_error := [101; 114; 114; 111; 114].
Definition w_warn := [119; 97; 114; 110]. Definition w_info := [105; 110; 102; 111].
Definition w_debug := [100; 101; 98; 117; 103]. Definition w_trace := [116; 114; 97; 99; 101].

(* parse_level_filter: to_lowercase, then one of the six words.  The only non-ASCII characters whose lower
   case contains an ASCII letter are U+0130 and U+212A, neither yields a level word (DESIGN appendix D) *)
Definition parse_level (s : ustr) : option level :=
  let l := lower s in
  if beq l w_off then Some 0%nat else if beq l w_error then Some 1%nat else if beq l w_warn then Some 2%nat
  else if beq l w_info then Some 3%nat else if beq l w_debug then Some 4%nat else if beq l w_trace then Some 5%nat
  else None.

Definition level_word (l : level) : ustr :=
  match l with
  | O => w_off | 1%nat => w_error | 2%nat => w_warn | 3%nat => w_info | 4%nat => w_debug | _ => w_trace
  end.

(* ------------------------------------------------------------------ parse *)
Inductive perr := PTooManySlashes | PWhitespace | PLevel | PPart | PRegex.

Definition c_slash : N := 47. Definition c_comma : N := 44. Definition c_eq : N := 61. Definition c_space : N := 32.

(* one comma-separated part, already trimmed and non-empty: a filter, or an error *)
Definition parse_part (s : ustr) : perr + mfilter :=
  match split_on c_eq s with
  | [p0] =>
    let p0 := trim_u p0 in
    if has_whitespace p0 then inl PWhitespace else
    match parse_level p0 with
    | Some l => inr (None, l)
    | None => inr (Some p0, 5%nat)
    end
  | [p0; p1] =>
    let p0 := trim_u p0 in let p1 := trim_u p1 in
    match p1 with
    | [] => if has_whitespace p0 then inl PWhitespace else inr (Some p0, 5%nat)
    | _ => if has_whitespace p0 then inl PWhitespace else
           match parse_level p1 with
           | Some l => inr (Some p0, l)
           | None => inl PLevel
           end
    end
  | _ => inl PPart
  end.

Fixpoint parse_parts (parts : list ustr) : list perr * list mfilter :=
  match parts with
  | [] => ([], [])
  | p :: r =>
    let '(es, fs) := parse_parts r in
    match trim_u p with
    | [] => (es, fs)
    | s => match parse_part s with
           | inl e => (e :: es, fs)
           | inr f => (es, f :: fs)
           end
    end
  end.

(* a specification: the sorted filters and the text filter (the pattern, when it compiled) *)
Record spec := { sp_filters : list mfilter; sp_text : option ustr }.
Definition spec_off : spec := {| sp_filters := []; sp_text := None |}.

(* re_ok: does Regex::new accept the pattern?  (library behaviour: an input of the model) *)
Definition parse (re_ok : ustr -> bool) (s : ustr) : list perr * spec :=
  match split_on c_slash s with
  | [] => ([], spec_off)
  | mods :: rest =>
    match rest with
    | _ :: _ :: _ => ([PTooManySlashes], spec_off)
    | _ =>
      let '(es, fs) := parse_parts (split_on c_comma mods) in
      let '(es2, tf) := match rest with
                        | [flt] => if re_ok flt then ([], Some flt) else ([PRegex], None)
                        | _ => ([], None)
                        end in
      (es ++ es2, {| sp_filters := level_sort fs; sp_text := tf |})
    end
  end.

(* ------------------------------------------------------------------ Display *)
Fixpoint last_filter (l : list mfilter) : option mfilter :=
  match l with [] => None | [x] => Some x | _ :: r => last_filter r end.

Definition sep : ustr := [c_comma; c_space].
Definition show_named (n : ustr) (l : level) : ustr := n ++ [c_space; c_eq; c_space] ++ level_word l.

Fixpoint show_named_all (l : list mfilter) (comma : bool) : ustr :=
  match l with
  | [] => []
  | (Some n, lv) :: r => (if comma then sep else []) ++ show_named n lv ++ show_named_all r true
  | (None, _) :: r => show_named_all r comma
  end.

Definition display (fs : list mfilter) : ustr :=
  match last_filter fs with
  | Some (None, lv) => level_word lv ++ show_named_all fs true
  | _ => show_named_all fs false
  end.

(* ------------------------------------------------------------------ TOML, semantic half *)
(* to_toml writes global_level iff the last filter is the default, and every named filter;
   from_toml reads global_level first, then the modules in BTreeMap (byte-wise key) order, and sorts *)
Record doc := { d_global : option level; d_modules : list (ustr * level) }.

Fixpoint named_of (l : list mfilter) : list (ustr * level) :=
  match l with
  | [] => []
  | (Some n, lv) :: r => (n, lv) :: named_of r
  | (None, _) :: r => named_of r
  end.
Definition to_doc (fs : list mfilter) : doc :=
  {| d_global := match last_filter fs with Some (None, lv) => Some lv | _ => None end; d_modules := named_of fs |}.

(* UTF-8 byte order of strings = code point order of the character lists *)
Fixpoint insert_kv (x : ustr * level) (l : list (ustr * level)) : list (ustr * level) :=
  match l with
  | [] => [x]
  | y :: r => if lex_lt (fst x) (fst y) then x :: l
              else if beq (fst x) (fst y) then x :: r      (* a later duplicate key replaces the earlier one *)
              else y :: insert_kv x r
  end.
Definition btree (l : list (ustr * level)) : list (ustr * level) := fold_left (fun acc x => insert_kv x acc) l [].

Definition from_doc (d : doc) : list mfilter :=
  level_sort ((match d_global d with Some lv => [(None, lv)] | None => [] end)
              ++ List.map (fun kv => (Some (fst kv), snd kv)) (btree (d_modules d))).

(* ------------------------------------------------------------------ LogSpecBuilder *)
(* a HashMap<Option<String>, LevelFilter>: insertion replaces; iteration order is arbitrary, and
   level_sort is stable, so the order among names of equal length is arbitrary - it does not matter
   for `enabled` when names are distinct (C02_longest_prefix).  The model keeps insertion order. *)
Definition key_eqb (a b : option ustr) : bool :=
  match a, b with Some x, Some y => beq x y | None, None => true | _, _ => false end.
Fixpoint map_insert (k : option ustr) (v : level) (m : list mfilter) : list mfilter :=
  match m with
  | [] => [(k, v)]
  | (k', v') :: r => if key_eqb k k' then (k, v) :: r else (k', v') :: map_insert k v r
  end.
Definition builder_new : list mfilter := [(None, O)].
Definition builder_finalize (m : list mfilter) : list mfilter := level_sort m.
