(* Text forms of a LogSpecification round-trip (C17). *)
Require Import FL.Base.Bytes FL.Base.BytesFacts FL.LogSpec.Spec FL.LogSpec.SpecFacts.
From Coq Require Import Permutation.
Open Scope nat_scope.

(* a module name as Display can carry it: non-empty, no white space, none of the separators *)
Definition name_char_ok (c : N) : bool :=
  negb (is_whitespace c) && negb (c =? c_comma)%N && negb (c =? c_eq)%N && negb (c =? c_slash)%N.
Definition name_ok (n : ustr) : Prop := n <> [] /\ forallb name_char_ok n = true.
Definition filters_ok (fs : list mfilter) : Prop :=
  forall f, In f fs -> snd f <= 5 /\ match fst f with Some n => name_ok n | None => True end.
(* at most one default *)
Definition one_default (fs : list mfilter) : Prop :=
  forall a b l1 l2 l3, fs <> l1 ++ (None, a) :: l2 ++ (None, b) :: l3.

(* ================================================================== split_on *)
Definition occ (c : N) (s : ustr) : bool := existsb (fun x => (x =? c)%N) s.

Lemma occ_app c a b : occ c (a ++ b) = occ c a || occ c b.
Proof. apply existsb_app. Qed.
Lemma occ_cons c x a : occ c (x :: a) = (x =? c)%N || occ c a.
Proof. reflexivity. Qed.

Lemma split_on_ne c s : split_on c s <> [].
Proof.
  destruct s as [|x s]; cbn [split_on]; [discriminate|].
  destruct (split_on c s) as [|h t]; [discriminate|]. destruct (x =? c)%N; discriminate.
Qed.

Lemma split_on_cons_sep c b : split_on c (c :: b) = [] :: split_on c b.
Proof.
  cbn [split_on]. destruct (split_on c b) as [|h t] eqn:E; [exfalso; exact (split_on_ne c b E)|].
  rewrite N.eqb_refl. reflexivity.
Qed.

Lemma split_on_cons_other c x b : (x =? c)%N = false ->
  split_on c (x :: b) = match split_on c b with [] => [[]] | h :: t => (x :: h) :: t end.
Proof. intros H. cbn [split_on]. destruct (split_on c b) as [|h t]; [reflexivity|]. rewrite H. reflexivity. Qed.

Lemma split_on_app c a b : occ c a = false -> split_on c (a ++ c :: b) = a :: split_on c b.
Proof.
  induction a as [|x a IH]; intros H.
  - cbn [app]. apply split_on_cons_sep.
  - rewrite occ_cons in H. apply orb_false_iff in H. destruct H as [Hx Ha]. cbn [app].
    rewrite (split_on_cons_other c x _ Hx). rewrite (IH Ha). reflexivity.
Qed.

Lemma split_on_notin c a : occ c a = false -> split_on c a = [a].
Proof.
  induction a as [|x a IH]; intros H; [reflexivity|].
  rewrite occ_cons in H. apply orb_false_iff in H. destruct H as [Hx Ha].
  rewrite (split_on_cons_other c x _ Hx). rewrite (IH Ha). reflexivity.
Qed.

(* ================================================================== trim *)
Definition trim_end (s : ustr) : ustr := rev (trim_start_u (rev s)).
Lemma trim_u_eq s : trim_u s = trim_end (trim_start_u s).
Proof. reflexivity. Qed.

Lemma trim_start_ws c s : is_whitespace c = true -> trim_start_u (c :: s) = trim_start_u s.
Proof. intros H. cbn [trim_start_u]. rewrite H. reflexivity. Qed.
Lemma trim_start_nows c s : is_whitespace c = false -> trim_start_u (c :: s) = c :: s.
Proof. intros H. cbn [trim_start_u]. rewrite H. reflexivity. Qed.

Lemma trim_end_ws s c : is_whitespace c = true -> trim_end (s ++ [c]) = trim_end s.
Proof. intros H. unfold trim_end. rewrite rev_app_distr. cbn [rev app]. rewrite (trim_start_ws c _ H). reflexivity. Qed.
Lemma trim_end_nows s c : is_whitespace c = false -> trim_end (s ++ [c]) = s ++ [c].
Proof.
  intros H. unfold trim_end. rewrite rev_app_distr. cbn [rev app]. rewrite (trim_start_nows c _ H).
  cbn [rev]. rewrite rev_involutive. reflexivity.
Qed.

Lemma has_ws_app a b : has_whitespace (a ++ b) = has_whitespace a || has_whitespace b.
Proof. apply existsb_app. Qed.
Lemma has_ws_cons c a : has_whitespace (c :: a) = is_whitespace c || has_whitespace a.
Proof. reflexivity. Qed.

Lemma trim_end_app a b : b <> [] -> has_whitespace b = false -> trim_end (a ++ b) = a ++ b.
Proof.
  intros Hne Hw. destruct (exists_last Hne) as [b' [d E]]. subst b.
  rewrite has_ws_app in Hw. apply orb_false_iff in Hw. destruct Hw as [_ Hd].
  rewrite has_ws_cons in Hd. apply orb_false_iff in Hd. destruct Hd as [Hd _].
  rewrite app_assoc. apply trim_end_nows. exact Hd.
Qed.

Lemma trim_start_app a b : a <> [] -> has_whitespace a = false -> trim_start_u (a ++ b) = a ++ b.
Proof.
  destruct a as [|c a]; [congruence|]. intros _ H.
  rewrite has_ws_cons in H. apply orb_false_iff in H. destruct H as [Hc _].
  cbn [app]. apply trim_start_nows. exact Hc.
Qed.

Lemma trim_u_mid a m b : a <> [] -> has_whitespace a = false -> b <> [] -> has_whitespace b = false ->
  trim_u (a ++ m ++ b) = a ++ m ++ b.
Proof.
  intros Ha Wa Hb Wb. rewrite trim_u_eq. rewrite (trim_start_app a _ Ha Wa).
  rewrite app_assoc. apply trim_end_app; assumption.
Qed.

Lemma trim_u_nows s : has_whitespace s = false -> trim_u s = s.
Proof.
  intros W. destruct s as [|c s]; [reflexivity|].
  assert (Hne : c :: s <> []) by discriminate.
  rewrite trim_u_eq. rewrite <- (app_nil_r (c :: s)) at 1. rewrite (trim_start_app _ [] Hne W).
  rewrite app_nil_r. apply (trim_end_app [] (c :: s) Hne W).
Qed.

Lemma trim_u_lead_ws c s : is_whitespace c = true -> trim_u (c :: s) = trim_u s.
Proof. intros H. unfold trim_u. rewrite (trim_start_ws c s H). reflexivity. Qed.

Lemma trim_u_trail_ws a c : a <> [] -> has_whitespace a = false -> is_whitespace c = true -> trim_u (a ++ [c]) = a.
Proof.
  intros Ha Wa Hc. rewrite trim_u_eq. rewrite (trim_start_app a _ Ha Wa). rewrite (trim_end_ws a c Hc).
  apply (trim_end_app [] a Ha Wa).
Qed.

(* ================================================================== level words, names *)
Lemma level_word_facts l :
  level_word l <> [] /\ has_whitespace (level_word l) = false /\
  occ c_comma (level_word l) = false /\ occ c_eq (level_word l) = false /\ occ c_slash (level_word l) = false.
Proof.
  do 5 (destruct l as [|l]; [repeat split; try reflexivity; cbn [level_word]; discriminate|]).
  repeat split; try reflexivity; cbn [level_word]; discriminate.
Qed.

Lemma parse_level_word l : l <= 5 -> parse_level (level_word l) = Some l.
Proof.
  intros H. do 6 (destruct l as [|l]; [reflexivity|]). lia.
Qed.

Lemma name_ok_facts n : name_ok n ->
  n <> [] /\ has_whitespace n = false /\ occ c_comma n = false /\ occ c_eq n = false /\ occ c_slash n = false.
Proof.
  intros [Hne Hall]. split; [exact Hne|]. clear Hne.
  induction n as [|c n IH]; [repeat split; reflexivity|].
  cbn [forallb] in Hall. apply andb_true_iff in Hall. destruct Hall as [Hc Hn].
  destruct (IH Hn) as (I1 & I2 & I3 & I4).
  unfold name_char_ok in Hc. repeat (apply andb_true_iff in Hc; destruct Hc as [Hc ?Hx]).
  apply negb_true_iff in Hc. apply negb_true_iff in Hx. apply negb_true_iff in Hx0. apply negb_true_iff in Hx1.
  rewrite has_ws_cons, !occ_cons. rewrite Hc, Hx, Hx0, Hx1, I1, I2, I3, I4. repeat split; reflexivity.
Qed.

(* ================================================================== one item *)
Definition named_ok (f : mfilter) : Prop := snd f <= 5 /\ exists n, fst f = Some n /\ name_ok n.
Definition item (f : mfilter) : ustr := match fst f with Some n => show_named n (snd f) | None => [] end.

Lemma mid_eq : [c_space; c_eq; c_space] = [c_space] ++ c_eq :: [c_space].
Proof. reflexivity. Qed.

Lemma show_named_occ c n lv : occ c [c_space; c_eq; c_space] = false -> occ c n = false -> occ c (level_word lv) = false ->
  occ c (show_named n lv) = false.
Proof. intros H1 H2 H3. unfold show_named. rewrite !occ_app. rewrite H1, H2, H3. reflexivity. Qed.

Lemma show_named_trim n lv : name_ok n -> trim_u (show_named n lv) = show_named n lv.
Proof.
  intros Hn. destruct (name_ok_facts n Hn) as (Hne & Hws & _).
  destruct (level_word_facts lv) as (Wne & Wws & _).
  unfold show_named. apply trim_u_mid; assumption.
Qed.

Lemma show_named_ne n lv : name_ok n -> show_named n lv <> [].
Proof.
  intros [Hne _]. unfold show_named. destruct n as [|c n]; [congruence|]. cbn [app]. discriminate.
Qed.

Lemma match_ne {A} (w : ustr) (a b : A) : w <> [] -> match w with [] => a | _ :: _ => b end = b.
Proof. destruct w; [congruence|reflexivity]. Qed.

Lemma parse_part_item n lv : name_ok n -> lv <= 5 -> parse_part (show_named n lv) = inr (Some n, lv).
Proof.
  intros Hn Hl. destruct (name_ok_facts n Hn) as (Hne & Hws & _ & Heq & _).
  destruct (level_word_facts lv) as (Wne & Wws & _ & Weq & _).
  assert (S : split_on c_eq (show_named n lv) = [n ++ [c_space]; c_space :: level_word lv]).
  { unfold show_named.
    change (n ++ [c_space; c_eq; c_space] ++ level_word lv) with (n ++ [c_space] ++ c_eq :: (c_space :: level_word lv)).
    rewrite app_assoc. rewrite split_on_app.
    - rewrite split_on_notin; [reflexivity|]. rewrite occ_cons, Weq. reflexivity.
    - rewrite occ_app, Heq. reflexivity. }
  unfold parse_part. rewrite S. cbv beta iota zeta.
  rewrite (trim_u_trail_ws n c_space Hne Hws eq_refl).
  rewrite (trim_u_lead_ws c_space (level_word lv) eq_refl).
  rewrite (trim_u_nows _ Wws). rewrite Hws.
  rewrite (match_ne (level_word lv) _ _ Wne).
  rewrite (parse_level_word lv Hl). reflexivity.
Qed.

Lemma parse_part_word lv : lv <= 5 -> parse_part (level_word lv) = inr (None, lv).
Proof.
  intros Hl. destruct (level_word_facts lv) as (Wne & Wws & _ & Weq & _).
  unfold parse_part. rewrite (split_on_notin _ _ Weq). cbv beta iota zeta.
  rewrite (trim_u_nows _ Wws). rewrite Wws. rewrite (parse_level_word lv Hl). reflexivity.
Qed.

Lemma parse_parts_cons p r s f : trim_u p = s -> s <> [] -> parse_part s = inr f ->
  parse_parts (p :: r) = (fst (parse_parts r), f :: snd (parse_parts r)).
Proof.
  intros Ht Hne Hp. cbn [parse_parts]. destruct (parse_parts r) as [es fs]. rewrite Ht.
  destruct s as [|c s]; [congruence|]. rewrite Hp. reflexivity.
Qed.

Lemma named_ok_inv f : named_ok f -> exists n lv, f = (Some n, lv) /\ name_ok n /\ lv <= 5.
Proof.
  destruct f as [k lv]. intros [Hl [n [En Hn]]]. cbn [fst snd] in *. subst k. exists n, lv. auto.
Qed.

Lemma parse_parts_items ns : Forall named_ok ns ->
  parse_parts (List.map (fun f => c_space :: item f) ns) = ([], ns).
Proof.
  induction 1 as [|f r Hf Hr IH]; [reflexivity|].
  destruct (named_ok_inv f Hf) as (n & lv & -> & Hn & Hl). cbn [List.map].
  rewrite (parse_parts_cons _ _ (show_named n lv) (Some n, lv)).
  - rewrite IH. reflexivity.
  - unfold item. cbn [fst snd]. rewrite (trim_u_lead_ws c_space _ eq_refl). apply show_named_trim. exact Hn.
  - apply show_named_ne. exact Hn.
  - apply parse_part_item; assumption.
Qed.

(* ================================================================== the whole text *)
Lemma split_comma_all ns : Forall named_ok ns -> forall pre, occ c_comma pre = false ->
  split_on c_comma (pre ++ show_named_all ns true) = pre :: List.map (fun f => c_space :: item f) ns.
Proof.
  induction 1 as [|f r Hf Hr IH]; intros pre Hpre.
  - cbn [show_named_all List.map]. rewrite app_nil_r. apply split_on_notin. exact Hpre.
  - destruct (named_ok_inv f Hf) as (n & lv & -> & Hn & Hl). cbn [show_named_all List.map].
    unfold sep.
    change (pre ++ [c_comma; c_space] ++ show_named n lv ++ show_named_all r true)
      with (pre ++ c_comma :: ((c_space :: show_named n lv) ++ show_named_all r true)).
    rewrite (split_on_app _ _ _ Hpre). f_equal.
    unfold item at 1. cbn [fst snd]. apply IH.
    destruct (name_ok_facts n Hn) as (_ & _ & Hc & _). destruct (level_word_facts lv) as (_ & _ & Wc & _).
    rewrite occ_cons. rewrite (show_named_occ c_comma n lv eq_refl Hc Wc). reflexivity.
Qed.

Lemma show_all_slash ns : Forall named_ok ns -> forall b, occ c_slash (show_named_all ns b) = false.
Proof.
  induction 1 as [|f r Hf Hr IH]; intros b; [reflexivity|].
  destruct (named_ok_inv f Hf) as (n & lv & -> & Hn & Hl). cbn [show_named_all].
  destruct (name_ok_facts n Hn) as (_ & _ & _ & _ & Hc). destruct (level_word_facts lv) as (_ & _ & _ & _ & Wc).
  rewrite !occ_app. rewrite (show_named_occ c_slash n lv eq_refl Hc Wc). rewrite IH.
  destruct b; reflexivity.
Qed.

Lemma show_all_default_end ns lv : forall b, show_named_all (ns ++ [(None, lv)]) b = show_named_all ns b.
Proof.
  induction ns as [|[[n|] l] r IH]; intros b; cbn [app show_named_all]; [reflexivity| |apply IH].
  rewrite IH. reflexivity.
Qed.

Lemma last_filter_app ns x : last_filter (ns ++ [x]) = Some x.
Proof.
  induction ns as [|y r IH]; [reflexivity|]. cbn [app last_filter].
  destruct (r ++ [x]) as [|z q] eqn:E; [destruct r; discriminate|]. exact IH.
Qed.

Lemma last_filter_in l x : last_filter l = Some x -> In x l.
Proof.
  induction l as [|y r IH]; cbn [last_filter]; [discriminate|].
  destruct r as [|z q]; [intros H; inversion H; left; reflexivity|]. intros H. right. apply IH. exact H.
Qed.

Lemma display_named ns : (forall f, In f ns -> exists n, fst f = Some n) -> display ns = show_named_all ns false.
Proof.
  intros H. unfold display. destruct (last_filter ns) as [[[n|] lv]|] eqn:E; try reflexivity.
  apply last_filter_in in E. destruct (H _ E) as [n Hn]. discriminate.
Qed.

Lemma display_default ns lv : display (ns ++ [(None, lv)]) = level_word lv ++ show_named_all ns true.
Proof. unfold display. rewrite last_filter_app. rewrite show_all_default_end. reflexivity. Qed.

Lemma parse_core re_ok s fs0 : occ c_slash s = false -> parse_parts (split_on c_comma s) = ([], fs0) ->
  parse re_ok s = ([], {| sp_filters := level_sort fs0; sp_text := None |}).
Proof. intros H1 H2. unfold parse. rewrite (split_on_notin _ _ H1). cbv beta iota zeta. rewrite H2. reflexivity. Qed.

(* ================================================================== shape of a sorted list *)
Lemma shape fs : desc fs -> (forall f, In f fs -> fst f <> Some []) ->
  exists ns ds, fs = ns ++ ds /\ (forall f, In f ns -> exists n, fst f = Some n) /\ (forall f, In f ds -> fst f = None).
Proof.
  induction 1 as [|x l D IH Hx]; intros NE.
  - exists [], []. split; [reflexivity|]. split; intros ? [].
  - destruct IH as (ns & ds & E & Hn & Hd); [intros f Hf; apply NE; right; exact Hf|].
    destruct x as [[n|] lv].
    + exists ((Some n, lv) :: ns), ds. subst l. split; [reflexivity|]. split; [|exact Hd].
      intros f [<-|Hf]; [exists n; reflexivity | apply Hn; exact Hf].
    + exists [], ((None, lv) :: l). split; [reflexivity|]. split; [intros ? []|].
      intros f [<-|Hf]; [reflexivity|]. pose proof (Hx f Hf) as K.
      destruct f as [[m|] a]; [|reflexivity]. exfalso. apply (NE (Some m, a)); [right; exact Hf|].
      cbn [fst]. f_equal. apply utf8_len_zero. unfold keylen in K. cbn [fst] in K. lia.
Qed.

Lemma desc_app_l a b : desc (a ++ b) -> desc a.
Proof.
  induction a as [|x a IH]; intros D; [constructor|]. cbn [app] in D. inversion D as [|? ? D' Hx]; subst.
  constructor; [apply IH; exact D'|]. intros y Hy. apply Hx. apply in_or_app. left. exact Hy.
Qed.

Lemma insert_default_last lv ns : (forall f, In f ns -> 1 <= keylen f) -> insert_f (None, lv) ns = ns ++ [(None, lv)].
Proof.
  induction ns as [|y r IH]; intros H; [reflexivity|]. cbn [insert_f app].
  change (keylen (None, lv)) with 0. pose proof (H y (or_introl eq_refl)) as Hy.
  destruct (Nat.leb_spec (keylen y) 0) as [L|L]; [lia|]. rewrite IH; [reflexivity|].
  intros f Hf. apply H. right. exact Hf.
Qed.

Lemma named_keylen f : named_ok f -> 1 <= keylen f.
Proof.
  intros Hf. destruct (named_ok_inv f Hf) as (n & lv & -> & [Hne _] & _). unfold keylen. cbn [fst].
  destruct n as [|c n]; [congruence|]. cbn [utf8_len]. pose proof (utf8_len1_pos c). lia.
Qed.

(* Display then parse gives back the very same filter list, without error, for every specification value
   (a list sorted by level_sort) whose names are printable and that has at most one default *)
Theorem display_roundtrip :
  forall re_ok fs, desc fs -> filters_ok fs -> one_default fs ->
    parse re_ok (display fs) = ([], {| sp_filters := fs; sp_text := None |}).
Proof.
  intros re_ok fs D OK OD.
  destruct (shape fs D) as (ns & ds & E & Hn & Hd).
  { intros f Hf Hc. destruct (OK f Hf) as [_ H]. rewrite Hc in H. destruct H as [H _]. apply H. reflexivity. }
  assert (NOK : Forall named_ok ns).
  { apply Forall_forall. intros f Hf. destruct (OK f) as [Hl Hm]; [subst fs; apply in_or_app; left; exact Hf|].
    destruct (Hn f Hf) as [n En]. rewrite En in Hm. split; [exact Hl|]. exists n. split; assumption. }
  assert (Dn : desc ns) by (subst fs; eapply desc_app_l; exact D).
  destruct ds as [|[k a] ds'].
  - rewrite app_nil_r in E. subst fs. rewrite (display_named ns Hn).
    destruct NOK as [|f r Hf Hr].
    + reflexivity.
    + destruct (named_ok_inv f Hf) as (n & lv & -> & Hnm & Hl).
      rewrite (parse_core re_ok _ ((Some n, lv) :: r)).
      * rewrite sort_desc_id by exact Dn. reflexivity.
      * apply show_all_slash. constructor; assumption.
      * cbn [show_named_all]. cbn [app].
        destruct (name_ok_facts n Hnm) as (_ & _ & Hc & _). destruct (level_word_facts lv) as (_ & _ & Wc & _).
        rewrite (split_comma_all r Hr _ (show_named_occ c_comma n lv eq_refl Hc Wc)).
        rewrite (parse_parts_cons _ _ (show_named n lv) (Some n, lv)).
        -- rewrite (parse_parts_items r Hr). reflexivity.
        -- apply show_named_trim. exact Hnm.
        -- apply show_named_ne. exact Hnm.
        -- apply parse_part_item; assumption.
  - assert (Hk : k = None) by (apply (Hd (k, a)); left; reflexivity). subst k.
    destruct ds' as [|[k2 b] l3].
    + subst fs. rewrite display_default.
      assert (Hl : a <= 5) by (apply (OK (None, a)); apply in_or_app; right; left; reflexivity).
      destruct (level_word_facts a) as (Wne & Wws & Wc & _ & Wsl).
      rewrite (parse_core re_ok _ ((None, a) :: ns)).
      * cbn [level_sort fold_right]. fold (level_sort ns). rewrite (sort_desc_id _ Dn).
        rewrite insert_default_last; [reflexivity|].
        intros f Hf. apply named_keylen. rewrite Forall_forall in NOK. apply NOK. exact Hf.
      * rewrite occ_app, Wsl. rewrite (show_all_slash ns NOK). reflexivity.
      * rewrite (split_comma_all ns NOK _ Wc).
        rewrite (parse_parts_cons _ _ (level_word a) (None, a)).
        -- rewrite (parse_parts_items ns NOK). reflexivity.
        -- apply trim_u_nows. exact Wws.
        -- exact Wne.
        -- apply parse_part_word. exact Hl.
    + exfalso. assert (Hk : k2 = None) by (apply (Hd (k2, b)); right; left; reflexivity). subst k2.
      apply (OD a b ns [] l3). exact E.
Qed.
Print Assumptions display_roundtrip.

(* ================================================================== TOML *)
Lemma insert_kv_perm x l : (forall y, In y l -> fst x <> fst y) -> Permutation (x :: l) (insert_kv x l).
Proof.
  induction l as [|y r IH]; intros H; cbn [insert_kv]; [apply Permutation_refl|].
  destruct (lex_lt (fst x) (fst y)); [apply Permutation_refl|].
  rewrite (beq_neq _ _ (H y (or_introl eq_refl))).
  eapply perm_trans; [apply perm_swap|]. constructor. apply IH. intros z Hz. apply H. right. exact Hz.
Qed.

Lemma btree_perm_gen l : forall acc, NoDup (List.map fst l) -> (forall x y, In x l -> In y acc -> fst x <> fst y) ->
  Permutation (acc ++ l) (fold_left (fun acc x => insert_kv x acc) l acc).
Proof.
  induction l as [|x r IH]; intros acc ND Hd; cbn [fold_left].
  - rewrite app_nil_r. apply Permutation_refl.
  - cbn [List.map] in ND. inversion ND as [|? ? Hx ND']; subst.
    assert (P : Permutation (x :: acc) (insert_kv x acc)).
    { apply insert_kv_perm. intros y Hy. apply Hd; [left; reflexivity | exact Hy]. }
    eapply perm_trans; [|apply IH; [exact ND'|]].
    + eapply perm_trans; [apply Permutation_sym, Permutation_middle|].
      change (x :: acc ++ r) with ((x :: acc) ++ r). apply Permutation_app_tail. exact P.
    + intros z y Hz Hy. apply (Permutation_in _ (Permutation_sym P)) in Hy. destruct Hy as [<-|Hy].
      * intros K. apply Hx. rewrite <- K. apply in_map. exact Hz.
      * apply Hd; [right; exact Hz | exact Hy].
Qed.

Lemma btree_perm l : NoDup (List.map fst l) -> Permutation l (btree l).
Proof.
  intros ND. unfold btree. apply (btree_perm_gen l [] ND). intros ? ? _ [].
Qed.

Lemma named_of_app a b : named_of (a ++ b) = named_of a ++ named_of b.
Proof.
  induction a as [|[[n|] lv] r IH]; cbn [app named_of]; [reflexivity| |exact IH]. rewrite IH. reflexivity.
Qed.

Lemma named_of_back ns : (forall f, In f ns -> exists n, fst f = Some n) ->
  List.map (fun kv : ustr * level => (Some (fst kv), snd kv)) (named_of ns) = ns.
Proof.
  induction ns as [|[[n|] lv] r IH]; intros H; [reflexivity| |].
  - cbn [named_of List.map fst snd]. rewrite IH; [reflexivity|]. intros f Hf. apply H. right. exact Hf.
  - exfalso. destruct (H (None, lv) (or_introl eq_refl)) as [n Hn]. discriminate.
Qed.

Lemma named_of_keys_in l n : In n (List.map fst (named_of l)) -> In (Some n) (List.map fst l).
Proof.
  induction l as [|[[m|] lv] r IH]; cbn [named_of List.map fst In]; [auto| |].
  - intros [->|H]; [left; reflexivity | right; apply IH; exact H].
  - intros H. right. apply IH. exact H.
Qed.

Lemma named_of_nodup l : NoDup (List.map fst l) -> NoDup (List.map fst (named_of l)).
Proof.
  induction l as [|[[m|] lv] r IH]; cbn [named_of List.map fst]; intros ND; [constructor| |].
  - inversion ND as [|? ? Hx ND']; subst. constructor; [|apply IH; exact ND'].
    intros H. apply Hx. apply named_of_keys_in. exact H.
  - inversion ND as [|? ? Hx ND']; subst. apply IH. exact ND'.
Qed.

Lemma spec_enabled_perm p l lvl t b : Permutation p l -> spec_enabled p lvl t b -> spec_enabled l lvl t b.
Proof.
  intros P [[f [[Hin [Hm Hb]] E]]|[Hno E]].
  - left. exists f. split; [|exact E]. split; [eapply Permutation_in; eauto|]. split; [exact Hm|].
    intros g Hg. apply Hb. eapply Permutation_in; [apply Permutation_sym; exact P | exact Hg].
  - right. split; [|exact E]. intros f Hf. apply Hno. eapply Permutation_in; [apply Permutation_sym; exact P | exact Hf].
Qed.

Lemma wf_perm p l : Permutation p l -> wf_filters l -> wf_filters p.
Proof.
  intros P [ND NE]. split.
  - eapply Permutation_NoDup; [apply Permutation_map, Permutation_sym; exact P | exact ND].
  - intros f Hf. apply NE. eapply Permutation_in; eauto.
Qed.

Lemma nodup_app_r {A} (a b : list A) : NoDup (a ++ b) -> NoDup b.
Proof.
  induction a as [|x a IH]; cbn [app]; intros H; [exact H|]. inversion H as [|? ? _ H']; subst. apply IH. exact H'.
Qed.

(* what from_doc sorts is a permutation of the original list *)
Lemma doc_perm fs : desc fs -> wf_filters fs ->
  Permutation ((match d_global (to_doc fs) with Some lv => [(None, lv)] | None => [] end)
               ++ List.map (fun kv : ustr * level => (Some (fst kv), snd kv)) (btree (d_modules (to_doc fs)))) fs.
Proof.
  intros D [ND NE]. destruct (shape fs D NE) as (ns & ds & E & Hn & Hd).
  unfold to_doc. cbn [d_global d_modules].
  assert (PB : Permutation (List.map (fun kv : ustr * level => (Some (fst kv), snd kv)) (btree (named_of fs)))
                           (List.map (fun kv : ustr * level => (Some (fst kv), snd kv)) (named_of fs))).
  { apply Permutation_map. apply Permutation_sym. apply btree_perm. apply named_of_nodup. exact ND. }
  destruct ds as [|[k a] ds'].
  - rewrite app_nil_r in E. subst fs.
    assert (G : match last_filter ns with Some (None, lv) => Some lv | _ => None end = None).
    { destruct (last_filter ns) as [[[n|] lv]|] eqn:EL; try reflexivity.
      apply last_filter_in in EL. destruct (Hn _ EL) as [n Hc]. discriminate. }
    rewrite G. cbn [app]. rewrite (named_of_back ns Hn) in PB. exact PB.
  - assert (Hk : k = None) by (apply (Hd (k, a)); left; reflexivity). subst k.
    destruct ds' as [|[k2 b] l3].
    + subst fs. rewrite last_filter_app. rewrite named_of_app in PB. cbn [named_of] in PB.
      rewrite app_nil_r in PB. rewrite (named_of_back ns Hn) in PB.
      rewrite named_of_app. cbn [named_of]. rewrite app_nil_r. cbn [app].
      eapply perm_trans; [apply perm_skip; exact PB|]. apply Permutation_cons_append.
    + exfalso. assert (Hk : k2 = None) by (apply (Hd (k2, b)); right; left; reflexivity). subst k2.
      subst fs. rewrite map_app in ND. apply nodup_app_r in ND. cbn [List.map fst] in ND.
      inversion ND as [|? ? Hx _]; subst. apply Hx. left. reflexivity.
Qed.

(* the TOML form, semantic half: reading back what was written decides identically *)
Theorem toml_roundtrip :
  forall fs lvl t, desc fs -> wf_filters fs ->
    enabled (from_doc (to_doc fs)) lvl t = enabled fs lvl t.
Proof.
  intros fs lvl t D W. unfold from_doc.
  pose proof (doc_perm fs D W) as P.
  set (p := (match d_global (to_doc fs) with Some lv => [(None, lv)] | None => [] end)
            ++ List.map (fun kv : ustr * level => (Some (fst kv), snd kv)) (btree (d_modules (to_doc fs)))) in *.
  pose proof (wf_perm p fs P W) as Wp.
  pose proof (spec_enabled_perm p fs lvl t _ P (longest_prefix p lvl t Wp)) as S1.
  destruct W as [ND NE].
  pose proof (enabled_desc fs lvl t D NE ND) as S2.
  exact (spec_enabled_fun fs lvl t _ _ (conj ND NE) S1 S2).
Qed.
Print Assumptions toml_roundtrip.
