(* Facts about routing (FlexiLogger::log / enabled) and the handle's reconfiguration operations. *)
Require Import FL.Base.Bytes FL.Base.BytesFacts FL.LogSpec.Spec FL.LogSpec.SpecFacts FL.LogSpec.Dispatch.
Open Scope nat_scope.

Definition brace_target (t : ustr) : bool := match t with c :: _ => (c =? c_lbrace)%N | [] => false end.
Definition text_ok (rm : ustr -> ustr -> bool) (lg : logger) (r : record) : bool :=
  match sp_text (lg_spec lg) with Some p => rm p (r_msg r) | None => true end.
Definition raw_names (t : ustr) : list ustr :=
  split_on c_comma (match brace_inner t with Some i => i | None => [] end).
Definition names_of (t : ustr) : list ustr := dedup [] (raw_names t).

Lemma dedup_incl seen l x : In x (dedup seen l) -> In x l.
Proof.
  revert seen. induction l as [|y r IH]; intros seen; cbn [dedup]; [intros []|].
  destruct (existsb (beq y) seen); [intros H; right; eapply IH; exact H|].
  intros [<-|H]; [left; reflexivity | right; eapply IH; exact H].
Qed.
Lemma existsb_beq_in x l : existsb (beq x) l = true <-> In x l.
Proof.
  rewrite existsb_exists. split.
  - intros [y [I E]]. apply beq_eq in E. subst. exact I.
  - intros I. exists x. split; [exact I | apply beq_refl].
Qed.
(* every name of the list survives, unless it was seen before *)
Lemma dedup_keeps seen l x : In x l -> existsb (beq x) seen = false -> In x (dedup seen l).
Proof.
  revert seen. induction l as [|y r IH]; intros seen; [intros []|]. cbn [dedup]. intros [->|I] S.
  - rewrite S. left; reflexivity.
  - destruct (existsb (beq y) seen) eqn:Y; [apply IH; assumption|].
    destruct (beq_spec x y) as [->|N]; [left; reflexivity|]. right. apply IH; [exact I|].
    cbn [existsb]. rewrite (beq_neq _ _ N). exact S.
Qed.
Lemma dedup_default l : existsb (fun n => beq n w_default) (dedup [] l) = existsb (fun n => beq n w_default) l.
Proof.
  destruct (existsb (fun n => beq n w_default) l) eqn:E.
  - apply existsb_exists in E. destruct E as [x [I B]]. apply existsb_exists. exists x. split; [|exact B].
    apply dedup_keeps; [exact I | reflexivity].
  - destruct (existsb (fun n => beq n w_default) (dedup [] l)) eqn:E2; [|reflexivity].
    apply existsb_exists in E2. destruct E2 as [x [I B]]. apply dedup_incl in I.
    assert (X : existsb (fun n => beq n w_default) l = true) by (apply existsb_exists; exists x; split; assumption). congruence.
Qed.

Definition is_primary (e : event) : bool := match e with EvPrimary _ _ => true | _ => false end.
Definition is_filter (e : event) : bool := match e with EvFilter => true | _ => false end.
Definition primary_events (rm : ustr -> ustr -> bool) (lg : logger) (r : record) (target : ustr) : list event :=
  if enabled (sp_filters (lg_spec lg)) (r_level r) target && text_ok rm lg r
  then (if lg_filter lg then [EvFilter] else [])
       ++ [EvPrimary (dup_match (lg_dup_err lg) (r_level r)) (dup_match (lg_dup_out lg) (r_level r))]
  else [].

(* log_record, unfolded once *)
Lemma log_record_plain rm lg r : brace_target (r_target r) = false ->
  log_record rm lg r = Done (primary_events rm lg r (r_target r)).
Proof. unfold log_record, brace_target, primary_events, text_ok. intros H. rewrite H. reflexivity. Qed.

Lemma log_record_brace rm lg r : brace_target (r_target r) = true ->
  log_record rm lg r =
  Done (fst (serve (lg_others lg) (r_level r) (names_of (r_target r)))
        ++ if snd (serve (lg_others lg) (r_level r) (names_of (r_target r)))
           then primary_events rm lg r (match r_module r with Some m => m | None => [] end) else []).
Proof.
  unfold log_record, brace_target, primary_events, text_ok, names_of. intros H. rewrite H.
  destruct (serve _ _ _) as [evs d]. reflexivity.
Qed.

(* ---- serve: who is handed the record ---- *)
Fixpoint count_name (n : ustr) (l : list ustr) : nat :=
  match l with [] => 0 | x :: r => (if beq x n then 1 else 0) + count_name n r end.
Fixpoint count_writes (n : ustr) (l : list event) : nat :=
  match l with
  | [] => 0
  | EvWrite m _ :: r => (if beq m n then 1 else 0) + count_writes n r
  | _ :: r => count_writes n r
  end.
Fixpoint count_bad (n : ustr) (l : list event) : nat :=
  match l with
  | [] => 0
  | EvBadWriter m :: r => (if beq m n then 1 else 0) + count_bad n r
  | _ :: r => count_bad n r
  end.

(* after the removal of repetitions each name occurs at most once *)
Lemma count_dedup n l : forall seen,
  count_name n (dedup seen l) = if existsb (beq n) seen then 0 else if existsb (beq n) l then 1 else 0.
Proof.
  induction l as [|y r IH]; intros seen; cbn [dedup count_name existsb].
  - destruct (existsb (beq n) seen); reflexivity.
  - destruct (existsb (beq y) seen) eqn:Y.
    + rewrite IH. destruct (existsb (beq n) seen) eqn:S; [reflexivity|].
      destruct (beq_spec n y) as [->|N]; [congruence | reflexivity].
    + cbn [count_name]. rewrite IH. cbn [existsb]. destruct (beq_spec y n) as [->|N].
      * rewrite beq_refl, Y. reflexivity.
      * rewrite (beq_neq n y) by congruence. cbn [orb]. destruct (existsb (beq n) seen); reflexivity.
Qed.

Lemma count_writes_app n a b : count_writes n (a ++ b) = count_writes n a + count_writes n b.
Proof. induction a as [|[m e|m| |x y] a IH]; cbn [app count_writes]; lia. Qed.
Lemma count_bad_app n a b : count_bad n (a ++ b) = count_bad n a + count_bad n b.
Proof. induction a as [|[m e|m| |x y] a IH]; cbn [app count_bad]; lia. Qed.

Lemma serve_default ws lvl names : snd (serve ws lvl names) = existsb (fun n => beq n w_default) names.
Proof.
  induction names as [|n r IH]; [reflexivity|]. cbn [serve existsb]. destruct (serve ws lvl r) as [evs d]. cbn [snd] in IH.
  destruct (beq n w_default); cbn [orb snd]; [reflexivity|]. destruct (find_writer ws n); cbn [snd]; exact IH.
Qed.

(* a registered name other than _Default is served once per occurrence in the list, an unregistered one never *)
Lemma serve_counts ws lvl names n : beq n w_default = false ->
  count_writes n (fst (serve ws lvl names)) = match find_writer ws n with Some _ => count_name n names | None => 0 end
  /\ count_bad n (fst (serve ws lvl names)) = match find_writer ws n with Some _ => 0 | None => count_name n names end.
Proof.
  intros Hn. induction names as [|x r IH]; [destruct (find_writer ws n); split; reflexivity|].
  cbn [serve count_name]. destruct (serve ws lvl r) as [evs d]. cbn [fst] in IH.
  destruct (beq_spec x w_default) as [->|Hx].
  - rewrite beq_sym, Hn. cbn [fst]. exact IH.
  - destruct (beq_spec x n) as [->|Hxn].
    + destruct (find_writer ws n) eqn:F; cbn [fst count_writes count_bad]; rewrite beq_refl; destruct IH; split; lia.
    + destruct (find_writer ws x) eqn:F; cbn [fst count_writes count_bad]; rewrite (beq_neq _ _ Hxn); exact IH.
Qed.

Lemma serve_events ws lvl names e : In e (fst (serve ws lvl names)) ->
  (exists n w, e = EvWrite n (emits w lvl) /\ In n names /\ beq n w_default = false /\ find_writer ws n = Some w)
  \/ (exists n, e = EvBadWriter n /\ In n names /\ beq n w_default = false /\ find_writer ws n = None).
Proof.
  induction names as [|x r IH]; [intros []|]. cbn [serve]. destruct (serve ws lvl r) as [evs d]. cbn [fst] in IH.
  destruct (beq x w_default) eqn:Bx.
  - cbn [fst]. intros H. destruct (IH H) as [[n [w [E [I R]]]]|[n [E [I R]]]]; [left; exists n, w | right; exists n]; repeat split; try tauto; right; exact I.
  - destruct (find_writer ws x) eqn:F; cbn [fst]; intros [<-|H].
    + left. exists x, o. repeat split; auto. left; reflexivity.
    + destruct (IH H) as [[n [w [E [I R]]]]|[n [E [I R]]]]; [left; exists n, w | right; exists n]; repeat split; try tauto; right; exact I.
    + right. exists x. repeat split; auto. left; reflexivity.
    + destruct (IH H) as [[n [w [E [I R]]]]|[n [E [I R]]]]; [left; exists n, w | right; exists n]; repeat split; try tauto; right; exact I.
Qed.

Lemma primary_events_spec rm lg r t e : In e (primary_events rm lg r t) ->
  enabled (sp_filters (lg_spec lg)) (r_level r) t = true /\ text_ok rm lg r = true
  /\ (e = EvFilter \/ e = EvPrimary (dup_match (lg_dup_err lg) (r_level r)) (dup_match (lg_dup_out lg) (r_level r))).
Proof.
  unfold primary_events. destruct (enabled _ _ _); cbn [andb]; [|intros []]. destruct (text_ok rm lg r); [|intros []].
  intros H. split; [reflexivity|]. split; [reflexivity|]. apply in_app_or in H. destruct H as [H|[<-|[]]]; [|right; reflexivity].
  destruct (lg_filter lg); [destruct H as [<-|[]]; left; reflexivity | destruct H].
Qed.

Lemma primary_events_on rm lg r t :
  enabled (sp_filters (lg_spec lg)) (r_level r) t = true -> text_ok rm lg r = true ->
  primary_events rm lg r t = (if lg_filter lg then [EvFilter] else [])
     ++ [EvPrimary (dup_match (lg_dup_err lg) (r_level r)) (dup_match (lg_dup_out lg) (r_level r))].
Proof. unfold primary_events. intros -> ->. reflexivity. Qed.

Lemma primary_events_off rm lg r t :
  enabled (sp_filters (lg_spec lg)) (r_level r) t && text_ok rm lg r = false -> primary_events rm lg r t = [].
Proof. unfold primary_events. intros ->. reflexivity. Qed.

(* ---- the gate ---- *)
Lemma fold_max_ge ws m : m <= fold_left (fun m w => Nat.max m (ow_max w)) ws m.
Proof. revert m. induction ws as [|w r IH]; intros m; cbn [fold_left]; [lia|]. specialize (IH (Nat.max m (ow_max w))). lia. Qed.
Lemma fold_max_in ws m w : In w ws -> ow_max w <= fold_left (fun m w => Nat.max m (ow_max w)) ws m.
Proof.
  revert m. induction ws as [|x r IH]; intros m [].
  - subst. cbn [fold_left]. pose proof (fold_max_ge r (Nat.max m (ow_max w))). lia.
  - cbn [fold_left]. apply IH. assumption.
Qed.
Lemma gate_ge_spec ws s : max_level (sp_filters s) <= gate_for ws s.
Proof. apply fold_max_ge. Qed.
Lemma gate_ge_writer ws s w : In w ws -> ow_max w <= gate_for ws s.
Proof. apply fold_max_in. Qed.

Definition gate_ok (lg : logger) : Prop := lg_gate lg = gate_for (lg_others lg) (lg_spec lg).

Lemma hstep_gate re_ok lg o : gate_ok lg -> gate_ok (fst (hstep re_ok lg o)) /\ lg_others (fst (hstep re_ok lg o)) = lg_others lg.
Proof.
  intros G. destruct o as [s|str|s|str| |d|d]; cbn [hstep].
  - split; reflexivity.
  - destruct (parse re_ok str) as [[|e es] s]; cbn [fst]; [split; reflexivity | split; [exact G | reflexivity]].
  - split; reflexivity.
  - destruct (parse re_ok str) as [[|e es] s]; cbn [fst]; [split; reflexivity | split; [exact G | reflexivity]].
  - destruct (lg_stack lg); cbn [fst]; [split; [exact G | reflexivity] | split; reflexivity].
  - split; [exact G | reflexivity].
  - split; [exact G | reflexivity].
Qed.

Definition hrun (re_ok : ustr -> bool) (lg : logger) (ops : list hop) : logger :=
  fold_left (fun l o => fst (hstep re_ok l o)) ops lg.

Lemma hrun_gate re_ok ops : forall lg, gate_ok lg -> gate_ok (hrun re_ok lg ops) /\ lg_others (hrun re_ok lg ops) = lg_others lg.
Proof.
  induction ops as [|o r IH]; intros lg G; [split; [exact G | reflexivity]|].
  cbn [hrun fold_left]. destruct (hstep_gate re_ok lg o G) as [G1 O1]. destruct (IH _ G1) as [G2 O2].
  split; [exact G2 | unfold hrun in O2; rewrite O2; exact O1].
Qed.

Lemma find_writer_in ws n w : find_writer ws n = Some w -> In w ws /\ beq (ow_name w) n = true.
Proof. unfold find_writer. intros H. apply find_some in H. exact H. Qed.

(* ---- enabled(): never false for a record that is delivered ---- *)
Lemma any_accepts_default ws smax lvl names :
  existsb (fun n => beq n w_default) names = true -> lvl <= smax -> fst (any_accepts ws smax lvl names) = true.
Proof.
  intros H L. induction names as [|n r IH]; [discriminate|]. cbn [any_accepts existsb] in *.
  destruct (beq n w_default); cbn [orb] in H.
  - rewrite (proj2 (Nat.leb_le _ _) L). reflexivity.
  - destruct ws as [|w0 ws']; [apply IH; exact H|].
    destruct (find_writer (w0 :: ws') n) as [w|].
    + destruct (Nat.leb lvl (ow_max w)); [reflexivity | apply IH; exact H].
    + destruct (any_accepts (w0 :: ws') smax lvl r) as [b evs]. cbn [fst] in *. apply IH. exact H.
Qed.

Lemma any_accepts_writer ws smax lvl names n w :
  In n names -> beq n w_default = false -> find_writer ws n = Some w -> lvl <= ow_max w ->
  fst (any_accepts ws smax lvl names) = true.
Proof.
  intros I D F L. induction names as [|x r IH]; [destruct I|]. cbn [any_accepts].
  destruct (beq x w_default) eqn:Bx.
  - destruct (Nat.leb lvl smax); [reflexivity|]. destruct I as [->|I]; [congruence | apply IH; exact I].
  - destruct ws as [|w0 ws']; [discriminate|].
    destruct I as [->|I].
    + rewrite F. rewrite (proj2 (Nat.leb_le _ _) L). reflexivity.
    + destruct (find_writer (w0 :: ws') x) as [wx|].
      * destruct (Nat.leb lvl (ow_max wx)); [reflexivity | apply IH; exact I].
      * destruct (any_accepts (w0 :: ws') smax lvl r) as [b evs]. cbn [fst] in *. apply IH. exact I.
Qed.

Lemma enabled_query_brace lg lvl t : brace_target t = true ->
  enabled_query lg lvl t =
  Done ((if fst (any_accepts (lg_others lg) (max_level (sp_filters (lg_spec lg))) lvl (raw_names t)) then true
         else enabled (sp_filters (lg_spec lg)) lvl t),
        snd (any_accepts (lg_others lg) (max_level (sp_filters (lg_spec lg))) lvl (raw_names t))).
Proof. unfold enabled_query, brace_target, raw_names. intros ->. destruct (any_accepts _ _ _ _). reflexivity. Qed.
Lemma enabled_query_plain lg lvl t : brace_target t = false ->
  enabled_query lg lvl t = Done (enabled (sp_filters (lg_spec lg)) lvl t, []).
Proof. unfold enabled_query, brace_target. intros ->. reflexivity. Qed.

(* a delivery: the primary writer got the record, or an additional writer emitted it within its ceiling *)
Definition delivered (lg : logger) (lvl : level) (e : event) : Prop :=
  is_primary e = true
  \/ exists n w, e = EvWrite n true /\ find_writer (lg_others lg) n = Some w /\ lvl <= ow_max w.

Theorem query_true_if_delivered rm lg r evs e :
  log_record rm lg r = Done evs -> In e evs -> delivered lg (r_level r) e ->
  exists evs', enabled_query lg (r_level r) (r_target r) = Done (true, evs').
Proof.
  intros HL HI HD. destruct (brace_target (r_target r)) eqn:B.
  - rewrite log_record_brace in HL by exact B. inversion HL as [HE]; clear HL. rewrite enabled_query_brace by exact B.
    eexists. f_equal. f_equal.
    assert (A : fst (any_accepts (lg_others lg) (max_level (sp_filters (lg_spec lg))) (r_level r) (raw_names (r_target r))) = true).
    { rewrite <- HE in HI. apply in_app_or in HI. destruct HI as [HI|HI].
      - destruct (serve_events _ _ _ _ HI) as [[n [w [E [I [D F]]]]]|[n [E _]]].
        + destruct HD as [P|[n' [w' [E' [F' L']]]]]; [rewrite E in P; discriminate|].
          rewrite E in E'. injection E' as Hn He. subst n'. rewrite F in F'. injection F' as Hw. subst w'.
          apply dedup_incl in I. eapply any_accepts_writer; eauto.
        + destruct HD as [P|[n' [w' [E' _]]]]; [rewrite E in P; discriminate | rewrite E in E'; discriminate].
      - rewrite serve_default in HI. unfold names_of in HI. rewrite dedup_default in HI. destruct (existsb _ _) eqn:X; [|destruct HI].
        destruct (primary_events_spec _ _ _ _ _ HI) as [En _]. apply enabled_le_max in En.
        apply any_accepts_default; assumption. }
    rewrite A. reflexivity.
  - rewrite log_record_plain in HL by exact B. inversion HL as [HE]; clear HL. rewrite enabled_query_plain by exact B.
    eexists. f_equal. f_equal. rewrite <- HE in HI. destruct (primary_events_spec _ _ _ _ _ HI) as [En _]. exact En.
Qed.

(* ---- the handle refines an exact stack machine ---- *)
Definition astate := (spec * list spec)%type.
Definition astep (re_ok : ustr -> bool) (a : astate) (o : hop) : astate :=
  let '(act, st) := a in
  match o with
  | HSet s => (s, st)
  | HParseSet str => match parse re_ok str with ([], s) => (s, st) | _ => (act, st) end
  | HPush s => (s, act :: st)
  | HParsePush str => match parse re_ok str with ([], s) => (s, act :: st) | _ => (act, st) end
  | HPop => match st with s :: r => (s, r) | [] => (act, st) end
  | HDupErr _ | HDupOut _ => (act, st)
  end.
Definition abs (lg : logger) : astate := (lg_spec lg, lg_stack lg).

Lemma hstep_refines re_ok lg o : abs (fst (hstep re_ok lg o)) = astep re_ok (abs lg) o.
Proof.
  unfold abs. destruct o as [s|str|s|str| |d|d]; cbn [hstep astep]; try reflexivity.
  - destruct (parse re_ok str) as [[|e es] s]; reflexivity.
  - destruct (parse re_ok str) as [[|e es] s]; reflexivity.
  - destruct (lg_stack lg) eqn:E; cbn [fst lg_spec lg_stack with_spec]; rewrite ?E; reflexivity.
Qed.

Lemma hrun_refines re_ok ops : forall lg, abs (hrun re_ok lg ops) = fold_left (astep re_ok) ops (abs lg).
Proof.
  induction ops as [|o r IH]; intros lg; [reflexivity|]. cbn [hrun fold_left]. rewrite <- hstep_refines. apply IH.
Qed.

Lemma dup_match_spec d lvl : 1 <= lvl <= 5 -> dup_match d lvl = Nat.leb 1 d && (Nat.leb lvl d || Nat.leb 5 d).
Proof.
  intros [L1 L5]. destruct d as [|[|[|[|[|[|d]]]]]]; cbn [dup_match]; try reflexivity.
  - destruct lvl as [|[|l]]; [lia|reflexivity|reflexivity].
  - destruct lvl as [|[|[|[|[|[|l]]]]]]; try reflexivity; lia.
  - destruct lvl as [|[|[|[|[|[|l]]]]]]; try reflexivity; lia.
  - destruct lvl as [|[|[|[|[|[|l]]]]]]; try reflexivity; lia.
  - destruct lvl as [|[|[|[|[|[|l]]]]]]; try reflexivity; lia.
  - destruct lvl as [|[|[|[|[|[|l]]]]]]; try reflexivity; lia.
Qed.
