(* M2 (FlexiLogger::log / enabled, MultiWriter::write) and M3 (LoggerHandle: reconfiguration, spec stack).
   Mirrors src/flexi_logger.rs, src/primary_writer/multi_writer.rs, src/logger_handle.rs.  No proofs here. *)
Require Import FL.Base.Bytes FL.LogSpec.Spec.
Open Scope N_scope.

Inductive wkind := WCustom | WFlw | WSyslog.
Record owriter := { ow_name : ustr; ow_kind : wkind; ow_max : level }.

Record logger := { lg_spec : spec;
                   lg_stack : list spec;          (* spec_stack of this handle *)
                   lg_gate : level;               (* log::max_level() *)
                   lg_others : list owriter;      (* additional writers, by name *)
                   lg_dup_err : nat;              (* Duplicate as u8: 0 None .. 5 Trace, 6 All *)
                   lg_dup_out : nat;
                   lg_filter : bool }.            (* a LogLineFilter is installed *)

Record record := { r_level : level; r_target : ustr; r_module : option ustr; r_msg : ustr }.

Inductive event :=
| EvWrite (name : ustr) (emitted : bool)   (* write() of the additional writer was called; did it emit? *)
| EvBadWriter (name : ustr)                (* ERRCODE::WriterSpec *)
| EvFilter                                 (* the record was handed to the line filter *)
| EvPrimary (dup_err dup_out : bool).      (* the primary writer got it; duplicated to stderr / stdout *)

Inductive out (A : Type) := Done (a : A) | Panicked.
Arguments Done {A} a. Arguments Panicked {A}.

Definition c_lbrace : N := 123.
Definition w_default : ustr := [95; 68; 101; 102; 97; 117; 108; 116].   (* "_Default" *)

(* &target[1..target.len()-1] for a target that starts with '{': needs a second character, and the last
   character must be one byte long (otherwise the end offset is inside a character) *)
Definition brace_inner (t : ustr) : option ustr :=
  match t with
  | _ :: r => match rev r with
              | last :: mid => if Nat.eqb (utf8_len1 last) 1 then Some (rev mid) else None
              | [] => None
              end
  | [] => None
  end.

Definition find_writer (ws : list owriter) (n : ustr) : option owriter :=
  find (fun w => beq (ow_name w) n) ws.

(* does this writer put the record out?  FileLogWriter and SyslogWriter check their max level in write(), and so does a
   well-behaved custom writer (the recording writer of the harness) *)
Definition emits (w : owriter) (lvl : level) : bool := Nat.leb lvl (ow_max w).

Definition dup_match (d : nat) (lvl : level) : bool :=
  match d with
  | O => false
  | 1%nat => Nat.eqb lvl 1
  | 2%nat => Nat.leb lvl 2
  | 3%nat => Nat.leb lvl 3
  | 4%nat => Nat.leb lvl 4
  | _ => true
  end.

(* names that occur earlier in the list are skipped: a name listed twice is served once *)
Fixpoint dedup (seen : list ustr) (l : list ustr) : list ustr :=
  match l with
  | [] => []
  | x :: r => if existsb (beq x) seen then dedup seen r else x :: dedup (x :: seen) r
  end.

Fixpoint serve (ws : list owriter) (lvl : level) (names : list ustr) : list event * bool :=
  match names with
  | [] => ([], false)
  | n :: r =>
    let '(evs, d) := serve ws lvl r in
    if beq n w_default then (evs, true) else
    match find_writer ws n with
    | Some w => (EvWrite n (emits w lvl) :: evs, d)
    | None => (EvBadWriter n :: evs, d)
    end
  end.

(* FlexiLogger::log *)
Definition log_record (re_match : ustr -> ustr -> bool) (lg : logger) (r : record) : out (list event) :=
  let special := match r_target r with c :: _ => c =? c_lbrace | [] => false end in
  let primary target :=
    if enabled (sp_filters (lg_spec lg)) (r_level r) target
       && match sp_text (lg_spec lg) with Some p => re_match p (r_msg r) | None => true end
    then (if lg_filter lg then [EvFilter] else [])
         ++ [EvPrimary (dup_match (lg_dup_err lg) (r_level r)) (dup_match (lg_dup_out lg) (r_level r))]
    else [] in
  if special then
    (* a target too short or ending inside a character has no inner part (target.get(..) is None) *)
    let inner := match brace_inner (r_target r) with Some i => i | None => [] end in
    let '(evs, use_default) := serve (lg_others lg) (r_level r) (dedup [] (split_on c_comma inner)) in
    Done (evs ++ if use_default then primary (match r_module r with Some m => m | None => [] end) else [])
  else Done (primary (r_target r)).

(* FlexiLogger::enabled.  Only the target is known: for _Default the answer is true as soon as the specification
   enables the level for some module; a registered writer answers for itself *)
Fixpoint any_accepts (ws : list owriter) (smax : level) (lvl : level) (names : list ustr) : bool * list event :=
  match names with
  | [] => (false, [])
  | n :: r =>
    if beq n w_default then
      if Nat.leb lvl smax then (true, []) else any_accepts ws smax lvl r
    else
      match ws with
      | [] => any_accepts ws smax lvl r
      | _ =>
        match find_writer ws n with
        | None => let '(b, evs) := any_accepts ws smax lvl r in (b, EvBadWriter n :: evs)
        | Some w => if Nat.leb lvl (ow_max w) then (true, []) else any_accepts ws smax lvl r
        end
      end
  end.

Definition enabled_query (lg : logger) (lvl : level) (target : ustr) : out (bool * list event) :=
  let special := match target with c :: _ => c =? c_lbrace | [] => false end in
  let prim := enabled (sp_filters (lg_spec lg)) lvl target in
  if special then
    let inner := match brace_inner target with Some i => i | None => [] end in
    let '(b, evs) := any_accepts (lg_others lg) (max_level (sp_filters (lg_spec lg))) lvl (split_on c_comma inner) in
    Done (if b then true else prim, evs)
  else Done (prim, []).

(* ------------------------------------------------------------------ handle *)
Definition gate_for (ws : list owriter) (s : spec) : level :=
  fold_left (fun m w => Nat.max m (ow_max w)) ws (max_level (sp_filters s)).

Definition with_spec (lg : logger) (s : spec) (stack : list spec) : logger :=
  {| lg_spec := s; lg_stack := stack; lg_gate := gate_for (lg_others lg) s; lg_others := lg_others lg;
     lg_dup_err := lg_dup_err lg; lg_dup_out := lg_dup_out lg; lg_filter := lg_filter lg |}.
Definition with_stack (lg : logger) (stack : list spec) : logger :=
  {| lg_spec := lg_spec lg; lg_stack := stack; lg_gate := lg_gate lg; lg_others := lg_others lg;
     lg_dup_err := lg_dup_err lg; lg_dup_out := lg_dup_out lg; lg_filter := lg_filter lg |}.
Definition with_dups (lg : logger) (e o : nat) : logger :=
  {| lg_spec := lg_spec lg; lg_stack := lg_stack lg; lg_gate := lg_gate lg; lg_others := lg_others lg;
     lg_dup_err := e; lg_dup_out := o; lg_filter := lg_filter lg |}.

Inductive hop :=
| HSet (s : spec)               (* set_new_spec *)
| HParseSet (s : ustr)          (* parse_new_spec *)
| HPush (s : spec)              (* push_temp_spec *)
| HParsePush (s : ustr)         (* parse_and_push_temp_spec *)
| HPop                          (* pop_temp_spec *)
| HDupErr (d : nat)             (* adapt_duplication_to_stderr *)
| HDupOut (d : nat).

(* returns the new state and whether the call returned Ok *)
Definition hstep (re_ok : ustr -> bool) (lg : logger) (o : hop) : logger * bool :=
  match o with
  | HSet s => (with_spec lg s (lg_stack lg), true)
  | HParseSet str =>
    match parse re_ok str with
    | ([], s) => (with_spec lg s (lg_stack lg), true)
    | (_, _) => (lg, false)
    end
  | HPush s => (with_spec lg s (lg_spec lg :: lg_stack lg), true)
  | HParsePush str =>
    match parse re_ok str with
    | ([], s) => (with_spec lg s (lg_spec lg :: lg_stack lg), true)
    | (_, _) => (lg, false)
    end
  | HPop =>
    match lg_stack lg with
    | s :: r => (with_spec lg s r, true)
    | [] => (lg, true)
    end
  | HDupErr d => (with_dups lg d (lg_dup_out lg), true)
  | HDupOut d => (with_dups lg (lg_dup_err lg) d, true)
  end.

Definition new_logger (s : spec) (ws : list owriter) (de do : nat) (flt : bool) : logger :=
  {| lg_spec := s; lg_stack := []; lg_gate := gate_for ws s; lg_others := ws; lg_dup_err := de; lg_dup_out := do;
     lg_filter := flt |}.
