(* Facts about level_sort / enabled: the first match in the sorted list is the longest-prefix match. *)
Require Import FL.Base.Bytes FL.Base.BytesFacts FL.LogSpec.Spec.
From Coq Require Import Permutation.
Open Scope nat_scope.

Lemma is_prefix_firstn p s : is_prefix p s = true <-> firstn (length p) s = p.
Proof.
  revert s; induction p as [|a p IH]; intros s; cbn [is_prefix length firstn].
  - split; auto.
  - destruct s as [|b s]; cbn [firstn].
    + split; discriminate.
    + rewrite andb_true_iff, IH. destruct (N.eqb_spec a b) as [->|Hn].
      * split; [intros [_ ->]; reflexivity | intros H; inversion H as [H1]; rewrite H1; auto].
      * split; [intros [H _]; discriminate | intros H; inversion H; congruence].
Qed.

Lemma utf8_len1_pos c : 1 <= utf8_len1 c.
Proof. unfold utf8_len1. destruct (c <? 128)%N, (c <? 2048)%N, (c <? 65536)%N; lia. Qed.
Lemma utf8_len_app a b : utf8_len (a ++ b) = utf8_len a + utf8_len b.
Proof. induction a as [|x a IH]; cbn [utf8_len app]; lia. Qed.
Lemma utf8_len_zero s : utf8_len s = 0 -> s = [].
Proof. destruct s as [|c r]; [reflexivity|]. cbn [utf8_len]. pose proof (utf8_len1_pos c). lia. Qed.

Lemma prefix_split p q (s : ustr) : firstn (length p) s = p -> firstn (length q) s = q -> length p <= length q ->
  q = p ++ skipn (length p) q.
Proof.
  intros H1 H2 L. assert (E : firstn (length p) q = p).
  { rewrite <- H2. rewrite firstn_firstn. rewrite Nat.min_l by exact L. exact H1. }
  rewrite <- E at 1. symmetry. apply firstn_skipn.
Qed.

(* two names of the same byte length that are both prefixes of one target are equal *)
Lemma prefix_same_len p q s :
  is_prefix p s = true -> is_prefix q s = true -> utf8_len p = utf8_len q -> p = q.
Proof.
  rewrite !is_prefix_firstn. intros H1 H2 L.
  destruct (Nat.le_ge_cases (length p) (length q)) as [Hle|Hle].
  - pose proof (prefix_split p q s H1 H2 Hle) as E.
    rewrite E in L. rewrite utf8_len_app in L. assert (Z : utf8_len (skipn (length p) q) = 0) by lia.
    apply utf8_len_zero in Z. rewrite Z, app_nil_r in E. auto.
  - pose proof (prefix_split q p s H2 H1 Hle) as E.
    rewrite E in L. rewrite utf8_len_app in L. assert (Z : utf8_len (skipn (length q) p) = 0) by lia.
    apply utf8_len_zero in Z. rewrite Z, app_nil_r in E. auto.
Qed.

(* ---- declarative specification of the filtering decision ---- *)
Definition matches (t : ustr) (f : mfilter) : bool :=
  match fst f with Some n => is_prefix n t | None => true end.
Definition best (l : list mfilter) (t : ustr) (f : mfilter) : Prop :=
  In f l /\ matches t f = true /\ forall g, In g l -> matches t g = true -> keylen g <= keylen f.
(* the answer b is the level test of a best filter, or false when no filter matches *)
Definition spec_enabled (l : list mfilter) (lvl : level) (t : ustr) (b : bool) : Prop :=
  (exists f, best l t f /\ b = Nat.leb lvl (snd f)) \/ ((forall f, In f l -> matches t f = false) /\ b = false).
(* each module named at most once, no empty module name *)
Definition wf_filters (l : list mfilter) : Prop :=
  NoDup (List.map fst l) /\ (forall f, In f l -> fst f <> Some []).

Lemma insert_perm x l : Permutation (x :: l) (insert_f x l).
Proof.
  induction l as [|y r IH]; cbn [insert_f]; auto. destruct (Nat.leb (keylen y) (keylen x)); auto.
  eapply perm_trans; [apply perm_swap|]. constructor; exact IH.
Qed.
Lemma sort_perm l : Permutation l (level_sort l).
Proof.
  induction l as [|x l IH]; cbn [level_sort fold_right]; auto.
  eapply perm_trans; [|apply insert_perm]. constructor; exact IH.
Qed.

Inductive desc : list mfilter -> Prop :=
| d_nil : desc []
| d_cons x l : desc l -> (forall y, In y l -> keylen y <= keylen x) -> desc (x :: l).

Lemma insert_desc x l : desc l -> desc (insert_f x l).
Proof.
  induction 1 as [|y r D IH Hy]; cbn [insert_f].
  - constructor; [constructor | intros ? []].
  - destruct (Nat.leb_spec (keylen y) (keylen x)).
    + constructor; [constructor; auto|]. intros z [<-|Hz]; [lia|]. specialize (Hy z Hz); lia.
    + constructor; auto. intros z Hz. apply (Permutation_in _ (Permutation_sym (insert_perm x r))) in Hz.
      destruct Hz as [<-|Hz]; [lia | auto].
Qed.
Lemma sort_desc l : desc (level_sort l).
Proof. induction l; cbn [level_sort fold_right]; [constructor | apply insert_desc; auto]. Qed.

Lemma keylen_zero_named n lv : keylen (Some n, lv) = 0 -> n = [].
Proof. unfold keylen; cbn [fst]. apply utf8_len_zero. Qed.

(* the first match in a descending list is a best match *)
Lemma enabled_desc l lvl t :
  desc l -> (forall f, In f l -> fst f <> Some []) -> NoDup (List.map fst l) ->
  spec_enabled l lvl t (enabled l lvl t).
Proof.
  induction 1 as [|x r D IH Hx]; intros NE ND.
  - right. split; [intros ? [] | reflexivity].
  - destruct x as [[n|] f]; cbn [enabled].
    + destruct (is_prefix n t) eqn:P.
      * left. exists (Some n, f). split; [|reflexivity]. split; [left; reflexivity|]. split; [exact P|].
        intros g [<-|Hg] _; [lia | apply Hx; exact Hg].
      * inversion ND as [|? ? Hn ND']; subst.
        destruct (IH (fun g Hg => NE g (or_intror Hg)) ND') as [[g [[Hin [Hm Hb]] E]]|[Hno E]].
        -- left. exists g. split; [|exact E]. split; [right; exact Hin|]. split; [exact Hm|].
           intros h [<-|Hh] Mh; [unfold matches in Mh; cbn [fst] in Mh; congruence | apply Hb; auto].
        -- right. split; [|exact E]. intros h [<-|Hh]; [exact P | apply Hno; exact Hh].
    + left. exists (None, f). split; [|reflexivity]. split; [left; reflexivity|]. split; [reflexivity|].
      intros g [<-|Hg] _; [lia|]. specialize (Hx g Hg). exact Hx.
Qed.

Lemma nodup_key_inj (l : list mfilter) f g :
  NoDup (List.map fst l) -> In f l -> In g l -> fst f = fst g -> f = g.
Proof.
  induction l as [|x l IH]; cbn [List.map In]; intros ND Hf Hg K; [destruct Hf|].
  inversion ND as [|? ? Hx ND']; subst.
  destruct Hf as [Hf|Hf], Hg as [Hg|Hg]; subst; auto.
  - exfalso. apply Hx. rewrite K. apply in_map. exact Hg.
  - exfalso. apply Hx. rewrite <- K. apply in_map. exact Hf.
Qed.

(* the declarative relation is a function: the best filter is unique *)
Lemma best_unique l t f g : wf_filters l -> best l t f -> best l t g -> f = g.
Proof.
  intros [ND NE] [Hf [Mf Bf]] [Hg [Mg Bg]].
  assert (L : keylen f = keylen g) by (specialize (Bf g Hg Mg); specialize (Bg f Hf Mf); lia).
  assert (K : fst f = fst g).
  { destruct f as [[n|] a], g as [[m|] b]; unfold matches in *; cbn [fst] in *.
    - f_equal. eapply prefix_same_len; eauto.
    - exfalso. apply (NE _ Hf). cbn [fst]. f_equal. apply (keylen_zero_named n a). exact L.
    - exfalso. apply (NE _ Hg). cbn [fst]. f_equal. apply (keylen_zero_named m b). symmetry. exact L.
    - reflexivity. }
  eapply nodup_key_inj; eauto.
Qed.

Lemma spec_enabled_fun l lvl t b1 b2 : wf_filters l -> spec_enabled l lvl t b1 -> spec_enabled l lvl t b2 -> b1 = b2.
Proof.
  intros W [[f [Bf E1]]|[N1 E1]] [[g [Bg E2]]|[N2 E2]]; subst.
  - rewrite (best_unique l t f g W Bf Bg). reflexivity.
  - destruct Bf as [Hin [Hm _]]. rewrite (N2 f Hin) in Hm. discriminate.
  - destruct Bg as [Hin [Hm _]]. rewrite (N1 g Hin) in Hm. discriminate.
  - reflexivity.
Qed.

Theorem longest_prefix l lvl t : wf_filters l -> spec_enabled l lvl t (enabled (level_sort l) lvl t).
Proof.
  intros [ND NE].
  pose proof (sort_perm l) as P.
  assert (ND' : NoDup (List.map fst (level_sort l))) by (eapply Permutation_NoDup; [apply Permutation_map; exact P | exact ND]).
  assert (NE' : forall f, In f (level_sort l) -> fst f <> Some []) by (intros f Hf; apply NE; eapply Permutation_in; [apply Permutation_sym; exact P | exact Hf]).
  destruct (enabled_desc (level_sort l) lvl t (sort_desc l) NE' ND') as [[f [[Hin [Hm Hb]] E]]|[Hno E]].
  - left. exists f. split; [|exact E]. split; [eapply Permutation_in; [apply Permutation_sym; exact P | exact Hin]|].
    split; [exact Hm|]. intros g Hg. apply Hb. eapply Permutation_in; eauto.
  - right. split; [|exact E]. intros f Hf. apply Hno. eapply Permutation_in; eauto.
Qed.

(* sorting a sorted list changes nothing, so a specification value can be re-sorted freely *)
Lemma insert_desc_head x l : desc (x :: l) -> insert_f x l = x :: l.
Proof.
  intros D. inversion D as [|? ? D' Hx]; subst. destruct l as [|y r]; [reflexivity|].
  cbn [insert_f]. specialize (Hx y (or_introl eq_refl)). destruct (Nat.leb_spec (keylen y) (keylen x)); [reflexivity | lia].
Qed.
Lemma sort_desc_id l : desc l -> level_sort l = l.
Proof.
  induction 1 as [|x l D IH Hx]; [reflexivity|]. cbn [level_sort fold_right]. fold (level_sort l). rewrite IH.
  apply insert_desc_head. constructor; assumption.
Qed.
Lemma level_sort_idem l : level_sort (level_sort l) = level_sort l.
Proof. apply sort_desc_id, sort_desc. Qed.

(* anything enabled is at or below the maximum level of the specification *)
Lemma enabled_le_max l lvl t : enabled l lvl t = true -> lvl <= max_level l.
Proof.
  induction l as [|[[n|] f] r IH]; cbn [enabled max_level snd]; [discriminate| |].
  - destruct (is_prefix n t); intros H; [apply Nat.leb_le in H; lia | specialize (IH H); lia].
  - intros H. apply Nat.leb_le in H. lia.
Qed.
