(* Byte strings as lists of N; the string functions of Rust's std that the modelled code uses. *)
From Coq Require Export List NArith ZArith Bool Lia.
From Coq Require String Ascii.
Export ListNotations.
Open Scope N_scope.

Definition byte := N.
Definition bytes := list N.

(* string literals -> bytes *)
Definition bs (s : String.string) : bytes := List.map Ascii.N_of_ascii (String.list_ascii_of_string s).

Fixpoint beq (a b : bytes) : bool :=
  match a, b with
  | [], [] => true
  | x :: a', y :: b' => (x =? y) && beq a' b'
  | _, _ => false
  end.

Fixpoint is_prefix (p s : bytes) : bool :=
  match p, s with
  | [], _ => true
  | x :: p', y :: s' => (x =? y) && is_prefix p' s'
  | _ :: _, [] => false
  end.

(* str::find(pat): byte offset of the first occurrence *)
Fixpoint find_sub (pat s : bytes) : option nat :=
  if is_prefix pat s then Some O else
  match s with
  | [] => None
  | _ :: s' => match find_sub pat s' with Some i => Some (S i) | None => None end
  end.

Definition contains (pat s : bytes) : bool := match find_sub pat s with Some _ => true | None => false end.

(* str::rfind / rsplit(pat).next(): the part after the last occurrence of pat, whole string if none *)
Fixpoint after_last (pat s : bytes) : bytes :=
  match s with
  | [] => []
  | c :: s' =>
    if contains pat s' then after_last pat s'
    else if is_prefix pat s then skipn (length pat) s else s
  end.

(* position of the last occurrence of one byte *)
Fixpoint rfind_byte (c : N) (s : bytes) : option nat :=
  match s with
  | [] => None
  | x :: s' => match rfind_byte c s' with
               | Some i => Some (S i)
               | None => if x =? c then Some O else None
               end
  end.

Fixpoint find_byte (c : N) (s : bytes) : option nat :=
  match s with
  | [] => None
  | x :: s' => if x =? c then Some O else match find_byte c s' with Some i => Some (S i) | None => None end
  end.

(* byte-wise lexicographic order (Ord for str, [u8], and for file names inside one directory) *)
Fixpoint lex_lt (a b : bytes) : bool :=
  match a, b with
  | _, [] => false
  | [], _ :: _ => true
  | x :: a', y :: b' => (x <? y) || ((x =? y) && lex_lt a' b')
  end.
Definition lex_le (a b : bytes) : bool := negb (lex_lt b a).

(* str::strip_prefix / strip_suffix *)
Definition strip_prefix (p s : bytes) : option bytes :=
  if is_prefix p s then Some (skipn (length p) s) else None.
Definition strip_suffix (x s : bytes) : option bytes :=
  match strip_prefix (rev x) (rev s) with Some r => Some (rev r) | None => None end.

(* split(c): never empty *)
Fixpoint split_on (c : N) (s : bytes) : list bytes :=
  match s with
  | [] => [[]]
  | x :: s' =>
    match split_on c s' with
    | [] => [[]] (* unreachable *)
    | h :: t => if x =? c then [] :: h :: t else (x :: h) :: t
    end
  end.

Fixpoint join (sep : bytes) (l : list bytes) : bytes :=
  match l with
  | [] => []
  | [x] => x
  | x :: r => x ++ sep ++ join sep r
  end.

(* decimal rendering *)
Fixpoint dec_digits (fuel : nat) (n : N) (acc : bytes) : bytes :=
  match fuel with
  | O => acc
  | S f => let acc' := (48 + n mod 10) :: acc in
           if n <? 10 then acc' else dec_digits f (n / 10) acc'
  end.
Definition dec (n : N) : bytes := dec_digits (S (N.to_nat (N.log2 n))) n [].
Definition pad_left (w : nat) (c : N) (s : bytes) : bytes := repeat c (w - length s) ++ s.

Definition is_digit (c : N) : bool := (48 <=? c) && (c <=? 57).
Fixpoint all_digits (s : bytes) : bool := match s with [] => true | c :: r => is_digit c && all_digits r end.
Fixpoint dec_value_acc (s : bytes) (acc : N) : N :=
  match s with [] => acc | c :: r => dec_value_acc r (acc * 10 + (c - 48)) end.
Definition dec_value (s : bytes) : N := dec_value_acc s 0.

(* str::parse::<u32>() / ::<usize>(): optional '+', at least one digit, no overflow *)
Definition parse_uint (max : N) (s : bytes) : option N :=
  let d := match s with 43 :: r => r | _ => s end in
  match d with
  | [] => None
  | _ => if all_digits d then let v := dec_value d in if v <=? max then Some v else None else None
  end.
Definition u32_max : N := 4294967295.
Definition usize_max : N := 18446744073709551615.

(* UTF-8: a byte offset is a character boundary iff it is 0, the length, or not on a continuation byte *)
Definition is_cont (c : N) : bool := (128 <=? c) && (c <? 192).
Definition is_boundary (s : bytes) (i : nat) : bool :=
  match i with
  | O => true
  | _ => match nth_error s i with
         | Some c => negb (is_cont c)
         | None => Nat.eqb i (length s)
         end
  end.

(* &s[a..b] on a str: None models the panic *)
Definition str_slice (s : bytes) (a b : nat) : option bytes :=
  if (Nat.leb a b) && (Nat.leb b (length s)) && is_boundary s a && is_boundary s b
  then Some (firstn (b - a) (skipn a s)) else None.
Definition str_from (s : bytes) (a : nat) : option bytes := str_slice s a (length s).

