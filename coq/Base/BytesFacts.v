(* Facts about the byte-string functions. *)
Require Import FL.Base.Bytes.
Open Scope N_scope.

Lemma beq_spec a b : reflect (a = b) (beq a b).
Proof.
  revert b; induction a as [|x a IH]; intros [|y b]; cbn [beq]; try (constructor; congruence).
  destruct (N.eqb_spec x y) as [->|Hxy]; cbn [andb].
  - destruct (IH b) as [->|Hab]; constructor; congruence.
  - constructor; congruence.
Qed.
Lemma beq_refl a : beq a a = true.
Proof. destruct (beq_spec a a); congruence. Qed.
Lemma beq_eq a b : beq a b = true -> a = b.
Proof. destruct (beq_spec a b); congruence. Qed.
Lemma beq_neq a b : a <> b -> beq a b = false.
Proof. destruct (beq_spec a b); congruence. Qed.
Lemma beq_sym a b : beq a b = beq b a.
Proof. destruct (beq_spec a b), (beq_spec b a); congruence. Qed.
