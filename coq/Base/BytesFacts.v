(* Facts about the byte-string functions. *)
Require Import FL.Base.Bytes.
Open Scope N_scope.

Lemma beq_spec a b : reflect (a = b) (beq a b).
Proof.
  revert b; induction a as [|x a IH]; intros [|y b]; cbn [beq]; try (constructor; congruence).
  destruct (N.eqb_spec x y) as [->|Hxy]; cbn [andb].
  - destruct (IH b) as [->|Hab]; constructor; congruence.
  - constructor; congruence.
Qed.
Lemma beq_refl a : beq a a = true.
Proof. destruct (beq_spec a a); congruence. Qed.
Lemma beq_eq a b : beq a b = true -> a = b.
Proof. destruct (beq_spec a b); congruence. Qed.
Lemma beq_neq a b : a <> b -> beq a b = false.
Proof. destruct (beq_spec a b); congruence. Qed.
Lemma beq_sym a b : beq a b = beq b a.
Proof. destruct (beq_spec a b), (beq_spec b a); congruence. Qed.

Lemma strip_prefix_spec p s r : strip_prefix p s = Some r -> s = p ++ r.
Proof.
  unfold strip_prefix. destruct (is_prefix p s) eqn:E; [|discriminate]. intros H. injection H as <-.
  revert s E. induction p as [|x p IH]; intros s E; [reflexivity|]. destruct s as [|y s]; [discriminate|].
  cbn [is_prefix] in E. apply andb_prop in E. destruct E as [E1 E2]. apply N.eqb_eq in E1. subst y.
  cbn [length skipn app]. f_equal. apply IH. exact E2.
Qed.
Lemma strip_suffix_spec x s r : strip_suffix x s = Some r -> s = r ++ x.
Proof.
  unfold strip_suffix. destruct (strip_prefix (rev x) (rev s)) as [q|] eqn:E; [|discriminate]. intros H. injection H as <-.
  apply strip_prefix_spec in E. apply (f_equal (@rev N)) in E. rewrite rev_involutive, rev_app_distr, rev_involutive in E. exact E.
Qed.

