(* std::path::Path on a single file name (one component): file_stem, extension, set_extension.
   Follows std's rsplit_file_at_dot:  ".." has no extension; a name whose only dot is the
   leading one has no extension; otherwise split at the last dot. *)
Require Import FL.Base.Bytes.
Open Scope N_scope.

Definition dot : N := 46.

Definition split_at_last_dot (name : bytes) : bytes * option bytes :=
  if beq name [dot; dot] then (name, None) else
  match rfind_byte dot name with
  | None => (name, None)
  | Some O => (name, None)
  | Some i => (firstn i name, Some (skipn (S i) name))
  end.

Definition file_stem (name : bytes) : bytes := fst (split_at_last_dot name).
Definition extension (name : bytes) : option bytes := snd (split_at_last_dot name).

(* PathBuf::set_extension: truncate to the stem, then append "." ++ ext unless ext is empty *)
Definition set_extension (name ext : bytes) : bytes :=
  file_stem name ++ match ext with [] => [] | _ => dot :: ext end.

Definition ext_is (name : bytes) (sfx : bytes) : bool :=
  match extension name with Some e => beq e sfx | None => false end.
