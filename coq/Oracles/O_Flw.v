(* Executable oracles for the file-writer properties: what the reader of the log files must find.
   They are applied to observations taken from the implementation. *)
Require Import FL.Base.Bytes.
Open Scope N_scope.

Inductive item := IRec (b : bytes) | ITrig.

(* C08: the greedy partition.  A record starts a new file iff the current one already holds more than
   lim bytes; a trigger closes the current file unconditionally. *)
Fixpoint partition (lim : N) (closed : list bytes) (cur : bytes) (items : list item) : list bytes :=
  match items with
  | [] => closed ++ [cur]
  | IRec r :: rest =>
    if lim <? N.of_nat (length cur) then partition lim (closed ++ [cur]) r rest
    else partition lim closed (cur ++ r) rest
  | ITrig :: rest => partition lim (closed ++ [cur]) [] rest
  end.

Fixpoint list_beq (a b : list bytes) : bool :=
  match a, b with
  | [], [] => true
  | x :: a', y :: b' => beq x y && list_beq a' b'
  | _, _ => false
  end.

(* files: contents of the family files in reader order (oldest first, current last) *)
Fixpoint has_rec (items : list item) : bool :=
  match items with [] => false | IRec _ :: _ => true | ITrig :: r => has_rec r end.

(* what the directory must hold; `start` is the content of the current file found at start (append).
   A writer that never received a record never opened a file. *)
Definition expected_files (lim : N) (start : option bytes) (items : list item) : list bytes :=
  if has_rec items then partition lim [] (match start with Some s => s | None => [] end) items
  else match start with Some s => [s] | None => [] end.

Definition oracle_C08 (lim : N) (start : option bytes) (items : list item) (files : list bytes) : bool :=
  list_beq files (expected_files lim start items).

(* C01: the stream *)
Fixpoint recs_of (items : list item) : bytes :=
  match items with [] => [] | IRec r :: rest => r ++ recs_of rest | ITrig :: rest => recs_of rest end.
Definition oracle_C01 (start : option bytes) (items : list item) (files : list bytes) : bool :=
  beq (concat files) (match start with Some s => s | None => [] end ++ recs_of items).
