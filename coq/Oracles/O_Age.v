(* Executable oracle for the age criterion (C09) and for age-or-size: what the reader must find, given the
   instants of the writes.  Applied to directory snapshots taken from the implementation. *)
Require Import FL.Base.Bytes FL.Time.Civil FL.Time.TsFormat FL.Flw.Model.
Open Scope N_scope.

Inductive titem := TRec (t : Z) (b : bytes) | TTrig (t : Z).

Definition rotate_due (a : option age) (lim : option N) (off : Z) (start : Z) (content : bytes) (t : Z) : bool :=
  match a with Some a' => negb (period_of a' (start + off) =? period_of a' (t + off))%Z | None => false end
  || match lim with Some m => m <? N.of_nat (length content) | None => false end.

(* files as (instant at which the file was started, content); the last one is the current file *)
Fixpoint tpartition (a : option age) (lim : option N) (off : Z) (closed : list (Z * bytes)) (cur : option (Z * bytes))
         (items : list titem) : list (Z * bytes) :=
  match items with
  | [] => closed ++ match cur with Some c => [c] | None => [] end
  | TRec t b :: rest =>
    match cur with
    | None => tpartition a lim off closed (Some (t, b)) rest
    | Some (st, c) =>
      if rotate_due a lim off st c t then tpartition a lim off (closed ++ [(st, c)]) (Some (t, b)) rest
      else tpartition a lim off closed (Some (st, c ++ b)) rest
    end
  | TTrig t :: rest =>
    match cur with
    | None => tpartition a lim off closed None rest
    | Some (st, c) => tpartition a lim off (closed ++ [(st, c)]) (Some (t, [])) rest
    end
  end.

Definition crit_parts (c : criterion) : option age * option N :=
  match c with CSize n => (None, Some n) | CAge a => (Some a, None) | CAgeOrSize a n => (Some a, Some n) end.

Fixpoint list_beq2 (a b : list bytes) : bool :=
  match a, b with
  | [], [] => true
  | x :: a', y :: b' => beq x y && list_beq2 a' b'
  | _, _ => false
  end.

(* contents: the family files' contents in reader order *)
Definition oracle_C09_partition (c : criterion) (off : Z) (start : option (Z * bytes)) (items : list titem) (files : list bytes) : bool :=
  let '(a, lim) := crit_parts c in
  list_beq2 files (List.map snd (tpartition a lim off [] start items)).

(* no file holds records of two periods: every record of a file lies in the period of the file's start *)
Fixpoint periods_pure (a : age) (off : Z) (cur : option Z) (items : list titem) (rot : list bool) : bool :=
  match items, rot with
  | TRec t _ :: rest, r :: rot' =>
    match cur with
    | None => periods_pure a off (Some t) rest rot'
    | Some st => if r then periods_pure a off (Some t) rest rot'
                 else (period_of a (st + off) =? period_of a (t + off))%Z && periods_pure a off cur rest rot'
    end
  | TTrig t :: rest, _ => periods_pure a off (match cur with Some _ => Some t | None => None end) rest rot
  | _, _ => true
  end.

(* the main part of the infix a time-stamp-named file must carry: the instant its content was started *)
Definition expected_ts_infix (utc : bool) (off : Z) (fmt : tsfmt) (start : Z) : bytes :=
  format_ts fmt (civil_of (if utc then start else start + off)%Z).
