(* Executable oracles for C16: documented file names, the listing, the symlink. *)
Require Import FL.Base.Bytes FL.Base.PathName FL.Fs.Fs FL.Time.TsFormat FL.Names.FileSpec FL.Flw.Model FL.Oracles.ReaderOrder.
Open Scope N_scope.

(* [basename][_discriminant][_starttime]: absent and empty parts and their separators are omitted *)
Definition doc_fixed (sp : file_spec) (starttxt : bytes) : bytes :=
  join [uscore] (filter (fun s => match s with [] => false | _ => true end)
                        [fbase sp; match fdisc sp with Some d => d | None => [] end; if fts sp then starttxt else []]).

Definition fmt_of (n : naming) : option tsfmt :=
  match n with NTimestamps | NTimestampsDirect => Some std_fmt | NCustom _ f => Some f | _ => None end.

(* an infix of the active naming scheme: the current infix, r<number>, or <time stamp>[.restart-NNNN] *)
Definition valid_infix (n : naming) (cur : option bytes) (infix : bytes) : bool :=
  match cur with Some c => beq infix c | None => false end
  || match fmt_of n with
     | None => match infix with
               | r :: d => (r =? r_char) && Nat.leb 5 (length d) && all_digits d
               | [] => false
               end
     | Some f =>
       let '(m, rs) := split_restart infix in
       match parse_ts_local f m with Some _ => true | None => false end
       && match find_sub restart_tag infix with
          | Some i => let d := skipn (i + length restart_tag) infix in Nat.leb 4 (length d) && all_digits d
          | None => true
          end
     end.

(* is this directory entry named as documented for configuration c? *)
Definition name_documented (c : config) (starttxt : bytes) (name : bytes) : bool :=
  match c_rot c with
  | None => beq name (with_suffix (c_spec c) (doc_fixed (c_spec c) starttxt))
  | Some (_, nam, _) =>
    match full_infix (c_spec c) (doc_fixed (c_spec c) starttxt) name with
    | Some i => valid_infix nam (cur_infix_of c) i
    | None => false
    end
  end.

(* the class of a family member, for the listing selectors *)
Inductive fclass := FPlain | FGz | FCur | FNone.
Definition classify_entry (c : config) (e : entry) : fclass :=
  let '(n, k, _) := e in
  match c_rot c with
  | None => (* without rotation: the one log file *)
            if (k =? 0) && beq n (with_suffix (c_spec c) (fixed_name_part (c_spec c) [])) then FPlain else FNone
  | Some (_, nam, _) =>
    match full_infix (c_spec c) (fixed_name_part (c_spec c) []) n with
    | None => FNone
    | Some i =>
      if (k =? 1) then (if valid_infix nam None i then FGz else FNone)
      else if (k =? 0) then
        (if match cur_infix_of c with Some cu => beq i cu | None => false end then FCur
         else if valid_infix nam None i then FPlain else FNone)
      else FNone
    end
  end.

Definition selected (sel : selector) (c : config) (e : entry) : bool :=
  match classify_entry c e with
  | FPlain => sel_plain sel
  | FGz => sel_gz sel
  | FCur => sel_rcur sel && match cur_infix_of c with Some cu => beq cu cur_infix | None => false end
            || match sel_custom sel, cur_infix_of c with Some x, Some cu => beq x cu | _, _ => false end
  | FNone => false
  end.

Definition expected_listing (sel : selector) (c : config) (l : list entry) : list bytes :=
  sort_names (List.map (fun e : entry => fst (fst e)) (filter (selected sel c) l)).

Fixpoint names_beq (a b : list bytes) : bool :=
  match a, b with [], [] => true | x :: a', y :: b' => beq x y && names_beq a' b' | _, _ => false end.
Definition oracle_listing (sel : selector) (c : config) (snap : list entry) (result : list bytes) : bool :=
  names_beq (sort_names result) (expected_listing sel c snap).

(* the file being written: the newest family member in reader order *)
Definition current_name (c : config) (l : list entry) : option bytes :=
  match rev (reader_order (c_spec c) (fixed_name_part (c_spec c) []) (cur_infix_of c) l) with
  | e :: _ => Some (fst (fst e))
  | [] => None
  end.
