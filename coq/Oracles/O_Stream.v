(* Executable oracles on directory snapshots for the restart / cleanup / switch properties (C06, C07, C18):
   the family files, read in reader order, hold a tail of what was logged; cleanup limits; tilings. *)
Require Import FL.Base.Bytes FL.Base.PathName FL.Names.FileSpec FL.Flw.Model FL.Oracles.ReaderOrder.
Open Scope N_scope.

Definition is_suffix (s l : bytes) : bool := is_prefix (rev s) (rev l).

(* the stream a reader obtains *)
Definition stream_of (c : config) (l : list entry) : bytes := concat (family_in_order c l).

(* C11 / C19: an archive next to its original - what a kill or a failure between "finish the archive" and "remove the
   original" leaves until the next cleanup - holds nothing that the (complete) original does not hold: a reader of the
   files ignores it (for the model: Flw/NumCleanupKillDir.v kill_view) *)
Definition without_shadowed_archives (l : list entry) : list entry :=
  filter (fun e : entry =>
            match strip_suffix (dot :: gz_sfx) (fst (fst e)) with
            | Some orig => negb (existsb (fun e' : entry => beq (fst (fst e')) orig) l)
            | None => true
            end) l.

(* C06 / C07: nothing but an old end may be missing *)
Definition oracle_tail (c : config) (logged : bytes) (l : list entry) : bool := is_suffix (stream_of c l) logged.
Definition oracle_all (c : config) (logged : bytes) (l : list entry) : bool := beq (stream_of c l) logged.

(* cleanup limits: rotated plain files and compressed files of the family.  With a direct naming the file
   being written is one of the plain files of the listing; the code then keeps at least one plain file. *)
Definition is_rotated (c : config) (e : rkey * entry) : bool := negb (k_cur (fst e)).
Definition count_kind (c : config) (l : list entry) (kind : N) : nat :=
  length (filter (fun e : rkey * entry => is_rotated c e && (snd (fst (snd e)) =? kind))
                 (family_entries (c_spec c) (fixed_name_part (c_spec c) []) (cur_infix_of c) l)).

Definition limits_of (k : cleanup) (direct : bool) : option (nat * nat) :=
  match k with
  | KNever => None
  | KLog a => Some ((if direct && Nat.eqb a 0 then 1 else a)%nat, O)
  | KGz b => Some ((if direct then 1 else 0)%nat, b)
  | KLogGz a b => Some ((if direct && Nat.eqb a 0 then 1 else a)%nat, b)
  end.

Definition oracle_limits (c : config) (l : list entry) : bool :=
  match c_rot c with
  | Some (_, nam, k) =>
    match limits_of k (naming_writes_direct nam) with
    | None => true
    | Some (pl, gz) => Nat.leb (count_kind c l 0) pl && Nat.leb (count_kind c l 1) gz
                       && Nat.eqb (count_kind c l 2) 0
    end
  | None => true
  end.

(* the newest file - the one being written - is a plain file *)
Definition oracle_current_plain (c : config) (l : list entry) : bool :=
  match rev (reader_order (c_spec c) (fixed_name_part (c_spec c) []) (cur_infix_of c) l) with
  | e :: _ => snd (fst e) =? 0
  | [] => true
  end.

(* C18: the files (any names) tile the logged bytes: some order of the non-empty contents concatenates to it.
   Greedy with backtracking over which file comes next; fuel = number of files. *)
Fixpoint remove_nth {A} (n : nat) (l : list A) : list A :=
  match n, l with O, _ :: r => r | S k, x :: r => x :: remove_nth k r | _, [] => [] end.
Fixpoint existsb_from {A} (p : nat -> A -> bool) (i : nat) (l : list A) : bool :=
  match l with [] => false | x :: r => p i x || existsb_from p (S i) r end.
Fixpoint tiles (fuel : nat) (files : list bytes) (logged : bytes) : bool :=
  match files with
  | [] => match logged with [] => true | _ => false end
  | _ =>
    match fuel with
    | O => false
    | S f => existsb_from (fun i x => is_prefix x logged && tiles f (remove_nth i files) (skipn (length x) logged)) O files
    end
  end.
Definition nonempty (l : list bytes) : list bytes := filter (fun b => match b with [] => false | _ => true end) l.
Definition oracle_tiles (files : list bytes) (logged : bytes) : bool :=
  let fs := nonempty files in tiles (length fs) fs logged.
