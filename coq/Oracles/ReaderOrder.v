(* The order in which a reader takes the files of a log family: rotated files oldest to newest, the
   current file last.  "Oldest to newest" is decided by the parsed infix - the number, or the time stamp
   and then the restart counter - never by the byte order of the whole name (a suffix such as "trc" sorts
   after ".restart-", so name order is not age order).  Used by the oracles, which are applied to
   directory snapshots taken from the implementation. *)
Require Import FL.Base.Bytes FL.Base.PathName FL.Names.FileSpec FL.Flw.Model.
Open Scope N_scope.

(* the infix of a family member: name = fixed [_ infix] [.sfx] [.gz] *)
Definition full_infix (sp : file_spec) (fixed : bytes) (name : bytes) : option bytes :=
  let n1 := match strip_suffix (dot :: gz_sfx) name with Some n => n | None => name end in
  match (match fsfx sp with Some s => strip_suffix (dot :: s) n1 | None => Some n1 end) with
  | None => None
  | Some n2 => if beq n2 fixed then Some [] else
               match fixed with
               | [] => Some n2
               | _ => strip_prefix (fixed ++ [uscore]) n2
               end
  end.

(* main part and restart counter of an infix: "r2024-..-58.restart-0003" -> ("r2024-..-58", Some 3) *)
Definition split_restart (infix : bytes) : bytes * option N :=
  match find_sub restart_tag infix with
  | Some i => (firstn i infix, Some (dec_value (skipn (i + length restart_tag) infix)))
  | None => (infix, None)
  end.

(* shorter first, then byte order: numeric order for r00012 / r100000, chronological for fixed-width time stamps *)
Definition shortlex_lt (a b : bytes) : bool :=
  Nat.ltb (length a) (length b) || (Nat.eqb (length a) (length b) && lex_lt a b).

Record rkey := { k_cur : bool; k_main : bytes; k_restart : option N }.

Definition key_of (cur : option bytes) (infix : bytes) : rkey :=
  let '(m, r) := split_restart infix in
  {| k_cur := match cur with Some c => beq infix c | None => false end; k_main := m; k_restart := r |}.

Definition restart_lt (a b : option N) : bool :=
  match a, b with
  | None, Some _ => true
  | Some x, Some y => x <? y
  | _, None => false
  end.

Definition key_lt (a b : rkey) : bool :=
  match k_cur a, k_cur b with
  | false, true => true
  | true, _ => false
  | false, false => shortlex_lt (k_main a) (k_main b)
                    || (beq (k_main a) (k_main b) && restart_lt (k_restart a) (k_restart b))
  end.

Fixpoint insert_key {A} (x : rkey * A) (l : list (rkey * A)) : list (rkey * A) :=
  match l with
  | [] => [x]
  | y :: r => if key_lt (fst y) (fst x) then y :: insert_key x r else x :: l
  end.
Definition sort_keys {A} (l : list (rkey * A)) : list (rkey * A) := fold_right insert_key [] l.

(* entries of a directory snapshot: (name, kind, logical content); kind 0 plain, 1 gz, 2 broken gz, 3 directory *)
Definition entry := (bytes * N * bytes)%type.

Fixpoint family_entries (sp : file_spec) (fixed : bytes) (cur : option bytes) (l : list entry) : list (rkey * entry) :=
  match l with
  | [] => []
  | e :: r =>
    let '(n, k, d) := e in
    match (if k <? 2 then full_infix sp fixed n else None) with
    | Some i => (key_of cur i, e) :: family_entries sp fixed cur r
    | None => family_entries sp fixed cur r
    end
  end.

Definition reader_order (sp : file_spec) (fixed : bytes) (cur : option bytes) (l : list entry) : list entry :=
  List.map snd (sort_keys (family_entries sp fixed cur l)).

Definition contents (l : list entry) : list bytes := List.map (fun e : entry => snd e) l.

(* the infix of the file being written, where the naming scheme has a fixed one *)
Definition cur_infix_of (c : config) : option bytes :=
  match c_rot c with
  | Some (_, NNumbers, _) | Some (_, NTimestamps, _) => Some cur_infix
  | Some (_, NCustom (Some (x :: r)) _, _) => Some (x :: r)
  | _ => None
  end.

(* contents of the family files of configuration c (no start-time part) in reader order *)
Definition family_in_order (c : config) (l : list entry) : list bytes :=
  contents (reader_order (c_spec c) (fixed_name_part (c_spec c) []) (cur_infix_of c) l).
