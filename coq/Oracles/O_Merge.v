(* C03: is the observed sequence of lines an interleaving of the threads' sequences?  Executable checker with
   its soundness statement (proof in Properties/C03.v). *)
Require Import FL.Base.Bytes.

(* take the observed line from the first thread whose next line it is *)
Fixpoint take_line (l : bytes) (ts : list (list bytes)) : option (list (list bytes)) :=
  match ts with
  | [] => None
  | (x :: r) :: rest => if beq x l then Some (r :: rest)
                        else match take_line l rest with Some rest' => Some ((x :: r) :: rest') | None => None end
  | [] :: rest => match take_line l rest with Some rest' => Some ([] :: rest') | None => None end
  end.
Fixpoint merge_check (ts : list (list bytes)) (obs : list bytes) : bool :=
  match obs with
  | [] => forallb (fun t => match t with [] => true | _ => false end) ts
  | l :: r => match take_line l ts with Some ts' => merge_check ts' r | None => false end
  end.

(* m is an interleaving of the sequences ts: built by repeatedly taking the next line of some thread - so every
   line of every thread occurs exactly once, intact, and each thread's lines in their order *)
Inductive Merge : list (list bytes) -> list bytes -> Prop :=
| merge_done ts : Forall (fun t => t = []) ts -> Merge ts []
| merge_step ts1 x r ts2 m : Merge (ts1 ++ r :: ts2) m -> Merge (ts1 ++ (x :: r) :: ts2) (x :: m).
