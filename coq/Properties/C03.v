(* C03 - concurrent logging.  Statements only. *)
Require Import FL.Base.Bytes FL.Base.BytesFacts FL.Fs.Fs FL.Names.FileSpec FL.Flw.Model FL.Flw.Run FL.Flw.NumInv FL.Flw.NumRun
  FL.Flw.NumTheorems FL.Oracles.O_Merge.

Lemma take_line_spec l : forall ts ts', take_line l ts = Some ts' ->
  exists ts1 r ts2, ts = ts1 ++ (l :: r) :: ts2 /\ ts' = ts1 ++ r :: ts2.
Proof.
  induction ts as [|t rest IH]; intros ts' H; [discriminate|]. cbn [take_line] in H. destruct t as [|x r].
  - destruct (take_line l rest) as [rest'|] eqn:E; [|discriminate]. injection H as <-.
    destruct (IH rest' eq_refl) as [ts1 [r [ts2 [-> ->]]]]. exists ([] :: ts1), r, ts2. split; reflexivity.
  - destruct (beq_spec x l) as [->|N].
    + injection H as <-. exists [], r, rest. split; reflexivity.
    + destruct (take_line l rest) as [rest'|] eqn:E; [|discriminate]. injection H as <-.
      destruct (IH rest' eq_refl) as [ts1 [r' [ts2 [-> ->]]]]. exists ((x :: r) :: ts1), r', ts2. split; reflexivity.
Qed.

(* the executable check applied to the implementation's output is sound: what it accepts is an interleaving of
   the threads' line sequences - every line once, intact, per-thread order kept *)
Theorem C03_merge_check_sound : forall obs ts, merge_check ts obs = true -> Merge ts obs.
Proof.
  induction obs as [|l r IH]; intros ts H; cbn [merge_check] in H.
  - apply merge_done. apply Forall_forall. intros t Ht. rewrite forallb_forall in H. specialize (H t Ht). destruct t; [reflexivity | discriminate].
  - destruct (take_line l ts) as [ts'|] eqn:E; [|discriminate].
    destruct (take_line_spec l ts ts' E) as [ts1 [r' [ts2 [-> ->]]]]. apply merge_step. apply IH. exact H.
Qed.

(* an interleaving loses and invents nothing: it has exactly as many lines as the threads logged *)
Theorem C03_merge_length : forall ts m, Merge ts m -> length m = length (concat ts).
Proof.
  induction 1 as [ts Hall | ts1 x r ts2 m HM IH].
  - assert (E : concat ts = []) by (induction ts as [|t ts IHt]; [reflexivity|]; inversion Hall as [|? ? Ht Hr]; subst; cbn; apply IHt; exact Hr).
    rewrite E. reflexivity.
  - cbn [length]. rewrite IH. rewrite !concat_app. cbn [concat]. repeat rewrite app_length. cbn [length app]. lia.
Qed.

(* the synchronous file writer serialises the threads' write_buffer calls (state mutex): a schedule of N threads
   is one sequential history whose records are an interleaving m of the threads' sequences; for Numbers naming, every
   criterion, buffer capacity: the files then hold exactly concat m - each line intact, once, in that order *)
Theorem C03_sync_numbers :
  forall c crit t0 off ts m, numcfg c crit -> Merge ts m ->
    exists files, reads c (wfs (s_w (fst (run (sys0 t0 off) (OStart c :: List.map OWrite m ++ [OStop]))))) files
      /\ concat files = concat m.
Proof.
  intros c crit t0 off ts m Hc _.
  assert (Hb : Forall basic_op (List.map OWrite m)) by (apply Forall_forall; intros o Ho; apply in_map_iff in Ho; destruct Ho as [b [<- _]]; exact Logic.I).
  destruct (numbers_stream c crit t0 off (List.map OWrite m) Hc Hb) as [files [R E]]. exists files. split; [exact R|].
  rewrite E. clear. induction m as [|b m IH]; [reflexivity|]. cbn [List.map written concat]. rewrite <- IH. reflexivity.
Qed.

Check C03_merge_check_sound. Check C03_merge_length. Check C03_sync_numbers.
Print Assumptions C03_merge_check_sound.
Print Assumptions C03_sync_numbers.
