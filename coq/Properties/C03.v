(* C03 - concurrent logging.  Statements only. *)
Require Import FL.Base.Bytes FL.Base.BytesFacts FL.Fs.Fs FL.Names.FileSpec FL.Flw.Model FL.Flw.Run FL.Flw.NumInv FL.Flw.NumRun
  FL.Flw.NumTheorems FL.Oracles.O_Merge.

Lemma take_line_spec l : forall ts ts', take_line l ts = Some ts' ->
  exists ts1 r ts2, ts = ts1 ++ (l :: r) :: ts2 /\ ts' = ts1 ++ r :: ts2.
Proof.
  induction ts as [|t rest IH]; intros ts' H; [discriminate|]. cbn [take_line] in H. destruct t as [|x r].
  - destruct (take_line l rest) as [rest'|] eqn:E; [|discriminate]. injection H as <-.
    destruct (IH rest' eq_refl) as [ts1 [r [ts2 [-> ->]]]]. exists ([] :: ts1), r, ts2. split; reflexivity.
  - destruct (beq_spec x l) as [->|N].
    + injection H as <-. exists [], r, rest. split; reflexivity.
    + destruct (take_line l rest) as [rest'|] eqn:E; [|discriminate]. injection H as <-.
      destruct (IH rest' eq_refl) as [ts1 [r' [ts2 [-> ->]]]]. exists ((x :: r) :: ts1), r', ts2. split; reflexivity.
Qed.

(* the executable check applied to the implementation's output is sound: what it accepts is an interleaving of
   the threads' line sequences - every line once, intact, per-thread order kept *)
Theorem C03_merge_check_sound : forall obs ts, merge_check ts obs = true -> Merge ts obs.
Proof.
  induction obs as [|l r IH]; intros ts H; cbn [merge_check] in H.
  - apply merge_done. apply Forall_forall. intros t Ht. rewrite forallb_forall in H. specialize (H t Ht). destruct t; [reflexivity | discriminate].
  - destruct (take_line l ts) as [ts'|] eqn:E; [|discriminate].
    destruct (take_line_spec l ts ts' E) as [ts1 [r' [ts2 [-> ->]]]]. apply merge_step. apply IH. exact H.
Qed.

(* an interleaving loses and invents nothing: it has exactly as many lines as the threads logged *)
Theorem C03_merge_length : forall ts m, Merge ts m -> length m = length (concat ts).
Proof.
  induction 1 as [ts Hall | ts1 x r ts2 m HM IH].
  - assert (E : concat ts = []) by (induction ts as [|t ts IHt]; [reflexivity|]; inversion Hall as [|? ? Ht Hr]; subst; cbn; apply IHt; exact Hr).
    rewrite E. reflexivity.
  - cbn [length]. rewrite IH. rewrite !concat_app. cbn [concat]. repeat rewrite app_length. cbn [length app]. lia.
Qed.

(* the synchronous file writer serialises the threads' write_buffer calls (state mutex): a schedule of N threads
   is one sequential history whose records are an interleaving m of the threads' sequences; for Numbers naming, every
   criterion, buffer capacity: the files then hold exactly concat m - each line intact, once, in that order *)
Theorem C03_sync_numbers :
  forall c crit t0 off ts m, numcfg c crit -> Merge ts m ->
    exists files, reads c (wfs (s_w (fst (run (sys0 t0 off) (OStart c :: List.map OWrite m ++ [OStop]))))) files
      /\ concat files = concat m.
Proof.
  intros c crit t0 off ts m Hc _.
  assert (Hb : Forall basic_op (List.map OWrite m)) by (apply Forall_forall; intros o Ho; apply in_map_iff in Ho; destruct Ho as [b [<- _]]; exact Logic.I).
  destruct (numbers_stream c crit t0 off (List.map OWrite m) Hc Hb) as [files [R E]]. exists files. split; [exact R|].
  rewrite E. clear. induction m as [|b m IH]; [reflexivity|]. cbn [List.map written concat]. rewrite <- IH. reflexivity.
Qed.

Check C03_merge_check_sound. Check C03_merge_length. Check C03_sync_numbers.
Print Assumptions C03_merge_check_sound.
Print Assumptions C03_sync_numbers.

(* ------------------------------------------------------------------ the other naming schemes, the asynchronous writer *)
Require Import FL.Flw.NumDInv FL.Flw.NumDRun FL.Flw.NumDTheorems FL.Flw.TsTime FL.Flw.TsNames FL.Flw.TsInv FL.Flw.TsRun
  FL.Flw.TsTheorems FL.Flw.TsdInv FL.Flw.TsdRun FL.Flw.TsdTheorems FL.Flw.NumAsync FL.Flw.NumDAsync FL.Flw.TsdAsync FL.Flw.TsAsync
  FL.Flw.AsyncMerge.

(* C03_sync_numbers for NumbersDirect naming: r00000, r00001, ... hold exactly concat m *)
Theorem C03_sync_numbersdirect :
  forall c crit t0 off ts m, numdcfg c crit -> Merge ts m ->
    exists files, direct_view c (wfs (s_w (fst (run (sys0 t0 off) (OStart c :: List.map OWrite m ++ [OStop]))))) files
      /\ concat files = concat m.
Proof.
  intros c crit t0 off ts m Hc _.
  destruct (numbersdirect_stream c crit t0 off (List.map OWrite m) Hc (basic_writes m)) as [files [R E]]. exists files.
  split; [exact R|]. rewrite E. apply written_writes.
Qed.

(* ... for TimestampsDirect naming: the files named by the keys (time stamp, restart number), in the order of the keys *)
Theorem C03_sync_timestampsdirect :
  forall c crit t0 off ts m, tsdcfg c crit -> tag_ok c -> Merge ts m ->
    (0 <= t0 + ts_e c off)%Z -> (t0 + ts_e c off < sec_max)%Z -> (N.of_nat (length m) <= usize_max)%N ->
    exists keys files,
      tsd_view c (ts_e c off) (wfs (s_w (fst (run (sys0 t0 off) (OStart c :: List.map OWrite m ++ [OStop]))))) keys files
      /\ concat files = concat m /\ keys_ok keys /\ (forall k, In k keys -> fst k = t0).
Proof.
  intros c crit t0 off ts m Hc T _ Hlo Hhi Hmax.
  assert (Hhi' : (t0 + elapsed (List.map OWrite m) + ts_e c off < sec_max)%Z) by (rewrite elapsed_writes; lia).
  assert (Hmax' : (N.of_nat (length (List.map OWrite m)) <= usize_max)%N) by (rewrite map_length; exact Hmax).
  destruct (timestampsdirect_stream_view c crit t0 off _ Hc T (basic_writes m) (tick_ok_writes m) Hlo Hhi' Hmax') as [keys [files [V [E [K Rg]]]]].
  exists keys, files. split; [exact V|]. split; [rewrite E; apply written_writes|]. split; [exact K|].
  intros k Hk. specialize (Rg k Hk). rewrite elapsed_writes in Rg. lia.
Qed.

(* ... for Timestamps naming: the closed files in the order of their keys, then rCURRENT *)
Theorem C03_sync_timestamps :
  forall c crit t0 off ts m, tscfg c crit -> tag_ok c -> Merge ts m ->
    (0 <= t0 + ts_e c off)%Z -> (t0 + ts_e c off < sec_max)%Z -> (N.of_nat (length m) <= usize_max)%N ->
    let f := wfs (s_w (fst (run (sys0 t0 off) (OStart c :: List.map OWrite m ++ [OStop])))) in
    (names f = [] /\ concat m = [])
    \/ exists keys closed cur, ts_view c (ts_e c off) f keys closed cur
         /\ concat closed ++ cur = concat m /\ keys_ok keys /\ (forall k, In k keys -> fst k = t0).
Proof.
  intros c crit t0 off ts m Hc T _ Hlo Hhi Hmax. cbv zeta.
  assert (Hhi' : (t0 + elapsed (List.map OWrite m) + ts_e c off < sec_max)%Z) by (rewrite elapsed_writes; lia).
  assert (Hmax' : (N.of_nat (length (List.map OWrite m)) <= usize_max)%N) by (rewrite map_length; exact Hmax).
  destruct (timestamps_stream c crit t0 off _ Hc T (basic_writes m) (tick_ok_writes m) Hlo Hhi' Hmax') as [[N0 W0] | [keys [closed [cur [V [E [K Rg]]]]]]].
  - left. split; [exact N0|]. rewrite <- written_writes. exact W0.
  - right. exists keys, closed, cur. split; [exact V|]. split; [rewrite E; apply written_writes|]. split; [exact K|].
    intros k Hk. specialize (Rg k Hk). rewrite elapsed_writes in Rg. lia.
Qed.

(* The schedules made explicit (Flw/AsyncMerge.v).  Synchronous writer: the order in which the threads get the state
   mutex (sync_conc, locked).  ASYNCHRONOUS writer: events "thread t sends its next record into the FIFO channel" and
   "the writer thread takes the oldest message and writes it", in any order - the writer thread may lag behind -, then
   the writer is dropped (async_conc); m = fst (sent ts evs) is the order of the sends.  For every schedule the files
   hold exactly concat m, and when all threads have finished m is an interleaving of the threads' sequences: every
   record exactly once, intact, each thread's records in their order. *)
From Coq Require Import Permutation.
(* every configuration: the asynchronous system under any schedule ends in the world of the sequential run of the send order *)
Theorem C03_async_schedule_is_sequential c t0 off ts evs :
  async_conc c t0 off ts evs = fst (run (sys0 t0 off) (OStart c :: List.map OWrite (fst (sent ts evs)) ++ [OStop])).
Proof. exact (async_schedule_run c t0 off ts evs). Qed.
Theorem C03_async_send_order_is_merge : forall evs ts m tf, sent ts evs = (m, tf) -> all_done tf = true -> Merge ts m.
Proof. exact sent_merge. Qed.
Theorem C03_async_numbers c crit t0 off ts evs :
  numacfg c crit ->
  let m := fst (sent ts evs) in
  (exists files, reads c (wfs (s_w (async_conc c t0 off ts evs))) files /\ concat files = concat m)
  /\ (all_done (snd (sent ts evs)) = true -> Merge ts m /\ Permutation m (concat ts)).
Proof. exact (async_merge_numbers c crit t0 off ts evs). Qed.
Check C03_async_schedule_is_sequential. Check C03_async_send_order_is_merge.
Print Assumptions C03_async_schedule_is_sequential.
Print Assumptions C03_async_send_order_is_merge.
Definition C03_async_numbersdirect := async_merge_numbersdirect.
Definition C03_async_timestampsdirect := async_merge_timestampsdirect.
Definition C03_async_timestamps := async_merge_timestamps.
Definition C03_sched_numbers := sync_merge_numbers.
Definition C03_sched_numbersdirect := sync_merge_numbersdirect.
Definition C03_sched_timestampsdirect := sync_merge_timestampsdirect.
Definition C03_sched_timestamps := sync_merge_timestamps.

Check C03_async_numbers. Check C03_async_numbersdirect. Check C03_async_timestampsdirect. Check C03_async_timestamps.
Print Assumptions C03_sync_numbersdirect.
Print Assumptions C03_sync_timestampsdirect.
Print Assumptions C03_sync_timestamps.
Print Assumptions C03_async_numbers.
Print Assumptions C03_async_numbersdirect.
Print Assumptions C03_async_timestampsdirect.
Print Assumptions C03_async_timestamps.
