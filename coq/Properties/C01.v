(* C01 - the rotated stream is complete, duplicate-free and in order.  Statements only. *)
Require Import FL.Base.Bytes FL.Fs.Fs FL.Names.FileSpec FL.Flw.Model FL.Flw.Run FL.Flw.NumInv FL.Flw.NumRun
  FL.Oracles.O_Flw FL.Flw.NumTheorems.

(* Numbers naming, every criterion (size, age, age-or-size), every buffer capacity, append on or off, every
   history of writes / raw chunks / flushes / triggered rotations / clock ticks from an empty directory:
   after the writer is stopped the directory holds exactly r00000 .. r(k-1) and rCURRENT, and read in this
   order they yield exactly the written bytes, once, in order. *)
Theorem C01_stream_numbers :
  forall c crit t0 off ops,
    numcfg c crit -> Forall basic_op ops ->
    exists files, reads c (wfs (s_w (fst (run (sys0 t0 off) (OStart c :: ops ++ [OStop]))))) files
      /\ concat files = written ops.
Proof. exact numbers_stream. Qed.

Theorem C01_oracle_sound :
  forall start its files, oracle_C01 start its files = true ->
    concat files = (match start with Some s => s | None => [] end) ++ recs_of its.
Proof. intros start its files H. apply BytesFacts.beq_eq. exact H. Qed.

Require Import FL.Flw.NumDInv FL.Flw.NumDRun FL.Flw.NumDTheorems.
(* the same for NumbersDirect naming (no rCURRENT: r00000, r00001, ... are written directly) *)
Theorem C01_stream_numbersdirect c crit t0 off ops :
  numdcfg c crit -> Forall basic_op ops ->
  exists files, direct_view c (wfs (s_w (fst (run (sys0 t0 off) (OStart c :: ops ++ [OStop]))))) files
    /\ concat files = written ops.
Proof. exact (numbersdirect_stream c crit t0 off ops). Qed.

Require Import FL.Flw.NumRestart FL.Flw.TsTime FL.Flw.TsNames FL.Flw.TsInv FL.Flw.TsRun FL.Flw.TsTheorems FL.Flw.TsReader FL.Oracles.ReaderOrder.
(* Timestamps naming (rCURRENT; a closed file is named by the second in which it was started, made collision-free by
   .restart-NNNN): every criterion, buffer capacity, append flag, local time or UTC, every history in which the clock does not go
   backwards, up to the year 9999: the closed files - named by pairwise distinct keys (second, position within the second) that
   increase in closing order - and rCURRENT hold exactly the written bytes (hypothesis tag_ok: neither the fixed name part nor the
   suffix contains a time stamp infix followed by ".restart-", and the suffix does not start with "restart-"; a basename like
   "a.restart-7" is fine; the condition on the start of the suffix is shown necessary by an example in Flw/TsTheorems.v) *)
Theorem C01_stream_timestamps c crit t0 off ops :
  tscfg c crit -> tag_ok c -> Forall basic_op ops -> Forall tick_ok ops ->
  (0 <= t0 + ts_e c off)%Z -> (t0 + elapsed ops + ts_e c off < sec_max)%Z -> (N.of_nat (length ops) <= usize_max)%N ->
  let f := wfs (s_w (fst (run (sys0 t0 off) (OStart c :: ops ++ [OStop])))) in
  (names f = [] /\ written ops = [])
  \/ exists keys closed cur,
       ts_view c (ts_e c off) f keys closed cur
       /\ concat closed ++ cur = written ops
       /\ keys_ok keys
       /\ (forall k, In k keys -> (t0 <= fst k <= t0 + elapsed ops)%Z).
Proof. exact (timestamps_stream c crit t0 off ops). Qed.

(* ... and the reader of the executable oracle (files ordered by parsed infix) reads them in exactly that order *)
Theorem C01_reader_timestamps c crit t0 off ops :
  tscfg c crit -> tag_ok c -> not_gz c -> Forall basic_op ops -> Forall tick_ok ops ->
  (0 <= t0 + ts_e c off)%Z -> (t0 + elapsed ops + ts_e c off < sec_max)%Z -> (N.of_nat (length ops) <= usize_max)%N ->
  let x := fst (run (sys0 t0 off) (OStart c :: ops ++ [OStop])) in
  concat (family_in_order c (snap_of x)) = written ops
  /\ ((names (wfs (s_w x)) = [] /\ family_in_order c (snap_of x) = [])
      \/ exists keys closed cur, ts_view c (ts_e c off) (wfs (s_w x)) keys closed cur /\ keys_ok keys
                                 /\ family_in_order c (snap_of x) = closed ++ [cur]).
Proof. exact (timestamps_reader c crit t0 off ops). Qed.

Require Import FL.Flw.TsdInv FL.Flw.TsdRun FL.Flw.TsdTheorems.
(* TimestampsDirect naming (no rCURRENT: each file carries the second in which it was started): the same *)
Theorem C01_stream_timestampsdirect c crit t0 off ops :
  tsdcfg c crit -> tag_ok c -> Forall basic_op ops -> Forall tick_ok ops ->
  (0 <= t0 + ts_e c off)%Z -> (t0 + elapsed ops + ts_e c off < sec_max)%Z -> (N.of_nat (length ops) <= usize_max)%N ->
  let f := wfs (s_w (fst (run (sys0 t0 off) (OStart c :: ops ++ [OStop])))) in
  (names f = [] /\ written ops = [])
  \/ exists keys files,
       files <> []
       /\ tsd_view c (ts_e c off) f keys files
       /\ concat files = written ops
       /\ keys_ok keys
       /\ (forall k, In k keys -> (t0 <= fst k <= t0 + elapsed ops)%Z).
Proof. exact (timestampsdirect_stream c crit t0 off ops). Qed.

(* ... and the oracle's reader reads them in that order *)
Theorem C01_reader_timestampsdirect c crit t0 off ops :
  tsdcfg c crit -> tag_ok c -> not_gz c -> Forall basic_op ops -> Forall tick_ok ops ->
  (0 <= t0 + ts_e c off)%Z -> (t0 + elapsed ops + ts_e c off < sec_max)%Z -> (N.of_nat (length ops) <= usize_max)%N ->
  let x := fst (run (sys0 t0 off) (OStart c :: ops ++ [OStop])) in
  concat (family_in_order c (snap_of x)) = written ops
  /\ exists keys files, tsd_view c (ts_e c off) (wfs (s_w x)) keys files /\ keys_ok keys
                        /\ (forall k, In k keys -> (t0 <= fst k <= t0 + elapsed ops)%Z)
                        /\ family_in_order c (snap_of x) = files.
Proof. exact (timestampsdirect_reader c crit t0 off ops). Qed.

Check C01_stream_numbers.
Print Assumptions C01_stream_numbers.
Print Assumptions C01_oracle_sound.
Check C01_stream_numbersdirect.
Print Assumptions C01_stream_numbersdirect.
Check C01_stream_timestamps.
Print Assumptions C01_stream_timestamps.
Check C01_reader_timestamps.
Print Assumptions C01_reader_timestamps.
Check C01_stream_timestampsdirect.
Print Assumptions C01_stream_timestampsdirect.
Check C01_reader_timestampsdirect.
Print Assumptions C01_reader_timestampsdirect.
