(* C01 - the rotated stream is complete, duplicate-free and in order.  Statements only. *)
Require Import FL.Base.Bytes FL.Fs.Fs FL.Names.FileSpec FL.Flw.Model FL.Flw.Run FL.Flw.NumInv FL.Flw.NumRun
  FL.Oracles.O_Flw FL.Flw.NumTheorems.

(* Numbers naming, every criterion (size, age, age-or-size), every buffer capacity, append on or off, every
   history of writes / raw chunks / flushes / triggered rotations / clock ticks from an empty directory:
   after the writer is stopped the directory holds exactly r00000 .. r(k-1) and rCURRENT, and read in this
   order they yield exactly the written bytes, once, in order. *)
Theorem C01_stream_numbers :
  forall c crit t0 off ops,
    numcfg c crit -> Forall basic_op ops ->
    exists files, reads c (wfs (s_w (fst (run (sys0 t0 off) (OStart c :: ops ++ [OStop]))))) files
      /\ concat files = written ops.
Proof. exact numbers_stream. Qed.

Theorem C01_oracle_sound :
  forall start its files, oracle_C01 start its files = true ->
    concat files = (match start with Some s => s | None => [] end) ++ recs_of its.
Proof. intros start its files H. apply BytesFacts.beq_eq. exact H. Qed.

Require Import FL.Flw.NumDInv FL.Flw.NumDRun FL.Flw.NumDTheorems.
(* the same for NumbersDirect naming (no rCURRENT: r00000, r00001, ... are written directly) *)
Theorem C01_stream_numbersdirect c crit t0 off ops :
  numdcfg c crit -> Forall basic_op ops ->
  exists files, direct_view c (wfs (s_w (fst (run (sys0 t0 off) (OStart c :: ops ++ [OStop]))))) files
    /\ concat files = written ops.
Proof. exact (numbersdirect_stream c crit t0 off ops). Qed.

Check C01_stream_numbers.
Print Assumptions C01_stream_numbers.
Print Assumptions C01_oracle_sound.
Check C01_stream_numbersdirect.
Print Assumptions C01_stream_numbersdirect.
