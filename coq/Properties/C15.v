(* C15 - contents independent of the write mode.  Statements only. *)
Require Import FL.Base.Bytes FL.Fs.Fs FL.Names.FileSpec FL.Flw.Model FL.Flw.Run FL.Flw.NumInv FL.Flw.NumRun
  FL.Oracles.O_Flw FL.Flw.NumTheorems.

(* two configurations that differ in nothing but the buffer capacity (Direct = no buffer) leave, after the same
   operations, directories that read as the same list of files with the same contents: the greedy partition of the
   written records and chunks, which does not mention the capacity *)
Theorem C15_modes_numbers :
  forall c1 c2 m t0 off ops,
    numcfg c1 (CSize m) -> numcfg c2 (CSize m) -> Forall basic_op ops ->
    exists files,
      reads c1 (wfs (s_w (fst (run (sys0 t0 off) (OStart c1 :: ops ++ [OStop]))))) files
      /\ reads c2 (wfs (s_w (fst (run (sys0 t0 off) (OStart c2 :: ops ++ [OStop]))))) files.
Proof.
  intros c1 c2 m t0 off ops H1 H2 Hb. exists (expected_files m None (items false ops)).
  split; apply numbers_partition; assumption.
Qed.

(* raw chunks written through io::Write (OPlain) and records arrive unchanged: the stream is their concatenation *)
Theorem C15_raw_numbers :
  forall c crit t0 off ops,
    numcfg c crit -> Forall basic_op ops ->
    exists files, reads c (wfs (s_w (fst (run (sys0 t0 off) (OStart c :: ops ++ [OStop]))))) files
      /\ concat files = written ops.
Proof. exact numbers_stream. Qed.

Check C15_modes_numbers. Check C15_raw_numbers.
Print Assumptions C15_modes_numbers.
Print Assumptions C15_raw_numbers.

(* ------------------------------------------------------------------ the asynchronous mode *)
(* C15 - contents independent of the write mode: the ASYNCHRONOUS mode.  Statements only (proofs: Flw/NumAsync.v,
   Flw/AsyncSim.v).  In the model every message to the writer thread is consumed before the next operation starts
   (the scheduling assumption of the model and of the test harness). *)
Require Import FL.Base.Bytes FL.Fs.Fs FL.Names.FileSpec FL.Flw.Model FL.Flw.ModelFacts FL.Flw.Run FL.Flw.NumInv FL.Flw.NumRun
  FL.Oracles.O_Flw FL.Flw.NumTheorems FL.Flw.NumKillRestart FL.Flw.NumAsync FL.Flw.AsyncSim.

(* Direct / buffered / asynchronous: the same operations leave directories that read as the same list of files, the
   greedy partition of the written records and chunks *)
Theorem C15_modes_numbers_async :
  forall ca cs m t0 off ops,
    numacfg ca (CSize m) -> numcfg cs (CSize m) -> Forall basic_op ops ->
    exists files,
      reads ca (wfs (s_w (fst (run (sys0 t0 off) (OStart ca :: ops ++ [OStop]))))) files
      /\ reads cs (wfs (s_w (fst (run (sys0 t0 off) (OStart cs :: ops ++ [OStop]))))) files.
Proof. exact async_sync_same_files. Qed.

(* any criterion: the stream *)
Theorem C15_raw_numbers_async :
  forall c crit t0 off ops,
    numacfg c crit -> Forall basic_op ops ->
    exists files, reads c (wfs (s_w (fst (run (sys0 t0 off) (OStart c :: ops ++ [OStop]))))) files
      /\ concat files = written ops.
Proof. exact async_numbers_stream. Qed.

(* the asynchronous writer and the synchronous writer of the same capacity go through the very same worlds (file
   system, clock, error channel), with and without the final drop; the caller's observations differ in the rotation
   flag only, which the asynchronous caller never sees *)
Theorem C15_worlds_numbers_async :
  forall c crit t0 off ops,
    numacfg c crit -> Forall basic_op ops ->
    let ra := run (sys0 t0 off) (OStart c :: ops) in
    let rs := run (sys0 t0 off) (OStart (sync_of c) :: ops) in
    let ra' := run (sys0 t0 off) (OStart c :: ops ++ [OStop]) in
    let rs' := run (sys0 t0 off) (OStart (sync_of c) :: ops ++ [OStop]) in
    s_w (fst ra) = s_w (fst rs) /\ snd ra = List.map no_rot (snd rs)
    /\ s_w (fst ra') = s_w (fst rs') /\ snd ra' = List.map no_rot (snd rs').
Proof. exact async_worlds_numbers. Qed.

(* every configuration (any naming, criterion, cleanup): as long as the synchronous run returns normal results *)
Theorem C15_async_simulates_sync :
  forall c t0 off ops,
    c_async c = true -> Forall basic_op ops ->
    let ra := run (sys0 t0 off) (OStart c :: ops) in
    let rs := run (sys0 t0 off) (OStart (sync_of c) :: ops) in
    Forall obs_ok (snd rs) ->
    (s_w (fst ra) = s_w (fst rs) /\ snd ra = List.map no_rot (snd rs) /\ s_dead (fst ra) = false)
    /\ (quiet (s_w (fst rs)) ->
        let ra' := run (sys0 t0 off) (OStart c :: ops ++ [OStop]) in
        let rs' := run (sys0 t0 off) (OStart (sync_of c) :: ops ++ [OStop]) in
        s_w (fst ra') = s_w (fst rs') /\ snd ra' = List.map no_rot (snd rs')
        /\ s_flw (fst ra') = None /\ s_dead (fst ra') = true).
Proof. exact async_sim_whole. Qed.

(* what the caller of an asynchronous writer observes *)
Theorem C15_async_observations :
  forall c crit t0 off ops,
    numacfg c crit -> Forall basic_op ops ->
    let r := run (sys0 t0 off) (OStart c :: ops ++ [OStop]) in
    Forall2 aobs (OStart c :: ops ++ [OStop]) (snd r)
    /\ s_flw (fst r) = None /\ s_dead (fst r) = true /\ pending (fst r) = [].
Proof. exact async_observations. Qed.

Check C15_modes_numbers_async. Check C15_raw_numbers_async. Check C15_worlds_numbers_async.
Check C15_async_simulates_sync. Check C15_async_observations.
Print Assumptions C15_modes_numbers_async.
Print Assumptions C15_raw_numbers_async.
Print Assumptions C15_worlds_numbers_async.
Print Assumptions C15_async_simulates_sync.
Print Assumptions C15_async_observations.

(* ------------------------------------------------------------------ the other three naming schemes, every write mode *)
(* C15 for NumbersDirect, TimestampsDirect and Timestamps naming: Direct, BufWriter of any capacity, asynchronous with either.
   Statements only (proofs: Flw/AsyncTransfer.v, Flw/NumDAsync.v, Flw/TsdAsync.v, Flw/TsAsync.v).
   same_but_mode c1 c2: the configurations differ in c_cap / c_async only.  numdmcfg / tsdmcfg / tsmcfg: the family of the
   naming scheme (no cleanup, no start-time part, no symlink), ANY mode.  For the time-stamp namings the file NAMES depend on
   the clock at the rotations; they are given by the keys tsd_keys / ts_keys m t0 ops, functions of the history and the clock
   (asynchronous mode: the writer thread rotates when it handles the message - under the schedule-point synchronisation of the
   model and of the test harness that is the same instant of the model clock). *)
Require Import FL.Time.Civil FL.Flw.NumDInv FL.Flw.NumDRun FL.Flw.NumDTheorems FL.Flw.TsCal FL.Flw.TsTime FL.Flw.TsNames FL.Flw.TsInv
  FL.Flw.TsRun FL.Flw.TsTheorems FL.Flw.TsdInv FL.Flw.TsdRun FL.Flw.TsdTheorems FL.Flw.NoPanic
  FL.Flw.AsyncTransfer FL.Flw.NumDAsync FL.Flw.TsdAsync FL.Flw.TsAsync.

(* NumbersDirect: the same files r00000 .. r(n) with the same contents (the greedy partition), nothing else *)
Theorem C15_modes_numbersdirect :
  forall c1 c2 m t0 off ops,
    same_but_mode c1 c2 -> numdmcfg c1 (CSize m) -> Forall basic_op ops ->
    let f1 := wfs (s_w (fst (run (sys0 t0 off) (OStart c1 :: ops ++ [OStop])))) in
    let f2 := wfs (s_w (fst (run (sys0 t0 off) (OStart c2 :: ops ++ [OStop])))) in
    exists files, direct_view c1 f1 files /\ direct_view c1 f2 files /\ direct_view c2 f2 files
      /\ files = expected_files m None (items false ops).
Proof. exact numd_modes. Qed.

(* TimestampsDirect: the same files, named by the keys tsd_keys m t0 ops, with the same contents, nothing else *)
Theorem C15_modes_timestampsdirect :
  forall c1 c2 m t0 off ops,
    same_but_mode c1 c2 -> tsdmcfg c1 (CSize m) -> tag_ok c1 -> Forall basic_op ops -> Forall tick_ok ops ->
    (0 <= t0 + ts_e c1 off)%Z -> (t0 + elapsed ops + ts_e c1 off < sec_max)%Z -> (N.of_nat (length ops) <= usize_max)%N ->
    let f1 := wfs (s_w (fst (run (sys0 t0 off) (OStart c1 :: ops ++ [OStop])))) in
    let f2 := wfs (s_w (fst (run (sys0 t0 off) (OStart c2 :: ops ++ [OStop])))) in
    let keys := tsd_keys m t0 ops in
    let files := expected_files m None (items false ops) in
    tsd_view c1 (ts_e c1 off) f1 keys files /\ tsd_view c1 (ts_e c1 off) f2 keys files /\ tsd_view c2 (ts_e c2 off) f2 keys files
    /\ keys_ok keys /\ (forall k, In k keys -> (t0 <= fst k <= t0 + elapsed ops)%Z).
Proof. exact tsd_modes. Qed.

(* Timestamps: the same closed files, named by the keys ts_keys m t0 ops, and rCURRENT, with the same contents *)
Theorem C15_modes_timestamps :
  forall c1 c2 m t0 off ops,
    same_but_mode c1 c2 -> tsmcfg c1 (CSize m) -> tag_ok c1 -> Forall basic_op ops -> Forall tick_ok ops ->
    (0 <= t0 + ts_e c1 off)%Z -> (t0 + elapsed ops + ts_e c1 off < sec_max)%Z -> (N.of_nat (length ops) <= usize_max)%N ->
    let f1 := wfs (s_w (fst (run (sys0 t0 off) (OStart c1 :: ops ++ [OStop])))) in
    let f2 := wfs (s_w (fst (run (sys0 t0 off) (OStart c2 :: ops ++ [OStop])))) in
    let keys := ts_keys m t0 ops in
    let a := s_run m None ops in
    ts_dir c1 (ts_e c1 off) f1 keys a /\ ts_dir c1 (ts_e c1 off) f2 keys a /\ ts_dir c2 (ts_e c2 off) f2 keys a
    /\ files_of a = expected_files m None (items false ops)
    /\ keys_ok keys /\ (forall k, In k keys -> (t0 <= fst k <= t0 + elapsed ops)%Z).
Proof. exact ts_modes. Qed.

(* the asynchronous mode: stream (any criterion) and partition (size criterion) *)
Theorem C15_raw_numbersdirect_async :
  forall c crit t0 off ops,
    numdacfg c crit -> Forall basic_op ops ->
    exists files, direct_view c (wfs (s_w (fst (run (sys0 t0 off) (OStart c :: ops ++ [OStop]))))) files
      /\ concat files = written ops.
Proof. exact async_numd_stream. Qed.

Theorem C15_partition_numbersdirect_async :
  forall c m t0 off ops,
    numdacfg c (CSize m) -> Forall basic_op ops ->
    direct_view c (wfs (s_w (fst (run (sys0 t0 off) (OStart c :: ops ++ [OStop]))))) (expected_files m None (items false ops)).
Proof. exact async_numd_partition. Qed.

Theorem C15_raw_timestampsdirect_async :
  forall c crit t0 off ops,
    tsdacfg c crit -> tag_ok c -> Forall basic_op ops -> Forall tick_ok ops ->
    (0 <= t0 + ts_e c off)%Z -> (t0 + elapsed ops + ts_e c off < sec_max)%Z -> (N.of_nat (length ops) <= usize_max)%N ->
    exists keys files,
      tsd_view c (ts_e c off) (wfs (s_w (fst (run (sys0 t0 off) (OStart c :: ops ++ [OStop]))))) keys files
      /\ concat files = written ops /\ keys_ok keys
      /\ (forall k, In k keys -> (t0 <= fst k <= t0 + elapsed ops)%Z).
Proof. exact async_tsd_stream. Qed.

Theorem C15_partition_timestampsdirect_async :
  forall c m t0 off ops,
    tsdacfg c (CSize m) -> tag_ok c -> Forall basic_op ops -> Forall tick_ok ops ->
    (0 <= t0 + ts_e c off)%Z -> (t0 + elapsed ops + ts_e c off < sec_max)%Z -> (N.of_nat (length ops) <= usize_max)%N ->
    tsd_view c (ts_e c off) (wfs (s_w (fst (run (sys0 t0 off) (OStart c :: ops ++ [OStop]))))) (tsd_keys m t0 ops)
             (expected_files m None (items false ops))
    /\ keys_ok (tsd_keys m t0 ops) /\ (forall k, In k (tsd_keys m t0 ops) -> (t0 <= fst k <= t0 + elapsed ops)%Z).
Proof. exact async_tsd_partition. Qed.

Theorem C15_raw_timestamps_async :
  forall c crit t0 off ops,
    tsacfg c crit -> tag_ok c -> Forall basic_op ops -> Forall tick_ok ops ->
    (0 <= t0 + ts_e c off)%Z -> (t0 + elapsed ops + ts_e c off < sec_max)%Z -> (N.of_nat (length ops) <= usize_max)%N ->
    let f := wfs (s_w (fst (run (sys0 t0 off) (OStart c :: ops ++ [OStop])))) in
    (names f = [] /\ written ops = [])
    \/ exists keys closed cur,
         ts_view c (ts_e c off) f keys closed cur
         /\ concat closed ++ cur = written ops
         /\ keys_ok keys
         /\ (forall k, In k keys -> (t0 <= fst k <= t0 + elapsed ops)%Z).
Proof. exact async_ts_stream. Qed.

Theorem C15_partition_timestamps_async :
  forall c m t0 off ops,
    tsacfg c (CSize m) -> tag_ok c -> Forall basic_op ops -> Forall tick_ok ops ->
    (0 <= t0 + ts_e c off)%Z -> (t0 + elapsed ops + ts_e c off < sec_max)%Z -> (N.of_nat (length ops) <= usize_max)%N ->
    ts_dir c (ts_e c off) (wfs (s_w (fst (run (sys0 t0 off) (OStart c :: ops ++ [OStop]))))) (ts_keys m t0 ops) (s_run m None ops)
    /\ files_of (s_run m None ops) = expected_files m None (items false ops)
    /\ keys_ok (ts_keys m t0 ops) /\ (forall k, In k (ts_keys m t0 ops) -> (t0 <= fst k <= t0 + elapsed ops)%Z).
Proof. exact async_ts_partition. Qed.

(* what the caller of an asynchronous writer observes *)
Theorem C15_async_observations_numbersdirect :
  forall c crit t0 off ops,
    numdacfg c crit -> Forall basic_op ops ->
    let r := run (sys0 t0 off) (OStart c :: ops ++ [OStop]) in
    Forall2 aobs (OStart c :: ops ++ [OStop]) (snd r)
    /\ s_flw (fst r) = None /\ s_dead (fst r) = true /\ pending (fst r) = [].
Proof. exact async_numd_observations. Qed.

Theorem C15_async_observations_timestampsdirect :
  forall c crit t0 off ops,
    tsdacfg c crit -> tag_ok c -> Forall basic_op ops -> Forall tick_ok ops ->
    (0 <= t0 + ts_e c off)%Z -> (t0 + elapsed ops + ts_e c off < sec_max)%Z -> (N.of_nat (length ops) <= usize_max)%N ->
    let r := run (sys0 t0 off) (OStart c :: ops ++ [OStop]) in
    Forall2 aobs (OStart c :: ops ++ [OStop]) (snd r)
    /\ s_flw (fst r) = None /\ s_dead (fst r) = true /\ pending (fst r) = [].
Proof. exact async_tsd_observations. Qed.

Theorem C15_async_observations_timestamps :
  forall c crit t0 off ops,
    tsacfg c crit -> tag_ok c -> Forall basic_op ops -> Forall tick_ok ops ->
    (0 <= t0 + ts_e c off)%Z -> (t0 + elapsed ops + ts_e c off < sec_max)%Z -> (N.of_nat (length ops) <= usize_max)%N ->
    let r := run (sys0 t0 off) (OStart c :: ops ++ [OStop]) in
    Forall2 aobs (OStart c :: ops ++ [OStop]) (snd r)
    /\ s_flw (fst r) = None /\ s_dead (fst r) = true /\ pending (fst r) = [].
Proof. exact async_ts_observations. Qed.

(* TimestampsDirect (not covered by AsyncSim.v): identical worlds of the asynchronous writer and the synchronous writer of
   the same capacity, any criterion *)
Theorem C15_worlds_timestampsdirect_async :
  forall c crit t0 off ops,
    tsdacfg c crit -> tag_ok c -> Forall basic_op ops -> Forall tick_ok ops ->
    (0 <= t0 + ts_e c off)%Z -> (t0 + elapsed ops + ts_e c off < sec_max)%Z -> (N.of_nat (length ops) <= usize_max)%N ->
    let ra := run (sys0 t0 off) (OStart c :: ops) in
    let rs := run (sys0 t0 off) (OStart (sync_of c) :: ops) in
    let ra' := run (sys0 t0 off) (OStart c :: ops ++ [OStop]) in
    let rs' := run (sys0 t0 off) (OStart (sync_of c) :: ops ++ [OStop]) in
    s_w (fst ra) = s_w (fst rs) /\ snd ra = List.map no_rot (snd rs)
    /\ s_w (fst ra') = s_w (fst rs') /\ snd ra' = List.map no_rot (snd rs').
Proof. exact async_tsd_worlds. Qed.

Check C15_modes_numbersdirect. Check C15_modes_timestampsdirect. Check C15_modes_timestamps.
Print Assumptions C15_modes_numbersdirect.
Print Assumptions C15_modes_timestampsdirect.
Print Assumptions C15_modes_timestamps.
Print Assumptions C15_raw_numbersdirect_async.
Print Assumptions C15_partition_numbersdirect_async.
Print Assumptions C15_raw_timestampsdirect_async.
Print Assumptions C15_partition_timestampsdirect_async.
Print Assumptions C15_raw_timestamps_async.
Print Assumptions C15_partition_timestamps_async.
Print Assumptions C15_async_observations_numbersdirect.
Print Assumptions C15_async_observations_timestampsdirect.
Print Assumptions C15_async_observations_timestamps.
Print Assumptions C15_worlds_timestampsdirect_async.

(* the same, literally: the two final directories are the same map from names to files (same_dir: kind and content under
   every name); for the time-stamp namings also the snapshots (names in sorted order, kind, content) are equal *)
Theorem C15_same_directory_numbersdirect :
  forall c1 c2 m t0 off ops,
    same_but_mode c1 c2 -> numdmcfg c1 (CSize m) -> Forall basic_op ops ->
    same_dir (wfs (s_w (fst (run (sys0 t0 off) (OStart c1 :: ops ++ [OStop])))))
             (wfs (s_w (fst (run (sys0 t0 off) (OStart c2 :: ops ++ [OStop]))))).
Proof. exact numd_modes_same_dir. Qed.

Theorem C15_same_directory_timestampsdirect :
  forall c1 c2 m t0 off ops,
    same_but_mode c1 c2 -> tsdmcfg c1 (CSize m) -> tag_ok c1 -> Forall basic_op ops -> Forall tick_ok ops ->
    (0 <= t0 + ts_e c1 off)%Z -> (t0 + elapsed ops + ts_e c1 off < sec_max)%Z -> (N.of_nat (length ops) <= usize_max)%N ->
    let x1 := fst (run (sys0 t0 off) (OStart c1 :: ops ++ [OStop])) in
    let x2 := fst (run (sys0 t0 off) (OStart c2 :: ops ++ [OStop])) in
    same_dir (wfs (s_w x1)) (wfs (s_w x2)) /\ FL.Flw.NumRestart.snap_of x1 = FL.Flw.NumRestart.snap_of x2.
Proof. exact tsd_modes_same_dir. Qed.

Theorem C15_same_directory_timestamps :
  forall c1 c2 m t0 off ops,
    same_but_mode c1 c2 -> tsmcfg c1 (CSize m) -> tag_ok c1 -> Forall basic_op ops -> Forall tick_ok ops ->
    (0 <= t0 + ts_e c1 off)%Z -> (t0 + elapsed ops + ts_e c1 off < sec_max)%Z -> (N.of_nat (length ops) <= usize_max)%N ->
    let x1 := fst (run (sys0 t0 off) (OStart c1 :: ops ++ [OStop])) in
    let x2 := fst (run (sys0 t0 off) (OStart c2 :: ops ++ [OStop])) in
    same_dir (wfs (s_w x1)) (wfs (s_w x2)) /\ FL.Flw.NumRestart.snap_of x1 = FL.Flw.NumRestart.snap_of x2.
Proof. exact ts_modes_same_dir. Qed.

Print Assumptions C15_same_directory_numbersdirect.
Print Assumptions C15_same_directory_timestampsdirect.
Print Assumptions C15_same_directory_timestamps.
