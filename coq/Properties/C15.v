(* C15 - contents independent of the write mode.  Statements only. *)
Require Import FL.Base.Bytes FL.Fs.Fs FL.Names.FileSpec FL.Flw.Model FL.Flw.Run FL.Flw.NumInv FL.Flw.NumRun
  FL.Oracles.O_Flw FL.Flw.NumTheorems.

(* two configurations that differ in nothing but the buffer capacity (Direct = no buffer) leave, after the same
   operations, directories that read as the same list of files with the same contents: the greedy partition of the
   written records and chunks, which does not mention the capacity *)
Theorem C15_modes_numbers :
  forall c1 c2 m t0 off ops,
    numcfg c1 (CSize m) -> numcfg c2 (CSize m) -> Forall basic_op ops ->
    exists files,
      reads c1 (wfs (s_w (fst (run (sys0 t0 off) (OStart c1 :: ops ++ [OStop]))))) files
      /\ reads c2 (wfs (s_w (fst (run (sys0 t0 off) (OStart c2 :: ops ++ [OStop]))))) files.
Proof.
  intros c1 c2 m t0 off ops H1 H2 Hb. exists (expected_files m None (items false ops)).
  split; apply numbers_partition; assumption.
Qed.

(* raw chunks written through io::Write (OPlain) and records arrive unchanged: the stream is their concatenation *)
Theorem C15_raw_numbers :
  forall c crit t0 off ops,
    numcfg c crit -> Forall basic_op ops ->
    exists files, reads c (wfs (s_w (fst (run (sys0 t0 off) (OStart c :: ops ++ [OStop]))))) files
      /\ concat files = written ops.
Proof. exact numbers_stream. Qed.

Check C15_modes_numbers. Check C15_raw_numbers.
Print Assumptions C15_modes_numbers.
Print Assumptions C15_raw_numbers.

(* ------------------------------------------------------------------ the asynchronous mode *)
(* C15 - contents independent of the write mode: the ASYNCHRONOUS mode.  Statements only (proofs: Flw/NumAsync.v,
   Flw/AsyncSim.v).  In the model every message to the writer thread is consumed before the next operation starts
   (the scheduling assumption of the model and of the test harness). *)
Require Import FL.Base.Bytes FL.Fs.Fs FL.Names.FileSpec FL.Flw.Model FL.Flw.ModelFacts FL.Flw.Run FL.Flw.NumInv FL.Flw.NumRun
  FL.Oracles.O_Flw FL.Flw.NumTheorems FL.Flw.NumKillRestart FL.Flw.NumAsync FL.Flw.AsyncSim.

(* Direct / buffered / asynchronous: the same operations leave directories that read as the same list of files, the
   greedy partition of the written records and chunks *)
Theorem C15_modes_numbers_async :
  forall ca cs m t0 off ops,
    numacfg ca (CSize m) -> numcfg cs (CSize m) -> Forall basic_op ops ->
    exists files,
      reads ca (wfs (s_w (fst (run (sys0 t0 off) (OStart ca :: ops ++ [OStop]))))) files
      /\ reads cs (wfs (s_w (fst (run (sys0 t0 off) (OStart cs :: ops ++ [OStop]))))) files.
Proof. exact async_sync_same_files. Qed.

(* any criterion: the stream *)
Theorem C15_raw_numbers_async :
  forall c crit t0 off ops,
    numacfg c crit -> Forall basic_op ops ->
    exists files, reads c (wfs (s_w (fst (run (sys0 t0 off) (OStart c :: ops ++ [OStop]))))) files
      /\ concat files = written ops.
Proof. exact async_numbers_stream. Qed.

(* the asynchronous writer and the synchronous writer of the same capacity go through the very same worlds (file
   system, clock, error channel), with and without the final drop; the caller's observations differ in the rotation
   flag only, which the asynchronous caller never sees *)
Theorem C15_worlds_numbers_async :
  forall c crit t0 off ops,
    numacfg c crit -> Forall basic_op ops ->
    let ra := run (sys0 t0 off) (OStart c :: ops) in
    let rs := run (sys0 t0 off) (OStart (sync_of c) :: ops) in
    let ra' := run (sys0 t0 off) (OStart c :: ops ++ [OStop]) in
    let rs' := run (sys0 t0 off) (OStart (sync_of c) :: ops ++ [OStop]) in
    s_w (fst ra) = s_w (fst rs) /\ snd ra = List.map no_rot (snd rs)
    /\ s_w (fst ra') = s_w (fst rs') /\ snd ra' = List.map no_rot (snd rs').
Proof. exact async_worlds_numbers. Qed.

(* every configuration (any naming, criterion, cleanup): as long as the synchronous run returns normal results *)
Theorem C15_async_simulates_sync :
  forall c t0 off ops,
    c_async c = true -> Forall basic_op ops ->
    let ra := run (sys0 t0 off) (OStart c :: ops) in
    let rs := run (sys0 t0 off) (OStart (sync_of c) :: ops) in
    Forall obs_ok (snd rs) ->
    (s_w (fst ra) = s_w (fst rs) /\ snd ra = List.map no_rot (snd rs) /\ s_dead (fst ra) = false)
    /\ (quiet (s_w (fst rs)) ->
        let ra' := run (sys0 t0 off) (OStart c :: ops ++ [OStop]) in
        let rs' := run (sys0 t0 off) (OStart (sync_of c) :: ops ++ [OStop]) in
        s_w (fst ra') = s_w (fst rs') /\ snd ra' = List.map no_rot (snd rs')
        /\ s_flw (fst ra') = None /\ s_dead (fst ra') = true).
Proof. exact async_sim_whole. Qed.

(* what the caller of an asynchronous writer observes *)
Theorem C15_async_observations :
  forall c crit t0 off ops,
    numacfg c crit -> Forall basic_op ops ->
    let r := run (sys0 t0 off) (OStart c :: ops ++ [OStop]) in
    Forall2 aobs (OStart c :: ops ++ [OStop]) (snd r)
    /\ s_flw (fst r) = None /\ s_dead (fst r) = true /\ pending (fst r) = [].
Proof. exact async_observations. Qed.

Check C15_modes_numbers_async. Check C15_raw_numbers_async. Check C15_worlds_numbers_async.
Check C15_async_simulates_sync. Check C15_async_observations.
Print Assumptions C15_modes_numbers_async.
Print Assumptions C15_raw_numbers_async.
Print Assumptions C15_worlds_numbers_async.
Print Assumptions C15_async_simulates_sync.
Print Assumptions C15_async_observations.
