(* C15 - contents independent of the write mode.  Statements only. *)
Require Import FL.Base.Bytes FL.Fs.Fs FL.Names.FileSpec FL.Flw.Model FL.Flw.Run FL.Flw.NumInv FL.Flw.NumRun
  FL.Oracles.O_Flw FL.Flw.NumTheorems.

(* two configurations that differ in nothing but the buffer capacity (Direct = no buffer) leave, after the same
   operations, directories that read as the same list of files with the same contents: the greedy partition of the
   written records and chunks, which does not mention the capacity *)
Theorem C15_modes_numbers :
  forall c1 c2 m t0 off ops,
    numcfg c1 (CSize m) -> numcfg c2 (CSize m) -> Forall basic_op ops ->
    exists files,
      reads c1 (wfs (s_w (fst (run (sys0 t0 off) (OStart c1 :: ops ++ [OStop]))))) files
      /\ reads c2 (wfs (s_w (fst (run (sys0 t0 off) (OStart c2 :: ops ++ [OStop]))))) files.
Proof.
  intros c1 c2 m t0 off ops H1 H2 Hb. exists (expected_files m None (items false ops)).
  split; apply numbers_partition; assumption.
Qed.

(* raw chunks written through io::Write (OPlain) and records arrive unchanged: the stream is their concatenation *)
Theorem C15_raw_numbers :
  forall c crit t0 off ops,
    numcfg c crit -> Forall basic_op ops ->
    exists files, reads c (wfs (s_w (fst (run (sys0 t0 off) (OStart c :: ops ++ [OStop]))))) files
      /\ concat files = written ops.
Proof. exact numbers_stream. Qed.

Check C15_modes_numbers. Check C15_raw_numbers.
Print Assumptions C15_modes_numbers.
Print Assumptions C15_raw_numbers.
