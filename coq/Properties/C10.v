(* C10 - no panic.  Statements only. *)
Require Import FL.Base.Bytes FL.Fs.Fs FL.Names.FileSpec FL.LogSpec.Spec FL.LogSpec.Dispatch FL.LogSpec.DispatchFacts.

(* log() and enabled() return normally for every target (braces unbalanced, empty, multi-byte next to the braces),
   every record, specification and writer set: in the model every slice that could panic is explicit *)
Theorem C10_dispatch_total :
  forall rm lg r lvl t,
    (exists evs, log_record rm lg r = Done evs) /\ (exists b evs, enabled_query lg lvl t = Done (b, evs)).
Proof.
  intros rm lg r lvl t. split.
  - destruct (brace_target (r_target r)) eqn:B; [rewrite log_record_brace by exact B | rewrite log_record_plain by exact B]; eexists; reflexivity.
  - destruct (brace_target t) eqn:B; [rewrite enabled_query_brace by exact B | rewrite enabled_query_plain by exact B]; eexists; eexists; reflexivity.
Qed.

(* the directory listing and its filters return normally for every set of file names: no name, however short
   or with multi-byte characters at whatever position, makes them panic *)
Lemma filter_opt_total {A} (p : A -> option bool) (l : list A) : (forall x, p x <> None) -> filter_opt p l <> None.
Proof.
  intros H. induction l as [|x l IH]; cbn [filter_opt]; [discriminate|].
  destruct (p x) eqn:E; [|exfalso; apply (H x E)]. destruct (filter_opt p l); [discriminate | contradiction].
Qed.

Theorem C10_listing_total :
  forall off sp fixed f flt sel, existing_rot off sp fixed f flt sel <> None.
Proof.
  intros off sp fixed f flt sel. unfold existing_rot.
  assert (F : forall flt' sfx, filter_files off (fsfx sp) fixed (related_files f (fsfx sp) fixed) flt' sfx <> None).
  { intros flt' sfx. unfold filter_files. apply filter_opt_total. intros n.
    destruct (infix_candidate (fsfx sp) sfx fixed n); discriminate. }
  destruct (sel_custom sel) as [x|]; [destruct (sel_rcur sel && beq x cur_infix)|];
  destruct (sel_plain sel), (sel_gz sel), (sel_rcur sel);
    repeat match goal with
           | |- context [filter_files ?o ?s ?fx ?r ?fl ?sx] =>
             let E := fresh "E" in destruct (filter_files o s fx r fl sx) eqn:E; [|exfalso; exact (F _ _ E)]
           end; cbn [app_opt]; discriminate.
Qed.

Require Import FL.Flw.Run FL.Flw.NumInv FL.Flw.NumRun FL.Flw.NumDInv FL.Flw.NumDRun FL.Flw.TsTime FL.Flw.TsNames FL.Flw.TsInv FL.Flw.TsRun FL.Flw.TsTheorems FL.Flw.NumKillRestart FL.Flw.NumCleanupNames FL.Flw.NumCleanupStep FL.Flw.NumCleanupRun FL.Flw.NumCleanup FL.Flw.NoPanic.
(* no operation of any history panics or fails (model, Numbers naming; the same for the other proved namings below) *)
Theorem C10_numbers_no_panic c crit t0 off ops :
  numcfg c crit -> Forall basic_op ops ->
  Forall obs_ok (snd (run (sys0 t0 off) (OStart c :: ops ++ [OStop]))).
Proof. exact (numbers_no_panic c crit t0 off ops). Qed.

(* NumbersDirect naming *)
Theorem C10_numbersdirect_no_panic c crit t0 off ops :
  numdcfg c crit -> Forall basic_op ops ->
  Forall obs_ok (snd (run (sys0 t0 off) (OStart c :: ops ++ [OStop]))).
Proof. exact (numbersdirect_no_panic c crit t0 off ops). Qed.

(* Timestamps naming *)
Theorem C10_timestamps_no_panic c crit t0 off ops :
  tscfg c crit -> tag_ok c -> Forall basic_op ops -> Forall tick_ok ops ->
  (0 <= t0 + ts_e c off)%Z -> (t0 + elapsed ops + ts_e c off < sec_max)%Z -> (N.of_nat (length ops) <= usize_max)%N ->
  Forall obs_ok (snd (run (sys0 t0 off) (OStart c :: ops ++ [OStop]))).
Proof. exact (timestamps_no_panic c crit t0 off ops). Qed.

(* Numbers naming with a cleanup strategy *)
Theorem C10_numbers_cleanup_no_panic c crit k t0 off ops :
  numkcfg c crit k -> Forall basic_op ops ->
  kside c k (nclosed (a_run None ops (snd (run (fst (step (sys0 t0 off) (OStart c))) ops)))) ->
  Forall obs_ok (snd (run (sys0 t0 off) (OStart c :: ops ++ [OStop]))).
Proof. exact (numbers_cleanup_no_panic c crit k t0 off ops). Qed.

Check C10_dispatch_total. Check C10_listing_total.
Print Assumptions C10_dispatch_total.
Print Assumptions C10_listing_total.
Check C10_numbers_no_panic.
Print Assumptions C10_numbers_no_panic.
Check C10_numbersdirect_no_panic.
Print Assumptions C10_numbersdirect_no_panic.
Check C10_timestamps_no_panic.
Print Assumptions C10_timestamps_no_panic.
Check C10_numbers_cleanup_no_panic.
Print Assumptions C10_numbers_cleanup_no_panic.

Require Import FL.Flw.TsdInv FL.Flw.TsdRun FL.Flw.TsdNoPanic.
(* TimestampsDirect naming *)
Theorem C10_timestampsdirect_no_panic c crit t0 off ops :
  tsdcfg c crit -> tag_ok c -> Forall basic_op ops -> Forall tick_ok ops ->
  (0 <= t0 + ts_e c off)%Z -> (t0 + elapsed ops + ts_e c off < sec_max)%Z -> (N.of_nat (length ops) <= usize_max)%N ->
  Forall obs_ok (snd (run (sys0 t0 off) (OStart c :: ops ++ [OStop]))).
Proof. exact (timestampsdirect_no_panic c crit t0 off ops). Qed.
Check C10_timestampsdirect_no_panic.
Print Assumptions C10_timestampsdirect_no_panic.

Require Import FL.Flw.NumDCleanupStep FL.Flw.NumDCleanupRun FL.Flw.NumDCleanup.
(* NumbersDirect naming with a cleanup strategy *)
Theorem C10_numbersdirect_cleanup_no_panic c crit k t0 off ops :
  numdkcfg c crit k -> Forall basic_op ops ->
  dside c k (nclosed (a_run None ops (snd (run (fst (step (sys0 t0 off) (OStart c))) ops)))) ->
  Forall obs_ok (snd (run (sys0 t0 off) (OStart c :: ops ++ [OStop]))).
Proof. exact (numbersdirect_cleanup_no_panic c crit k t0 off ops). Qed.
Check C10_numbersdirect_cleanup_no_panic.
Print Assumptions C10_numbersdirect_cleanup_no_panic.

