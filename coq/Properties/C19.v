(* C19 - I/O failures.  Statements only. *)
Require Import FL.Base.Bytes FL.Fs.Fs FL.Names.FileSpec FL.Flw.Model FL.Flw.ModelFacts FL.Flw.Run FL.Flw.FaultFacts.

(* with an exhausted fault oracle (and no kill) the primitives are their fault-free versions: a write appends,
   a rename renames - so once operations succeed again the model is the fault-free model of the other theorems *)
Theorem C19_no_fault_no_failure :
  forall w i b, quiet w ->
    exists w', p_write w i b = (true, w') /\ wfs w' = append_ino (wfs w) i b /\ same_env w w'.
Proof. exact p_write_quiet. Qed.

(* a write that fails has no effect on the file system and consumes exactly one oracle entry *)
Theorem C19_failed_write_no_effect :
  forall w i b rest, b <> [] -> wfaults w = true :: rest ->
    p_write w i b = (false, set_faults w rest).
Proof.
  intros w i b rest Hb Hf. unfold p_write, tick. destruct b as [|x b]; [contradiction|]. rewrite Hf. reflexivity.
Qed.

(* History level, for a writer without rotation in direct mode: for EVERY fault sequence fl (one entry per
   file-system call: the open that a record needs while no file is open, and the write of each non-empty record)
   and EVERY list of records, every log call returns normally, the file holds exactly what the specification `sim`
   computes, and exactly that many failures are reported on the error channel *)
Theorem C19_faults_norotation :
  forall c t0 off fl recs, plaincfg c ->
    let w0 := set_faults (world0 t0 off) fl in
    let x := fst (run {| s_flw := None; s_w := w0; s_tl := []; s_dead := false |} (OStart c :: List.map OWrite recs)) in
    content_of (wfs (s_w x)) (the_name c) = fst (fst (sim false fl recs))
    /\ werrs (s_w x) = repeat EWrite (snd (fst (sim false fl recs)))
    /\ (forall o, In o (snd (run {| s_flw := None; s_w := w0; s_tl := []; s_dead := false |} (OStart c :: List.map OWrite recs))) ->
          o = ObsRes 0%N false).
Proof. exact faults_norotation. Qed.

(* what `sim` says: only records during whose handling a failure was injected are missing (the file is the
   concatenation of a subsequence of the records), and each missing record is counted as one reported failure *)
Theorem C19_lost_only_failed : forall opened fl recs,
  exists kept, Subseq kept recs /\ fst (fst (sim opened fl recs)) = concat kept
               /\ length recs = (length kept + snd (fst (sim opened fl recs)))%nat.
Proof. exact lost_only_failed. Qed.

(* once no more failures are injected every further record is written and nothing is reported *)
Theorem C19_recovery : forall opened recs, fst (fst (sim opened [] recs)) = concat recs /\ snd (fst (sim opened [] recs)) = 0%nat.
Proof. exact recovery. Qed.

Check C19_no_fault_no_failure. Check C19_failed_write_no_effect.
Print Assumptions C19_no_fault_no_failure.
Print Assumptions C19_failed_write_no_effect.
Print Assumptions C19_faults_norotation.
Print Assumptions C19_lost_only_failed.
Print Assumptions C19_recovery.
