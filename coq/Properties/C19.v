(* C19 - I/O failures.  Statements only. *)
Require Import FL.Base.Bytes FL.Fs.Fs FL.Names.FileSpec FL.Flw.Model FL.Flw.ModelFacts FL.Flw.Run FL.Flw.FaultFacts.

(* with an exhausted fault oracle (and no kill) the primitives are their fault-free versions: a write appends,
   a rename renames - so once operations succeed again the model is the fault-free model of the other theorems *)
Theorem C19_no_fault_no_failure :
  forall w i b, quiet w ->
    exists w', p_write w i b = (true, w') /\ wfs w' = append_ino (wfs w) i b /\ same_env w w'.
Proof. exact p_write_quiet. Qed.

(* a write that fails has no effect on the file system and consumes exactly one oracle entry *)
Theorem C19_failed_write_no_effect :
  forall w i b rest, b <> [] -> wfaults w = true :: rest ->
    p_write w i b = (false, set_faults w rest).
Proof.
  intros w i b rest Hb Hf. unfold p_write, tick. destruct b as [|x b]; [contradiction|]. rewrite Hf. reflexivity.
Qed.

(* History level, for a writer without rotation in direct mode: for EVERY fault sequence fl (one entry per
   file-system call: the open that a record needs while no file is open, and the write of each non-empty record)
   and EVERY list of records, every log call returns normally, the file holds exactly what the specification `sim`
   computes, and exactly that many failures are reported on the error channel *)
Theorem C19_faults_norotation :
  forall c t0 off fl recs, plaincfg c ->
    let w0 := set_faults (world0 t0 off) fl in
    let x := fst (run {| s_flw := None; s_w := w0; s_tl := []; s_dead := false |} (OStart c :: List.map OWrite recs)) in
    content_of (wfs (s_w x)) (the_name c) = fst (fst (sim false fl recs))
    /\ werrs (s_w x) = repeat EWrite (snd (fst (sim false fl recs)))
    /\ (forall o, In o (snd (run {| s_flw := None; s_w := w0; s_tl := []; s_dead := false |} (OStart c :: List.map OWrite recs))) ->
          o = ObsRes 0%N false).
Proof. exact faults_norotation. Qed.

(* what `sim` says: only records during whose handling a failure was injected are missing (the file is the
   concatenation of a subsequence of the records), and each missing record is counted as one reported failure *)
Theorem C19_lost_only_failed : forall opened fl recs,
  exists kept, Subseq kept recs /\ fst (fst (sim opened fl recs)) = concat kept
               /\ length recs = (length kept + snd (fst (sim opened fl recs)))%nat.
Proof. exact lost_only_failed. Qed.

(* once no more failures are injected every further record is written and nothing is reported *)
Theorem C19_recovery : forall opened recs, fst (fst (sim opened [] recs)) = concat recs /\ snd (fst (sim opened [] recs)) = 0%nat.
Proof. exact recovery. Qed.

Check C19_no_fault_no_failure. Check C19_failed_write_no_effect.
Print Assumptions C19_no_fault_no_failure.
Print Assumptions C19_failed_write_no_effect.
Print Assumptions C19_faults_norotation.
Print Assumptions C19_lost_only_failed.
Print Assumptions C19_recovery.

(* ------------------------------------------------------------------ with rotation *)
(* I/O failures of a rotating FileLogWriter (Numbers naming, size criterion, direct mode, no cleanup, synchronous):
   proofs in Flw/FaultRotSpec.v (the specification simr and what it implies) and Flw/FaultRotation.v (refinement) *)
Require Import FL.Base.Bytes FL.Fs.Fs FL.Fs.FsFacts FL.Names.FileSpec FL.Flw.Model FL.Flw.ModelFacts FL.Flw.Run
  FL.Flw.NumInv FL.Flw.NumRun FL.Flw.NumKill FL.Flw.FaultFacts FL.Flw.FaultRotSpec FL.Flw.FaultRotation.
Open Scope nat_scope.

(* (1) every fault oracle, every list of records: the directory, the error channel and the rest of the oracle are what
   the specification simr computes; every operation returns normally *)
Theorem C19_rot_faults_rotation :
  forall c m t0 off fl recs, numcfg c (CSize m) -> c_cap c = None ->
  let r := run (fsys t0 off fl) (OStart c :: List.map OWrite recs) in
  let '(closed, ocur, errs, rest) := simr (c_append c) m fl recs in
  fs_wf (wfs (s_w (fst r)))
  /\ reader_view_opt c (wfs (s_w (fst r))) closed ocur
  /\ werrs (s_w (fst r)) = errs
  /\ wfaults (s_w (fst r)) = rest
  /\ (forall o, In o (snd r) -> exists rot, o = ObsRes 0 rot).
Proof. exact faults_rotation. Qed.

(* (2) record by record *)
Theorem C19_rot_lost_only_around_failures :
  forall c m t0 off fl recs, numcfg c (CSize m) -> c_cap c = None ->
  let x := fst (run (fsys t0 off fl) (OStart c :: List.map OWrite recs)) in
  let t := trace (c_append c) m (SInit false) fl recs in
  exists closed ocur,
    reader_view_opt c (wfs (s_w x)) closed ocur
    /\ dir_stream closed ocur = concat (List.map t_kept t)
    /\ List.map t_rec t = recs
    /\ werrs (s_w x) = concat (List.map t_errs t)
    /\ fl = concat (List.map t_used t) ++ wfaults (s_w x)
    /\ (forall e, In e t -> length (t_errs e) = ntrue (t_used e))
    /\ (forall e, In e t -> (forall f, In f (t_used e) -> f = false) -> t_errs e = [] /\ t_kept e = t_rec e)
    /\ (forall e, In e t -> t_kept e <> t_rec e -> In true (t_used e) /\ In EWrite (t_errs e)).
Proof. exact faults_rotation_trace. Qed.

(* (2), (3) the stream is the concatenation of a subsequence of the records; every missing record is one reported EWrite *)
Theorem C19_rot_loss_is_reported :
  forall c m t0 off fl recs, numcfg c (CSize m) -> c_cap c = None ->
  let x := fst (run (fsys t0 off fl) (OStart c :: List.map OWrite recs)) in
  exists closed ocur kept,
    reader_view_opt c (wfs (s_w x)) closed ocur
    /\ dir_stream closed ocur = concat kept /\ Subseq kept recs
    /\ length recs = length kept + nlost (werrs (s_w x))
    /\ nlost (werrs (s_w x)) <= length (werrs (s_w x)).
Proof. exact faults_rotation_stream. Qed.

(* (4) recovery, on the specification: once the rest of the oracle holds no failure, nothing more is reported, every
   further record is in the stream, the view follows the fault-free size rule (a pending rotation is carried out first) *)
Theorem C19_rot_recovery_spec :
  forall app m fl recs1 recs2,
  let '(st1, e1, fl1) := simr_st app m (SInit false) fl recs1 in
  all_false fl1 ->
  let '(st2, e2, fl2) := simr_st app m (SInit false) fl (recs1 ++ recs2) in
  e2 = e1 /\ stream st2 = stream st1 ++ concat recs2
  /\ aview_of st2 = s_run m (aview_of st1) (List.map OWrite recs2)
  /\ (recs2 <> [] -> exists cl d, st2 = SCur cl d).
Proof. exact recovery_rotation. Qed.

(* (4) recovery, on the run: with the oracle used up and the writer on rCURRENT the state satisfies the invariant Rel of
   the fault-free development; all further basic operations behave as without failures *)
Theorem C19_rot_recovery_run :
  forall c m t0 off fl recs ops, numcfg c (CSize m) -> c_cap c = None -> Forall basic_op ops ->
  let x := fst (run (fsys t0 off fl) (OStart c :: List.map OWrite recs)) in
  let '(st, _, rest) := simr_st (c_append c) m (SInit false) fl recs in
  rest = [] -> forall cl d, st = SCur cl d ->
    Rel c (CSize m) x (Some (cl, d))
    /\ Rel c (CSize m) (fst (run x ops)) (s_run m (Some (cl, d)) ops)
    /\ (forall i o b, nth_error ops i = Some o -> (o = OWrite b \/ o = OPlain b) ->
          nth_error (snd (run x ops)) i
          = Some (ObsRes 0 (m <? N.of_nat (length (cur_of (s_run m (Some (cl, d)) (firstn i ops)))))%N)).
Proof. exact recovery_rotation_run. Qed.

Print Assumptions C19_rot_faults_rotation.
Print Assumptions C19_rot_lost_only_around_failures.
Print Assumptions C19_rot_loss_is_reported.
Print Assumptions C19_rot_recovery_spec.
Print Assumptions C19_rot_recovery_run.
