(* C19 - I/O failures.  Statements only. *)
Require Import FL.Base.Bytes FL.Fs.Fs FL.Flw.Model FL.Flw.ModelFacts.

(* with an exhausted fault oracle (and no kill) the primitives are their fault-free versions: a write appends,
   a rename renames - so once operations succeed again the model is the fault-free model of the other theorems *)
Theorem C19_no_fault_no_failure :
  forall w i b, quiet w ->
    exists w', p_write w i b = (true, w') /\ wfs w' = append_ino (wfs w) i b /\ same_env w w'.
Proof. exact p_write_quiet. Qed.

(* a write that fails has no effect on the file system and consumes exactly one oracle entry *)
Theorem C19_failed_write_no_effect :
  forall w i b rest, b <> [] -> wfaults w = true :: rest ->
    p_write w i b = (false, set_faults w rest).
Proof.
  intros w i b rest Hb Hf. unfold p_write, tick. destruct b as [|x b]; [contradiction|]. rewrite Hf. reflexivity.
Qed.

Check C19_no_fault_no_failure. Check C19_failed_write_no_effect.
Print Assumptions C19_no_fault_no_failure.
Print Assumptions C19_failed_write_no_effect.
