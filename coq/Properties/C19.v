(* C19 - I/O failures.  Statements only. *)
Require Import FL.Base.Bytes FL.Fs.Fs FL.Names.FileSpec FL.Flw.Model FL.Flw.ModelFacts FL.Flw.Run FL.Flw.FaultFacts.

(* with an exhausted fault oracle (and no kill) the primitives are their fault-free versions: a write appends,
   a rename renames - so once operations succeed again the model is the fault-free model of the other theorems *)
Theorem C19_no_fault_no_failure :
  forall w i b, quiet w ->
    exists w', p_write w i b = (true, w') /\ wfs w' = append_ino (wfs w) i b /\ same_env w w'.
Proof. exact p_write_quiet. Qed.

(* a write that fails has no effect on the file system and consumes exactly one oracle entry *)
Theorem C19_failed_write_no_effect :
  forall w i b rest, b <> [] -> wfaults w = true :: rest ->
    p_write w i b = (false, set_faults w rest).
Proof.
  intros w i b rest Hb Hf. unfold p_write, tick. destruct b as [|x b]; [contradiction|]. rewrite Hf. reflexivity.
Qed.

(* History level, for a writer without rotation in direct mode: for EVERY fault sequence fl (one entry per
   file-system call: the open that a record needs while no file is open, and the write of each non-empty record)
   and EVERY list of records, every log call returns normally, the file holds exactly what the specification `sim`
   computes, and exactly that many failures are reported on the error channel *)
Theorem C19_faults_norotation :
  forall c t0 off fl recs, plaincfg c ->
    let w0 := set_faults (world0 t0 off) fl in
    let x := fst (run {| s_flw := None; s_w := w0; s_tl := []; s_dead := false |} (OStart c :: List.map OWrite recs)) in
    content_of (wfs (s_w x)) (the_name c) = fst (fst (sim false fl recs))
    /\ werrs (s_w x) = repeat EWrite (snd (fst (sim false fl recs)))
    /\ (forall o, In o (snd (run {| s_flw := None; s_w := w0; s_tl := []; s_dead := false |} (OStart c :: List.map OWrite recs))) ->
          o = ObsRes 0%N false).
Proof. exact faults_norotation. Qed.

(* what `sim` says: only records during whose handling a failure was injected are missing (the file is the
   concatenation of a subsequence of the records), and each missing record is counted as one reported failure *)
Theorem C19_lost_only_failed : forall opened fl recs,
  exists kept, Subseq kept recs /\ fst (fst (sim opened fl recs)) = concat kept
               /\ length recs = (length kept + snd (fst (sim opened fl recs)))%nat.
Proof. exact lost_only_failed. Qed.

(* once no more failures are injected every further record is written and nothing is reported *)
Theorem C19_recovery : forall opened recs, fst (fst (sim opened [] recs)) = concat recs /\ snd (fst (sim opened [] recs)) = 0%nat.
Proof. exact recovery. Qed.

Check C19_no_fault_no_failure. Check C19_failed_write_no_effect.
Print Assumptions C19_no_fault_no_failure.
Print Assumptions C19_failed_write_no_effect.
Print Assumptions C19_faults_norotation.
Print Assumptions C19_lost_only_failed.
Print Assumptions C19_recovery.

(* ------------------------------------------------------------------ with rotation *)
(* I/O failures of a rotating FileLogWriter (Numbers naming, size criterion, direct mode, no cleanup, synchronous):
   proofs in Flw/FaultRotSpec.v (the specification simr and what it implies) and Flw/FaultRotation.v (refinement) *)
Require Import FL.Base.Bytes FL.Fs.Fs FL.Fs.FsFacts FL.Names.FileSpec FL.Flw.Model FL.Flw.ModelFacts FL.Flw.Run
  FL.Flw.NumInv FL.Flw.NumRun FL.Flw.NumKill FL.Flw.FaultFacts FL.Flw.FaultRotSpec FL.Flw.FaultRotation.
Open Scope nat_scope.

(* (1) every fault oracle, every list of records: the directory, the error channel and the rest of the oracle are what
   the specification simr computes; every operation returns normally *)
Theorem C19_rot_faults_rotation :
  forall c m t0 off fl recs, numcfg c (CSize m) -> c_cap c = None ->
  let r := run (fsys t0 off fl) (OStart c :: List.map OWrite recs) in
  let '(closed, ocur, errs, rest) := simr (c_append c) m fl recs in
  fs_wf (wfs (s_w (fst r)))
  /\ reader_view_opt c (wfs (s_w (fst r))) closed ocur
  /\ werrs (s_w (fst r)) = errs
  /\ wfaults (s_w (fst r)) = rest
  /\ (forall o, In o (snd r) -> exists rot, o = ObsRes 0 rot).
Proof. exact faults_rotation. Qed.

(* (2) record by record *)
Theorem C19_rot_lost_only_around_failures :
  forall c m t0 off fl recs, numcfg c (CSize m) -> c_cap c = None ->
  let x := fst (run (fsys t0 off fl) (OStart c :: List.map OWrite recs)) in
  let t := trace (c_append c) m (SInit false) fl recs in
  exists closed ocur,
    reader_view_opt c (wfs (s_w x)) closed ocur
    /\ dir_stream closed ocur = concat (List.map t_kept t)
    /\ List.map t_rec t = recs
    /\ werrs (s_w x) = concat (List.map t_errs t)
    /\ fl = concat (List.map t_used t) ++ wfaults (s_w x)
    /\ (forall e, In e t -> length (t_errs e) = ntrue (t_used e))
    /\ (forall e, In e t -> (forall f, In f (t_used e) -> f = false) -> t_errs e = [] /\ t_kept e = t_rec e)
    /\ (forall e, In e t -> t_kept e <> t_rec e -> In true (t_used e) /\ In EWrite (t_errs e)).
Proof. exact faults_rotation_trace. Qed.

(* (2), (3) the stream is the concatenation of a subsequence of the records; every missing record is one reported EWrite *)
Theorem C19_rot_loss_is_reported :
  forall c m t0 off fl recs, numcfg c (CSize m) -> c_cap c = None ->
  let x := fst (run (fsys t0 off fl) (OStart c :: List.map OWrite recs)) in
  exists closed ocur kept,
    reader_view_opt c (wfs (s_w x)) closed ocur
    /\ dir_stream closed ocur = concat kept /\ Subseq kept recs
    /\ length recs = length kept + nlost (werrs (s_w x))
    /\ nlost (werrs (s_w x)) <= length (werrs (s_w x)).
Proof. exact faults_rotation_stream. Qed.

(* (4) recovery, on the specification: once the rest of the oracle holds no failure, nothing more is reported, every
   further record is in the stream, the view follows the fault-free size rule (a pending rotation is carried out first) *)
Theorem C19_rot_recovery_spec :
  forall app m fl recs1 recs2,
  let '(st1, e1, fl1) := simr_st app m (SInit false) fl recs1 in
  all_false fl1 ->
  let '(st2, e2, fl2) := simr_st app m (SInit false) fl (recs1 ++ recs2) in
  e2 = e1 /\ stream st2 = stream st1 ++ concat recs2
  /\ aview_of st2 = s_run m (aview_of st1) (List.map OWrite recs2)
  /\ (recs2 <> [] -> exists cl d, st2 = SCur cl d).
Proof. exact recovery_rotation. Qed.

(* (4) recovery, on the run: with the oracle used up and the writer on rCURRENT the state satisfies the invariant Rel of
   the fault-free development; all further basic operations behave as without failures *)
Theorem C19_rot_recovery_run :
  forall c m t0 off fl recs ops, numcfg c (CSize m) -> c_cap c = None -> Forall basic_op ops ->
  let x := fst (run (fsys t0 off fl) (OStart c :: List.map OWrite recs)) in
  let '(st, _, rest) := simr_st (c_append c) m (SInit false) fl recs in
  rest = [] -> forall cl d, st = SCur cl d ->
    Rel c (CSize m) x (Some (cl, d))
    /\ Rel c (CSize m) (fst (run x ops)) (s_run m (Some (cl, d)) ops)
    /\ (forall i o b, nth_error ops i = Some o -> (o = OWrite b \/ o = OPlain b) ->
          nth_error (snd (run x ops)) i
          = Some (ObsRes 0 (m <? N.of_nat (length (cur_of (s_run m (Some (cl, d)) (firstn i ops)))))%N)).
Proof. exact recovery_rotation_run. Qed.

Print Assumptions C19_rot_faults_rotation.
Print Assumptions C19_rot_lost_only_around_failures.
Print Assumptions C19_rot_loss_is_reported.
Print Assumptions C19_rot_recovery_spec.
Print Assumptions C19_rot_recovery_run.

(* ------------------------------------------------------------------ buffered write modes *)
Require Import FL.Base.Bytes FL.Fs.Fs FL.Names.FileSpec FL.Flw.Model FL.Flw.Run FL.Flw.FaultFacts FL.Flw.FaultRotSpec
  FL.Flw.FaultRotation FL.Flw.FaultBufSpec FL.Flw.FaultBuffered.
Open Scope nat_scope.

(* (1) every fault oracle, every history of log calls / flush() / shutdown() / drop: file, buffer, error channel
   (exact codes), rest of the oracle and the result of every call are what the specification computes; log calls,
   shutdown and drop return 0 whatever fails, a failing flush() returns 1 and reports nothing *)
Theorem C19_buf_faults_buffered :
  forall c n t0 off fl ops, bufcfg c n -> Forall bop_stop ops ->
  let r := run (fsys t0 off fl) (OStart c :: ops) in
  let '(st, errs, rest, codes, _) := simb_run n BClosed fl ops in
  content_of (wfs (s_w (fst r))) (the_name c) = concat (st_file st)
  /\ pend_of (fst r) = (match st with BOpen _ B => Some (concat B) | _ => None end)
  /\ werrs (s_w (fst r)) = errs
  /\ wfaults (s_w (fst r)) = rest
  /\ snd r = ObsRes 0 false :: List.map (fun k => ObsRes k false) codes.
Proof. exact faults_buffered. Qed.

(* what one operation of the specification does (see FaultBufSpec.step_okb) *)
Theorem C19_buf_step : forall n st o fl, live st -> bop_stop o -> step_okb st o fl (sb_step n st o fl).
Proof. exact sb_step_ok. Qed.

(* (2) the loss is bounded and announced: after the drop the file is the concatenation of a subsequence of the records;
   a lost record is the incoming record of a log call with a failing call (reported EWrite) or was in the buffer when
   the third flush attempt of the drop failed (EFlush reported twice); what has reached the file stays; the number
   of operations that lose something is at most the number of reports *)
Theorem C19_buf_loss_bounded :
  forall c n t0 off fl ops, bufcfg c n -> Forall bop ops ->
  let x := fst (run (fsys t0 off fl) (OStart c :: ops ++ [OStop])) in
  let t := btrace n BClosed fl (ops ++ [OStop]) in
  let lost := concat (List.map (fun e => o_lost (t_out e)) t) in
  exists kept,
    content_of (wfs (s_w x)) (the_name c) = concat kept
    /\ Subseq kept (recs_of ops)
    /\ length (recs_of ops) = length kept + length lost
    /\ List.map t_op t = ops ++ [OStop]
    /\ werrs (s_w x) = concat (List.map (fun e => o_errs (t_out e)) t)
    /\ fl = concat (List.map t_usedb t) ++ wfaults (s_w x)
    /\ Forall entry_ok t
    /\ length (filter loses t) <= length (werrs (s_w x)).
Proof. exact buffered_loss_bounded. Qed.

(* before the drop: file ++ buffer = the records without the lost ones; one EWrite per lost record *)
Theorem C19_buf_accepted :
  forall c n t0 off fl ops, bufcfg c n -> Forall bop ops ->
  let x := fst (run (fsys t0 off fl) (OStart c :: ops)) in
  exists F B,
    content_of (wfs (s_w x)) (the_name c) = concat F /\ pend_bytes x = concat B
    /\ Subseq (F ++ B) (recs_of ops)
    /\ length (recs_of ops) = length (F ++ B) + nlost (werrs (s_w x))
    /\ nlost (werrs (s_w x)) <= length (werrs (s_w x)).
Proof. exact buffered_accepted. Qed.

(* (3) recovery *)
Theorem C19_buf_recovery :
  forall c n t0 off fl ops1 ops2 f, bufcfg c n -> Forall bop ops1 -> Forall bop ops2 -> final_op f ->
  let x1 := fst (run (fsys t0 off fl) (OStart c :: ops1)) in
  let x2 := fst (run (fsys t0 off fl) (OStart c :: ops1 ++ ops2 ++ [f])) in
  all_false (wfaults (s_w x1)) ->
  content_of (wfs (s_w x2)) (the_name c)
    = content_of (wfs (s_w x1)) (the_name c) ++ pend_bytes x1 ++ concat (recs_of ops2)
  /\ pend_bytes x2 = []
  /\ werrs (s_w x2) = werrs (s_w x1)
  /\ all_false (wfaults (s_w x2)).
Proof. exact buffered_recovery_run. Qed.

(* the record-counting statement of the direct mode does not carry over: five records lost, two reports *)
Import String.StringSyntax.
Open Scope string_scope.
Theorem C19_buf_more_lost_than_reported :
  bx_run false 100 [false; true; true; true] [W "a"; W "b"; W "c"; W "d"; W "e"; OStop]
  = ([], None, [EFlush; EFlush], [], [0; 0; 0; 0; 0; 0]%N).
Proof. vm_compute; reflexivity. Qed.

Print Assumptions C19_buf_faults_buffered.
Print Assumptions C19_buf_step.
Print Assumptions C19_buf_loss_bounded.
Print Assumptions C19_buf_accepted.
Print Assumptions C19_buf_recovery.

(* ------------------------------------------------------------------ buffered, with rotation *)
(* Numbers naming, size criterion, BufWriter of capacity n; proofs in Flw/FaultBufRotSpec.v and Flw/FaultBufRot.v *)
Require Import FL.Flw.NumInv FL.Flw.NumKill FL.Flw.FaultBufRotSpec FL.Flw.FaultBufRot.

(* (1) the directory, the buffer, the error channel, the rest of the oracle and the result codes are what the
   specification simrb_run computes *)
Theorem C19_buf_rot_faults :
  forall c n m t0 off fl ops, numcfg c (CSize m) -> c_cap c = Some n -> Forall rop_stop ops ->
  let r := run (fsys t0 off fl) (OStart c :: ops) in
  let '(st, errs, rest, codes, _) := simrb_run n (c_append c) m (RInit false) fl ops in
  FsFacts.fs_wf (wfs (s_w (fst r)))
  /\ reader_view_opt c (wfs (s_w (fst r))) (rb_closed st) (rb_cur st)
  /\ pend_of (fst r) = rb_pend st
  /\ werrs (s_w (fst r)) = errs
  /\ wfaults (s_w (fst r)) = rest
  /\ exists obs, snd r = ObsRes 0 false :: obs /\ Forall2 obs_code_is codes obs.
Proof. exact faults_buffered_rotation. Qed.

Theorem C19_buf_rot_step : forall n ap m st o fl, rb_live st -> rop_stop o -> rstep_ok st o fl (rb_step n ap m st o fl).
Proof. exact rb_step_ok. Qed.

(* (2) *)
Theorem C19_buf_rot_loss_bounded :
  forall c n m t0 off fl ops tail,
  numcfg c (CSize m) -> c_cap c = Some n -> Forall rop ops -> tail = [] \/ tail = [OStop] ->
  let x := fst (run (fsys t0 off fl) (OStart c :: ops ++ tail)) in
  let t := rb_trace n (c_append c) m (RInit false) fl (ops ++ tail) in
  let lost := concat (List.map (fun e => r_lost (tr_out e)) t) in
  exists closed ocur kept,
    reader_view_opt c (wfs (s_w x)) closed ocur
    /\ dir_stream closed ocur ++ pend_bytes x = concat kept
    /\ Subseq kept (recs_of ops)
    /\ length (recs_of ops) = length kept + length lost
    /\ werrs (s_w x) = concat (List.map (fun e => r_errs (tr_out e)) t)
    /\ Forall tr_ok t
    /\ length (filter tr_loses t) <= length (werrs (s_w x)).
Proof. exact buffered_rotation_loss_bounded. Qed.

(* (3) *)
Theorem C19_buf_rot_recovery :
  forall c n m t0 off fl ops1 ops2 f,
  numcfg c (CSize m) -> c_cap c = Some n -> Forall rop ops1 -> Forall rop ops2 -> f = OFlush \/ f = OStop ->
  let x1 := fst (run (fsys t0 off fl) (OStart c :: ops1)) in
  let x2 := fst (run (fsys t0 off fl) (OStart c :: ops1 ++ ops2 ++ [f])) in
  all_false (wfaults (s_w x1)) ->
  exists cl1 cu1 cl2 cu2,
    reader_view_opt c (wfs (s_w x1)) cl1 cu1 /\ reader_view_opt c (wfs (s_w x2)) cl2 cu2
    /\ dir_stream cl2 cu2 = dir_stream cl1 cu1 ++ pend_bytes x1 ++ concat (recs_of ops2)
    /\ pend_bytes x2 = []
    /\ werrs (s_w x2) = werrs (s_w x1).
Proof. exact buffered_rotation_recovery_run. Qed.

Print Assumptions C19_buf_rot_faults.
Print Assumptions C19_buf_rot_step.
Print Assumptions C19_buf_rot_loss_bounded.
Print Assumptions C19_buf_rot_recovery.

(* ------------------------------------------------------------------ with rotation, NumbersDirect naming *)
(* I/O failures of a rotating FileLogWriter with NumbersDirect naming (r00000, r00001, ...; no rCURRENT), size criterion,
   direct mode, no cleanup, synchronous: proofs in Flw/FaultNumDSpec.v (the specification simd and what it implies) and
   Flw/FaultNumD.v (refinement).  A failing open at a rotation is reported (ELogFile), the record goes into the old
   file, and the number that was tried is SKIPPED for good (gap in the numbering). *)
Require Import FL.Flw.NumDInv FL.Flw.NumDRun FL.Flw.FaultNumDSpec FL.Flw.FaultNumD.
From Coq Require Import Sorted.

(* (1) every fault oracle, every list of records: directory, error channel, rest of the oracle are what simd computes *)
Theorem C19_numd_faults :
  forall c m t0 off fl recs, numdcfg c (CSize m) -> c_cap c = None ->
  let r := run (fsys t0 off fl) (OStart c :: List.map OWrite recs) in
  let '(files, errs, rest) := simd (c_append c) m fl recs in
  FsFacts.fs_wf (wfs (s_w (fst r)))
  /\ gap_view c (wfs (s_w (fst r))) files
  /\ StronglySorted lt (List.map fst files)
  /\ werrs (s_w (fst r)) = errs
  /\ wfaults (s_w (fst r)) = rest
  /\ (forall o, In o (snd r) -> exists rot, o = ObsRes 0 rot).
Proof. exact faults_numbersdirect. Qed.

(* (2) record by record *)
Theorem C19_numd_lost_only_around_failures :
  forall c m t0 off fl recs, numdcfg c (CSize m) -> c_cap c = None ->
  let x := fst (run (fsys t0 off fl) (OStart c :: List.map OWrite recs)) in
  let t := traced (c_append c) m (DInit false) fl recs in
  exists files,
    gap_view c (wfs (s_w x)) files /\ StronglySorted lt (List.map fst files)
    /\ files_stream files = concat (List.map t_kept t)
    /\ List.map t_rec t = recs
    /\ werrs (s_w x) = concat (List.map t_errs t)
    /\ fl = concat (List.map t_used t) ++ wfaults (s_w x)
    /\ (forall e, In e t -> length (t_errs e) = ntrue (t_used e))
    /\ (forall e, In e t -> (forall f, In f (t_used e) -> f = false) -> t_errs e = [] /\ t_kept e = t_rec e)
    /\ (forall e, In e t -> t_kept e <> t_rec e -> In true (t_used e) /\ In EWrite (t_errs e)).
Proof. exact numd_lost_only_around_failures_run. Qed.

(* (3) every missing record is one reported EWrite; the only other code is ELogFile *)
Theorem C19_numd_loss_is_reported :
  forall c m t0 off fl recs, numdcfg c (CSize m) -> c_cap c = None ->
  let x := fst (run (fsys t0 off fl) (OStart c :: List.map OWrite recs)) in
  exists files kept,
    gap_view c (wfs (s_w x)) files /\ StronglySorted lt (List.map fst files)
    /\ files_stream files = concat kept /\ Subseq kept recs
    /\ length recs = length kept + nlost (werrs (s_w x))
    /\ nlost (werrs (s_w x)) <= length (werrs (s_w x))
    /\ (forall e, In e (werrs (s_w x)) -> e = EWrite \/ e = ELogFile).
Proof. exact numd_loss_is_reported_run. Qed.

(* (4) recovery: further records *)
Theorem C19_numd_recovery :
  forall c m t0 off fl recs1 recs2, numdcfg c (CSize m) -> c_cap c = None ->
  let x1 := fst (run (fsys t0 off fl) (OStart c :: List.map OWrite recs1)) in
  let r2 := run (fsys t0 off fl) (OStart c :: List.map OWrite (recs1 ++ recs2)) in
  let '(st1, _, _) := simd_st (c_append c) m (DInit false) fl recs1 in
  let '(st2, _, _) := simd_st (c_append c) m (DInit false) fl (recs1 ++ recs2) in
  all_false (wfaults (s_w x1)) ->
  gap_view c (wfs (s_w x1)) (d_files st1) /\ gap_view c (wfs (s_w (fst r2))) (d_files st2)
  /\ werrs (s_w (fst r2)) = werrs (s_w x1)
  /\ files_stream (d_files st2) = files_stream (d_files st1) ++ concat recs2
  /\ daview st2 = s_run m (daview st1) (List.map OWrite recs2)
  /\ (exists n, d_idx st2 = d_idx st1 ++ seq (d_next st1) n)
  /\ Forall (fun i => i < d_next st1) (d_idx st1)
  /\ StronglySorted lt (d_idx st2)
  /\ (exists ext, d_closed st2 = d_closed st1 ++ ext)
  /\ (recs2 <> [] -> exists cl k d, st2 = DAct cl k 0 d)
  /\ (forall o, In o (snd r2) -> exists rot, o = ObsRes 0 rot).
Proof. exact numd_recovery_run. Qed.

(* (4) recovery: arbitrary basic operations, when no number has been skipped *)
Theorem C19_numd_recovery_ops :
  forall c m t0 off fl recs ops, numdcfg c (CSize m) -> c_cap c = None -> Forall basic_op ops ->
  let x := fst (run (fsys t0 off fl) (OStart c :: List.map OWrite recs)) in
  let '(st, _, rest) := simd_st (c_append c) m (DInit false) fl recs in
  rest = [] -> forall cl k d, st = DAct cl k 0 d -> List.map fst cl = seq 0 k ->
    RelD c (CSize m) x (Some (List.map snd cl, d))
    /\ RelD c (CSize m) (fst (run x ops)) (s_run m (Some (List.map snd cl, d)) ops)
    /\ (forall i o b, nth_error ops i = Some o -> (o = OWrite b \/ o = OPlain b) ->
          nth_error (snd (run x ops)) i
          = Some (ObsRes 0 (m <? N.of_nat (length (cur_of (s_run m (Some (List.map snd cl, d)) (firstn i ops)))))%N)).
Proof. exact numd_recovery_run_ops. Qed.

(* a failed open skips a number: three failures, the file after r00000 is r00004; nothing is lost *)
Theorem C19_numd_gap :
  dx_run false 3 [F;F;F; T;F; T;F; T;F] recs5
  = ([(d0, 0%N, bs "abcdefghijkl"); (d4, 0%N, bs "mn")], [ELogFile; ELogFile; ELogFile], [], true).
Proof. vm_compute. reflexivity. Qed.

Print Assumptions C19_numd_faults.
Print Assumptions C19_numd_lost_only_around_failures.
Print Assumptions C19_numd_loss_is_reported.
Print Assumptions C19_numd_recovery.
Print Assumptions C19_numd_recovery_ops.

(* ------------------------------------------------------------------ with rotation, TimestampsDirect naming *)
(* proofs in Flw/FaultTsdSpec.v (the specification simt) and Flw/FaultTsd.v (refinement); the history: before each record
   the clock advances (FaultTsdSpec.tops).  A rotation makes three fallible calls (two listings for the collision-free
   infix, the open); when one fails it is reported (ELogFile), the record goes into the old file, no name is skipped. *)
Require Import FL.Flw.TsTime FL.Flw.TsNames FL.Flw.TsInv FL.Flw.TsRun FL.Flw.TsTheorems FL.Flw.TsdInv FL.Flw.TsdRun
  FL.Flw.TsdRestartInv FL.Flw.FaultTsdSpec FL.Flw.FaultTsd.

Theorem C19_tsd_faults :
  forall c m t0 off fl recs,
  tsdcfg c (CSize m) -> c_cap c = None -> tag_ok c -> append_ok c -> ticks_ok recs ->
  (0 <= t0 + ts_e c off)%Z -> (t0 + telapsed recs + ts_e c off < sec_max)%Z -> (N.of_nat (length recs) <= usize_max)%N ->
  let r := run (fsys t0 off fl) (OStart c :: tops recs) in
  let '(keys, conts, errs, rest) := simt (c_append c) m t0 fl recs in
  FsFacts.fs_wf (wfs (s_w (fst r)))
  /\ tsd_view c (ts_e c off) (wfs (s_w (fst r))) keys conts
  /\ keys_ok keys /\ (forall k, In k keys -> (t0 <= fst k <= t0 + telapsed recs)%Z)
  /\ werrs (s_w (fst r)) = errs
  /\ wfaults (s_w (fst r)) = rest
  /\ (forall o, In o (snd r) -> exists rot, o = ObsRes 0 rot).
Proof. exact faults_timestampsdirect. Qed.

Theorem C19_tsd_lost_only_around_failures :
  forall c m t0 off fl recs,
  tsdcfg c (CSize m) -> c_cap c = None -> tag_ok c -> append_ok c -> ticks_ok recs ->
  (0 <= t0 + ts_e c off)%Z -> (t0 + telapsed recs + ts_e c off < sec_max)%Z -> (N.of_nat (length recs) <= usize_max)%N ->
  let x := fst (run (fsys t0 off fl) (OStart c :: tops recs)) in
  let t := tracet (c_append c) m t0 (TInit None) fl recs in
  exists keys conts,
    tsd_view c (ts_e c off) (wfs (s_w x)) keys conts /\ keys_ok keys
    /\ concat conts = concat (List.map t_kept t)
    /\ List.map t_rec t = List.map snd recs
    /\ werrs (s_w x) = concat (List.map t_errs t)
    /\ fl = concat (List.map t_used t) ++ wfaults (s_w x)
    /\ (forall e, In e t -> length (t_errs e) = ntrue (t_used e))
    /\ (forall e, In e t -> (forall f, In f (t_used e) -> f = false) -> t_errs e = [] /\ t_kept e = t_rec e)
    /\ (forall e, In e t -> t_kept e <> t_rec e -> In true (t_used e) /\ In EWrite (t_errs e)).
Proof. exact tsd_lost_only_around_failures_run. Qed.

Theorem C19_tsd_loss_is_reported :
  forall c m t0 off fl recs,
  tsdcfg c (CSize m) -> c_cap c = None -> tag_ok c -> append_ok c -> ticks_ok recs ->
  (0 <= t0 + ts_e c off)%Z -> (t0 + telapsed recs + ts_e c off < sec_max)%Z -> (N.of_nat (length recs) <= usize_max)%N ->
  let x := fst (run (fsys t0 off fl) (OStart c :: tops recs)) in
  exists keys conts kept,
    tsd_view c (ts_e c off) (wfs (s_w x)) keys conts /\ keys_ok keys
    /\ concat conts = concat kept /\ Subseq kept (List.map snd recs)
    /\ length recs = length kept + nlost (werrs (s_w x))
    /\ nlost (werrs (s_w x)) <= length (werrs (s_w x))
    /\ (forall e, In e (werrs (s_w x)) -> e = EWrite \/ e = ELogFile).
Proof. exact tsd_loss_is_reported_run. Qed.

Theorem C19_tsd_recovery :
  forall c m t0 off fl recs1 recs2,
  tsdcfg c (CSize m) -> c_cap c = None -> tag_ok c -> append_ok c -> ticks_ok (recs1 ++ recs2) ->
  (0 <= t0 + ts_e c off)%Z -> (t0 + telapsed (recs1 ++ recs2) + ts_e c off < sec_max)%Z ->
  (N.of_nat (length (recs1 ++ recs2)) <= usize_max)%N ->
  let x1 := fst (run (fsys t0 off fl) (OStart c :: tops recs1)) in
  let r2 := run (fsys t0 off fl) (OStart c :: tops (recs1 ++ recs2)) in
  let '(st1, _, _) := simt_st (c_append c) m t0 (TInit None) fl recs1 in
  let '(st2, _, _) := simt_st (c_append c) m t0 (TInit None) fl (recs1 ++ recs2) in
  all_false (wfaults (s_w x1)) ->
  tsd_view c (ts_e c off) (wfs (s_w x1)) (t_keys st1) (t_conts st1)
  /\ tsd_view c (ts_e c off) (wfs (s_w (fst r2))) (t_keys st2) (t_conts st2)
  /\ werrs (s_w (fst r2)) = werrs (s_w x1)
  /\ concat (t_conts st2) = concat (t_conts st1) ++ concat (List.map snd recs2)
  /\ taview st2 = s_run m (taview st1) (tops recs2)
  /\ textends st1 st2
  /\ keys_ok (t_keys st2)
  /\ (recs2 <> [] -> exists keys closed d, st2 = TAct keys closed d)
  /\ (forall o, In o (snd r2) -> exists rot, o = ObsRes 0 rot).
Proof. exact tsd_recovery_run. Qed.

(* restricted: states with a pending rotation (over-full file) are left out, see FaultTsd.v *)
Theorem C19_tsd_recovery_ops_partial :
  forall c m t0 off fl recs ops,
  tsdcfg c (CSize m) -> c_cap c = None -> tag_ok c -> append_ok c -> ticks_ok recs ->
  Forall basic_op ops -> Forall tick_ok ops ->
  (0 <= t0 + ts_e c off)%Z -> (t0 + telapsed recs + elapsed ops + ts_e c off < sec_max)%Z ->
  (N.of_nat (length recs + length ops) <= usize_max)%N ->
  let x := fst (run (fsys t0 off fl) (OStart c :: tops recs)) in
  let '(st, _, rest) := simt_st (c_append c) m t0 (TInit None) fl recs in
  rest = [] -> forall keys closed d, st = TAct keys closed d -> (m <? N.of_nat (length d))%N = false ->
    RelTd c (CSize m) (ts_e c off) t0 (length recs) x (Some (closed, d))
    /\ RelTd c (CSize m) (ts_e c off) t0 (length recs + length ops) (fst (run x ops)) (s_run m (Some (closed, d)) ops)
    /\ (forall i o b, nth_error ops i = Some o -> (o = OWrite b \/ o = OPlain b) ->
          nth_error (snd (run x ops)) i
          = Some (ObsRes 0 (m <? N.of_nat (length (cur_of (s_run m (Some (closed, d)) (firstn i ops)))))%N)).
Proof. exact tsd_recovery_run_ops_partial. Qed.

Print Assumptions C19_tsd_faults.
Print Assumptions C19_tsd_lost_only_around_failures.
Print Assumptions C19_tsd_loss_is_reported.
Print Assumptions C19_tsd_recovery.
Print Assumptions C19_tsd_recovery_ops_partial.

(* ------------------------------------------------------------------ with rotation, Timestamps naming (rCURRENT) *)
(* proofs in Flw/FaultTsSpec.v (the specification simts) and Flw/FaultTs.v (refinement); the history: before each record
   the clock advances (FaultTsdSpec.tops).  A rotation makes four fallible calls (two listings for the collision-free infix
   of the time stamp kept in the naming state, the rename of rCURRENT, the open of the new rCURRENT).  When one of the first
   three fails it is reported (ELogFile) and the record goes into the over-full rCURRENT.  When the rename has succeeded and
   the open fails (state ZOld): reported (ELogFile); the writer keeps the OLD, renamed file open and the next records go
   into it; there is no rCURRENT; the time stamp of the naming state is the second of the failed attempt (it names no file);
   the next record that can create rCURRENT completes the rotation: nothing is renamed a second time, no name is used
   twice, no file is overwritten, nothing is lost silently. *)
Require Import FL.Flw.TsAsync FL.Flw.FaultTsSpec FL.Flw.FaultTs.

(* (1) every fault oracle, every timed record list: directory (files of the keys, rCURRENT or none), error channel (exact
   codes), rest of the oracle are what simts computes; every call returns normally *)
Theorem C19_ts_faults :
  forall c m t0 off fl recs,
  tscfg c (CSize m) -> c_cap c = None -> tag_ok c -> ticks_ok recs ->
  (0 <= t0 + ts_e c off)%Z -> (t0 + telapsed recs + ts_e c off < sec_max)%Z -> (N.of_nat (length recs) <= usize_max)%N ->
  let r := run (fsys t0 off fl) (OStart c :: tops recs) in
  let '(keys, conts, ocur, errs, rest) := simts (c_append c) m t0 fl recs in
  FsFacts.fs_wf (wfs (s_w (fst r)))
  /\ ts_view_opt c (ts_e c off) (wfs (s_w (fst r))) keys conts ocur
  /\ keys_ok keys /\ (forall k, In k keys -> (t0 <= fst k <= t0 + telapsed recs)%Z)
  /\ werrs (s_w (fst r)) = errs
  /\ wfaults (s_w (fst r)) = rest
  /\ (forall o, In o (snd r) -> exists rot, o = ObsRes 0 rot).
Proof. exact faults_timestamps. Qed.

(* the same with the abstract state, the time stamp of the naming state included *)
Theorem C19_ts_faults_state :
  forall c m t0 off fl recs,
  tscfg c (CSize m) -> c_cap c = None -> tag_ok c -> ticks_ok recs ->
  (0 <= t0 + ts_e c off)%Z -> (t0 + telapsed recs + ts_e c off < sec_max)%Z -> (N.of_nat (length recs) <= usize_max)%N ->
  let r := run (fsys t0 off fl) (OStart c :: tops recs) in
  let '(st, errs, rest) := simts_st (c_append c) m t0 (ZInit None) fl recs in
  ts_view_opt c (ts_e c off) (wfs (s_w (fst r))) (z_keys st) (z_closed st) (z_cur st)
  /\ ns_ts_of (fst r) = z_ts st
  /\ z_ok t0 (t0 + telapsed recs) st
  /\ werrs (s_w (fst r)) = errs /\ wfaults (s_w (fst r)) = rest
  /\ (forall o, In o (snd r) -> exists rot, o = ObsRes 0 rot).
Proof. exact faults_timestamps_st. Qed.

(* (2) record by record *)
Theorem C19_ts_lost_only_around_failures :
  forall c m t0 off fl recs,
  tscfg c (CSize m) -> c_cap c = None -> tag_ok c -> ticks_ok recs ->
  (0 <= t0 + ts_e c off)%Z -> (t0 + telapsed recs + ts_e c off < sec_max)%Z -> (N.of_nat (length recs) <= usize_max)%N ->
  let x := fst (run (fsys t0 off fl) (OStart c :: tops recs)) in
  let t := tracez (c_append c) m t0 (ZInit None) fl recs in
  exists keys conts ocur,
    ts_view_opt c (ts_e c off) (wfs (s_w x)) keys conts ocur /\ keys_ok keys
    /\ dir_stream conts ocur = concat (List.map t_kept t)
    /\ List.map t_rec t = List.map snd recs
    /\ werrs (s_w x) = concat (List.map t_errs t)
    /\ fl = concat (List.map t_used t) ++ wfaults (s_w x)
    /\ (forall e, In e t -> length (t_errs e) = ntrue (t_used e))
    /\ (forall e, In e t -> (forall f, In f (t_used e) -> f = false) -> t_errs e = [] /\ t_kept e = t_rec e)
    /\ (forall e, In e t -> t_kept e <> t_rec e -> In true (t_used e) /\ In EWrite (t_errs e)).
Proof. exact ts_lost_only_around_failures. Qed.

(* (3) every missing record is one reported EWrite; the only other code is ELogFile *)
Theorem C19_ts_loss_is_reported :
  forall c m t0 off fl recs,
  tscfg c (CSize m) -> c_cap c = None -> tag_ok c -> ticks_ok recs ->
  (0 <= t0 + ts_e c off)%Z -> (t0 + telapsed recs + ts_e c off < sec_max)%Z -> (N.of_nat (length recs) <= usize_max)%N ->
  let x := fst (run (fsys t0 off fl) (OStart c :: tops recs)) in
  exists keys conts ocur kept,
    ts_view_opt c (ts_e c off) (wfs (s_w x)) keys conts ocur /\ keys_ok keys
    /\ dir_stream conts ocur = concat kept /\ Subseq kept (List.map snd recs)
    /\ length recs = length kept + nlost (werrs (s_w x))
    /\ nlost (werrs (s_w x)) <= length (werrs (s_w x))
    /\ (forall e, In e (werrs (s_w x)) -> e = EWrite \/ e = ELogFile).
Proof. exact ts_loss_is_reported. Qed.

(* (4) recovery: further records; a half-done rotation is completed by the first of them *)
Theorem C19_ts_recovery :
  forall c m t0 off fl recs1 recs2,
  tscfg c (CSize m) -> c_cap c = None -> tag_ok c -> ticks_ok (recs1 ++ recs2) ->
  (0 <= t0 + ts_e c off)%Z -> (t0 + telapsed (recs1 ++ recs2) + ts_e c off < sec_max)%Z ->
  (N.of_nat (length (recs1 ++ recs2)) <= usize_max)%N ->
  let x1 := fst (run (fsys t0 off fl) (OStart c :: tops recs1)) in
  let r2 := run (fsys t0 off fl) (OStart c :: tops (recs1 ++ recs2)) in
  let '(st1, _, _) := simts_st (c_append c) m t0 (ZInit None) fl recs1 in
  let '(st2, _, _) := simts_st (c_append c) m t0 (ZInit None) fl (recs1 ++ recs2) in
  all_false (wfaults (s_w x1)) ->
  ts_view_opt c (ts_e c off) (wfs (s_w x1)) (z_keys st1) (z_closed st1) (z_cur st1)
  /\ ts_view_opt c (ts_e c off) (wfs (s_w (fst r2))) (z_keys st2) (z_closed st2) (z_cur st2)
  /\ werrs (s_w (fst r2)) = werrs (s_w x1)
  /\ dir_stream (z_closed st2) (z_cur st2) = dir_stream (z_closed st1) (z_cur st1) ++ concat (List.map snd recs2)
  /\ zaview st2 = s_run m (zaview st1) (tops recs2)
  /\ zextends st1 st2
  /\ keys_ok (z_keys st2)
  /\ (recs2 <> [] -> exists keys closed ts d, st2 = ZCur keys closed ts d)
  /\ (forall o, In o (snd r2) -> exists rot, o = ObsRes 0 rot).
Proof. exact ts_recovery. Qed.

(* (4) recovery: arbitrary basic operations once the oracle is used up and the writer is on rCURRENT *)
Theorem C19_ts_recovery_ops :
  forall c m t0 off fl recs ops,
  tscfg c (CSize m) -> c_cap c = None -> tag_ok c -> ticks_ok recs ->
  Forall basic_op ops -> Forall tick_ok ops ->
  (0 <= t0 + ts_e c off)%Z -> (t0 + telapsed recs + elapsed ops + ts_e c off < sec_max)%Z ->
  (N.of_nat (length recs + length ops) <= usize_max)%N ->
  let x := fst (run (fsys t0 off fl) (OStart c :: tops recs)) in
  let '(st, _, rest) := simts_st (c_append c) m t0 (ZInit None) fl recs in
  rest = [] -> forall keys closed ts d, st = ZCur keys closed ts d ->
    let kt := kts_run m (keys, ts) (Some (closed, d)) (t0 + telapsed recs) ops in
    RelTK c (CSize m) (ts_e c off) t0 (length recs) x (Some (closed, d)) keys ts
    /\ RelTK c (CSize m) (ts_e c off) t0 (length recs + length ops) (fst (run x ops)) (s_run m (Some (closed, d)) ops) (fst kt) (snd kt)
    /\ (forall i o b, nth_error ops i = Some o -> (o = OWrite b \/ o = OPlain b) ->
          nth_error (snd (run x ops)) i
          = Some (ObsRes 0 (m <? N.of_nat (length (cur_of (s_run m (Some (closed, d)) (firstn i ops)))))%N)).
Proof. exact ts_recovery_ops. Qed.

(* the half-failed rotation: rename done, open failed twice - all three records in the renamed file, no rCURRENT, the naming
   state carries the second of the last failed attempt; then recovery: nothing renamed twice, nothing lost *)
Theorem C19_ts_half_failed_rotation :
  zx_run false 3 zx_fl (firstn 3 trecs5) = ([(z00, 0%N, bs "abcdefgh")], Some 1%Z, [ELogFile; ELogFile], [], true)
  /\ zx_run false 3 zx_fl trecs5
     = ([(z00, 0%N, bs "abcdefgh"); (z01, 0%N, bs "ijkl"); (zC, 0%N, bs "mn")], Some 3%Z, [ELogFile; ELogFile], [], true).
Proof. split; vm_compute; reflexivity. Qed.

Print Assumptions C19_ts_faults.
Print Assumptions C19_ts_faults_state.
Print Assumptions C19_ts_lost_only_around_failures.
Print Assumptions C19_ts_loss_is_reported.
Print Assumptions C19_ts_recovery.
Print Assumptions C19_ts_recovery_ops.

(* ------------------------------------------------------------------ rotation WITH cleanup KeepLogFiles n *)
(* Numbers naming, size criterion, direct mode, cleanup KeepLogFiles n in the caller's thread, synchronous: proofs in
   Flw/FaultCleanupSpec.v (the specification simk and what it implies) and Flw/FaultCleanup.v (refinement).  The closed
   files are a list of (index, content): a cleanup that failed half-way leaves gaps in the numbers. *)
Require Import FL.Flw.NumCleanupNames FL.Flw.NumCleanupRun FL.Flw.FaultCleanupSpec FL.Flw.FaultCleanup.

(* (1) every fault oracle, every list of records: the directory, the error channel and the rest of the oracle are what
   the specification simk computes; every operation returns normally *)
Theorem C19_cleanup_faults :
  forall c m n t0 off fl recs,
  numkcfg c (CSize m) (KLog n) -> c_cap c = None -> sfx_ok (c_spec c) -> (N.of_nat (length recs) <= u32_max)%N ->
  let r := run (fsys t0 off fl) (OStart c :: List.map OWrite recs) in
  let '(closed, ocur, errs, rest) := simk (c_append c) m n fl recs in
  kview c (wfs (s_w (fst r))) closed ocur
  /\ werrs (s_w (fst r)) = errs
  /\ wfaults (s_w (fst r)) = rest
  /\ (forall o, In o (snd r) -> exists rot, o = ObsRes 0 rot).
Proof. exact faults_rotation_cleanup. Qed.

(* (2) record by record: lg = the files closed for good, in order; the log (their contents, then the writer's file) is
   the concatenation of the records that were kept; the closed files in the directory are some of lg, unchanged (or
   empty files left by failed initialisations); a record is missing only if its own log call consumed a failing entry
   and reported EWrite *)
Theorem C19_cleanup_lost_only_around_failures :
  forall c m n t0 off fl recs,
  numkcfg c (CSize m) (KLog n) -> c_cap c = None -> sfx_ok (c_spec c) -> (N.of_nat (length recs) <= u32_max)%N ->
  let x := fst (run (fsys t0 off fl) (OStart c :: List.map OWrite recs)) in
  let t := ktrace (c_append c) m n (KInit [] false) fl recs in
  let lg := klog (c_append c) m n (KInit [] false) fl recs in
  exists st,
    kview c (wfs (s_w x)) (k_closed st) (k_cur st)
    /\ concat (List.map snd lg) ++ k_wcur st = concat (List.map t_kept t)
    /\ (forall p, In p (k_cl st) -> In p lg \/ snd p = [])
    /\ List.map t_rec t = recs
    /\ werrs (s_w x) = concat (List.map t_errs t)
    /\ fl = concat (List.map t_used t) ++ wfaults (s_w x)
    /\ (forall e, In e t -> length (t_errs e) = ntrue (t_used e))
    /\ (forall e, In e t -> (forall f, In f (t_used e) -> f = false) -> t_errs e = [] /\ t_kept e = t_rec e)
    /\ (forall e, In e t -> t_kept e <> t_rec e -> In true (t_used e) /\ In EWrite (t_errs e)).
Proof. exact faults_rotation_cleanup_trace. Qed.

(* (2), (3) the log is the concatenation of a subsequence of the records; every missing record is one reported EWrite *)
Theorem C19_cleanup_loss_is_reported :
  forall c m n t0 off fl recs,
  numkcfg c (CSize m) (KLog n) -> c_cap c = None -> sfx_ok (c_spec c) -> (N.of_nat (length recs) <= u32_max)%N ->
  let x := fst (run (fsys t0 off fl) (OStart c :: List.map OWrite recs)) in
  exists st kept,
    kview c (wfs (s_w x)) (k_closed st) (k_cur st)
    /\ concat (List.map snd (klog (c_append c) m n (KInit [] false) fl recs)) ++ k_wcur st = concat kept
    /\ Subseq kept recs
    /\ length recs = length kept + nlost (werrs (s_w x))
    /\ nlost (werrs (s_w x)) <= length (werrs (s_w x)).
Proof. exact faults_rotation_cleanup_stream. Qed.

(* a failure inside the cleanup AT A ROTATION (rename and create have succeeded) never loses a record: the record is lost
   only if its own write call fails; a failed cleanup is reported (ELogFile) and leaves MORE files than the limit - the
   newest n and a front part `older` of the surplus files -, never fewer *)
Theorem C19_cleanup_fault_loses_no_record :
  forall m n (old : bool) (cl : cdir) idx (d b : bytes) fl2 cl2 ok fl3,
  (m <? N.of_nat (length d))%N = true ->
  s_cleanup n (cl ++ [(idx, d)]) fl2 = (cl2, ok, fl3) ->
  let f := fst (wr_pop b fl3) in
  k_active m n old cl idx d b (false :: false :: fl2)
  = (KCur cl2 (S idx) (if f then [] else b), (if ok then [] else [ELogFile]) ++ (if f then [EWrite] else []), snd (wr_pop b fl3))
  /\ lost ((if ok then [] else [ELogFile]) ++ (if f then [EWrite] else [])) = f
  /\ exists older gone, cl2 = older ++ lastn n (cl ++ [(idx, d)]) /\ butlastn n (cl ++ [(idx, d)]) = older ++ gone
       /\ (ok = true -> older = []) /\ Nat.min n (S (length cl)) <= length cl2.
Proof. exact cleanup_fault_loses_no_record. Qed.

(* ... but AT THE INITIALISATION it does: the cleanup is one more step of initialize, and a failing step of initialize
   loses the record being written (reported with EWrite) - the statement "a failure inside the cleanup never loses a
   record" is FALSE for the first cleanup of a writer.  Counterexample on the model: FaultCleanup.kx_init_cleanup_fails_loses_record *)
Theorem C19_cleanup_init_fault_loses_record :
  forall (ap : bool) m n (cl : cdir) (created : bool) (b : bytes) fl4 cl2 fl5,
  let idx := next_idx cl in
  let cl1 := if ap then cl else if created then cl ++ [(idx, [])] else cl in
  s_cleanup n cl1 fl4 = (cl2, false, fl5) ->
  k_init ap m n cl created b (false :: false :: false :: fl4) = (KInit cl2 true, [EWrite], fl5).
Proof. exact init_cleanup_fault_loses_record. Qed.
Definition C19_cleanup_init_counterexample := kx_init_cleanup_fails_loses_record.

(* (4) the limit is restored: once the oracle is used up, the next initialisation or rotation leaves at most n closed files,
   and so it stays; nothing more is reported *)
Theorem C19_cleanup_limit_restored :
  forall c m n t0 off fl recs1 b recs2,
  numkcfg c (CSize m) (KLog n) -> c_cap c = None -> sfx_ok (c_spec c) ->
  (N.of_nat (length (recs1 ++ b :: recs2)) <= u32_max)%N ->
  let '(st1, e1, fl1) := simk_st (c_append c) m n (KInit [] false) fl recs1 in
  all_false fl1 -> krotates m st1 = true ->
  let x := fst (run (fsys t0 off fl) (OStart c :: List.map OWrite (recs1 ++ b :: recs2))) in
  exists cl d, kview c (wfs (s_w x)) cl (Some d) /\ length cl <= n /\ werrs (s_w x) = e1.
Proof. exact cleanup_limit_restored. Qed.

(* (4) on the specification: no more reports, every further record in the log, a limit that holds keeps holding *)
Theorem C19_cleanup_recovery_spec :
  forall ap m n recs st fl, all_false fl -> kpending_ok m st ->
  let '(st', e, fl') := simk_st ap m n st fl recs in
  e = [] /\ all_false fl'
  /\ concat (List.map snd (klog ap m n st fl recs)) ++ k_wcur st' = k_wcur st ++ concat recs
  /\ (limit_ok n st -> limit_ok n st')
  /\ (recs <> [] -> exists cl idx d, st' = KCur cl idx d).
Proof. exact recovery_cleanup_spec. Qed.

Print Assumptions C19_cleanup_faults.
Print Assumptions C19_cleanup_lost_only_around_failures.
Print Assumptions C19_cleanup_loss_is_reported.
Print Assumptions C19_cleanup_fault_loses_no_record.
Print Assumptions C19_cleanup_init_fault_loses_record.
Print Assumptions C19_cleanup_limit_restored.
Print Assumptions C19_cleanup_recovery_spec.

(* ------------------------------------------------------------------ rotation with a COMPRESSING cleanup *)
(* Numbers naming, size criterion, direct mode, cleanup KeepLogFiles a / KeepCompressedFiles b / KeepLogAndCompressedFiles a b
   in the caller's thread (klim k = Some (ll, cl): ll files kept as they are, cl kept as archives), synchronous: proofs in
   Flw/FaultGzSpec.v (the specification simg and what it implies) and Flw/FaultGz.v (refinement).  The closed files are
   the plain ones pl and the archives ar, lists of (index, content); a compression that was interrupted leaves an
   archive - empty, or with the full content - next to its original; the next cleanup removes it first. *)
Require Import FL.Flw.NumCleanupStep FL.Flw.FaultGzSpec FL.Flw.FaultGz.

Theorem C19_gz_faults :
  forall c m k ll cl t0 off fl recs,
  numkcfg c (CSize m) k -> klim k = Some (ll, cl) -> c_cap c = None -> sfx_ok (c_spec c) ->
  (N.of_nat (length recs) <= u32_max)%N ->
  let r := run (fsys t0 off fl) (OStart c :: List.map OWrite recs) in
  let '(plain, archives, ocur, errs, rest) := simg (c_append c) m ll (ll + cl) fl recs in
  hview c (wfs (s_w (fst r))) plain archives ocur
  /\ werrs (s_w (fst r)) = errs
  /\ wfaults (s_w (fst r)) = rest
  /\ (forall o, In o (snd r) -> exists rot, o = ObsRes 0 rot).
Proof. exact faults_rotation_gz. Qed.

Theorem C19_gz_lost_only_around_failures :
  forall c m k ll cl t0 off fl recs,
  numkcfg c (CSize m) k -> klim k = Some (ll, cl) -> c_cap c = None -> sfx_ok (c_spec c) ->
  (N.of_nat (length recs) <= u32_max)%N ->
  let x := fst (run (fsys t0 off fl) (OStart c :: List.map OWrite recs)) in
  let t := gtrace (c_append c) m ll (ll + cl) (GInit [] [] false) fl recs in
  let lg := glog (c_append c) m ll (ll + cl) (GInit [] [] false) fl recs in
  exists st,
    hview c (wfs (s_w x)) (g_plain st) (g_arch st) (g_cur st)
    /\ concat (List.map snd lg) ++ g_wcur st = concat (List.map t_kept t)
    /\ (forall p, In p (g_pl st) \/ In p (g_arch st) -> In p lg \/ snd p = [])
    /\ List.map t_rec t = recs
    /\ werrs (s_w x) = concat (List.map t_errs t)
    /\ fl = concat (List.map t_used t) ++ wfaults (s_w x)
    /\ (forall e, In e t -> length (t_errs e) = ntrue (t_used e))
    /\ (forall e, In e t -> (forall f, In f (t_used e) -> f = false) -> t_errs e = [] /\ t_kept e = t_rec e)
    /\ (forall e, In e t -> t_kept e <> t_rec e -> In true (t_used e) /\ In EWrite (t_errs e)).
Proof. exact faults_rotation_gz_trace. Qed.

Theorem C19_gz_loss_is_reported :
  forall c m k ll cl t0 off fl recs,
  numkcfg c (CSize m) k -> klim k = Some (ll, cl) -> c_cap c = None -> sfx_ok (c_spec c) ->
  (N.of_nat (length recs) <= u32_max)%N ->
  let x := fst (run (fsys t0 off fl) (OStart c :: List.map OWrite recs)) in
  exists st kept,
    hview c (wfs (s_w x)) (g_plain st) (g_arch st) (g_cur st)
    /\ concat (List.map snd (glog (c_append c) m ll (ll + cl) (GInit [] [] false) fl recs)) ++ g_wcur st = concat kept
    /\ Subseq kept recs
    /\ length recs = length kept + nlost (werrs (s_w x))
    /\ nlost (werrs (s_w x)) <= length (werrs (s_w x)).
Proof. exact faults_rotation_gz_stream. Qed.

(* a failure inside the cleanup at a rotation - listing, removal of a redundant archive, any step of a compression, a
   removal - never loses a record; the cleanup only deletes and compresses (arch_of: an archive holds the content of its
   original, or nothing) *)
Theorem C19_gz_cleanup_fault_loses_no_record :
  forall m ll total (old : bool) (pl ar : cdir) idx (d b : bytes) fl2 pl2 ar2 ok fl3,
  (m <? N.of_nat (length d))%N = true ->
  g_cleanup ll total (pl ++ [(idx, d)]) ar fl2 = (pl2, ar2, ok, fl3) ->
  let f := fst (wr_pop b fl3) in
  g_active m ll total old pl ar idx d b (false :: false :: fl2)
  = (GCur pl2 ar2 (S idx) (if f then [] else b), (if ok then [] else [ELogFile]) ++ (if f then [EWrite] else []), snd (wr_pop b fl3))
  /\ lost ((if ok then [] else [ELogFile]) ++ (if f then [EWrite] else [])) = f
  /\ (forall p, In p pl2 -> In p (pl ++ [(idx, d)]))
  /\ (forall p, In p ar2 -> In p ar \/ arch_of (pl ++ [(idx, d)]) p).
Proof. exact cleanup_fault_loses_no_record_g. Qed.

(* the limits are restored by the first cleanup that gets through *)
Theorem C19_gz_limit_restored :
  forall c m k ll cl t0 off fl recs1 b recs2,
  numkcfg c (CSize m) k -> klim k = Some (ll, cl) -> c_cap c = None -> sfx_ok (c_spec c) ->
  (N.of_nat (length (recs1 ++ b :: recs2)) <= u32_max)%N ->
  let '(st1, e1, fl1) := simg_st (c_append c) m ll (ll + cl) (GInit [] [] false) fl recs1 in
  all_false fl1 -> grotates m st1 = true ->
  let x := fst (run (fsys t0 off fl) (OStart c :: List.map OWrite (recs1 ++ b :: recs2))) in
  exists pl ar d, hview c (wfs (s_w x)) pl ar (Some d) /\ length pl <= ll /\ length pl + length ar <= ll + cl /\ werrs (s_w x) = e1.
Proof. exact gz_limit_restored. Qed.

Print Assumptions C19_gz_faults.
Print Assumptions C19_gz_lost_only_around_failures.
Print Assumptions C19_gz_loss_is_reported.
Print Assumptions C19_gz_cleanup_fault_loses_no_record.
Print Assumptions C19_gz_limit_restored.
