(* C17 - specification text forms round-trip; parsing reports exactly the malformed parts.  Statements only. *)
Require Import FL.Base.Bytes FL.LogSpec.Spec FL.LogSpec.SpecFacts FL.LogSpec.ParseFacts.
Open Scope nat_scope.

(* parse is a total function of the string (no panic is possible), and this is all it does: with more than one
   '/' the error carries `off`; otherwise the errors are those of the malformed live (trimmed, non-empty) parts of
   the module section, plus one for a regex that does not compile, and the specification that is returned or
   attached to the error is level_sort of exactly the filters of the well-formed parts *)
Theorem C17_parse_exact :
  forall re_ok s,
  match shape_of s with
  | ShTooMany => parse re_ok s = ([PTooManySlashes], spec_off)
  | ShMods m =>
    parse re_ok s = (errors_of (live_parts m), {| sp_filters := level_sort (filters_of (live_parts m)); sp_text := None |})
  | ShModsRe m r =>
    parse re_ok s = (errors_of (live_parts m) ++ (if re_ok r then [] else [PRegex]),
                     {| sp_filters := level_sort (filters_of (live_parts m)); sp_text := if re_ok r then Some r else None |})
  end.
Proof. exact parse_exact. Qed.

(* an error is returned exactly when some part is malformed *)
Theorem C17_parse_ok_iff :
  forall re_ok s,
  fst (parse re_ok s) = [] <->
  match shape_of s with
  | ShTooMany => False
  | ShMods m => forall p, In p (live_parts m) -> exists f, parse_part p = inr f
  | ShModsRe m r => (forall p, In p (live_parts m) -> exists f, parse_part p = inr f) /\ re_ok r = true
  end.
Proof. exact parse_ok_iff. Qed.

Check C17_parse_exact. Check C17_parse_ok_iff.
Print Assumptions C17_parse_exact.
Print Assumptions C17_parse_ok_iff.
