(* C17 - specification text forms round-trip; parsing reports exactly the malformed parts.  Statements only. *)
Require Import FL.Base.Bytes FL.LogSpec.Spec FL.LogSpec.SpecFacts FL.LogSpec.ParseFacts FL.LogSpec.RoundTrip.
Open Scope nat_scope.

(* parse is a total function of the string (no panic is possible), and this is all it does: with more than one
   '/' the error carries `off`; otherwise the errors are those of the malformed live (trimmed, non-empty) parts of
   the module section, plus one for a regex that does not compile, and the specification that is returned or
   attached to the error is level_sort of exactly the filters of the well-formed parts *)
Theorem C17_parse_exact :
  forall re_ok s,
  match shape_of s with
  | ShTooMany => parse re_ok s = ([PTooManySlashes], spec_off)
  | ShMods m =>
    parse re_ok s = (errors_of (live_parts m), {| sp_filters := level_sort (filters_of (live_parts m)); sp_text := None |})
  | ShModsRe m r =>
    parse re_ok s = (errors_of (live_parts m) ++ (if re_ok r then [] else [PRegex]),
                     {| sp_filters := level_sort (filters_of (live_parts m)); sp_text := if re_ok r then Some r else None |})
  end.
Proof. exact parse_exact. Qed.

(* an error is returned exactly when some part is malformed *)
Theorem C17_parse_ok_iff :
  forall re_ok s,
  fst (parse re_ok s) = [] <->
  match shape_of s with
  | ShTooMany => False
  | ShMods m => forall p, In p (live_parts m) -> exists f, parse_part p = inr f
  | ShModsRe m r => (forall p, In p (live_parts m) -> exists f, parse_part p = inr f) /\ re_ok r = true
  end.
Proof. exact parse_ok_iff. Qed.

(* Display followed by parse gives back the identical filter list, without error, for every specification
   value (a list as level_sort produces it) whose names are printable - non-empty, free of white space and of the
   separators , = / ; level words are allowed as names - and that has at most one default *)
Theorem C17_display_roundtrip :
  forall re_ok fs, desc fs -> filters_ok fs -> one_default fs ->
    parse re_ok (display fs) = ([], {| sp_filters := fs; sp_text := None |}).
Proof. exact display_roundtrip. Qed.

(* the specfile form, semantic half (what to_toml writes = to_doc, what from_toml builds from a document = from_doc;
   the TOML text syntax is the toml crate's business): reading back what was written decides identically for
   every level and target *)
Theorem C17_toml_roundtrip :
  forall fs lvl t, desc fs -> wf_filters fs ->
    enabled (from_doc (to_doc fs)) lvl t = enabled fs lvl t.
Proof. exact toml_roundtrip. Qed.

(* non-vacuity: a sorted specification with prefix-related names and a level word as a name *)
Example C17_nonvacuous :
  let fs := level_sort [(Some [97%N], 4); (Some [97%N; 58%N; 58%N; 98%N], 0); (Some w_info, 5); (None, 2)] in
  desc fs /\ display fs <> [] /\ parse (fun _ => true) (display fs) = ([], {| sp_filters := fs; sp_text := None |}).
Proof. split; [apply sort_desc | split; [vm_compute; discriminate | vm_compute; reflexivity]]. Qed.

Check C17_parse_exact. Check C17_parse_ok_iff.
Print Assumptions C17_parse_exact.
Print Assumptions C17_parse_ok_iff.
Print Assumptions C17_display_roundtrip.
Print Assumptions C17_toml_roundtrip.
