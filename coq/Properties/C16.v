(* C16 - names as documented; path-derived specs.  Statements only. *)
Require Import FL.Base.Bytes FL.Base.BytesFacts FL.Base.PathName FL.Names.FileSpec FL.Flw.Model FL.Oracles.O_Names FL.Oracles.ReaderOrder FL.Names.FamilyFacts.

Lemma rfind_byte_spec c s i : rfind_byte c s = Some i -> s = firstn i s ++ c :: skipn (S i) s.
Proof.
  revert i. induction s as [|x s IH]; intros i H; [discriminate|]. cbn [rfind_byte] in H.
  destruct (rfind_byte c s) as [j|] eqn:E.
  - injection H as <-. cbn [firstn skipn app]. f_equal. apply IH. reflexivity.
  - destruct (N.eqb_spec x c) as [->|N]; [|discriminate]. injection H as <-. reflexivity.
Qed.

(* FileSpec::try_from(p) takes the stem as basename and the extension as suffix; as_pathbuf puts them together
   again with a dot: for every file name the result is the name itself, so the derived spec denotes exactly p *)
Theorem C16_stem_ext_roundtrip :
  forall name, file_stem name ++ (match extension name with Some e => dot :: e | None => [] end) = name.
Proof.
  intros name. unfold file_stem, extension, split_at_last_dot.
  destruct (beq name [dot; dot]); [apply app_nil_r|].
  destruct (rfind_byte dot name) as [[|i]|] eqn:E; cbn [fst snd]; try apply app_nil_r.
  symmetry. apply rfind_byte_spec. exact E.
Qed.

(* when no part is empty-but-present, the documented fixed part is the one the code computes *)
Theorem C16_doc_fixed_is_fixed :
  forall sp t, fdisc sp <> Some [] -> (fts sp = true -> t <> []) -> doc_fixed sp t = fixed_name_part sp t.
Proof.
  intros [b d ts s] t Hd Ht. unfold doc_fixed, fixed_name_part, under. cbn [fbase fdisc fts] in *.
  destruct b as [|b0 br], d as [[|d0 dr]|], ts; try (exfalso; apply Hd; reflexivity);
    try (destruct t as [|t0 tr]; [exfalso; apply Ht; reflexivity|]); cbn [filter join app]; rewrite <- ?app_assoc; reflexivity.
Qed.

(* a name built from the parts is recognised again with the same infix (unless the name ends with .gz, which
   stands for a compressed file): building and recognising family names are inverse to each other *)
Theorem C16_name_roundtrip : forall sp fixed infix,
  infix <> [] ->
  strip_suffix (dot :: gz_sfx) (as_name sp fixed (Some infix)) = None ->
  full_infix sp fixed (as_name sp fixed (Some infix)) = Some infix.
Proof. exact full_infix_as_name. Qed.

Check C16_stem_ext_roundtrip. Check C16_doc_fixed_is_fixed.
Print Assumptions C16_stem_ext_roundtrip.
Print Assumptions C16_doc_fixed_is_fixed.
Print Assumptions C16_name_roundtrip.
