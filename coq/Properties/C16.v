(* C16 - names as documented; path-derived specs.  Statements only. *)
Require Import FL.Base.Bytes FL.Base.BytesFacts FL.Base.PathName FL.Names.FileSpec FL.Flw.Model FL.Oracles.O_Names FL.Oracles.ReaderOrder FL.Names.FamilyFacts.

Lemma rfind_byte_spec c s i : rfind_byte c s = Some i -> s = firstn i s ++ c :: skipn (S i) s.
Proof.
  revert i. induction s as [|x s IH]; intros i H; [discriminate|]. cbn [rfind_byte] in H.
  destruct (rfind_byte c s) as [j|] eqn:E.
  - injection H as <-. cbn [firstn skipn app]. f_equal. apply IH. reflexivity.
  - destruct (N.eqb_spec x c) as [->|N]; [|discriminate]. injection H as <-. reflexivity.
Qed.

(* FileSpec::try_from(p) takes the stem as basename and the extension as suffix; as_pathbuf puts them together
   again with a dot: for every file name the result is the name itself, so the derived spec denotes exactly p *)
Theorem C16_stem_ext_roundtrip :
  forall name, file_stem name ++ (match extension name with Some e => dot :: e | None => [] end) = name.
Proof.
  intros name. unfold file_stem, extension, split_at_last_dot.
  destruct (beq name [dot; dot]); [apply app_nil_r|].
  destruct (rfind_byte dot name) as [[|i]|] eqn:E; cbn [fst snd]; try apply app_nil_r.
  symmetry. apply rfind_byte_spec. exact E.
Qed.

(* when no part is empty-but-present, the documented fixed part is the one the code computes *)
Theorem C16_doc_fixed_is_fixed :
  forall sp t, fdisc sp <> Some [] -> (fts sp = true -> t <> []) -> doc_fixed sp t = fixed_name_part sp t.
Proof.
  intros [b d ts s] t Hd Ht. unfold doc_fixed, fixed_name_part, under. cbn [fbase fdisc fts] in *.
  destruct b as [|b0 br], d as [[|d0 dr]|], ts; try (exfalso; apply Hd; reflexivity);
    try (destruct t as [|t0 tr]; [exfalso; apply Ht; reflexivity|]); cbn [filter join app]; rewrite <- ?app_assoc; reflexivity.
Qed.

(* a name built from the parts is recognised again with the same infix (unless the name ends with .gz, which
   stands for a compressed file): building and recognising family names are inverse to each other *)
Theorem C16_name_roundtrip : forall sp fixed infix,
  infix <> [] ->
  strip_suffix (dot :: gz_sfx) (as_name sp fixed (Some infix)) = None ->
  full_infix sp fixed (as_name sp fixed (Some infix)) = Some infix.
Proof. exact full_infix_as_name. Qed.

Require Import FL.Fs.Fs FL.Flw.Run FL.Flw.NumInv FL.Flw.NumRun FL.Flw.NumRestart FL.Flw.NumDInv FL.Flw.NumDRun FL.Flw.TsTime FL.Flw.TsNames FL.Flw.TsInv FL.Flw.TsRun FL.Flw.TsTheorems FL.Flw.TsReader FL.Flw.NumCleanupNames FL.Flw.NumCleanupStep FL.Flw.NumCleanupRun FL.Flw.NumCleanup FL.Flw.NoPanic FL.Flw.NamesDocumented FL.Flw.ListingExact FL.Oracles.O_Names.
(* END TO END: every file that any history of a Numbers-naming writer leaves is named as documented (the oracle name_documented that
   is applied to the implementation accepts it); hypothesis: the suffix does not end in .gz *)
Theorem C16_numbers_names_documented c crit t0 off ops :
  numcfg c crit -> not_gz c -> Forall basic_op ops ->
  all_documented c (wfs (s_w (fst (run (sys0 t0 off) (OStart c :: ops ++ [OStop]))))).
Proof. exact (numbers_names_documented c crit t0 off ops). Qed.

(* ... also with a cleanup strategy (archives) *)
Theorem C16_numbers_cleanup_names_documented c crit k t0 off ops :
  numkcfg c crit k -> not_gz c -> Forall basic_op ops ->
  kside c k (nclosed (a_run None ops (snd (run (fst (step (sys0 t0 off) (OStart c))) ops)))) ->
  all_documented c (wfs (s_w (fst (run (sys0 t0 off) (OStart c :: ops ++ [OStop]))))).
Proof. exact (numbers_cleanup_names_documented c crit k t0 off ops). Qed.

(* NumbersDirect naming *)
Theorem C16_numbersdirect_names_documented c crit t0 off ops :
  numdcfg c crit -> not_gz c -> Forall basic_op ops ->
  all_documented c (wfs (s_w (fst (run (sys0 t0 off) (OStart c :: ops ++ [OStop]))))).
Proof. exact (numbersdirect_names_documented c crit t0 off ops). Qed.

(* Timestamps naming *)
Theorem C16_timestamps_names_documented c crit t0 off ops :
  tscfg c crit -> tag_ok c -> not_gz c -> Forall basic_op ops -> Forall tick_ok ops ->
  (0 <= t0 + ts_e c off)%Z -> (t0 + elapsed ops + ts_e c off < sec_max)%Z -> (N.of_nat (length ops) <= usize_max)%N ->
  all_documented c (wfs (s_w (fst (run (sys0 t0 off) (OStart c :: ops ++ [OStop]))))).
Proof. exact (timestamps_names_documented c crit t0 off ops). Qed.

(* existing_log_files returns exactly the existing family files that the selector asks for: Numbers naming, any cleanup strategy,
   every history, every selector whose custom current infix, if any, is not the infix of a rotated file (a number infix); rCURRENT
   asked for twice - with_r_current and with_custom_current("rCURRENT") - is listed once *)
Theorem C16_numbers_listing_exact c crit k t0 off ops sel :
  numkcfg c crit k -> not_gz c -> Forall basic_op ops -> custom_ok sel ->
  kside c k (nclosed (a_run None ops (snd (run (fst (step (sys0 t0 off) (OStart c))) ops)))) ->
  let x := fst (run (sys0 t0 off) (OStart c :: ops)) in
  exists l, step x (OQuery sel) = (x, ObsList 0%N l)
            /\ oracle_listing sel c (snap_of x) l = true
            /\ sort_names l = expected_listing sel c (snap_of x).
Proof. exact (numbers_listing_exact c crit k t0 off ops sel). Qed.

(* NumbersDirect naming *)
Theorem C16_numbersdirect_listing_exact c crit t0 off ops sel :
  numdcfg c crit -> not_gz c -> Forall basic_op ops -> custom_ok_d sel ->
  let x := fst (run (sys0 t0 off) (OStart c :: ops)) in
  exists l, step x (OQuery sel) = (x, ObsList 0%N l)
            /\ oracle_listing sel c (snap_of x) l = true
            /\ sort_names l = expected_listing sel c (snap_of x).
Proof. exact (numbersdirect_listing_exact c crit t0 off ops sel). Qed.

(* Timestamps naming *)
Theorem C16_timestamps_listing_exact c crit t0 off ops sel :
  tscfg c crit -> tag_ok c -> not_gz c -> Forall basic_op ops -> Forall tick_ok ops -> custom_ok_ts sel ->
  (0 <= t0 + ts_e c off)%Z -> (t0 + elapsed ops + ts_e c off < sec_max)%Z -> (N.of_nat (length ops) <= usize_max)%N ->
  let x := fst (run (sys0 t0 off) (OStart c :: ops)) in
  exists l, step x (OQuery sel) = (x, ObsList 0%N l)
            /\ oracle_listing sel c (snap_of x) l = true
            /\ sort_names l = expected_listing sel c (snap_of x).
Proof. exact (timestamps_listing_exact c crit t0 off ops sel). Qed.

Require Import FL.Flw.NumDTheorems FL.Flw.TsdInv FL.Flw.TsdRun FL.Flw.TsdTheorems FL.Flw.WorldPar FL.Flw.LinkSim.
(* a configured symlink leads to the file being written, after every operation of every history without failures (before the first write it
   is absent); with a failing open at a rotation it dangles until the next successful open - counterexample ex_link_fault in Flw/LinkSim.v *)
Theorem C16_symlink_points_to_current c t0 off ops :
  c_symlink c = true -> c_async c = false -> Forall basic_op ops ->
  clean_run (fst (step (sys0 t0 off) (OStart (nolink c)))) ops ->
  let x := fst (run (sys0 t0 off) (OStart c :: ops)) in
  exists s, s_flw x = Some s /\
    match f_inner s with
    | Active _ _ path => wlink (s_w x) = Some path
    | Initial => wlink (s_w x) = None
    end.
Proof. exact (symlink_points_to_current c t0 off ops). Qed.

(* Numbers naming: the link is rCURRENT *)
Theorem C16_numbers_symlink_current c crit t0 off ops :
  numcfg (nolink c) crit -> c_symlink c = true -> Forall basic_op ops ->
  wlink (s_w (fst (run (sys0 t0 off) (OStart c :: ops)))) = if has_write ops then Some (cname c) else None.
Proof. exact (numbers_symlink_current c crit t0 off ops). Qed.

(* NumbersDirect naming: the link is the file with the highest number *)
Theorem C16_numbersdirect_symlink_current c crit t0 off ops :
  numdcfg (nolink c) crit -> c_symlink c = true -> Forall basic_op ops ->
  wlink (s_w (fst (run (sys0 t0 off) (OStart c :: ops))))
  = match a_run None ops (snd (run (fst (step (sys0 t0 off) (OStart (nolink c)))) ops)) with
    | Some (closed, _) => Some (rname c (length closed))
    | None => None
    end.
Proof. exact (numbersdirect_symlink_current c crit t0 off ops). Qed.

(* TimestampsDirect naming: the link is the file with the newest key *)
Theorem C16_timestampsdirect_symlink_current c crit t0 off ops :
  tsdcfg (nolink c) crit -> tag_ok c -> c_symlink c = true -> Forall basic_op ops -> Forall tick_ok ops ->
  (0 <= t0 + ts_e c off)%Z -> (t0 + elapsed ops + ts_e c off < sec_max)%Z -> (N.of_nat (length ops) <= usize_max)%N ->
  let x := fst (run (sys0 t0 off) (OStart c :: ops)) in
  if has_write ops
  then exists keys, keys <> [] /\ keys_ok keys /\ dir_is c (ts_e c off) (wfs (s_w x)) keys
         /\ wlink (s_w x) = Some (kname c (ts_e c off) (nth (length keys - 1) keys kd))
  else wlink (s_w x) = None.
Proof. exact (timestampsdirect_symlink_current c crit t0 off ops). Qed.

Check C16_stem_ext_roundtrip. Check C16_doc_fixed_is_fixed.
Print Assumptions C16_stem_ext_roundtrip.
Print Assumptions C16_doc_fixed_is_fixed.
Print Assumptions C16_name_roundtrip.
Check C16_numbers_names_documented.
Print Assumptions C16_numbers_names_documented.
Check C16_numbers_cleanup_names_documented.
Print Assumptions C16_numbers_cleanup_names_documented.
Check C16_numbersdirect_names_documented.
Print Assumptions C16_numbersdirect_names_documented.
Check C16_timestamps_names_documented.
Print Assumptions C16_timestamps_names_documented.
Check C16_numbers_listing_exact.
Print Assumptions C16_numbers_listing_exact.
Check C16_numbersdirect_listing_exact.
Print Assumptions C16_numbersdirect_listing_exact.
Check C16_timestamps_listing_exact.
Print Assumptions C16_timestamps_listing_exact.
Check C16_symlink_points_to_current.
Print Assumptions C16_symlink_points_to_current.
Check C16_numbers_symlink_current.
Print Assumptions C16_numbers_symlink_current.
Check C16_numbersdirect_symlink_current.
Print Assumptions C16_numbersdirect_symlink_current.
Check C16_timestampsdirect_symlink_current.
Print Assumptions C16_timestampsdirect_symlink_current.

Require Import FL.Flw.TsdNames FL.Flw.TsdListing.
(* TimestampsDirect naming: every file of every history is named as documented ... *)
Theorem C16_timestampsdirect_names_documented c crit t0 off ops :
  tsdcfg c crit -> tag_ok c -> not_gz c -> Forall basic_op ops -> Forall tick_ok ops ->
  (0 <= t0 + ts_e c off)%Z -> (t0 + elapsed ops + ts_e c off < sec_max)%Z -> (N.of_nat (length ops) <= usize_max)%N ->
  all_documented c (wfs (s_w (fst (run (sys0 t0 off) (OStart c :: ops ++ [OStop]))))).
Proof. exact (timestampsdirect_names_documented c crit t0 off ops). Qed.

(* ... and existing_log_files returns exactly the existing family files the selector asks for; there is no rCURRENT file in this
   naming: with_r_current and an admissible custom current infix select nothing *)
Theorem C16_timestampsdirect_listing_exact c crit t0 off ops sel :
  tsdcfg c crit -> tag_ok c -> not_gz c -> Forall basic_op ops -> Forall tick_ok ops -> custom_ok_ts sel ->
  (0 <= t0 + ts_e c off)%Z -> (t0 + elapsed ops + ts_e c off < sec_max)%Z -> (N.of_nat (length ops) <= usize_max)%N ->
  let x := fst (run (sys0 t0 off) (OStart c :: ops)) in
  exists l, step x (OQuery sel) = (x, ObsList 0%N l)
            /\ oracle_listing sel c (snap_of x) l = true
            /\ sort_names l = expected_listing sel c (snap_of x).
Proof. exact (timestampsdirect_listing_exact c crit t0 off ops sel). Qed.

Theorem C16_timestampsdirect_listing_no_current c crit t0 off ops sel :
  tsdcfg c crit -> tag_ok c -> not_gz c -> Forall basic_op ops -> Forall tick_ok ops -> custom_ok_ts sel ->
  (0 <= t0 + ts_e c off)%Z -> (t0 + elapsed ops + ts_e c off < sec_max)%Z -> (N.of_nat (length ops) <= usize_max)%N ->
  let x := fst (run (sys0 t0 off) (OStart c :: ops)) in
  exists l l0, step x (OQuery sel) = (x, ObsList 0%N l) /\ step x (OQuery (no_current sel)) = (x, ObsList 0%N l0)
               /\ sort_names l = sort_names l0
               /\ (sel_plain sel = false -> sel_gz sel = false -> l = []).
Proof. exact (timestampsdirect_listing_no_current c crit t0 off ops sel). Qed.

Check C16_timestampsdirect_names_documented.
Print Assumptions C16_timestampsdirect_names_documented.
Check C16_timestampsdirect_listing_exact.
Print Assumptions C16_timestampsdirect_listing_exact.
Check C16_timestampsdirect_listing_no_current.
Print Assumptions C16_timestampsdirect_listing_no_current.

Require Import FL.Flw.NumDCleanupStep FL.Flw.NumDCleanupRun FL.Flw.NumDCleanup FL.Flw.NumDCleanupNames.
(* NumbersDirect naming WITH a cleanup strategy (Flw/NumDCleanupNames.v): every file of every history - the numbered files and
   the archives r<i>.gz that the cleanup makes - is named as documented: after the stop, at every point, in every snapshot.
   not_gz c implies the side condition dside of the run theorems, so no side condition on the view appears *)
Theorem C16_numbersdirect_cleanup_names_documented c crit k t0 off ops :
  numdkcfg c crit k -> not_gz c -> Forall basic_op ops ->
  all_documented c (wfs (s_w (fst (run (sys0 t0 off) (OStart c :: ops ++ [OStop]))))).
Proof. exact (numbersdirect_cleanup_names_documented c crit k t0 off ops). Qed.

Theorem C16_numbersdirect_cleanup_names_documented_always c crit k t0 off ops :
  numdkcfg c crit k -> not_gz c -> Forall basic_op ops ->
  all_documented c (wfs (s_w (fst (run (sys0 t0 off) (OStart c :: ops))))).
Proof. exact (numbersdirect_cleanup_names_documented_always c crit k t0 off ops). Qed.

Theorem C16_numbersdirect_cleanup_snapshots_documented c crit k t0 off ops :
  numdkcfg c crit k -> not_gz c -> Forall basic_op ops ->
  Forall (snap_documented c) (snd (run (sys0 t0 off) (OStart c :: ops))).
Proof. exact (numbersdirect_cleanup_snapshots_documented c crit k t0 off ops). Qed.

(* ... and existing_log_files returns exactly the existing family files the selector asks for, archives included; there is no
   rCURRENT file in this naming: with_r_current and an admissible custom current infix select nothing *)
Theorem C16_numbersdirect_cleanup_listing_exact c crit k t0 off ops sel :
  numdkcfg c crit k -> not_gz c -> Forall basic_op ops -> custom_ok_d sel ->
  let x := fst (run (sys0 t0 off) (OStart c :: ops)) in
  exists l, step x (OQuery sel) = (x, ObsList 0%N l)
            /\ oracle_listing sel c (snap_of x) l = true
            /\ sort_names l = expected_listing sel c (snap_of x).
Proof. exact (numbersdirect_cleanup_listing_exact c crit k t0 off ops sel). Qed.

Theorem C16_numbersdirect_cleanup_listing_no_current c crit k t0 off ops sel :
  numdkcfg c crit k -> not_gz c -> Forall basic_op ops -> custom_ok_d sel ->
  let x := fst (run (sys0 t0 off) (OStart c :: ops)) in
  exists l, step x (OQuery sel) = (x, ObsList 0%N l) /\ step x (OQuery (no_current sel)) = (x, ObsList 0%N l)
            /\ (sel_plain sel = false -> sel_gz sel = false -> l = []).
Proof. exact (numbersdirect_cleanup_listing_no_current c crit k t0 off ops sel). Qed.

Check C16_numbersdirect_cleanup_names_documented.
Print Assumptions C16_numbersdirect_cleanup_names_documented.
Check C16_numbersdirect_cleanup_names_documented_always.
Print Assumptions C16_numbersdirect_cleanup_names_documented_always.
Check C16_numbersdirect_cleanup_snapshots_documented.
Print Assumptions C16_numbersdirect_cleanup_snapshots_documented.
Check C16_numbersdirect_cleanup_listing_exact.
Print Assumptions C16_numbersdirect_cleanup_listing_exact.
Check C16_numbersdirect_cleanup_listing_no_current.
Print Assumptions C16_numbersdirect_cleanup_listing_no_current.
(* non-vacuity: NumDCleanupNames.numbersdirect_cleanup_names_documented_instance, listing_instance_computed_dk (two archives, a
   closed plain file and the file being written), listing_instance_dk; the hypotheses are needed: custom_number_infix_listed_dk,
   gz_suffix_not_documented_dk *)
Check listing_instance_computed_dk.
Check gz_suffix_not_documented_dk.
