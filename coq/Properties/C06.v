(* C06 - restarts preserve earlier runs' records.  Statements only: soundness of the executable oracles that are
   applied to the implementation's directory snapshots. *)
Require Import FL.Base.Bytes FL.Base.BytesFacts FL.Flw.Model FL.Oracles.ReaderOrder FL.Oracles.O_Stream.

(* oracle_all accepts exactly when the reader's stream is everything that was logged *)
Theorem C06_oracle_sound : forall c logged l, oracle_all c logged l = true -> stream_of c l = logged.
Proof. intros c logged l H. apply beq_eq. exact H. Qed.

(* oracle_tail accepts only when what was logged is some old part followed by exactly the reader's stream *)
Theorem C06_tail_sound : forall c logged l, oracle_tail c logged l = true -> exists pre, logged = pre ++ stream_of c l.
Proof.
  intros c logged l H. unfold oracle_tail, is_suffix in H.
  assert (P : forall p s, is_prefix p s = true -> exists r, s = p ++ r).
  { induction p as [|x p IH]; intros s Hp; [exists s; reflexivity|]. destruct s as [|y s]; [discriminate|].
    cbn [is_prefix] in Hp. apply andb_prop in Hp. destruct Hp as [E Hp]. apply N.eqb_eq in E. subst y.
    destruct (IH s Hp) as [r ->]. exists r. reflexivity. }
  destruct (P _ _ H) as [r E]. exists (rev r). apply (f_equal (@rev N)) in E. rewrite rev_involutive, rev_app_distr, rev_involutive in E. exact E.
Qed.

Check C06_oracle_sound. Check C06_tail_sound.
Print Assumptions C06_oracle_sound.
Print Assumptions C06_tail_sound.
