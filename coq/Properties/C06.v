(* C06 - restarts preserve earlier runs' records.  Statements only: soundness of the executable oracles that are
   applied to the implementation's directory snapshots. *)
Require Import FL.Base.Bytes FL.Base.BytesFacts FL.Fs.Fs FL.Flw.Model FL.Flw.Run FL.Flw.NumInv FL.Flw.NumRun FL.Flw.NumTheorems FL.Flw.NumRestart FL.Oracles.O_Flw FL.Oracles.ReaderOrder FL.Oracles.O_Stream.

(* oracle_all accepts exactly when the reader's stream is everything that was logged *)
Theorem C06_oracle_sound : forall c logged l, oracle_all c logged l = true -> stream_of c l = logged.
Proof. intros c logged l H. apply beq_eq. exact H. Qed.

(* oracle_tail accepts only when what was logged is some old part followed by exactly the reader's stream *)
Theorem C06_tail_sound : forall c logged l, oracle_tail c logged l = true -> exists pre, logged = pre ++ stream_of c l.
Proof.
  intros c logged l H. unfold oracle_tail, is_suffix in H.
  assert (P : forall p s, is_prefix p s = true -> exists r, s = p ++ r).
  { induction p as [|x p IH]; intros s Hp; [exists s; reflexivity|]. destruct s as [|y s]; [discriminate|].
    cbn [is_prefix] in Hp. apply andb_prop in Hp. destruct Hp as [E Hp]. apply N.eqb_eq in E. subst y.
    destruct (IH s Hp) as [r ->]. exists r. reflexivity. }
  destruct (P _ _ H) as [r E]. exists (rev r). apply (f_equal (@rev N)) in E. rewrite rev_involutive, rev_app_distr, rev_involutive in E. exact E.
Qed.


(* Numbers naming, any number of runs on one directory (each run with its own criterion, buffer capacity and append
   flag, same file specification): after the last run, r00000, r00001, ..., rCURRENT hold - in this order - exactly what
   all runs wrote; nothing lost, nothing duplicated.  (partial: histories of less than 2^32 operations - the index that is
   read back from a file name is a u32 -, no cleanup, no faults) *)
Theorem C06_restarts_numbers sp t0 off rs :
  (N.of_nat (length (runs_ops rs)) <= u32_max)%N ->
  Forall (fun r => c_spec (fst r) = sp /\ (exists crit, numcfg (fst r) crit) /\ Forall basic_op (snd r)) rs ->
  exists files,
    (forall c, c_spec c = sp -> reads c (wfs (s_w (fst (run (sys0 t0 off) (runs_ops rs))))) files)
    /\ concat files = runs_written rs.
Proof. exact (numbers_restarts_partial sp t0 off rs). Qed.

(* ... and no closed file is touched by a later run: it keeps its number and its content; the file that was current
   is continued or closed under the next number, its old content first *)
Theorem C06_restarts_keep sp t0 off rs1 rs2 :
  (N.of_nat (length (runs_ops (rs1 ++ rs2))) <= u32_max)%N ->
  Forall (fun r => c_spec (fst r) = sp /\ (exists crit, numcfg (fst r) crit) /\ Forall basic_op (snd r)) (rs1 ++ rs2) ->
  exists files1 files2,
    (forall c, c_spec c = sp -> reads c (wfs (s_w (fst (run (sys0 t0 off) (runs_ops rs1))))) files1)
    /\ concat files1 = runs_written rs1
    /\ (forall c, c_spec c = sp -> reads c (wfs (s_w (fst (run (sys0 t0 off) (runs_ops (rs1 ++ rs2)))))) files2)
    /\ concat files2 = runs_written (rs1 ++ rs2)
    /\ (files1 = [] \/ exists closed cur t more, files1 = closed ++ [cur] /\ files2 = closed ++ [cur ++ t] ++ more).
Proof. exact (numbers_restarts_keep sp t0 off rs1 rs2). Qed.

Require Import FL.Flw.NumDInv FL.Flw.NumDRun FL.Flw.NumDTheorems FL.Flw.NumDRestart.
(* the same for NumbersDirect naming: with append the newest file is continued, without append the next number is started *)
Theorem C06_restarts_numbersdirect sp t0 off rs :
  (N.of_nat (length (runs_ops rs)) <= u32_max)%N ->
  Forall (fun r => c_spec (fst r) = sp /\ (exists crit, numdcfg (fst r) crit) /\ Forall basic_op (snd r)) rs ->
  exists files,
    (forall c, c_spec c = sp -> direct_view c (wfs (s_w (fst (run (sys0 t0 off) (runs_ops rs))))) files)
    /\ concat files = runs_written rs.
Proof. exact (numbersdirect_restarts_partial sp t0 off rs). Qed.

Check C06_oracle_sound. Check C06_tail_sound. Check C06_restarts_numbers. Check C06_restarts_keep.
Print Assumptions C06_restarts_numbers.
Print Assumptions C06_restarts_keep.
Print Assumptions C06_oracle_sound.
Print Assumptions C06_tail_sound.
Check C06_restarts_numbersdirect.
Print Assumptions C06_restarts_numbersdirect.
