(* C06 - restarts preserve earlier runs' records.  Statements only: soundness of the executable oracles that are
   applied to the implementation's directory snapshots. *)
Require Import FL.Base.Bytes FL.Base.BytesFacts FL.Fs.Fs FL.Flw.Model FL.Flw.Run FL.Flw.NumInv FL.Flw.NumRun FL.Flw.NumTheorems FL.Flw.NumRestart FL.Oracles.O_Flw FL.Oracles.ReaderOrder FL.Oracles.O_Stream.

(* oracle_all accepts exactly when the reader's stream is everything that was logged *)
Theorem C06_oracle_sound : forall c logged l, oracle_all c logged l = true -> stream_of c l = logged.
Proof. intros c logged l H. apply beq_eq. exact H. Qed.

(* oracle_tail accepts only when what was logged is some old part followed by exactly the reader's stream *)
Theorem C06_tail_sound : forall c logged l, oracle_tail c logged l = true -> exists pre, logged = pre ++ stream_of c l.
Proof.
  intros c logged l H. unfold oracle_tail, is_suffix in H.
  assert (P : forall p s, is_prefix p s = true -> exists r, s = p ++ r).
  { induction p as [|x p IH]; intros s Hp; [exists s; reflexivity|]. destruct s as [|y s]; [discriminate|].
    cbn [is_prefix] in Hp. apply andb_prop in Hp. destruct Hp as [E Hp]. apply N.eqb_eq in E. subst y.
    destruct (IH s Hp) as [r ->]. exists r. reflexivity. }
  destruct (P _ _ H) as [r E]. exists (rev r). apply (f_equal (@rev N)) in E. rewrite rev_involutive, rev_app_distr, rev_involutive in E. exact E.
Qed.


(* Numbers naming, any number of runs on one directory (each run with its own criterion, buffer capacity and append
   flag, same file specification): after the last run, r00000, r00001, ..., rCURRENT hold - in this order - exactly what
   all runs wrote; nothing lost, nothing duplicated.  (partial: histories of less than 2^32 operations - the index that is
   read back from a file name is a u32 -, no cleanup, no faults) *)
Theorem C06_restarts_numbers sp t0 off rs :
  (N.of_nat (length (runs_ops rs)) <= u32_max)%N ->
  Forall (fun r => c_spec (fst r) = sp /\ (exists crit, numcfg (fst r) crit) /\ Forall basic_op (snd r)) rs ->
  exists files,
    (forall c, c_spec c = sp -> reads c (wfs (s_w (fst (run (sys0 t0 off) (runs_ops rs))))) files)
    /\ concat files = runs_written rs.
Proof. exact (numbers_restarts_partial sp t0 off rs). Qed.

(* ... and no closed file is touched by a later run: it keeps its number and its content; the file that was current
   is continued or closed under the next number, its old content first *)
Theorem C06_restarts_keep sp t0 off rs1 rs2 :
  (N.of_nat (length (runs_ops (rs1 ++ rs2))) <= u32_max)%N ->
  Forall (fun r => c_spec (fst r) = sp /\ (exists crit, numcfg (fst r) crit) /\ Forall basic_op (snd r)) (rs1 ++ rs2) ->
  exists files1 files2,
    (forall c, c_spec c = sp -> reads c (wfs (s_w (fst (run (sys0 t0 off) (runs_ops rs1))))) files1)
    /\ concat files1 = runs_written rs1
    /\ (forall c, c_spec c = sp -> reads c (wfs (s_w (fst (run (sys0 t0 off) (runs_ops (rs1 ++ rs2)))))) files2)
    /\ concat files2 = runs_written (rs1 ++ rs2)
    /\ (files1 = [] \/ exists closed cur t more, files1 = closed ++ [cur] /\ files2 = closed ++ [cur ++ t] ++ more).
Proof. exact (numbers_restarts_keep sp t0 off rs1 rs2). Qed.

Require Import FL.Flw.NumDInv FL.Flw.NumDRun FL.Flw.NumDTheorems FL.Flw.NumDRestart.
(* the same for NumbersDirect naming: with append the newest file is continued, without append the next number is started *)
Theorem C06_restarts_numbersdirect sp t0 off rs :
  (N.of_nat (length (runs_ops rs)) <= u32_max)%N ->
  Forall (fun r => c_spec (fst r) = sp /\ (exists crit, numdcfg (fst r) crit) /\ Forall basic_op (snd r)) rs ->
  exists files,
    (forall c, c_spec c = sp -> direct_view c (wfs (s_w (fst (run (sys0 t0 off) (runs_ops rs))))) files)
    /\ concat files = runs_written rs.
Proof. exact (numbersdirect_restarts_partial sp t0 off rs). Qed.

Require Import FL.Flw.TsTime FL.Flw.TsNames FL.Flw.TsInv FL.Flw.TsRun FL.Flw.TsTheorems FL.Flw.TsRestartInv FL.Flw.TsRestart.
(* Timestamps naming, any sequence of runs (own criterion, capacity, append flag per run; ticks inside and between runs; all runs with the same
   use_utc setting - shown necessary by an example): the closed files carry keys (second, position) that are pairwise distinct and increase in
   closing order over the WHOLE history - no name is used twice across runs - and closed files ++ rCURRENT hold exactly what all runs wrote *)
Theorem C06_restarts_timestamps sp utc t0 off rs :
  Forall (run_ok_ts sp utc) rs ->
  let e := if utc then 0%Z else off in
  (0 <= t0 + e)%Z -> (t0 + elapsed (runs_ops_t rs) + e < sec_max)%Z -> (N.of_nat (length (runs_ops_t rs)) <= usize_max)%N ->
  let f := wfs (s_w (fst (run (sys0 t0 off) (runs_ops_t rs)))) in
  (names f = [] /\ runs_written_t rs = [])
  \/ exists keys closed cur,
       (forall c, c_spec c = sp -> ts_view c e f keys closed cur)
       /\ concat closed ++ cur = runs_written_t rs
       /\ keys_ok keys
       /\ (forall k, In k keys -> (t0 <= fst k <= t0 + elapsed (runs_ops_t rs))%Z).
Proof. exact (timestamps_restarts sp utc t0 off rs). Qed.

(* ... and a later run never changes a closed file; the former rCURRENT is continued (append) or closed under the key of its own creation second *)
Theorem C06_restarts_timestamps_keep sp utc t0 off rs1 rs2 :
  Forall (run_ok_ts sp utc) (rs1 ++ rs2) ->
  let e := if utc then 0%Z else off in
  (0 <= t0 + e)%Z -> (t0 + elapsed (runs_ops_t (rs1 ++ rs2)) + e < sec_max)%Z ->
  (N.of_nat (length (runs_ops_t (rs1 ++ rs2))) <= usize_max)%N ->
  let f1 := wfs (s_w (fst (run (sys0 t0 off) (runs_ops_t rs1)))) in
  let f2 := wfs (s_w (fst (run (sys0 t0 off) (runs_ops_t (rs1 ++ rs2))))) in
  (names f1 = [] /\ runs_written_t rs1 = [])
  \/ exists keys1 closed1 cur1 ts1 keys2 closed2 cur2,
       (forall c, c_spec c = sp ->
          ts_view c e f1 keys1 closed1 cur1 /\ exists j, lookup f1 (cname c) = Some j /\ fborn (inode f1 j) = ts1)
       /\ concat closed1 ++ cur1 = runs_written_t rs1
       /\ (forall k, In k keys1 -> (fst k <= ts1)%Z)
       /\ (forall c, c_spec c = sp -> ts_view c e f2 keys2 closed2 cur2)
       /\ concat closed2 ++ cur2 = runs_written_t (rs1 ++ rs2)
       /\ keys_ok keys2
       /\ ((keys2 = keys1 /\ closed2 = closed1 /\ exists t, cur2 = cur1 ++ t)
           \/ exists t mk mc, keys2 = keys1 ++ (ts1, count ts1 keys1) :: mk /\ closed2 = closed1 ++ (cur1 ++ t) :: mc).
Proof. exact (timestamps_restarts_keep sp utc t0 off rs1 rs2). Qed.

Require Import FL.Flw.TsdInv FL.Flw.TsdRun FL.Flw.TsdTheorems FL.Flw.TsParse FL.Flw.TsdRestartInv FL.Flw.TsdRestart.
(* TimestampsDirect naming over sequences of runs, local time or use_utc with any zone offset (for a run with append the probe
   name rXXXXX must not occur in the fixed name part; the proof found that with use_utc and a zone offset <> 0 the newest file
   was not found again and records were reordered - repaired in the code, see Flw/TsdRestart.v) *)
Theorem C06_restarts_timestampsdirect sp utc t0 off rs :
  Forall (run_ok_tsd sp utc) rs ->
  let e := if utc then 0%Z else off in
  (0 <= t0 + e)%Z -> (t0 + elapsed (runs_ops_t rs) + e < sec_max)%Z -> (N.of_nat (length (runs_ops_t rs)) <= usize_max)%N ->
  let f := wfs (s_w (fst (run (sys0 t0 off) (runs_ops_t rs)))) in
  exists keys files,
    (forall c, c_spec c = sp -> tsd_view c e f keys files)
    /\ concat files = runs_written_t rs
    /\ keys_ok keys
    /\ (forall k, In k keys -> (t0 <= fst k <= t0 + elapsed (runs_ops_t rs))%Z).
Proof. exact (timestampsdirect_restarts sp utc t0 off rs). Qed.

(* ... only the last file of the previous state can be continued (append); without append no earlier file is touched *)
Theorem C06_restarts_timestampsdirect_keep sp utc t0 off rs1 rs2 :
  Forall (run_ok_tsd sp utc) (rs1 ++ rs2) ->
  let e := if utc then 0%Z else off in
  (0 <= t0 + e)%Z -> (t0 + elapsed (runs_ops_t (rs1 ++ rs2)) + e < sec_max)%Z ->
  (N.of_nat (length (runs_ops_t (rs1 ++ rs2))) <= usize_max)%N ->
  let f1 := wfs (s_w (fst (run (sys0 t0 off) (runs_ops_t rs1)))) in
  let f2 := wfs (s_w (fst (run (sys0 t0 off) (runs_ops_t (rs1 ++ rs2))))) in
  exists keys1 files1 keys2 files2,
    (forall c, c_spec c = sp -> tsd_view c e f1 keys1 files1)
    /\ concat files1 = runs_written_t rs1
    /\ (forall c, c_spec c = sp -> tsd_view c e f2 keys2 files2)
    /\ concat files2 = runs_written_t (rs1 ++ rs2)
    /\ keys_ok keys2
    /\ (files1 = []
        \/ exists closed cur t mk more,
             files1 = closed ++ [cur] /\ keys2 = keys1 ++ mk /\ files2 = closed ++ (cur ++ t) :: more)
    /\ (Forall no_append rs2 -> exists mk more, keys2 = keys1 ++ mk /\ files2 = files1 ++ more).
Proof. exact (timestampsdirect_restarts_keep sp utc t0 off rs1 rs2). Qed.

Check C06_oracle_sound. Check C06_tail_sound. Check C06_restarts_numbers. Check C06_restarts_keep.
Print Assumptions C06_restarts_numbers.
Print Assumptions C06_restarts_keep.
Print Assumptions C06_oracle_sound.
Print Assumptions C06_tail_sound.
Check C06_restarts_numbersdirect.
Print Assumptions C06_restarts_numbersdirect.
Check C06_restarts_timestamps.
Print Assumptions C06_restarts_timestamps.
Check C06_restarts_timestamps_keep.
Print Assumptions C06_restarts_timestamps_keep.
Check C06_restarts_timestampsdirect.
Print Assumptions C06_restarts_timestampsdirect.
Check C06_restarts_timestampsdirect_keep.
Print Assumptions C06_restarts_timestampsdirect_keep.

(* ------------------------------------------------------------------ sequences of runs WITH a cleanup strategy (Numbers naming; proofs:
   Flw/NumCleanupRestart*.v) *)
Require Import FL.Flw.CleanupFacts FL.Flw.NumCleanupNames FL.Flw.NumCleanupStep FL.Flw.NumCleanupRun FL.Flw.NumCleanup
  FL.Flw.NumCleanupKillDir FL.Flw.NumCleanupKillRestart FL.Flw.NumCleanupRestart FL.Flw.NumCleanupRestartTheorems FL.Flw.NumCleanupRestartVar FL.Flw.NumCleanupRestartVarTheorems.
Local Open Scope nat_scope.
(* every run with the same strategy (limits n, m), own criterion / capacity / append flag / history: the directory is in the
   shape a single run leaves - rCURRENT, the newest n closed files plain, the next m as archives of exactly what was closed
   under that number, nothing else - and holds a SUFFIX of what all runs wrote *)
Theorem C06_restarts_numbers_cleanup sp k n m t0 off rs :
  klim k = Some (n, m) -> sfx_ok sp ->
  (N.of_nat (length (runs_ops rs)) <= u32_max)%N ->
  Forall (fun r => c_spec (fst r) = sp /\ (exists crit, numkcfg (fst r) crit k) /\ Forall basic_op (snd r)) rs ->
  let f := wfs (s_w (fst (run (sys0 t0 off) (runs_ops rs)))) in
  (names f = [] /\ runs_written rs = [])
  \/ exists closed cur,
       (forall c, c_spec c = sp -> kreader_view c f closed cur (length closed - (n + m)) (length closed - n))
       /\ concat closed ++ cur = runs_written rs.
Proof. exact (numbers_cleanup_restarts sp k n m t0 off rs). Qed.

(* a later run never changes the content found under a number: what a reader finds under number i after rs1 is still found
   there after rs1 ++ rs2 (possibly as an archive now), or the cleanup has removed it *)
Theorem C06_restarts_numbers_cleanup_keep sp k n m t0 off rs1 rs2 c i d :
  klim k = Some (n, m) -> sfx_ok sp ->
  (N.of_nat (length (runs_ops (rs1 ++ rs2))) <= u32_max)%N ->
  Forall (fun r => c_spec (fst r) = sp /\ (exists crit, numkcfg (fst r) crit k) /\ Forall basic_op (snd r)) (rs1 ++ rs2) ->
  c_spec c = sp ->
  let f1 := wfs (s_w (fst (run (sys0 t0 off) (runs_ops rs1)))) in
  let f2 := wfs (s_w (fst (run (sys0 t0 off) (runs_ops (rs1 ++ rs2))))) in
  reads_at c f1 i d ->
  (reads_at c f2 i d /\ (lookup f1 (rname c i) = None -> lookup f2 (rname c i) = None))
  \/ (lookup f2 (rname c i) = None /\ lookup f2 (gname c i) = None).
Proof. exact (numbers_cleanup_restarts_keep_files sp k n m t0 off rs1 rs2 c i d). Qed.

(* each run with its own strategy, as long as every strategy keeps at least A >= 1 files (B of them plain) or is Never
   (with a strategy that keeps nothing the numbering restarts at 0 and a number is reused: counterexample in
   Flw/NumCleanupRestartEx.v reused_number_counterexample) *)
Theorem C06_restarts_numbers_cleanup_varying sp A B t0 off rs :
  1 <= A -> sfx_ok sp ->
  (N.of_nat (length (runs_ops rs)) <= u32_max)%N ->
  Forall (fun r => c_spec (fst r) = sp /\ (exists crit k, numkcfg (fst r) crit k /\ kok A B k) /\ Forall basic_op (snd r)) rs ->
  let f := wfs (s_w (fst (run (sys0 t0 off) (runs_ops rs)))) in
  (names f = [] /\ runs_written rs = [])
  \/ exists closed cur lo mid,
       (forall c, c_spec c = sp -> kreader_view c f closed cur lo mid)
       /\ concat closed ++ cur = runs_written rs
       /\ Nat.min (length closed) A <= length closed - lo /\ Nat.min (length closed) B <= length closed - mid
       /\ (forall rs0 c ops crit k n m, rs = rs0 ++ [(c, ops)] -> existsb is_wr ops = true -> numkcfg c crit k ->
             klim k = Some (n, m) -> length closed - mid <= n /\ length closed - lo <= n + m).
Proof. exact (numbers_cleanup_restarts_varying sp A B t0 off rs). Qed.

Check C06_restarts_numbers_cleanup. Check C06_restarts_numbers_cleanup_keep. Check C06_restarts_numbers_cleanup_varying.
Print Assumptions C06_restarts_numbers_cleanup.
Print Assumptions C06_restarts_numbers_cleanup_keep.
Print Assumptions C06_restarts_numbers_cleanup_varying.
