(* C09 - age criterion.  Statements only. *)
Require Import FL.Base.Bytes FL.Time.Civil FL.Time.Period FL.Flw.Model FL.Oracles.O_Age.
Open Scope Z_scope.

(* The decision the code takes - compare year, month, day (and hour, minute, second as configured) of the local
   broken-down times of the instant the current file was started and of now - is, for every pair of instants and
   every fixed zone offset, the comparison of the numbers of the day / hour / minute / second they lie in. *)
Theorem C09_period :
  forall w a created,
    age_rotation_necessary w a created = negb (period_of a (created + woff w) =? period_of a (wnow w + woff w)).
Proof. intros. unfold age_rotation_necessary, local_civil. rewrite same_period_spec. reflexivity. Qed.

(* the calendar underneath: day number <-> civil date is a bijection, and broken-down time loses nothing *)
Theorem C09_calendar_bijective : forall a b, civil_from_days a = civil_from_days b -> a = b.
Proof. exact civil_from_days_inj. Qed.
Theorem C09_civil_roundtrip : forall t, secs_of_civil (civil_of t) = t.
Proof. exact secs_civil_roundtrip. Qed.

(* the oracle (what the reader must find) never rotates inside a period and always rotates at the first write of a
   later one; with age-or-size, exactly when either criterion is met *)
Theorem C09_rotation_iff_later_period :
  forall a off start content t,
    rotate_due (Some a) None off start content t = negb (period_of a (start + off) =? period_of a (t + off)).
Proof. intros. unfold rotate_due. rewrite Bool.orb_false_r. reflexivity. Qed.
Theorem C09_age_or_size :
  forall a m off start content t,
    rotate_due (Some a) (Some m) off start content t
    = negb (period_of a (start + off) =? period_of a (t + off)) || (m <? N.of_nat (length content))%N.
Proof. intros. reflexivity. Qed.

(* the model's rotation decision is the oracle's, whenever the counted size is the size of the content *)
Theorem C09_model_decision :
  forall w a created max cur content,
    cur = N.of_nat (length content) ->
    rotation_necessary w (RAgeSize a created max cur) = rotate_due (Some a) (Some max) (woff w) created content (wnow w)
    /\ rotation_necessary w (RAge a created) = rotate_due (Some a) None (woff w) created content (wnow w).
Proof.
  intros w a created max cur content ->. unfold rotation_necessary, rotate_due, size_rotation_necessary.
  rewrite C09_period. split; [apply Bool.orb_comm | rewrite Bool.orb_false_r; reflexivity].
Qed.

Check C09_period. Check C09_rotation_iff_later_period. Check C09_model_decision.
Print Assumptions C09_period.
Print Assumptions C09_calendar_bijective.
Print Assumptions C09_model_decision.
