(* C09 - age criterion.  Statements only. *)
Require Import FL.Base.Bytes FL.Time.Civil FL.Time.Period FL.Flw.Model FL.Oracles.O_Age.
Open Scope Z_scope.

(* The decision the code takes - compare year, month, day (and hour, minute, second as configured) of the local
   broken-down times of the instant the current file was started and of now - is, for every pair of instants and
   every fixed zone offset, the comparison of the numbers of the day / hour / minute / second they lie in. *)
Theorem C09_period :
  forall w a created,
    age_rotation_necessary w a created = negb (period_of a (created + woff w) =? period_of a (wnow w + woff w)).
Proof. intros. unfold age_rotation_necessary, local_civil. rewrite same_period_spec. reflexivity. Qed.

(* the calendar underneath: day number <-> civil date is a bijection, and broken-down time loses nothing *)
Theorem C09_calendar_bijective : forall a b, civil_from_days a = civil_from_days b -> a = b.
Proof. exact civil_from_days_inj. Qed.
Theorem C09_civil_roundtrip : forall t, secs_of_civil (civil_of t) = t.
Proof. exact secs_civil_roundtrip. Qed.

(* the oracle (what the reader must find) never rotates inside a period and always rotates at the first write of a
   later one; with age-or-size, exactly when either criterion is met *)
Theorem C09_rotation_iff_later_period :
  forall a off start content t,
    rotate_due (Some a) None off start content t = negb (period_of a (start + off) =? period_of a (t + off)).
Proof. intros. unfold rotate_due. rewrite Bool.orb_false_r. reflexivity. Qed.
Theorem C09_age_or_size :
  forall a m off start content t,
    rotate_due (Some a) (Some m) off start content t
    = negb (period_of a (start + off) =? period_of a (t + off)) || (m <? N.of_nat (length content))%N.
Proof. intros. reflexivity. Qed.

(* the model's rotation decision is the oracle's, whenever the counted size is the size of the content *)
Theorem C09_model_decision :
  forall w a created max cur content,
    cur = N.of_nat (length content) ->
    rotation_necessary w (RAgeSize a created max cur) = rotate_due (Some a) (Some max) (woff w) created content (wnow w)
    /\ rotation_necessary w (RAge a created) = rotate_due (Some a) None (woff w) created content (wnow w).
Proof.
  intros w a created max cur content ->. unfold rotation_necessary, rotate_due, size_rotation_necessary.
  rewrite C09_period. split; [apply Bool.orb_comm | rewrite Bool.orb_false_r; reflexivity].
Qed.

Require Import FL.Flw.Run FL.Flw.NumInv FL.Flw.NumRun FL.Flw.NumTheorems FL.Flw.NumAgeInv FL.Flw.NumAge FL.Oracles.O_Flw.
(* END TO END, Numbers naming, every history (also with the clock set back): the rotation flag of every write is the oracle's decision
   rotate_due on the abstract state (start instant and content of the current file) *)
Theorem C09_numbers_age_flags c crit t0 off ops i o b :
  numcfg c crit -> Forall basic_op ops -> nth_error ops i = Some o -> (o = OWrite b \/ o = OPlain b) ->
  nth_error (snd (run (sys0 t0 off) (OStart c :: ops))) (S i)
  = Some (ObsRes 0
      match last_opt (tpartition (age_of crit) (lim_of crit) off [] None (titems t0 (firstn i ops))) with
      | None => false
      | Some (start, content) => rotate_due (age_of crit) (lim_of crit) off start content (clock_run t0 (firstn i ops))
      end).
Proof. exact (numbers_age_flags c crit t0 off ops i o b). Qed.

(* ... and the files left are exactly the oracle's period partition tpartition of the timed history *)
Theorem C09_numbers_age_partition c crit t0 off ops :
  numcfg c crit -> Forall basic_op ops ->
  reads c (wfs (s_w (fst (run (sys0 t0 off) (OStart c :: ops ++ [OStop])))))
        (List.map snd (tpartition (age_of crit) (lim_of crit) off [] None (titems t0 ops))).
Proof. exact (numbers_age_partition c crit t0 off ops). Qed.

(* the property itself, without the executable oracle (pure age criterion): every record of a file lies in the period of the file's start,
   and two consecutive files lie in different periods unless rotate() separated them *)
Theorem C09_numbers_age_periods_pure c a t0 off ops :
  numcfg c (CAge a) -> Forall basic_op ops ->
  exists fl : list rfile,
    reads c (wfs (s_w (fst (run (sys0 t0 off) (OStart c :: ops ++ [OStop]))))) (List.map rbytes fl)
    /\ concat (List.map rrecs fl) = trecs t0 ops
    /\ (forall f t b, In f fl -> In (t, b) (rrecs f) -> period_of a (t + off) = period_of a (rstart f + off))
    /\ (forall f, In f fl -> rtrig f = false -> exists b rest, rrecs f = (rstart f, b) :: rest)
    /\ List.map rstart (filter rtrig fl) = trig_times false t0 ops
    /\ (forall i f1 f2, nth_error fl i = Some f1 -> nth_error fl (S i) = Some f2 -> rtrig f2 = false ->
          period_of a (rstart f1 + off) <> period_of a (rstart f2 + off))
    /\ (ticks_nonneg ops -> forall i f1 f2, nth_error fl i = Some f1 -> nth_error fl (S i) = Some f2 ->
          (period_of a (rstart f1 + off) <= period_of a (rstart f2 + off))%Z
          /\ (rtrig f2 = false -> (period_of a (rstart f1 + off) < period_of a (rstart f2 + off))%Z)).
Proof. exact (numbers_age_periods_pure c a t0 off ops). Qed.

(* the same for age-or-size: consecutive files differ in period or the earlier one exceeded the size limit *)
Theorem C09_numbers_age_or_size_periods_pure c a m t0 off ops :
  numcfg c (CAgeOrSize a m) -> Forall basic_op ops ->
  exists fl : list rfile,
    reads c (wfs (s_w (fst (run (sys0 t0 off) (OStart c :: ops ++ [OStop]))))) (List.map rbytes fl)
    /\ concat (List.map rrecs fl) = trecs t0 ops
    /\ (forall f t b, In f fl -> In (t, b) (rrecs f) -> period_of a (t + off) = period_of a (rstart f + off))
    /\ (forall f, In f fl -> rtrig f = false -> exists b rest, rrecs f = (rstart f, b) :: rest)
    /\ List.map rstart (filter rtrig fl) = trig_times false t0 ops
    /\ (forall i f1 f2, nth_error fl i = Some f1 -> nth_error fl (S i) = Some f2 -> rtrig f2 = false ->
          period_of a (rstart f1 + off) <> period_of a (rstart f2 + off) \/ (m < N.of_nat (length (rbytes f1)))%N)
    /\ (ticks_nonneg ops -> forall i f1 f2, nth_error fl i = Some f1 -> nth_error fl (S i) = Some f2 ->
          (period_of a (rstart f1 + off) <= period_of a (rstart f2 + off))%Z).
Proof. exact (numbers_age_or_size_periods_pure c a m t0 off ops). Qed.

Check C09_period. Check C09_rotation_iff_later_period. Check C09_model_decision.
Print Assumptions C09_period.
Print Assumptions C09_calendar_bijective.
Print Assumptions C09_model_decision.
Check C09_numbers_age_flags.
Print Assumptions C09_numbers_age_flags.
Check C09_numbers_age_partition.
Print Assumptions C09_numbers_age_partition.
Check C09_numbers_age_periods_pure.
Print Assumptions C09_numbers_age_periods_pure.
Check C09_numbers_age_or_size_periods_pure.
Print Assumptions C09_numbers_age_or_size_periods_pure.

Require Import FL.Names.FileSpec FL.Flw.TsTime FL.Flw.TsNames FL.Flw.TsInv FL.Flw.TsRun FL.Flw.TsTheorems FL.Flw.TsdInv FL.Flw.TsdRun FL.Flw.TsdAge.
(* TimestampsDirect naming, any criterion: the rotation flag of every write is the oracle's decision *)
Theorem C09_timestampsdirect_age_flags c crit t0 off ops i o b :
  tsdcfg c crit -> tag_ok c -> Forall basic_op ops -> Forall tick_ok ops ->
  (0 <= t0 + ts_e c off)%Z -> (t0 + elapsed ops + ts_e c off < sec_max)%Z -> (N.of_nat (length ops) <= usize_max)%N ->
  nth_error ops i = Some o -> (o = OWrite b \/ o = OPlain b) ->
  nth_error (snd (run (sys0 t0 off) (OStart c :: ops))) (S i)
  = Some (ObsRes 0
      match last_opt (tpartition (age_of crit) (lim_of crit) off [] None (titems t0 (firstn i ops))) with
      | None => false
      | Some (start, content) => rotate_due (age_of crit) (lim_of crit) off start content (clock_run t0 (firstn i ops))
      end).
Proof. exact (timestampsdirect_age_flags c crit t0 off ops i o b). Qed.

(* ... the files left are exactly the oracle's period partition, and the second of each key - the time stamp in the file's
   name - is the instant at which the file was started *)
Theorem C09_timestampsdirect_age_partition c crit t0 off ops :
  tsdcfg c crit -> tag_ok c -> Forall basic_op ops -> Forall tick_ok ops ->
  (0 <= t0 + ts_e c off)%Z -> (t0 + elapsed ops + ts_e c off < sec_max)%Z -> (N.of_nat (length ops) <= usize_max)%N ->
  let tf := tpartition (age_of crit) (lim_of crit) off [] None (titems t0 ops) in
  exists keys,
    tsd_view c (ts_e c off) (wfs (s_w (fst (run (sys0 t0 off) (OStart c :: ops ++ [OStop]))))) keys (List.map snd tf)
    /\ List.map fst keys = List.map fst tf
    /\ keys_ok keys /\ (forall k, In k keys -> (t0 <= fst k <= t0 + elapsed ops)%Z).
Proof. exact (timestampsdirect_age_partition c crit t0 off ops). Qed.

(* ... and this instant lies in the period of every record of the file *)
Theorem C09_timestampsdirect_name_in_period c crit a t0 off ops :
  tsdcfg c crit -> tag_ok c -> Forall basic_op ops -> Forall tick_ok ops ->
  (0 <= t0 + ts_e c off)%Z -> (t0 + elapsed ops + ts_e c off < sec_max)%Z -> (N.of_nat (length ops) <= usize_max)%N ->
  age_of crit = Some a ->
  let fl := age_files crit off t0 ops in
  exists keys,
    tsd_view c (ts_e c off) (wfs (s_w (fst (run (sys0 t0 off) (OStart c :: ops ++ [OStop]))))) keys (List.map rbytes fl)
    /\ keys_ok keys
    /\ forall i f, nth_error fl i = Some f ->
         fst (nth i keys kd) = rstart f
         /\ (forall t b, In (t, b) (rrecs f) -> period_of a (t + off) = period_of a (fst (nth i keys kd) + off))
         /\ (rtrig f = false -> exists b rest, rrecs f = (fst (nth i keys kd), b) :: rest).
Proof. exact (timestampsdirect_name_in_period c crit a t0 off ops). Qed.

Check C09_timestampsdirect_age_flags.
Print Assumptions C09_timestampsdirect_age_flags.
Check C09_timestampsdirect_age_partition.
Print Assumptions C09_timestampsdirect_age_partition.
Check C09_timestampsdirect_name_in_period.
Print Assumptions C09_timestampsdirect_name_in_period.

Require Import FL.Flw.NumDInv FL.Flw.NumDRun FL.Flw.NumDAge.
(* NumbersDirect naming (r00000, r00001, ..; no rCURRENT), any criterion, every history (also with the clock set back): the
   rotation flag of every write is the oracle's decision *)
Theorem C09_numbersdirect_age_flags c crit t0 off ops i o b :
  numdcfg c crit -> Forall basic_op ops -> nth_error ops i = Some o -> (o = OWrite b \/ o = OPlain b) ->
  nth_error (snd (run (sys0 t0 off) (OStart c :: ops))) (S i)
  = Some (ObsRes 0
      match last_opt (tpartition (age_of crit) (lim_of crit) off [] None (titems t0 (firstn i ops))) with
      | None => false
      | Some (start, content) => rotate_due (age_of crit) (lim_of crit) off start content (clock_run t0 (firstn i ops))
      end).
Proof. exact (numbersdirect_age_flags c crit t0 off ops i o b). Qed.

(* ... and the directory consists exactly of r00000 .. r(n) with the contents of the oracle's period partition *)
Theorem C09_numbersdirect_age_partition c crit t0 off ops :
  numdcfg c crit -> Forall basic_op ops ->
  direct_view c (wfs (s_w (fst (run (sys0 t0 off) (OStart c :: ops ++ [OStop])))))
              (List.map snd (tpartition (age_of crit) (lim_of crit) off [] None (titems t0 ops))).
Proof. exact (numbersdirect_age_partition c crit t0 off ops). Qed.

(* the property itself, without the executable oracle (pure age criterion) *)
Theorem C09_numbersdirect_age_periods_pure c a t0 off ops :
  numdcfg c (CAge a) -> Forall basic_op ops ->
  exists fl : list rfile,
    direct_view c (wfs (s_w (fst (run (sys0 t0 off) (OStart c :: ops ++ [OStop]))))) (List.map rbytes fl)
    /\ concat (List.map rrecs fl) = trecs t0 ops
    /\ (forall f t b, In f fl -> In (t, b) (rrecs f) -> period_of a (t + off) = period_of a (rstart f + off))
    /\ (forall f, In f fl -> rtrig f = false -> exists b rest, rrecs f = (rstart f, b) :: rest)
    /\ List.map rstart (filter rtrig fl) = trig_times false t0 ops
    /\ (forall i f1 f2, nth_error fl i = Some f1 -> nth_error fl (S i) = Some f2 -> rtrig f2 = false ->
          period_of a (rstart f1 + off) <> period_of a (rstart f2 + off))
    /\ (ticks_nonneg ops -> forall i f1 f2, nth_error fl i = Some f1 -> nth_error fl (S i) = Some f2 ->
          (period_of a (rstart f1 + off) <= period_of a (rstart f2 + off))%Z
          /\ (rtrig f2 = false -> (period_of a (rstart f1 + off) < period_of a (rstart f2 + off))%Z)).
Proof. exact (numbersdirect_age_periods_pure c a t0 off ops). Qed.

Check C09_numbersdirect_age_flags.
Print Assumptions C09_numbersdirect_age_flags.
Check C09_numbersdirect_age_partition.
Print Assumptions C09_numbersdirect_age_partition.
Check C09_numbersdirect_age_periods_pure.
Print Assumptions C09_numbersdirect_age_periods_pure.

Require Import FL.Fs.Fs FL.Time.TsFormat FL.Flw.NumFs FL.Flw.NumInv FL.Flw.TsAge.
(* Timestamps naming with rCURRENT, any criterion: the rotation flag of every write is the oracle's decision *)
Theorem C09_timestamps_age_flags c crit t0 off ops i o b :
  tscfg c crit -> tag_ok c -> Forall basic_op ops -> Forall tick_ok ops ->
  (0 <= t0 + ts_e c off)%Z -> (t0 + elapsed ops + ts_e c off < sec_max)%Z -> (N.of_nat (length ops) <= usize_max)%N ->
  nth_error ops i = Some o -> (o = OWrite b \/ o = OPlain b) ->
  nth_error (snd (run (sys0 t0 off) (OStart c :: ops))) (S i)
  = Some (ObsRes 0
      match last_opt (tpartition (age_of crit) (lim_of crit) off [] None (titems t0 (firstn i ops))) with
      | None => false
      | Some (start, content) => rotate_due (age_of crit) (lim_of crit) off start content (clock_run t0 (firstn i ops))
      end).
Proof. exact (timestamps_age_flags c crit t0 off ops i o b). Qed.

(* ... the files left are exactly the oracle's period partition - all but the last one closed, the last one rCURRENT -, and the
   second of each key - the time stamp in the name of a closed file - is the instant at which that file was STARTED *)
Theorem C09_timestamps_age_partition c crit t0 off ops :
  tscfg c crit -> tag_ok c -> Forall basic_op ops -> Forall tick_ok ops ->
  (0 <= t0 + ts_e c off)%Z -> (t0 + elapsed ops + ts_e c off < sec_max)%Z -> (N.of_nat (length ops) <= usize_max)%N ->
  let tf := tpartition (age_of crit) (lim_of crit) off [] None (titems t0 ops) in
  let f := wfs (s_w (fst (run (sys0 t0 off) (OStart c :: ops ++ [OStop])))) in
  (tf = [] /\ names f = [])
  \/ exists keys closed st cur,
       tf = closed ++ [(st, cur)]
       /\ ts_view c (ts_e c off) f keys (List.map snd closed) cur
       /\ List.map fst keys = List.map fst closed
       /\ keys_ok keys
       /\ (forall k, In k keys -> (t0 <= fst k <= st)%Z) /\ (t0 <= st <= t0 + elapsed ops)%Z.
Proof. exact (timestamps_age_partition c crit t0 off ops). Qed.

(* ... in terms of the records: a file that has been closed (it has a successor) is found under the time stamp of its START
   (the instant of its first record unless rotate() started it), not of its closing (the start of its successor) *)
Theorem C09_timestamps_name_is_start c crit t0 off ops :
  tscfg c crit -> tag_ok c -> Forall basic_op ops -> Forall tick_ok ops ->
  (0 <= t0 + ts_e c off)%Z -> (t0 + elapsed ops + ts_e c off < sec_max)%Z -> (N.of_nat (length ops) <= usize_max)%N ->
  let fl := age_files crit off t0 ops in
  let f := wfs (s_w (fst (run (sys0 t0 off) (OStart c :: ops ++ [OStop])))) in
  forall i fi fnext, nth_error fl i = Some fi -> nth_error fl (S i) = Some fnext ->
    let pos := length (filter (fun g : rfile => Z.eqb (rstart g) (rstart fi)) (firstn i fl)) in
    (exists j, lookup f (nm c (expected_ts_infix (c_utc c) off std_fmt (rstart fi)
                               ++ match pos with O => [] | S k => restart_tag ++ pad_left 4 48%N (dec (N.of_nat k)) end)) = Some j
               /\ plain (inode f j) /\ content f j = rbytes fi)
    /\ (rtrig fi = false -> exists b rest, rrecs fi = (rstart fi, b) :: rest)
    /\ (rstart fi <= rstart fnext)%Z.
Proof. exact (timestamps_name_is_start c crit t0 off ops). Qed.

(* ... and this instant lies in the period of every record of the file *)
Theorem C09_timestamps_name_in_period c crit a t0 off ops :
  tscfg c crit -> tag_ok c -> Forall basic_op ops -> Forall tick_ok ops ->
  (0 <= t0 + ts_e c off)%Z -> (t0 + elapsed ops + ts_e c off < sec_max)%Z -> (N.of_nat (length ops) <= usize_max)%N ->
  age_of crit = Some a ->
  let fl := age_files crit off t0 ops in
  let f := wfs (s_w (fst (run (sys0 t0 off) (OStart c :: ops ++ [OStop])))) in
  (fl = [] /\ names f = [])
  \/ exists keys cl cur,
       fl = cl ++ [cur]
       /\ ts_view c (ts_e c off) f keys (List.map rbytes cl) (rbytes cur)
       /\ keys_ok keys
       /\ (forall i g, nth_error cl i = Some g ->
             fst (nth i keys kd) = rstart g
             /\ (forall t b, In (t, b) (rrecs g) -> period_of a (t + off) = period_of a (fst (nth i keys kd) + off))
             /\ (rtrig g = false -> exists b rest, rrecs g = (fst (nth i keys kd), b) :: rest))
       /\ (forall t b, In (t, b) (rrecs cur) -> period_of a (t + off) = period_of a (rstart cur + off)).
Proof. exact (timestamps_name_in_period c crit a t0 off ops). Qed.

Check C09_timestamps_age_flags.
Print Assumptions C09_timestamps_age_flags.
Check C09_timestamps_age_partition.
Print Assumptions C09_timestamps_age_partition.
Check C09_timestamps_name_is_start.
Print Assumptions C09_timestamps_name_is_start.
Check C09_timestamps_name_in_period.
Print Assumptions C09_timestamps_name_in_period.
