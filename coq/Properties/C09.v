(* C09 - age criterion.  Statements only (placeholder until Time/Period.v is merged). *)
Require Import FL.Base.Bytes FL.Time.Civil FL.Flw.Model FL.Oracles.O_Age.
Open Scope Z_scope.

(* the oracle never rotates inside a period and always rotates at the first write of a later one *)
Theorem C09_rotation_iff_later_period :
  forall a off start content t,
    rotate_due (Some a) None off start content t = negb (period_of a (start + off) =? period_of a (t + off)).
Proof. intros. unfold rotate_due. rewrite Bool.orb_false_r. reflexivity. Qed.

Check C09_rotation_iff_later_period.
Print Assumptions C09_rotation_iff_later_period.
