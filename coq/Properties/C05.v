(* C05 - run-time specification changes take full effect; push/pop is an exact stack.  Statements only. *)
Require Import FL.Base.Bytes FL.LogSpec.Spec FL.LogSpec.SpecFacts FL.LogSpec.Dispatch FL.LogSpec.DispatchFacts.
Open Scope nat_scope.

(* For every sequence of the reconfiguration operations (with arbitrary strings) the handle's active
   specification and saved stack are exactly those of the abstract stack machine `astep`: set replaces the
   active specification, push saves it first, pop restores the most recently saved one (and does nothing on an
   empty stack), and a string that does not parse changes nothing. *)
Theorem C05_refines_stack :
  forall re_ok ops lg, abs (hrun re_ok lg ops) = fold_left (astep re_ok) ops (abs lg).
Proof. exact hrun_refines. Qed.

(* filtering follows the active specification: log() and enabled() consult nothing else (C02_route),
   and the gate is recomputed for it (C02_gate); here: the gate invariant along every history *)
Theorem C05_gate_follows :
  forall re_ok ops lg, gate_ok lg -> gate_ok (hrun re_ok lg ops).
Proof. intros re_ok ops lg G. exact (proj1 (hrun_gate re_ok ops lg G)). Qed.

(* pop re-activates precisely the specification that was active before the matching push, and restores the stack *)
Theorem C05_push_pop :
  forall re_ok lg s, abs (hrun re_ok lg [HPush s; HPop]) = abs lg.
Proof. intros. rewrite hrun_refines. unfold abs. reflexivity. Qed.

Theorem C05_parse_push_pop :
  forall re_ok lg str, abs (hrun re_ok lg [HParsePush str; HPop]) = abs lg
                       \/ (fst (parse re_ok str) <> [] /\ abs (hrun re_ok lg [HParsePush str]) = abs lg).
Proof.
  intros. rewrite !hrun_refines. unfold abs. cbn [fold_left astep].
  destruct (parse re_ok str) as [[|e es] s]; cbn [fst]; [left; reflexivity | right; split; [discriminate | reflexivity]].
Qed.

(* a rejected string leaves the active specification and the stack unchanged, and the call reports the error *)
Theorem C05_malformed_unchanged :
  forall re_ok lg str, fst (parse re_ok str) <> [] ->
    hstep re_ok lg (HParseSet str) = (lg, false) /\ hstep re_ok lg (HParsePush str) = (lg, false).
Proof.
  intros re_ok lg str H. cbn [hstep]. destruct (parse re_ok str) as [[|e es] s]; [exfalso; apply H; reflexivity | split; reflexivity].
Qed.

(* non-vacuity: a malformed string exists, and a nested history *)
Example C05_nonvacuous :
  fst (parse (fun _ => true) [97; 61; 120; 120]%N) <> []
  /\ abs (hrun (fun _ => true) (new_logger spec_off [] 0 0 false)
               [HParsePush [105; 110; 102; 111]%N; HParsePush [97; 61; 120; 120]%N; HPop]) = (spec_off, []).
Proof. split; [vm_compute; discriminate | vm_compute; reflexivity]. Qed.

Check C05_refines_stack. Check C05_push_pop. Check C05_malformed_unchanged.
Print Assumptions C05_refines_stack.
Print Assumptions C05_malformed_unchanged.
Print Assumptions C05_gate_follows.
