(* C08 - size criterion.  Statements only; proofs are in Flw/NumTheorems.v. *)
Require Import FL.Base.Bytes FL.Fs.Fs FL.Names.FileSpec FL.Flw.Model FL.Flw.Run FL.Flw.NumInv FL.Flw.NumRun
  FL.Oracles.O_Flw FL.Flw.NumTheorems.

(* Every write (record or raw chunk) of every history over writes, flushes, triggers and clock ticks, for every
   size limit m, buffer capacity and append setting, rotates exactly when the bytes already counted for the
   current file - on disk plus still buffered, as tracked by the reader's view s_run - exceed m. *)
Theorem C08_rotates_iff_exceeds :
  forall c m t0 off ops i o b,
    numcfg c (CSize m) -> Forall basic_op ops -> nth_error ops i = Some o -> (o = OWrite b \/ o = OPlain b) ->
    nth_error (snd (run (sys0 t0 off) (OStart c :: ops))) (S i)
    = Some (ObsRes 0 (m <? N.of_nat (length (cur_of (s_run m None (firstn i ops)))))%N).
Proof. exact numbers_rotates_iff. Qed.

(* Consequently the files found after the writer is stopped are exactly the greedy partition of the written
   records (the executable oracle's expected_files): no record is appended to a file that already exceeds m,
   a closed file exceeds m only by its last record, no file is closed early. *)
Theorem C08_partition_numbers :
  forall c m t0 off ops,
    numcfg c (CSize m) -> Forall basic_op ops ->
    reads c (wfs (s_w (fst (run (sys0 t0 off) (OStart c :: ops ++ [OStop]))))) (expected_files m None (items false ops)).
Proof. exact numbers_partition. Qed.

(* the oracle applied to what the theorem promises is true (the oracle is the comparison with expected_files) *)
Theorem C08_oracle_sound :
  forall m start its files, oracle_C08 m start its files = true -> files = expected_files m start its.
Proof.
  intros m start its files. unfold oracle_C08. generalize (expected_files m start its). clear.
  induction files as [|x xs IH]; intros [|y ys]; cbn; try discriminate; [reflexivity|].
  intros H. apply andb_prop in H. destruct H as [H1 H2]. apply BytesFacts.beq_eq in H1. subst. f_equal. apply IH. exact H2.
Qed.

(* non-vacuity: a concrete configuration and history satisfy the hypotheses, and rotate *)
Definition ex_cfg : config :=
  {| c_spec := {| fbase := [97%N]; fdisc := None; fts := false; fsfx := Some [108%N; 111%N; 103%N] |};
     c_append := false; c_cap := Some 4; c_rot := Some (CSize 3%N, NNumbers, KNever); c_utc := false;
     c_symlink := false; c_bg := false; c_async := false; c_start := None |}.
Example C08_nonvacuous :
  numcfg ex_cfg (CSize 3%N) /\
  expected_files 3%N None (items false [OWrite [1;2;3;10]; OWrite [4;10]; OTrigger; OPlain [5]])%N
  = [[1;2;3;10]; [4;10]; [5]]%N.
Proof. split; [repeat split | vm_compute; reflexivity]. Qed.

Require Import FL.Flw.NumDInv FL.Flw.NumDRun FL.Flw.NumDTheorems.
(* NumbersDirect naming: the same greedy partition *)
Theorem C08_partition_numbersdirect c m t0 off ops :
  numdcfg c (CSize m) -> Forall basic_op ops ->
  direct_view c (wfs (s_w (fst (run (sys0 t0 off) (OStart c :: ops ++ [OStop]))))) (expected_files m None (items false ops)).
Proof. exact (numbersdirect_partition c m t0 off ops). Qed.

(* NumbersDirect naming: a write rotates exactly when the current file already exceeds the limit *)
Theorem C08_rotates_iff_numbersdirect c m t0 off ops i o b :
  numdcfg c (CSize m) -> Forall basic_op ops -> nth_error ops i = Some o -> (o = OWrite b \/ o = OPlain b) ->
  nth_error (snd (run (sys0 t0 off) (OStart c :: ops))) (S i)
  = Some (ObsRes 0 (m <? N.of_nat (length (cur_of (s_run m None (firstn i ops)))))%N).
Proof. exact (numbersdirect_rotates_iff c m t0 off ops i o b). Qed.

Require Import FL.Flw.TsTime FL.Flw.TsNames FL.Flw.TsInv FL.Flw.TsRun FL.Flw.TsTheorems FL.Flw.TsdInv FL.Flw.TsdRun FL.Flw.TsdTheorems.
(* TimestampsDirect naming: the same greedy partition *)
Theorem C08_partition_timestampsdirect c m t0 off ops :
  tsdcfg c (CSize m) -> tag_ok c -> Forall basic_op ops -> Forall tick_ok ops ->
  (0 <= t0 + ts_e c off)%Z -> (t0 + elapsed ops + ts_e c off < sec_max)%Z -> (N.of_nat (length ops) <= usize_max)%N ->
  exists keys,
    tsd_view c (ts_e c off) (wfs (s_w (fst (run (sys0 t0 off) (OStart c :: ops ++ [OStop]))))) keys
             (expected_files m None (items false ops))
    /\ keys_ok keys /\ (forall k, In k keys -> (t0 <= fst k <= t0 + elapsed ops)%Z).
Proof. exact (timestampsdirect_partition c m t0 off ops). Qed.

(* TimestampsDirect naming: a write rotates exactly when the current file already exceeds the limit *)
Theorem C08_rotates_iff_timestampsdirect c m t0 off ops i o b :
  tsdcfg c (CSize m) -> tag_ok c -> Forall basic_op ops -> Forall tick_ok ops ->
  (0 <= t0 + ts_e c off)%Z -> (t0 + elapsed ops + ts_e c off < sec_max)%Z -> (N.of_nat (length ops) <= usize_max)%N ->
  nth_error ops i = Some o -> (o = OWrite b \/ o = OPlain b) ->
  nth_error (snd (run (sys0 t0 off) (OStart c :: ops))) (S i)
  = Some (ObsRes 0 (m <? N.of_nat (length (cur_of (s_run m None (firstn i ops)))))%N).
Proof. exact (timestampsdirect_rotates_iff c m t0 off ops i o b). Qed.

Check C08_rotates_iff_exceeds.
Check C08_partition_numbers.
Print Assumptions C08_rotates_iff_exceeds.
Print Assumptions C08_partition_numbers.
Print Assumptions C08_oracle_sound.
Check C08_partition_numbersdirect.
Print Assumptions C08_partition_numbersdirect.
Check C08_rotates_iff_numbersdirect.
Print Assumptions C08_rotates_iff_numbersdirect.
Check C08_partition_timestampsdirect.
Print Assumptions C08_partition_timestampsdirect.
Check C08_rotates_iff_timestampsdirect.
Print Assumptions C08_rotates_iff_timestampsdirect.

Require Import FL.Oracles.ReaderOrder FL.Flw.NumRestart FL.Flw.NumDTheorems FL.Flw.TsReader FL.Flw.TsPartition.
(* Timestamps naming (rCURRENT + r<time stamp>[.restart-NNNN]): the same greedy partition; the closed files - named by their
   keys, in the order of their closing - hold all lists of the partition but the last, rCURRENT holds the last one; no record:
   empty directory *)
Theorem C08_partition_timestamps c m t0 off ops :
  tscfg c (CSize m) -> tag_ok c -> Forall basic_op ops -> Forall tick_ok ops ->
  (0 <= t0 + ts_e c off)%Z -> (t0 + elapsed ops + ts_e c off < sec_max)%Z -> (N.of_nat (length ops) <= usize_max)%N ->
  let f := wfs (s_w (fst (run (sys0 t0 off) (OStart c :: ops ++ [OStop])))) in
  let files := expected_files m None (items false ops) in
  (has_write ops = false /\ files = [] /\ names f = [])
  \/ exists keys closed cur,
       has_write ops = true
       /\ files = closed ++ [cur]
       /\ ts_view c (ts_e c off) f keys closed cur
       /\ keys_ok keys
       /\ (forall k, In k keys -> (t0 <= fst k <= t0 + elapsed ops)%Z).
Proof. exact (timestamps_partition c m t0 off ops). Qed.

(* Timestamps naming: a write rotates exactly when the current file already exceeds the limit *)
Theorem C08_rotates_iff_timestamps c m t0 off ops i o b :
  tscfg c (CSize m) -> tag_ok c -> Forall basic_op ops -> Forall tick_ok ops ->
  (0 <= t0 + ts_e c off)%Z -> (t0 + elapsed ops + ts_e c off < sec_max)%Z -> (N.of_nat (length ops) <= usize_max)%N ->
  nth_error ops i = Some o -> (o = OWrite b \/ o = OPlain b) ->
  nth_error (snd (run (sys0 t0 off) (OStart c :: ops))) (S i)
  = Some (ObsRes 0 (m <? N.of_nat (length (cur_of (s_run m None (firstn i ops)))))%N).
Proof. exact (timestamps_rotates_iff c m t0 off ops i o b). Qed.

(* Timestamps naming: the executable oracle accepts the reader's view of the final directory *)
Theorem C08_oracle_timestamps c m t0 off ops :
  tscfg c (CSize m) -> tag_ok c -> not_gz c -> Forall basic_op ops -> Forall tick_ok ops ->
  (0 <= t0 + ts_e c off)%Z -> (t0 + elapsed ops + ts_e c off < sec_max)%Z -> (N.of_nat (length ops) <= usize_max)%N ->
  oracle_C08 m None (items false ops) (family_in_order c (snap_of (fst (run (sys0 t0 off) (OStart c :: ops ++ [OStop]))))) = true.
Proof. exact (timestamps_oracle_C08 c m t0 off ops). Qed.

Check C08_partition_timestamps.
Print Assumptions C08_partition_timestamps.
Check C08_rotates_iff_timestamps.
Print Assumptions C08_rotates_iff_timestamps.
Check C08_oracle_timestamps.
Print Assumptions C08_oracle_timestamps.

(* ------------------------------------------------------------------ start states: append onto content found (proofs: Flw/NumAppendPartition.v,
   Flw/NumDAppendPartition.v).  The content found in the current file counts for the limit from the first write on. *)
Require Import FL.Flw.NumRestart FL.Flw.NumAppendPartition FL.Flw.NumDRestart FL.Flw.NumDAppendPartition.
Local Open Scope nat_scope.
(* two runs, the second with append: its files are the greedy partition that STARTS with what run 1 left in rCURRENT *)
Theorem C08_append_partition_numbers c1 c2 m1 m2 t0 off ops1 ops2 closed1 cur1 :
  numcfg c1 (CSize m1) -> numcfg c2 (CSize m2) -> c_spec c1 = c_spec c2 -> c_append c2 = true ->
  Forall basic_op ops1 -> Forall basic_op ops2 ->
  expected_files m1 None (items false ops1) = closed1 ++ [cur1] -> (N.of_nat (length closed1) <= u32_max)%N ->
  reads c2 (wfs (s_w (fst (run (sys0 t0 off) (OStart c1 :: ops1 ++ [OStop] ++ OStart c2 :: ops2 ++ [OStop])))))
        (closed1 ++ expected_files m2 (Some cur1) (items false ops2)).
Proof. exact (numbers_append_partition c1 c2 m1 m2 t0 off ops1 ops2 closed1 cur1). Qed.

(* ... and each write of run 2 rotates iff what is counted - found content included - exceeds the limit (a trigger or flush before
   the run's first write does nothing: the file is opened lazily, so the prefix is taken from the first write on) *)
Theorem C08_append_rotates_iff_numbers c1 c2 m1 m2 t0 off ops1 ops2 closed1 cur1 i o b :
  numcfg c1 (CSize m1) -> numcfg c2 (CSize m2) -> c_spec c1 = c_spec c2 -> c_append c2 = true ->
  Forall basic_op ops1 -> Forall basic_op ops2 ->
  expected_files m1 None (items false ops1) = closed1 ++ [cur1] -> (N.of_nat (length closed1) <= u32_max)%N ->
  nth_error ops2 i = Some o -> (o = OWrite b \/ o = OPlain b) ->
  nth_error (snd (run (fst (run (sys0 t0 off) (OStart c1 :: ops1 ++ [OStop]))) (OStart c2 :: ops2))) (S i)
  = Some (ObsRes 0 (m2 <? N.of_nat (length (cur_of (s_run m2 (Some ([], cur1)) (from_first_write (firstn i ops2))))))%N).
Proof. exact (numbers_append_rotates_iff c1 c2 m1 m2 t0 off ops1 ops2 closed1 cur1 i o b). Qed.

(* any number of runs, each with its own limit, capacity and append flag: the files are the fold of the greedy partition over
   the runs (runs_files: with append the last file found is continued and counts, without append a new file is started) *)
Theorem C08_runs_partition_numbers sp t0 off rs :
  (N.of_nat (length (runs_ops rs)) <= u32_max)%N ->
  Forall (fun r => c_spec (fst r) = sp /\ (exists m, numcfg (fst r) (CSize m)) /\ Forall basic_op (snd r)) rs ->
  forall c, c_spec c = sp -> reads c (wfs (s_w (fst (run (sys0 t0 off) (runs_ops rs))))) (runs_files [] rs).
Proof. exact (numbers_runs_partition sp t0 off rs). Qed.

Theorem C08_runs_partition_numbersdirect sp t0 off rs :
  (N.of_nat (length (runs_ops rs)) <= u32_max)%N ->
  Forall (fun r => c_spec (fst r) = sp /\ (exists m, numdcfg (fst r) (CSize m)) /\ Forall basic_op (snd r)) rs ->
  forall c, c_spec c = sp ->
    direct_view c (wfs (s_w (fst (run (sys0 t0 off) (runs_ops rs))))) (runs_files [] rs).
Proof. exact (numbersdirect_runs_partition sp t0 off rs). Qed.

Check C08_append_partition_numbers. Check C08_append_rotates_iff_numbers. Check C08_runs_partition_numbers. Check C08_runs_partition_numbersdirect.
Print Assumptions C08_append_partition_numbers.
Print Assumptions C08_append_rotates_iff_numbers.
Print Assumptions C08_runs_partition_numbers.
Print Assumptions C08_runs_partition_numbersdirect.

(* ------------------------------------------------------------------ start states for TimestampsDirect naming (proofs: Flw/TsdAppendPartition.v).
   The histories are those of TsRestart.v / TsdRestart.v: before each run the clock advances by dt >= 0 (run_t, runs_ops_t);
   with append the newest file found - by time stamp and restart counter - is continued under its old name and its content
   counts for the limit from the first write on *)
Require Import FL.Flw.TsRestart FL.Flw.TsdRestartInv FL.Flw.TsdRestart FL.Flw.TsdAppendPartition.
Theorem C08_append_partition_timestampsdirect c1 c2 m1 m2 t0 off dt ops1 ops2 closed1 cur1 :
  tsdcfg c1 (CSize m1) -> tsdcfg c2 (CSize m2) -> tag_ok c1 -> tag_ok c2 -> c_spec c1 = c_spec c2 -> c_utc c1 = c_utc c2 ->
  (c_append c1 = true -> probe_ok c1) -> c_append c2 = true -> probe_ok c2 -> (0 <= dt)%Z ->
  Forall basic_op ops1 -> Forall tick_ok ops1 -> Forall basic_op ops2 -> Forall tick_ok ops2 ->
  expected_files m1 None (items false ops1) = closed1 ++ [cur1] ->
  let rs := [(0%Z, c1, ops1); (dt, c2, ops2)] in
  let e := ts_e c2 off in
  (0 <= t0 + e)%Z -> (t0 + elapsed (runs_ops_t rs) + e < sec_max)%Z -> (N.of_nat (length (runs_ops_t rs)) <= usize_max)%N ->
  exists keys,
    tsd_view c2 e (wfs (s_w (fst (run (sys0 t0 off) (runs_ops_t rs))))) keys
             (closed1 ++ expected_files m2 (Some cur1) (items false ops2))
    /\ keys_ok keys /\ (forall k, In k keys -> (t0 <= fst k <= t0 + elapsed (runs_ops_t rs))%Z).
Proof. exact (timestampsdirect_append_partition c1 c2 m1 m2 t0 off dt ops1 ops2 closed1 cur1). Qed.

Theorem C08_append_rotates_iff_timestampsdirect c1 c2 m1 m2 t0 off dt ops1 ops2 closed1 cur1 i o b :
  tsdcfg c1 (CSize m1) -> tsdcfg c2 (CSize m2) -> tag_ok c1 -> tag_ok c2 -> c_spec c1 = c_spec c2 -> c_utc c1 = c_utc c2 ->
  (c_append c1 = true -> probe_ok c1) -> c_append c2 = true -> probe_ok c2 -> (0 <= dt)%Z ->
  Forall basic_op ops1 -> Forall tick_ok ops1 -> Forall basic_op ops2 -> Forall tick_ok ops2 ->
  expected_files m1 None (items false ops1) = closed1 ++ [cur1] ->
  let rs := [(0%Z, c1, ops1); (dt, c2, ops2)] in
  let e := ts_e c2 off in
  (0 <= t0 + e)%Z -> (t0 + elapsed (runs_ops_t rs) + e < sec_max)%Z -> (N.of_nat (length (runs_ops_t rs)) <= usize_max)%N ->
  nth_error ops2 i = Some o -> (o = OWrite b \/ o = OPlain b) ->
  nth_error (snd (run (fst (run (sys0 t0 off) (runs_ops_t [(0%Z, c1, ops1)]))) (OTick dt :: OStart c2 :: ops2))) (S (S i))
  = Some (ObsRes 0 (m2 <? N.of_nat (length (cur_of (s_run m2 (Some ([], cur1)) (from_first_write (firstn i ops2))))))%N).
Proof. exact (timestampsdirect_append_rotates_iff c1 c2 m1 m2 t0 off dt ops1 ops2 closed1 cur1 i o b). Qed.

Theorem C08_runs_partition_timestampsdirect sp utc t0 off rs :
  Forall (run_ok_tsd sp utc) rs -> Forall size_run_tsd rs ->
  let e := if utc then 0%Z else off in
  (0 <= t0 + e)%Z -> (t0 + elapsed (runs_ops_t rs) + e < sec_max)%Z -> (N.of_nat (length (runs_ops_t rs)) <= usize_max)%N ->
  let f := wfs (s_w (fst (run (sys0 t0 off) (runs_ops_t rs)))) in
  exists keys,
    (forall c, c_spec c = sp -> tsd_view c e f keys (runs_files [] (strip rs)))
    /\ keys_ok keys
    /\ (forall k, In k keys -> (t0 <= fst k <= t0 + elapsed (runs_ops_t rs))%Z).
Proof. exact (timestampsdirect_runs_partition sp utc t0 off rs). Qed.

Theorem C08_runs_rotates_iff_timestampsdirect sp utc t0 off rs dt c m ops i o b :
  Forall (run_ok_tsd sp utc) (rs ++ [(dt, c, ops)]) -> Forall size_run_tsd rs -> tsdcfg c (CSize m) ->
  let e := if utc then 0%Z else off in
  (0 <= t0 + e)%Z -> (t0 + elapsed (runs_ops_t (rs ++ [(dt, c, ops)])) + e < sec_max)%Z ->
  (N.of_nat (length (runs_ops_t (rs ++ [(dt, c, ops)]))) <= usize_max)%N ->
  nth_error ops i = Some o -> (o = OWrite b \/ o = OPlain b) ->
  nth_error (snd (run (fst (run (sys0 t0 off) (runs_ops_t rs))) (OTick dt :: OStart c :: ops))) (S (S i))
  = Some (ObsRes 0 (m <? N.of_nat (length (cur_before m (start_of (runs_files [] (strip rs)) (c_append c)) (firstn i ops))))%N).
Proof. exact (timestampsdirect_runs_rotates_iff sp utc t0 off rs dt c m ops i o b). Qed.

Check C08_append_partition_timestampsdirect. Check C08_append_rotates_iff_timestampsdirect.
Check C08_runs_partition_timestampsdirect. Check C08_runs_rotates_iff_timestampsdirect.
Print Assumptions C08_append_partition_timestampsdirect.
Print Assumptions C08_append_rotates_iff_timestampsdirect.
Print Assumptions C08_runs_partition_timestampsdirect.
Print Assumptions C08_runs_rotates_iff_timestampsdirect.

(* ------------------------------------------------------------------ start states for Timestamps naming (proofs: Flw/TsAppendPartition.v):
   with append rCURRENT is continued and its content counts; without append it is closed at the first write of the new run
   under the stamp of its start; a run that never writes changes nothing *)
Require Import FL.Flw.TsAppendPartition.
Theorem C08_append_partition_timestamps sp utc t0 off dt1 c1 m1 ops1 dt2 c2 m2 ops2 closed1 cur1 :
  run_ok_ts sp utc (dt1, c1, ops1) -> run_ok_ts sp utc (dt2, c2, ops2) ->
  tscfg c1 (CSize m1) -> tscfg c2 (CSize m2) -> c_append c2 = true ->
  expected_files m1 None (items false ops1) = closed1 ++ [cur1] ->
  let rs := TsAppendPartition.two_runs dt1 c1 ops1 dt2 c2 ops2 in
  let e := if utc then 0%Z else off in
  (0 <= t0 + e)%Z -> (t0 + elapsed (runs_ops_t rs) + e < sec_max)%Z -> (N.of_nat (length (runs_ops_t rs)) <= usize_max)%N ->
  let f := wfs (s_w (fst (run (sys0 t0 off) (runs_ops_t rs)))) in
  exists keys closed cur,
    closed1 ++ expected_files m2 (Some cur1) (items false ops2) = closed ++ [cur]
    /\ (forall c, c_spec c = sp -> ts_view c e f keys closed cur)
    /\ keys_ok keys
    /\ (forall k, In k keys -> (t0 <= fst k <= t0 + elapsed (runs_ops_t rs))%Z).
Proof. exact (timestamps_append_partition sp utc t0 off dt1 c1 m1 ops1 dt2 c2 m2 ops2 closed1 cur1). Qed.

Theorem C08_append_rotates_iff_timestamps sp utc t0 off dt1 c1 m1 ops1 dt2 c2 m2 ops2 closed1 cur1 i o b :
  run_ok_ts sp utc (dt1, c1, ops1) -> run_ok_ts sp utc (dt2, c2, ops2) ->
  tscfg c1 (CSize m1) -> tscfg c2 (CSize m2) -> c_append c2 = true ->
  expected_files m1 None (items false ops1) = closed1 ++ [cur1] ->
  let e := if utc then 0%Z else off in
  (0 <= t0 + e)%Z -> (t0 + elapsed (run_t dt1 c1 ops1) + dt2 + elapsed ops2 + e < sec_max)%Z ->
  (N.of_nat (length (run_t dt1 c1 ops1) + S (length ops2)) <= usize_max)%N ->
  nth_error ops2 i = Some o -> (o = OWrite b \/ o = OPlain b) ->
  nth_error (snd (run (fst (run (sys0 t0 off) (run_t dt1 c1 ops1))) (OTick dt2 :: OStart c2 :: ops2))) (S (S i))
  = Some (ObsRes 0 (m2 <? N.of_nat (length (cur_of (s_run m2 (Some ([], cur1)) (from_first_write (firstn i ops2))))))%N).
Proof. exact (timestamps_append_rotates_iff sp utc t0 off dt1 c1 m1 ops1 dt2 c2 m2 ops2 closed1 cur1 i o b). Qed.

Theorem C08_runs_partition_timestamps sp utc t0 off rs :
  Forall (run_ok_ts sp utc) rs -> Forall (fun r => exists m, tscfg (snd (fst r)) (CSize m)) rs ->
  let e := if utc then 0%Z else off in
  (0 <= t0 + e)%Z -> (t0 + elapsed (runs_ops_t rs) + e < sec_max)%Z -> (N.of_nat (length (runs_ops_t rs)) <= usize_max)%N ->
  let f := wfs (s_w (fst (run (sys0 t0 off) (runs_ops_t rs)))) in
  (runs_files [] (TsAppendPartition.strip rs) = [] /\ names f = [])
  \/ exists keys closed cur,
       runs_files [] (TsAppendPartition.strip rs) = closed ++ [cur]
       /\ (forall c, c_spec c = sp -> ts_view c e f keys closed cur)
       /\ keys_ok keys
       /\ (forall k, In k keys -> (t0 <= fst k <= t0 + elapsed (runs_ops_t rs))%Z).
Proof. exact (timestamps_runs_partition sp utc t0 off rs). Qed.

Theorem C08_runs_rotates_iff_timestamps sp utc t0 off rs dt c m ops i o b :
  Forall (run_ok_ts sp utc) rs -> Forall (fun r => exists m, tscfg (snd (fst r)) (CSize m)) rs ->
  run_ok_ts sp utc (dt, c, ops) -> tscfg c (CSize m) ->
  let e := if utc then 0%Z else off in
  (0 <= t0 + e)%Z -> (t0 + elapsed (runs_ops_t rs) + dt + elapsed ops + e < sec_max)%Z ->
  (N.of_nat (length (runs_ops_t rs) + S (length ops)) <= usize_max)%N ->
  nth_error ops i = Some o -> (o = OWrite b \/ o = OPlain b) ->
  nth_error (snd (run (fst (run (sys0 t0 off) (runs_ops_t rs))) (OTick dt :: OStart c :: ops))) (S (S i))
  = Some (ObsRes 0 (m <? N.of_nat (length (cur_before m (start_of (runs_files [] (TsAppendPartition.strip rs)) (c_append c)) (firstn i ops))))%N).
Proof. exact (timestamps_runs_rotates_iff sp utc t0 off rs dt c m ops i o b). Qed.

Check C08_append_partition_timestamps. Check C08_append_rotates_iff_timestamps.
Check C08_runs_partition_timestamps. Check C08_runs_rotates_iff_timestamps.
Print Assumptions C08_append_partition_timestamps.
Print Assumptions C08_append_rotates_iff_timestamps.
Print Assumptions C08_runs_partition_timestamps.
Print Assumptions C08_runs_rotates_iff_timestamps.
