(* C20 - framing and formats.  Statements only. *)
Require Import FL.Base.Bytes FL.Formats.Formats FL.Formats.JsonFacts.
Open Scope nat_scope.

Lemma output_seq o e f n start :
  output_of o e (List.map (fun i => (i, f)) (seq start n)) = if Nat.leb start o && Nat.ltb o (start + n) then f ++ e else [].
Proof.
  revert start. induction n as [|n IH]; intros start; cbn [seq List.map output_of flat_map].
  - destruct (Nat.leb_spec start o), (Nat.ltb_spec o (start + 0)); cbn [andb]; try reflexivity; lia.
  - fold (output_of o e (List.map (fun i => (i, f)) (seq (S start) n))). rewrite IH. cbn [fst snd].
    destruct (Nat.eqb_spec start o) as [->|N].
    + rewrite Nat.leb_refl. destruct (Nat.leb_spec (S o) o); [lia|]. cbn [andb app].
      destruct (Nat.ltb_spec o (o + S n)); [rewrite app_nil_r; reflexivity | lia].
    + cbn [app]. destruct (Nat.leb_spec (S start) o), (Nat.leb_spec start o), (Nat.ltb_spec o (S start + n)), (Nat.ltb_spec o (start + S n));
        cbn [andb]; try reflexivity; lia.
Qed.

(* a record (that does not log from its Display) which is handed to n outputs puts exactly
   format(record) ++ line ending into each of them, once - and nothing into any other output *)
Theorem C20_frame :
  forall n k ts r o ending,
    output_of o ending (log_events n k ts (RNode r [])) = if Nat.ltb o n then format_record k false ts r ++ ending else [].
Proof.
  intros n k ts r o ending. cbn [log_events]. 
  assert (E : forall (g : rtree -> list (nat * bytes)) m s,
              flat_map (fun o0 : nat => flat_map g [] ++ [(o0, format_record k false ts r)]) (seq s m)
              = List.map (fun i => (i, format_record k false ts r)) (seq s m)).
  { intros g m. induction m as [|m IH]; intros s; cbn [seq flat_map List.map app]; [reflexivity|]. rewrite IH. reflexivity. }
  rewrite E, output_seq. cbn [Nat.leb andb Nat.add]. reflexivity.
Qed.

(* all outputs of one record are rendered from one time stamp: they are byte-identical up to the line ending *)
Theorem C20_one_timestamp :
  forall n k ts r o1 o2 e, o1 < n -> o2 < n ->
    output_of o1 e (log_events n k ts (RNode r [])) = output_of o2 e (log_events n k ts (RNode r [])).
Proof.
  intros n k ts r o1 o2 e H1 H2. rewrite !C20_frame.
  destruct (Nat.ltb_spec o1 n), (Nat.ltb_spec o2 n); try lia. reflexivity.
Qed.

(* every text format is a header that does not depend on the message, followed by the message verbatim *)
Definition with_msg (r : frec) (m : bytes) : frec :=
  {| fr_level := fr_level r; fr_module := fr_module r; fr_file := fr_file r; fr_line := fr_line r; fr_thread := fr_thread r; fr_msg := m |}.
Theorem C20_text :
  forall k ts r, k <> FJson -> exists header, forall m, format_record k false ts (with_msg r m) = header ++ m.
Proof.
  intros k ts r Hk. exists (format_record k false ts (with_msg r [])). intros m.
  destruct k; try contradiction; cbn [format_record with_msg fr_level fr_module fr_file fr_line fr_thread fr_msg];
    rewrite ?app_nil_r; rewrite <- ?app_assoc; reflexivity.
Qed.

(* serde_json's string escaping can be undone, for every byte string: each field of the JSON line decodes to the
   value that went in *)
Theorem C20_json_roundtrip : forall s, Forall is_byte s ->
  json_unescape (length (json_escape s)) (json_escape s) = Some s.
Proof. exact unescape_escape. Qed.

(* and the JSON line of a record never contains a byte below 0x20: one record is one line, whatever its texts *)
Theorem C20_json_single_line : forall ts r,
  Forall is_byte ts -> Forall is_byte (fr_msg r) ->
  (forall m, fr_module r = Some m -> Forall is_byte m) -> (forall f, fr_file r = Some f -> Forall is_byte f) ->
  (forall t, fr_thread r = Some t -> Forall is_byte t) ->
  forall c, In c (json_line ts r) -> (32 <= c)%N.
Proof. exact json_line_single_line. Qed.

Check C20_frame. Check C20_text. Check C20_json_roundtrip. Check C20_json_single_line. Check C20_one_timestamp.
Print Assumptions C20_frame.
Print Assumptions C20_text.
Print Assumptions C20_one_timestamp.
Print Assumptions C20_json_roundtrip.
Print Assumptions C20_json_single_line.
