(* C20 - framing and formats.  Statements only. *)
Require Import FL.Base.Bytes FL.Formats.Formats FL.Formats.JsonFacts.
Open Scope nat_scope.

Lemma output_seq o e f n start :
  output_of o e (List.map (fun i => (i, f)) (seq start n)) = if Nat.leb start o && Nat.ltb o (start + n) then f ++ e else [].
Proof.
  revert start. induction n as [|n IH]; intros start; cbn [seq List.map output_of flat_map].
  - destruct (Nat.leb_spec start o), (Nat.ltb_spec o (start + 0)); cbn [andb]; try reflexivity; lia.
  - fold (output_of o e (List.map (fun i => (i, f)) (seq (S start) n))). rewrite IH. cbn [fst snd].
    destruct (Nat.eqb_spec start o) as [->|N].
    + rewrite Nat.leb_refl. destruct (Nat.leb_spec (S o) o); [lia|]. cbn [andb app].
      destruct (Nat.ltb_spec o (o + S n)); [rewrite app_nil_r; reflexivity | lia].
    + cbn [app]. destruct (Nat.leb_spec (S start) o), (Nat.leb_spec start o), (Nat.ltb_spec o (S start + n)), (Nat.ltb_spec o (start + S n));
        cbn [andb]; try reflexivity; lia.
Qed.

(* a record (that does not log from its Display) which is handed to n outputs puts exactly
   format(record) ++ line ending into each of them, once - and nothing into any other output *)
Theorem C20_frame :
  forall n k ts r o ending,
    output_of o ending (log_events n k ts (RNode r [])) = if Nat.ltb o n then format_record k false ts r ++ ending else [].
Proof.
  intros n k ts r o ending. cbn [log_events]. 
  assert (E : forall (g : rtree -> list (nat * bytes)) m s,
              flat_map (fun o0 : nat => flat_map g [] ++ [(o0, format_record k false ts r)]) (seq s m)
              = List.map (fun i => (i, format_record k false ts r)) (seq s m)).
  { intros g m. induction m as [|m IH]; intros s; cbn [seq flat_map List.map app]; [reflexivity|]. rewrite IH. reflexivity. }
  rewrite E, output_seq. cbn [Nat.leb andb Nat.add]. reflexivity.
Qed.

(* all outputs of one record are rendered from one time stamp: they are byte-identical up to the line ending *)
Theorem C20_one_timestamp :
  forall n k ts r o1 o2 e, o1 < n -> o2 < n ->
    output_of o1 e (log_events n k ts (RNode r [])) = output_of o2 e (log_events n k ts (RNode r [])).
Proof.
  intros n k ts r o1 o2 e H1 H2. rewrite !C20_frame.
  destruct (Nat.ltb_spec o1 n), (Nat.ltb_spec o2 n); try lia. reflexivity.
Qed.

(* every text format is a header that depends neither on the message nor on the key-value pairs, followed by the pairs
   as kv_text renders them ("{k=v, k2=v2} " in the order of the source, nothing without pairs), followed by the message
   verbatim - painted as a whole when the format is a coloured one.  So pairs and message appear exactly once, at the end. *)
Definition with_msg (r : frec) (m : bytes) : frec :=
  {| fr_level := fr_level r; fr_module := fr_module r; fr_file := fr_file r; fr_line := fr_line r; fr_thread := fr_thread r;
     fr_kv := fr_kv r; fr_msg := m |}.
Definition with_kv (r : frec) (kvs : list (bytes * kvval)) : frec :=
  {| fr_level := fr_level r; fr_module := fr_module r; fr_file := fr_file r; fr_line := fr_line r; fr_thread := fr_thread r;
     fr_kv := kvs; fr_msg := fr_msg r |}.
Theorem C20_text :
  forall k colored ts r, k <> FJson ->
    exists header, forall kvs m,
      format_record k colored ts (with_kv (with_msg r m) kvs)
      = header ++ kv_text kvs ++ (if colored then paint (fr_level r) m else m).
Proof.
  intros k colored ts r Hk.
  destruct k; try contradiction; destruct colored; eexists; intros kvs m;
    cbn [format_record with_kv with_msg fr_level fr_module fr_file fr_line fr_thread fr_kv fr_msg];
    rewrite !app_assoc; reflexivity.
Qed.

(* the former statement: header (now with the pairs of the record in it) and then the message verbatim *)
Corollary C20_text_msg :
  forall k ts r, k <> FJson -> exists header, forall m, format_record k false ts (with_msg r m) = header ++ m.
Proof.
  intros k ts r Hk. destruct (C20_text k false ts r Hk) as [header H]. exists (header ++ kv_text (fr_kv r)). intros m.
  rewrite <- app_assoc, <- (H (fr_kv r) m). reflexivity.
Qed.

(* the pairs in the text formats: a value can be read back from its rendering (numbers in decimal, strings in Rust's
   Debug form), so the rendering determines the value; the Debug form has no control character, and a quote is in it
   only as the two delimiters and in the escape backslash-quote; with keys free of control characters the pairs stay on the line *)
Theorem C20_kv_text_roundtrip : forall v, kvval_bytes_ok v -> kv_undebug (kv_debug v) = Some v.
Proof. exact kv_text_roundtrip. Qed.

Theorem C20_kv_debug_inj : forall v w, kvval_bytes_ok v -> kvval_bytes_ok w -> kv_debug v = kv_debug w -> v = w.
Proof. exact kv_debug_inj. Qed.

Theorem C20_debug_str_inj : forall a b, Forall is_byte a -> Forall is_byte b -> debug_str a = debug_str b -> a = b.
Proof. exact debug_str_inj. Qed.

Theorem C20_debug_str_printable : forall s d, In d (debug_str s) -> (32 <= d)%N /\ d <> 127%N.
Proof. exact debug_str_printable. Qed.

Theorem C20_debug_str_quotes : forall s,
  debug_str s = [34%N] ++ concat (List.map debug_byte s) ++ [34%N]
  /\ Forall (fun t => t = [92%N; 34%N] \/ ~ In 34%N t) (List.map debug_byte s).
Proof. exact debug_str_quotes. Qed.

Theorem C20_kv_text_single_line :
  forall kvs, Forall (fun kv : bytes * kvval => ok (fst kv)) kvs -> ok (kv_text kvs).
Proof. exact kv_text_single_line. Qed.

(* the pairs in the JSON format are collected in a map: sorted strictly by key (so no key twice), with exactly the keys
   of the source, each with the value of its LAST occurrence in the source; no pairs, no map *)
Theorem C20_kv_map_sorted : forall l, Sorted.Sorted kv_lt (kv_map l).
Proof. exact kv_map_sorted. Qed.

Theorem C20_kv_map_nodup : forall l, NoDup (List.map fst (kv_map l)).
Proof. exact kv_map_nodup. Qed.

Theorem C20_kv_map_keys : forall k l, In k (List.map fst (kv_map l)) <-> In k (List.map fst l).
Proof. exact kv_map_keys. Qed.

Theorem C20_kv_map_lookup : forall k l, assoc k (kv_map l) = assoc k (rev l).
Proof. exact kv_map_lookup. Qed.

Theorem C20_kv_map_in : forall k v l, In (k, v) (kv_map l) <-> assoc k (rev l) = Some v.
Proof. exact kv_map_in. Qed.

Theorem C20_kv_map_nil : forall l, kv_map l = [] <-> l = [].
Proof. exact kv_map_nil_iff. Qed.

(* serde_json's string escaping can be undone, for every byte string: each field of the JSON line decodes to the
   value that went in *)
Theorem C20_json_roundtrip : forall s, Forall is_byte s ->
  json_unescape (length (json_escape s)) (json_escape s) = Some s.
Proof. exact unescape_escape. Qed.

(* and the JSON line of a record never contains a byte below 0x20: one record is one line, whatever its texts *)
Theorem C20_json_single_line : forall ts r,
  Forall is_byte ts -> Forall is_byte (fr_msg r) ->
  (forall m, fr_module r = Some m -> Forall is_byte m) -> (forall f, fr_file r = Some f -> Forall is_byte f) ->
  (forall t, fr_thread r = Some t -> Forall is_byte t) ->
  kv_bytes_ok (fr_kv r) ->
  forall c, In c (json_line ts r) -> (32 <= c)%N.
Proof. exact json_line_single_line. Qed.

(* the object of the pairs in the JSON line is "{" "key":value , ... "}" over the map, and it decodes back: every key and
   every string value is recovered exactly by JSON string decoding, every number by reading its decimal digits *)
Theorem C20_json_kv_roundtrip : forall r, kv_bytes_ok (fr_kv r) ->
  forall k v, In (k, v) (kv_map (fr_kv r)) ->
    json_unescape (length (json_escape k)) (json_escape k) = Some k
    /\ match v with
       | KStr s => json_kv_value v = json_string s /\ json_unescape (length (json_escape s)) (json_escape s) = Some s
       | KInt n => json_kv_value v = dec n /\ dec_value (dec n) = n
       end.
Proof. exact json_kv_roundtrip. Qed.

Theorem C20_json_kv_object : forall m,
  json_kv_object m
  = [123%N] ++ join [44%N] (List.map (fun kv : bytes * kvval => json_string (fst kv) ++ [58%N] ++ json_kv_value (snd kv)) m)
    ++ [125%N].
Proof. exact json_kv_object_shape. Qed.

(* ---- examples: a record with the pairs b = 17, a = the string f, quote, o, backslash, o, and b = 1 (in this order) ---- *)
From Coq Require String.
Import String.StringSyntax.
Definition ex_rec : frec :=
  {| fr_level := 3; fr_module := Some (bs "m"%string); fr_file := Some (bs "f.rs"%string); fr_line := Some 7%N;
     fr_thread := Some (bs "main"%string);
     fr_kv := [(bs "b"%string, KInt 17); (bs "a"%string, KStr (bs "f""o\o"%string)); (bs "b"%string, KInt 1)];
     fr_msg := bs "hi"%string |}.

(* the text formats keep the order of the source and the duplicates *)
Example ex_kv_text :
  kv_text (fr_kv ex_rec) = bs "{b=17, a=""f\""o\\o"", b=1} "%string.
Proof. vm_compute. reflexivity. Qed.
Example ex_text_default :
  format_record FDefault false (bs "T"%string) ex_rec = bs "INFO [m] {b=17, a=""f\""o\\o"", b=1} hi"%string.
Proof. vm_compute. reflexivity. Qed.
Example ex_text_detailed :
  format_record FDetailed false (bs "T"%string) ex_rec = bs "[T] INFO [m] f.rs:7: {b=17, a=""f\""o\\o"", b=1} hi"%string.
Proof. vm_compute. reflexivity. Qed.
Example ex_text_no_pairs :
  format_record FDefault false (bs "T"%string) (with_kv ex_rec []) = bs "INFO [m] hi"%string.
Proof. vm_compute. reflexivity. Qed.
(* the JSON format has a map: sorted by key, the last b wins *)
Example ex_kv_map :
  kv_map (fr_kv ex_rec) = [(bs "a"%string, KStr (bs "f""o\o"%string)); (bs "b"%string, KInt 1)].
Proof. vm_compute. reflexivity. Qed.
Example ex_json :
  format_record FJson false (bs "T"%string) ex_rec
  = bs "{""level"":""INFO"",""timestamp"":""T"",""thread"":""main"",""module_path"":""m"",""file"":""f.rs"",""line"":7,""kv"":{""a"":""f\""o\\o"",""b"":1},""text"":""hi""}"%string.
Proof. vm_compute. reflexivity. Qed.
Example ex_json_no_pairs :
  format_record FJson false (bs "T"%string) (with_kv ex_rec [])
  = bs "{""level"":""INFO"",""timestamp"":""T"",""thread"":""main"",""module_path"":""m"",""file"":""f.rs"",""line"":7,""text"":""hi""}"%string.
Proof. vm_compute. reflexivity. Qed.
(* and the Debug form of the string value reads back *)
Example ex_undebug :
  kv_undebug (bs """f\""o\\o"""%string) = Some (KStr (bs "f""o\o"%string)).
Proof. vm_compute. reflexivity. Qed.

Check C20_frame. Check C20_text. Check C20_text_msg. Check C20_json_roundtrip. Check C20_json_single_line. Check C20_one_timestamp.
Check C20_kv_text_roundtrip. Check C20_kv_debug_inj. Check C20_debug_str_inj. Check C20_debug_str_printable.
Check C20_debug_str_quotes. Check C20_kv_text_single_line.
Check C20_kv_map_sorted. Check C20_kv_map_nodup. Check C20_kv_map_keys. Check C20_kv_map_lookup. Check C20_kv_map_in. Check C20_kv_map_nil.
Check C20_json_kv_roundtrip. Check C20_json_kv_object.
Print Assumptions C20_frame.
Print Assumptions C20_text.
Print Assumptions C20_one_timestamp.
Print Assumptions C20_json_roundtrip.
Print Assumptions C20_json_single_line.
Print Assumptions C20_text_msg.
Print Assumptions C20_kv_text_roundtrip.
Print Assumptions C20_kv_debug_inj.
Print Assumptions C20_debug_str_inj.
Print Assumptions C20_debug_str_printable.
Print Assumptions C20_debug_str_quotes.
Print Assumptions C20_kv_text_single_line.
Print Assumptions C20_kv_map_sorted.
Print Assumptions C20_kv_map_nodup.
Print Assumptions C20_kv_map_keys.
Print Assumptions C20_kv_map_lookup.
Print Assumptions C20_kv_map_in.
Print Assumptions C20_kv_map_nil.
Print Assumptions C20_json_kv_roundtrip.
Print Assumptions C20_json_kv_object.
