(* C04 - flush, shutdown, drop.  Statements only. *)
Require Import FL.Base.Bytes FL.Fs.Fs FL.Names.FileSpec FL.Flw.Model FL.Flw.Run FL.Flw.NumInv FL.Flw.NumRun FL.Flw.NumTheorems.

(* once the writer has been stopped (shutdown + drop of the last handle) the directory holds every byte that
   was written before, for every history, criterion and buffer capacity (Numbers naming): nothing stays behind
   in a buffer *)
Theorem C04_stop_durable :
  forall c crit t0 off ops,
    numcfg c crit -> Forall basic_op ops ->
    exists files, reads c (wfs (s_w (fst (run (sys0 t0 off) (OStart c :: ops ++ [OStop]))))) files
      /\ concat files = written ops.
Proof. exact numbers_stream. Qed.

Check C04_stop_durable.
Print Assumptions C04_stop_durable.

(* ------------------------------------------------------------------ the asynchronous mode *)
(* C04 - flush, shutdown and handle drop leave no accepted record behind: flush in every mode, drop in the
   asynchronous mode (the synchronous drop is C04_stop_durable).  Statements only (proofs: Flw/NumAsync.v).
   Asynchronous mode: "after the flush" means after the writer thread has consumed the flush message; in the model
   and in the test harness that is before the next operation starts (scheduling assumption) - flush() itself gives
   the caller no acknowledgement. *)
Require Import FL.Base.Bytes FL.Fs.Fs FL.Names.FileSpec FL.Flw.Model FL.Flw.Run FL.Flw.NumInv FL.Flw.NumRun
  FL.Oracles.O_Flw FL.Flw.NumTheorems FL.Flw.NumAsync.

Theorem C04_flush_durable_async :
  forall c crit t0 off ops,
    numacfg c crit -> Forall basic_op ops ->
    let x := fst (run (sys0 t0 off) (OStart c :: ops ++ [OFlush])) in
    exists files, reads c (wfs (s_w x)) files /\ concat files = written ops
      /\ pending x = [] /\ s_dead x = false
      /\ (forall m, crit = CSize m -> files = expected_files m None (items false ops)).
Proof. exact async_flush_durable. Qed.

Theorem C04_stop_durable_async :
  forall c crit t0 off ops,
    numacfg c crit -> Forall basic_op ops ->
    let x := fst (run (sys0 t0 off) (OStart c :: ops ++ [OStop])) in
    exists files, reads c (wfs (s_w x)) files /\ concat files = written ops
      /\ pending x = [] /\ s_flw x = None /\ s_dead x = true
      /\ (forall m, crit = CSize m -> files = expected_files m None (items false ops)).
Proof. exact async_stop_durable. Qed.

(* Direct and buffered mode: after a flush the directory holds every byte written so far *)
Theorem C04_flush_durable_sync :
  forall c crit t0 off ops,
    numcfg c crit -> Forall basic_op ops ->
    let x := fst (run (sys0 t0 off) (OStart c :: ops ++ [OFlush])) in
    exists files, reads c (wfs (s_w x)) files /\ concat files = written ops
      /\ pending x = []
      /\ (forall m, crit = CSize m -> files = expected_files m None (items false ops)).
Proof. exact sync_flush_durable. Qed.

(* limit: after shutdown() without drop an asynchronous writer accepts log calls (Ok) and loses the records *)
Theorem C04_async_dead_write_lost :
  forall x s b, s_flw x = Some s -> c_async (f_cfg s) = true -> s_dead x = true ->
    s_w (fst (step x (OWrite b))) = s_w x /\ snd (step x (OWrite b)) = ObsRes 0%N false.
Proof. exact async_dead_write_lost. Qed.

Check C04_flush_durable_async. Check C04_stop_durable_async. Check C04_flush_durable_sync. Check C04_async_dead_write_lost.
Print Assumptions C04_flush_durable_async.
Print Assumptions C04_stop_durable_async.
Print Assumptions C04_flush_durable_sync.
Print Assumptions C04_async_dead_write_lost.
