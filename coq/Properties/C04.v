(* C04 - flush, shutdown, drop.  Statements only. *)
Require Import FL.Base.Bytes FL.Fs.Fs FL.Names.FileSpec FL.Flw.Model FL.Flw.Run FL.Flw.NumInv FL.Flw.NumRun FL.Flw.NumTheorems.

(* once the writer has been stopped (shutdown + drop of the last handle) the directory holds every byte that
   was written before, for every history, criterion and buffer capacity (Numbers naming): nothing stays behind
   in a buffer *)
Theorem C04_stop_durable :
  forall c crit t0 off ops,
    numcfg c crit -> Forall basic_op ops ->
    exists files, reads c (wfs (s_w (fst (run (sys0 t0 off) (OStart c :: ops ++ [OStop]))))) files
      /\ concat files = written ops.
Proof. exact numbers_stream. Qed.

Check C04_stop_durable.
Print Assumptions C04_stop_durable.

(* ------------------------------------------------------------------ the asynchronous mode *)
(* C04 - flush, shutdown and handle drop leave no accepted record behind: flush in every mode, drop in the
   asynchronous mode (the synchronous drop is C04_stop_durable).  Statements only (proofs: Flw/NumAsync.v).
   Asynchronous mode: "after the flush" means after the writer thread has consumed the flush message; in the model
   and in the test harness that is before the next operation starts (scheduling assumption) - flush() itself gives
   the caller no acknowledgement. *)
Require Import FL.Base.Bytes FL.Fs.Fs FL.Names.FileSpec FL.Flw.Model FL.Flw.Run FL.Flw.NumInv FL.Flw.NumRun
  FL.Oracles.O_Flw FL.Flw.NumTheorems FL.Flw.NumAsync.

Theorem C04_flush_durable_async :
  forall c crit t0 off ops,
    numacfg c crit -> Forall basic_op ops ->
    let x := fst (run (sys0 t0 off) (OStart c :: ops ++ [OFlush])) in
    exists files, reads c (wfs (s_w x)) files /\ concat files = written ops
      /\ pending x = [] /\ s_dead x = false
      /\ (forall m, crit = CSize m -> files = expected_files m None (items false ops)).
Proof. exact async_flush_durable. Qed.

Theorem C04_stop_durable_async :
  forall c crit t0 off ops,
    numacfg c crit -> Forall basic_op ops ->
    let x := fst (run (sys0 t0 off) (OStart c :: ops ++ [OStop])) in
    exists files, reads c (wfs (s_w x)) files /\ concat files = written ops
      /\ pending x = [] /\ s_flw x = None /\ s_dead x = true
      /\ (forall m, crit = CSize m -> files = expected_files m None (items false ops)).
Proof. exact async_stop_durable. Qed.

(* Direct and buffered mode: after a flush the directory holds every byte written so far *)
Theorem C04_flush_durable_sync :
  forall c crit t0 off ops,
    numcfg c crit -> Forall basic_op ops ->
    let x := fst (run (sys0 t0 off) (OStart c :: ops ++ [OFlush])) in
    exists files, reads c (wfs (s_w x)) files /\ concat files = written ops
      /\ pending x = []
      /\ (forall m, crit = CSize m -> files = expected_files m None (items false ops)).
Proof. exact sync_flush_durable. Qed.

(* limit: after shutdown() without drop an asynchronous writer accepts log calls (Ok) and loses the records *)
Theorem C04_async_dead_write_lost :
  forall x s b, s_flw x = Some s -> c_async (f_cfg s) = true -> s_dead x = true ->
    s_w (fst (step x (OWrite b))) = s_w x /\ snd (step x (OWrite b)) = ObsRes 0%N false.
Proof. exact async_dead_write_lost. Qed.

Check C04_flush_durable_async. Check C04_stop_durable_async. Check C04_flush_durable_sync. Check C04_async_dead_write_lost.
Print Assumptions C04_flush_durable_async.
Print Assumptions C04_stop_durable_async.
Print Assumptions C04_flush_durable_sync.
Print Assumptions C04_async_dead_write_lost.

(* ------------------------------------------------------------------ the other three naming schemes, every write mode *)
(* C04 for NumbersDirect, TimestampsDirect and Timestamps naming; numdmcfg / tsdmcfg / tsmcfg: ANY write mode (Direct,
   BufWriter of any capacity, asynchronous).  Statements only (proofs: Flw/NumDAsync.v, Flw/TsdAsync.v, Flw/TsAsync.v).
   Asynchronous mode: "after the flush" is after the writer thread has consumed the flush message (scheduling assumption). *)
Require Import FL.Time.Civil FL.Oracles.O_Flw FL.Flw.NumDInv FL.Flw.NumDRun FL.Flw.NumDTheorems FL.Flw.TsCal FL.Flw.TsTime FL.Flw.TsNames FL.Flw.TsInv
  FL.Flw.TsRun FL.Flw.TsTheorems FL.Flw.TsdInv FL.Flw.TsdRun FL.Flw.TsdTheorems
  FL.Flw.AsyncTransfer FL.Flw.NumDAsync FL.Flw.TsdAsync FL.Flw.TsAsync.

Theorem C04_flush_durable_numbersdirect :
  forall c crit t0 off ops,
    numdmcfg c crit -> Forall basic_op ops ->
    let x := fst (run (sys0 t0 off) (OStart c :: ops ++ [OFlush])) in
    exists files, direct_view c (wfs (s_w x)) files /\ concat files = written ops
      /\ pending x = []
      /\ (forall m, crit = CSize m -> files = expected_files m None (items false ops)).
Proof. exact numd_flush_durable. Qed.

Theorem C04_stop_durable_numbersdirect :
  forall c crit t0 off ops,
    numdmcfg c crit -> Forall basic_op ops ->
    let x := fst (run (sys0 t0 off) (OStart c :: ops ++ [OStop])) in
    exists files, direct_view c (wfs (s_w x)) files /\ concat files = written ops
      /\ pending x = [] /\ s_flw x = None
      /\ (forall m, crit = CSize m -> files = expected_files m None (items false ops)).
Proof. exact numd_stop_durable. Qed.

Theorem C04_flush_durable_timestampsdirect :
  forall c crit t0 off ops,
    tsdmcfg c crit -> tag_ok c -> Forall basic_op ops -> Forall tick_ok ops ->
    (0 <= t0 + ts_e c off)%Z -> (t0 + elapsed ops + ts_e c off < sec_max)%Z -> (N.of_nat (S (length ops)) <= usize_max)%N ->
    let x := fst (run (sys0 t0 off) (OStart c :: ops ++ [OFlush])) in
    exists keys files,
      tsd_view c (ts_e c off) (wfs (s_w x)) keys files /\ concat files = written ops
      /\ keys_ok keys /\ (forall k, In k keys -> (t0 <= fst k <= t0 + elapsed ops)%Z)
      /\ pending x = []
      /\ (forall m, crit = CSize m -> files = expected_files m None (items false ops) /\ keys = tsd_keys m t0 ops).
Proof. exact tsd_flush_durable. Qed.

Theorem C04_stop_durable_timestampsdirect :
  forall c crit t0 off ops,
    tsdmcfg c crit -> tag_ok c -> Forall basic_op ops -> Forall tick_ok ops ->
    (0 <= t0 + ts_e c off)%Z -> (t0 + elapsed ops + ts_e c off < sec_max)%Z -> (N.of_nat (length ops) <= usize_max)%N ->
    let x := fst (run (sys0 t0 off) (OStart c :: ops ++ [OStop])) in
    exists keys files,
      tsd_view c (ts_e c off) (wfs (s_w x)) keys files /\ concat files = written ops
      /\ keys_ok keys /\ (forall k, In k keys -> (t0 <= fst k <= t0 + elapsed ops)%Z)
      /\ pending x = [] /\ s_flw x = None
      /\ (forall m, crit = CSize m -> files = expected_files m None (items false ops) /\ keys = tsd_keys m t0 ops).
Proof. exact tsd_stop_durable. Qed.

Theorem C04_flush_durable_timestamps :
  forall c crit t0 off ops,
    tsmcfg c crit -> tag_ok c -> Forall basic_op ops -> Forall tick_ok ops ->
    (0 <= t0 + ts_e c off)%Z -> (t0 + elapsed ops + ts_e c off < sec_max)%Z -> (N.of_nat (S (length ops)) <= usize_max)%N ->
    let x := fst (run (sys0 t0 off) (OStart c :: ops ++ [OFlush])) in
    exists keys a,
      ts_dir c (ts_e c off) (wfs (s_w x)) keys a /\ flat a = written ops
      /\ keys_ok keys /\ (forall k, In k keys -> (t0 <= fst k <= t0 + elapsed ops)%Z)
      /\ pending x = []
      /\ (forall m, crit = CSize m ->
            a = s_run m None ops /\ files_of a = expected_files m None (items false ops) /\ keys = ts_keys m t0 ops).
Proof. exact ts_flush_durable. Qed.

Theorem C04_stop_durable_timestamps :
  forall c crit t0 off ops,
    tsmcfg c crit -> tag_ok c -> Forall basic_op ops -> Forall tick_ok ops ->
    (0 <= t0 + ts_e c off)%Z -> (t0 + elapsed ops + ts_e c off < sec_max)%Z -> (N.of_nat (length ops) <= usize_max)%N ->
    let x := fst (run (sys0 t0 off) (OStart c :: ops ++ [OStop])) in
    exists keys a,
      ts_dir c (ts_e c off) (wfs (s_w x)) keys a /\ flat a = written ops
      /\ keys_ok keys /\ (forall k, In k keys -> (t0 <= fst k <= t0 + elapsed ops)%Z)
      /\ pending x = [] /\ s_flw x = None
      /\ (forall m, crit = CSize m ->
            a = s_run m None ops /\ files_of a = expected_files m None (items false ops) /\ keys = ts_keys m t0 ops).
Proof. exact ts_stop_durable. Qed.

(* asynchronous mode: in addition the writer thread is still running after the flush, and gone after the drop *)
Theorem C04_flush_durable_async_numbersdirect :
  forall c crit t0 off ops,
    numdacfg c crit -> Forall basic_op ops ->
    let x := fst (run (sys0 t0 off) (OStart c :: ops ++ [OFlush])) in
    exists files, direct_view c (wfs (s_w x)) files /\ concat files = written ops
      /\ pending x = [] /\ s_dead x = false
      /\ (forall m, crit = CSize m -> files = expected_files m None (items false ops)).
Proof. exact async_numd_flush_durable. Qed.

Theorem C04_stop_durable_async_numbersdirect :
  forall c crit t0 off ops,
    numdacfg c crit -> Forall basic_op ops ->
    let x := fst (run (sys0 t0 off) (OStart c :: ops ++ [OStop])) in
    exists files, direct_view c (wfs (s_w x)) files /\ concat files = written ops
      /\ pending x = [] /\ s_flw x = None /\ s_dead x = true
      /\ (forall m, crit = CSize m -> files = expected_files m None (items false ops)).
Proof. exact async_numd_stop_durable. Qed.

Theorem C04_flush_durable_async_timestampsdirect :
  forall c crit t0 off ops,
    tsdacfg c crit -> tag_ok c -> Forall basic_op ops -> Forall tick_ok ops ->
    (0 <= t0 + ts_e c off)%Z -> (t0 + elapsed ops + ts_e c off < sec_max)%Z -> (N.of_nat (S (length ops)) <= usize_max)%N ->
    let x := fst (run (sys0 t0 off) (OStart c :: ops ++ [OFlush])) in
    exists keys files,
      tsd_view c (ts_e c off) (wfs (s_w x)) keys files /\ concat files = written ops
      /\ keys_ok keys /\ (forall k, In k keys -> (t0 <= fst k <= t0 + elapsed ops)%Z)
      /\ pending x = [] /\ s_dead x = false
      /\ (forall m, crit = CSize m -> files = expected_files m None (items false ops) /\ keys = tsd_keys m t0 ops).
Proof. exact async_tsd_flush_durable. Qed.

Theorem C04_stop_durable_async_timestampsdirect :
  forall c crit t0 off ops,
    tsdacfg c crit -> tag_ok c -> Forall basic_op ops -> Forall tick_ok ops ->
    (0 <= t0 + ts_e c off)%Z -> (t0 + elapsed ops + ts_e c off < sec_max)%Z -> (N.of_nat (length ops) <= usize_max)%N ->
    let x := fst (run (sys0 t0 off) (OStart c :: ops ++ [OStop])) in
    exists keys files,
      tsd_view c (ts_e c off) (wfs (s_w x)) keys files /\ concat files = written ops
      /\ keys_ok keys /\ (forall k, In k keys -> (t0 <= fst k <= t0 + elapsed ops)%Z)
      /\ pending x = [] /\ s_flw x = None /\ s_dead x = true
      /\ (forall m, crit = CSize m -> files = expected_files m None (items false ops) /\ keys = tsd_keys m t0 ops).
Proof. exact async_tsd_stop_durable. Qed.

Theorem C04_flush_durable_async_timestamps :
  forall c crit t0 off ops,
    tsacfg c crit -> tag_ok c -> Forall basic_op ops -> Forall tick_ok ops ->
    (0 <= t0 + ts_e c off)%Z -> (t0 + elapsed ops + ts_e c off < sec_max)%Z -> (N.of_nat (S (length ops)) <= usize_max)%N ->
    let x := fst (run (sys0 t0 off) (OStart c :: ops ++ [OFlush])) in
    exists keys a,
      ts_dir c (ts_e c off) (wfs (s_w x)) keys a /\ flat a = written ops
      /\ keys_ok keys /\ (forall k, In k keys -> (t0 <= fst k <= t0 + elapsed ops)%Z)
      /\ pending x = [] /\ s_dead x = false
      /\ (forall m, crit = CSize m ->
            a = s_run m None ops /\ files_of a = expected_files m None (items false ops) /\ keys = ts_keys m t0 ops).
Proof. exact async_ts_flush_durable. Qed.

Theorem C04_stop_durable_async_timestamps :
  forall c crit t0 off ops,
    tsacfg c crit -> tag_ok c -> Forall basic_op ops -> Forall tick_ok ops ->
    (0 <= t0 + ts_e c off)%Z -> (t0 + elapsed ops + ts_e c off < sec_max)%Z -> (N.of_nat (length ops) <= usize_max)%N ->
    let x := fst (run (sys0 t0 off) (OStart c :: ops ++ [OStop])) in
    exists keys a,
      ts_dir c (ts_e c off) (wfs (s_w x)) keys a /\ flat a = written ops
      /\ keys_ok keys /\ (forall k, In k keys -> (t0 <= fst k <= t0 + elapsed ops)%Z)
      /\ pending x = [] /\ s_flw x = None /\ s_dead x = true
      /\ (forall m, crit = CSize m ->
            a = s_run m None ops /\ files_of a = expected_files m None (items false ops) /\ keys = ts_keys m t0 ops).
Proof. exact async_ts_stop_durable. Qed.

Check C04_flush_durable_numbersdirect. Check C04_stop_durable_numbersdirect.
Check C04_flush_durable_timestampsdirect. Check C04_stop_durable_timestampsdirect.
Check C04_flush_durable_timestamps. Check C04_stop_durable_timestamps.
Print Assumptions C04_flush_durable_numbersdirect.
Print Assumptions C04_stop_durable_numbersdirect.
Print Assumptions C04_flush_durable_timestampsdirect.
Print Assumptions C04_stop_durable_timestampsdirect.
Print Assumptions C04_flush_durable_timestamps.
Print Assumptions C04_stop_durable_timestamps.
Print Assumptions C04_flush_durable_async_numbersdirect.
Print Assumptions C04_stop_durable_async_numbersdirect.
Print Assumptions C04_flush_durable_async_timestampsdirect.
Print Assumptions C04_stop_durable_async_timestampsdirect.
Print Assumptions C04_flush_durable_async_timestamps.
Print Assumptions C04_stop_durable_async_timestamps.
