(* C04 - flush, shutdown, drop.  Statements only. *)
Require Import FL.Base.Bytes FL.Fs.Fs FL.Names.FileSpec FL.Flw.Model FL.Flw.Run FL.Flw.NumInv FL.Flw.NumRun FL.Flw.NumTheorems.

(* once the writer has been stopped (shutdown + drop of the last handle) the directory holds every byte that
   was written before, for every history, criterion and buffer capacity (Numbers naming): nothing stays behind
   in a buffer *)
Theorem C04_stop_durable :
  forall c crit t0 off ops,
    numcfg c crit -> Forall basic_op ops ->
    exists files, reads c (wfs (s_w (fst (run (sys0 t0 off) (OStart c :: ops ++ [OStop]))))) files
      /\ concat files = written ops.
Proof. exact numbers_stream. Qed.

Check C04_stop_durable.
Print Assumptions C04_stop_durable.
