(* C07 - cleanup.  Statements only: soundness of the executable oracles applied to the implementation's snapshots. *)
Require Import FL.Base.Bytes FL.Base.BytesFacts FL.Base.PathName FL.Fs.Fs FL.Names.FileSpec FL.Names.SortFacts FL.Fs.FsFacts FL.Flw.Model FL.Flw.ModelFacts FL.Flw.NumFs FL.Flw.CleanupFacts FL.Flw.CleanupCur FL.Oracles.ReaderOrder FL.Oracles.O_Stream FL.Properties.C06.
From Coq Require Import Permutation Sorted.
Open Scope nat_scope.

(* what survives, read oldest to newest (archives decompressed) and followed by the current file, is a contiguous
   tail of the logged stream *)
Theorem C07_tail_sound : forall c logged l, oracle_tail c logged l = true -> exists pre, logged = pre ++ stream_of c l.
Proof. exact C06_tail_sound. Qed.

(* the limits: at most the configured number of rotated plain files (with a direct naming the file being written
   is one of them, and the code keeps at least it), at most the configured number of archives, no unfinished archive *)
Theorem C07_limits_sound :
  forall c crit nam k pl gz l, c_rot c = Some (crit, nam, k) -> limits_of k (naming_writes_direct nam) = Some (pl, gz) ->
    oracle_limits c l = true ->
    count_kind c l 0 <= pl /\ count_kind c l 1 <= gz /\ count_kind c l 2 = 0.
Proof.
  intros c crit nam k pl gz l Hr Hl H. unfold oracle_limits in H. rewrite Hr, Hl in H.
  apply andb_prop in H. destruct H as [H H3]. apply andb_prop in H. destruct H as [H1 H2].
  apply Nat.leb_le in H1. apply Nat.leb_le in H2. apply Nat.eqb_eq in H3. auto.
Qed.

(* the order of the listing that the cleanup works on (newest first): it is a sorted permutation of the family's
   files under a total order of the names ... *)
Theorem C07_listing_sorted : forall sfx l,
  Permutation (sort_by_key sfx l) l /\ StronglySorted (fun x y => key_le sfx x y = true) (sort_by_key sfx l).
Proof. intros sfx l. split; [apply sort_by_key_perm | apply sort_by_key_strongly_sorted]. Qed.

(* ... in which, whatever the suffix (trc, txt, none), however many digits the restart counter has (9999, 10000), and
   whatever the fixed name part and the infix contain (even ".restart-": the counter is read behind the last one),
   a file written later under the same time stamp is listed before (= newer than) the earlier ones, compressed or not *)
Theorem C07_listing_restart_order : forall f sp sfx fixed i j k1 k2 (g1 g2 : bool),
  fsfx sp = sfx -> j <> [] ->
  strip_suffix (dot :: gz_sfx) (as_name sp fixed (Some j)) = None ->
  (k1 < k2)%N ->
  let n1 := add_gz g1 (as_name sp fixed (Some (restart_infix i k1))) in
  let n2 := add_gz g2 (as_name sp fixed (Some (restart_infix i k2))) in
  In n1 (related_files f sfx fixed) -> In n2 (related_files f sfx fixed) ->
  exists l1 l2 l3, related_files f sfx fixed = l1 ++ n2 :: l2 ++ n1 :: l3.
Proof. exact related_files_restart_order. Qed.

Theorem C07_listing_plain_last : forall sp sfx fixed i k (g0 g1 : bool) l,
  fsfx sp = sfx -> i <> [] ->
  strip_suffix (dot :: gz_sfx) (as_name sp fixed (Some i)) = None ->
  let n0 := add_gz g0 (as_name sp fixed (Some i)) in
  let n1 := add_gz g1 (as_name sp fixed (Some (restart_infix i k))) in
  In n0 l -> In n1 l ->
  exists l1 l2 l3, rev (sort_by_key sfx l) = l1 ++ n1 :: l2 ++ n0 :: l3.
Proof. exact listing_plain_last. Qed.

(* ... and in which the files of a Numbers / NumbersDirect family  <fixed>_r<number>  are listed by their NUMBER, the higher one
   first - however many digits the number has (r100000 before r99999: the sort key reads the number behind the last "_r" and
   compares it numerically; with an empty fixed name part the names are r<number> without "_", and the number is the one
   behind the leading "r"), whatever the suffix is and whatever the fixed name part contains; compressed or not *)
Theorem C07_listing_number_order : forall f sp sfx fixed j k1 k2 (g1 g2 : bool),
  fsfx sp = sfx -> j <> [] ->
  strip_suffix (dot :: gz_sfx) (as_name sp fixed (Some j)) = None ->
  (k1 < k2)%N ->
  let n1 := add_gz g1 (as_name sp fixed (Some (number_infix k1))) in
  let n2 := add_gz g2 (as_name sp fixed (Some (number_infix k2))) in
  In n1 (related_files f sfx fixed) -> In n2 (related_files f sfx fixed) ->
  exists l1 l2 l3, related_files f sfx fixed = l1 ++ n2 :: l2 ++ n1 :: l3.
Proof. exact related_files_number_order. Qed.


(* compression is lossless: the archive holds exactly the content of the file it replaces, the original is gone,
   every other file is untouched *)
Theorem C07_compress_lossless w n i :
  quiet w -> fs_wf (wfs w) -> lookup (wfs w) n = Some i -> not_dir (wfs w) (gz_name n) ->
  exists w' j,
    compress_file w n = (true, w') /\ same_env w w' /\ fs_wf (wfs w')
    /\ lookup (wfs w') n = None
    /\ lookup (wfs w') (gz_name n) = Some j
    /\ inode (wfs w') j = {| fdata := content (wfs w) i; fgz := 1%N;
                             fborn := match file_of (wfs w) (gz_name n) with Some fl => fborn fl | None => wnow w end;
                             fdir := false |}
    /\ (forall k, lookup (wfs w) (gz_name n) = Some k -> j = k)
    /\ (lookup (wfs w) (gz_name n) = None -> j = length (inodes (wfs w)))
    /\ (forall m, m <> n -> m <> gz_name n -> same_at (wfs w) (wfs w') m)
    /\ (forall k, k < length (inodes (wfs w)) -> k <> j -> inode (wfs w') k = inode (wfs w) k).
Proof. exact (compress_file_quiet w n i). Qed.

(* the cleanup proper (redundant archives first, then the loop over the newest-first listing), without faults: the first
   ll entries stay as they are, the next total - ll are archives afterwards (an archive stays, a plain file is replaced by
   its archive with the same content), everything beyond is removed, nothing else changes.
   For EVERY cur (the repaired code hands the current output file to the cleanup, cur = Some path, with the direct namings;
   None otherwise): the entry equal to cur is skipped - it stays as it is wherever the listing puts it, and its position
   still counts.  (is_cur None n = false and not_gzc None n = not_gz n: for cur = None this is the statement as it was.) *)
Theorem C07_cleanup_keeps_newest w files ll total cur :
  quiet w -> fs_wf (wfs w) -> NoDup files -> ~ In [] files -> ll <= total ->
  (forall n, In n files -> lookup (wfs w) n <> None) ->
  (forall n, In n files -> not_dir (wfs w) (gz_name n)) ->
  let red := redundant_gz files in
  let files' := without red files in
  exists w1 w', remove_redundant w red files = (true, w1, files')
    /\ cleanup_loop w1 files' 0 ll total cur = (true, w') /\ same_env w w' /\ fs_wf (wfs w')
    (* a redundant archive is gone - unless its original is compressed now, which creates it anew (see the zone) *)
    /\ (forall n, In n red -> ~ In n (map gz_name (filter (not_gzc cur) (zone_part ll total files'))) -> lookup (wfs w') n = None)
    /\ (forall n, In n (keep_part ll files') -> same_at (wfs w) (wfs w') n)
    /\ (forall n, In n (zone_part ll total files') ->
          if ext_is n gz_sfx || is_cur cur n then same_at (wfs w) (wfs w') n else archived (wfs w) (wfs w') n)
    /\ (forall n, In n (gone_part total files') ->
          if is_cur cur n then same_at (wfs w) (wfs w') n else lookup (wfs w') n = None)
    /\ length (keep_part ll files') <= ll /\ length (zone_part ll total files') <= total - ll
    /\ (forall m, ~ In m files -> ~ In m (map gz_name (filter (not_gzc cur) (zone_part ll total files'))) ->
          same_at (wfs w) (wfs w') m)
    (* the current output file: untouched wherever it is listed *)
    /\ (forall p, cur = Some p -> In p files' -> same_at (wfs w) (wfs w') p).
Proof. exact (cleanup_after_listingc w files ll total cur). Qed.

Require Import FL.Flw.Run FL.Flw.NumInv FL.Flw.NumRun FL.Flw.NumTheorems FL.Flw.NumCleanupNames FL.Flw.NumCleanupStep FL.Flw.NumCleanupRun FL.Flw.NumCleanup FL.Oracles.O_Flw.
Local Open Scope nat_scope.
(* END TO END, Numbers naming with KeepLogFiles / KeepCompressedFiles / KeepLogAndCompressedFiles, cleanup in the logging thread, EVERY history of
   one run: in the end exactly rCURRENT, the newest n closed files (plain, as they were closed) and the next m (complete archives of exactly what the
   file held) exist; everything older is gone; what survives, read by number and then rCURRENT, is a suffix of what was written
   (side condition: the suffix does not end in .gz - shown necessary by counterexamples in Flw/NumCleanup.v.  Since the repair of the
   listing order there is NO BOUND on the number of rotations, with or without a fixed name part) *)
Theorem C07_numbers_cleanup c crit k n m t0 off ops closed cur :
  numkcfg c crit k -> klim k = Some (n, m) -> Forall basic_op ops ->
  sfx_ok (c_spec c) ->
  a_run None ops (snd (run (fst (step (sys0 t0 off) (OStart c))) ops)) = Some (closed, cur) ->
  let f := wfs (s_w (fst (run (sys0 t0 off) (OStart c :: ops ++ [OStop])))) in
  let L := length closed in let lo := L - (n + m) in let mid := L - n in
  (* what was written *)
  concat closed ++ cur = written ops
  (* exactly these names exist, each once *)
  /\ (forall x, (exists j, lookup f x = Some j) <->
        x = cname c \/ (exists i, mid <= i < L /\ x = rname c i) \/ (exists i, lo <= i < mid /\ x = gname c i))
  /\ NoDup (dir_names f)
  (* (a) the limits: at most n plain rotated files, at most m archives; the next cleanup would see them like this *)
  /\ L - mid <= n /\ mid - lo <= m
  /\ (forall off', list_log_gz off' (c_spec c) (fixed0 c) f IFNum = Some (listing c lo mid L))
  (* the newest n closed files are there as they were closed *)
  /\ (forall i, mid <= i < L -> lookup f (gname c i) = None /\
        exists fl, file_of f (rname c i) = Some fl /\ fdata fl = nth i closed [] /\ fgz fl = 0%N /\ fdir fl = false)
  (* (c) the next m are complete archives of what the file held when it was closed; the original is gone *)
  /\ (forall i, lo <= i < mid -> lookup f (rname c i) = None /\
        exists fl, file_of f (gname c i) = Some fl /\ fdata fl = nth i closed [] /\ fgz fl = 1%N /\ fdir fl = false)
  (* older files are gone *)
  /\ (forall i, i < lo -> lookup f (rname c i) = None /\ lookup f (gname c i) = None)
  (* (b) the survivors, read by index, then rCURRENT: a suffix of what was written *)
  /\ written ops = concat (firstn lo closed) ++ concat (map (fun i => data_at f (entry c mid i)) (seq lo (L - lo))) ++ cur
  (* (d) the current file is plain and holds what it would hold without cleanup *)
  /\ (exists fl, file_of f (cname c) = Some fl /\ fdata fl = cur /\ fgz fl = 0%N /\ fdir fl = false).
Proof. exact (numbers_cleanup_properties c crit k n m t0 off ops closed cur). Qed.

(* ... where `closed`, `cur` are what the same history leaves without cleanup *)
Theorem C07_numbers_cleanup_vs_never c crit k t0 off ops :
  numkcfg c crit k -> Forall basic_op ops ->
  let a := a_run None ops (snd (run (fst (step (sys0 t0 off) (OStart c))) ops)) in
  kside c k (nclosed a) ->
  let f0 := wfs (s_w (fst (run (sys0 t0 off) (OStart (never_cfg c crit) :: ops ++ [OStop])))) in
  match a with
  | None => names f0 = []
  | Some (closed, cur) => reader_view c f0 closed cur
  end.
Proof. exact (numbers_cleanup_vs_never c crit k t0 off ops). Qed.

Require Import FL.Flw.WorldPar FL.Flw.LinkSim FL.Flw.BgSim.
(* the same for cleanup in the BACKGROUND thread, under the model's / harness's scheduling (each request is finished before the next operation) *)
Theorem C07_numbers_cleanup_bg c crit k n m t0 off ops closed cur :
  numkcfg (nobg c) crit k -> klim k = Some (n, m) -> Forall basic_op ops ->
  sfx_ok (c_spec c) ->
  a_run None ops (snd (run (fst (step (sys0 t0 off) (OStart (nobg c)))) ops)) = Some (closed, cur) ->
  let f := wfs (s_w (fst (run (sys0 t0 off) (OStart c :: ops ++ [OStop])))) in
  let L := length closed in let lo := L - (n + m) in let mid := L - n in
  concat closed ++ cur = written ops
  /\ (forall x, (exists j, lookup f x = Some j) <->
        x = cname c \/ (exists i, mid <= i < L /\ x = rname c i) \/ (exists i, lo <= i < mid /\ x = gname c i))
  /\ NoDup (dir_names f)
  /\ L - mid <= n /\ mid - lo <= m
  /\ (forall off', list_log_gz off' (c_spec c) (fixed0 c) f IFNum = Some (listing c lo mid L))
  /\ (forall i, mid <= i < L -> lookup f (gname c i) = None /\
        exists fl, file_of f (rname c i) = Some fl /\ fdata fl = nth i closed [] /\ fgz fl = 0%N /\ fdir fl = false)
  /\ (forall i, lo <= i < mid -> lookup f (rname c i) = None /\
        exists fl, file_of f (gname c i) = Some fl /\ fdata fl = nth i closed [] /\ fgz fl = 1%N /\ fdir fl = false)
  /\ (forall i, i < lo -> lookup f (rname c i) = None /\ lookup f (gname c i) = None)
  /\ written ops = concat (firstn lo closed) ++ concat (map (fun i => data_at f (entry c mid i)) (seq lo (L - lo))) ++ cur
  /\ (exists fl, file_of f (cname c) = Some fl /\ fdata fl = cur /\ fgz fl = 0%N /\ fdir fl = false).
Proof. exact (numbers_cleanup_bg c crit k n m t0 off ops closed cur). Qed.

Check C07_numbers_cleanup. Check C07_numbers_cleanup_vs_never.
Print Assumptions C07_numbers_cleanup.
Print Assumptions C07_numbers_cleanup_vs_never.
Check C07_compress_lossless. Check C07_cleanup_keeps_newest.
Print Assumptions C07_compress_lossless.
Print Assumptions C07_cleanup_keeps_newest.
Check C07_tail_sound. Check C07_limits_sound. Check C07_listing_sorted. Check C07_listing_restart_order. Check C07_listing_plain_last.
Print Assumptions C07_listing_sorted.
Print Assumptions C07_listing_restart_order.
Print Assumptions C07_listing_plain_last.
Check C07_listing_number_order.
Print Assumptions C07_listing_number_order.
Print Assumptions C07_tail_sound.
Print Assumptions C07_limits_sound.
Check C07_numbers_cleanup_bg.
Print Assumptions C07_numbers_cleanup_bg.

(* END TO END, NumbersDirect naming (no rCURRENT: the file being written is r<L>, L = number of closed files).  The file being
   written is part of the listing the cleanup works on and COUNTS for the first limit; the code raises a first limit of 0 to 1
   (and, repaired, skips the file it is told to be the current one: C07_cleanup_spares_current).  (n, m) = klimd k = (max 1 n0, m) for KeepLogAndCompressedFiles(n0, m) (KeepLogFiles(n0): m = 0,
   KeepCompressedFiles(m): n0 = 0): in the end exactly the current file and the newest n - 1 closed files (plain, as they
   were closed) and the next m (complete archives of exactly what the file held) exist; everything older is gone; the current
   file is never compressed or removed; what survives, read by number, is a suffix of what was written (side conditions: the
   suffix does not end in .gz - shown necessary in Flw/NumDCleanup.v; no bound on the index of the current file any more) *)
Require Import FL.Flw.NumDInv FL.Flw.NumDRun FL.Flw.NumDCleanupStep FL.Flw.NumDCleanupRun FL.Flw.NumDCleanup FL.Flw.NumKillRestart.
Theorem C07_numbersdirect_cleanup c crit k n m t0 off ops closed cur :
  numdkcfg c crit k -> klimd k = Some (n, m) -> Forall basic_op ops ->
  sfx_ok (c_spec c) ->
  a_run None ops (snd (run (fst (step (sys0 t0 off) (OStart c))) ops)) = Some (closed, cur) ->
  let f := wfs (s_w (fst (run (sys0 t0 off) (OStart c :: ops ++ [OStop])))) in
  let L := length closed in let lo := S L - (n + m) in let mid := S L - n in
  concat closed ++ cur = written ops
  /\ (forall x, (exists j, lookup f x = Some j) <->
        (exists i, mid <= i <= L /\ x = rname c i) \/ (exists i, lo <= i < mid /\ x = gname c i))
  /\ NoDup (dir_names f)
  /\ lookup f (cname c) = None
  /\ 1 <= n /\ mid <= L /\ S L - mid <= n /\ mid - lo <= m
  /\ (forall off', list_log_gz off' (c_spec c) (fixed0 c) f IFNum = Some (listing c lo mid (S L)))
  /\ (forall off', get_highest_index off' (c_spec c) (fixed0 c) f <> None)
  /\ (forall i, mid <= i < L -> lookup f (gname c i) = None /\
        exists fl, file_of f (rname c i) = Some fl /\ fdata fl = nth i closed [] /\ fgz fl = 0%N /\ fdir fl = false)
  /\ (forall i, lo <= i < mid -> lookup f (rname c i) = None /\
        exists fl, file_of f (gname c i) = Some fl /\ fdata fl = nth i closed [] /\ fgz fl = 1%N /\ fdir fl = false)
  /\ (forall i, i < lo -> lookup f (rname c i) = None /\ lookup f (gname c i) = None)
  /\ written ops = concat (firstn lo closed) ++ concat (map (fun i => data_at f (entry c mid i)) (seq lo (S L - lo)))
  /\ lookup f (gname c L) = None
  /\ (exists fl, file_of f (rname c L) = Some fl /\ fdata fl = cur /\ fgz fl = 0%N /\ fdir fl = false).
Proof. exact (numbersdirect_cleanup c crit k n m t0 off ops closed cur). Qed.

(* ... where `closed`, `cur` are what the same history leaves without cleanup: the files r<0> .. r<L> *)
Theorem C07_numbersdirect_cleanup_vs_never c crit k t0 off ops :
  numdkcfg c crit k -> Forall basic_op ops ->
  let a := a_run None ops (snd (run (fst (step (sys0 t0 off) (OStart c))) ops)) in
  dside c k (nclosed a) ->
  let f0 := wfs (s_w (fst (run (sys0 t0 off) (OStart (never_cfg_d c crit) :: ops ++ [OStop])))) in
  numdcfg (never_cfg_d c crit) crit
  /\ match a with
     | None => names f0 = []
     | Some (closed, cur) => direct_view c f0 (closed ++ [cur])
     end.
Proof. exact (numbersdirect_cleanup_vs_never c crit k t0 off ops). Qed.

(* ... and no operation of the history fails or panics *)
Theorem C07_numbersdirect_cleanup_no_panic c crit k t0 off ops :
  numdkcfg c crit k -> Forall basic_op ops ->
  dside c k (nclosed (a_run None ops (snd (run (fst (step (sys0 t0 off) (OStart c))) ops)))) ->
  Forall obs_ok (snd (run (sys0 t0 off) (OStart c :: ops ++ [OStop]))).
Proof. exact (numbersdirect_cleanup_no_panic c crit k t0 off ops). Qed.

Check C07_numbersdirect_cleanup. Check C07_numbersdirect_cleanup_vs_never. Check C07_numbersdirect_cleanup_no_panic.
Print Assumptions C07_numbersdirect_cleanup.
Print Assumptions C07_numbersdirect_cleanup_vs_never.
Print Assumptions C07_numbersdirect_cleanup_no_panic.

(* ====================================================================================================================
   THE TIME-STAMP NAMINGS.  The files are named by keys (second, position within the second): r<time stamp>,
   r<time stamp>.restart-0000, ...; `keys` lists the keys in the order of writing (keys_ok: seconds non-decreasing, within a
   second the positions 0, 1, 2, ..).  Hypotheses as for the stream theorems (C01): tag_ok, the years 1970..9999, a clock
   that does not go backwards (tick_ok); and as for the number namings: the suffix does not end in .gz (sfx_ok). *)
Require Import FL.Time.Civil FL.Time.TsFormat FL.Flw.TsTime FL.Flw.TsNames FL.Flw.TsInv FL.Flw.TsRun FL.Flw.TsTheorems FL.Flw.GenCleanup FL.Flw.TsCleanupNames
  FL.Flw.TsdCleanupRun FL.Flw.TsdCleanup FL.Flw.TsCleanupRun FL.Flw.TsCleanup.

(* the listing that the cleanup works on orders the names of the family - plain or archive, mixed - by their KEYS: for
   different seconds by the time-stamp text, within a second by the restart counter *)
Theorem C07_listing_key_order c e k1 k2 (g1 g2 : bool) :
  sfx_ok (c_spec c) -> in_years e (fst k1) -> in_years e (fst k2) -> klt k1 k2 ->
  key_le (fsfx (c_spec c)) (add_gz g1 (kname c e k1)) (add_gz g2 (kname c e k2)) = true.
Proof. exact (key_le_kname c e k1 k2 g1 g2). Qed.

(* ... so on a directory that holds the plain files of the keys at the positions mid <= i < L and the archives of those at
   lo <= i < mid (and possibly rCURRENT) the listing is exactly: NEWEST KEY FIRST the plain files, then the archives *)
Theorem C07_listing_ts c e off f (keys : list key) closed lo mid :
  sfx_ok (c_spec c) -> keys_ok keys -> (forall k, In k keys -> in_years e (fst k)) -> length keys = length closed ->
  gdir (tname c e keys) (cname c) f closed lo mid ->
  list_log_gz off (c_spec c) (fixed0 c) f (IFTs std_fmt)
  = Some (rev (map (tname c e keys) (seq mid (length closed - mid))) ++ rev (map (gzf (tname c e keys)) (seq lo (mid - lo)))).
Proof. exact (list_log_gz_ts c e off f keys closed lo mid). Qed.

(* END TO END, TimestampsDirect naming (no rCURRENT: the file being written carries the newest key, L = number of closed files).
   As for NumbersDirect naming the file being written is part of the listing and COUNTS for the first limit; the code raises a
   first limit of 0 to 1 (and, repaired, skips the file it is told to be the current one): (n, m) = klimd k = (max 1 n0, m).  In the end exactly the current file
   and the newest n - 1 closed files (plain, as they were closed) and the next m (complete archives of exactly what the file
   held) exist; everything older is gone; the current file is never compressed or removed; what survives, read in key order, is
   a suffix of what was written.  (tick_ok is needed for the retention statement only: with a clock that goes backwards the
   limits count positions of a listing that is no longer in the order of writing.  The file that is being written is spared
   WHATEVER the clock does - the repaired cleanup is told which file it is and skips it: Flw/CurrentSpared.v,
   C07_current_never_cleaned below; this was the finding clock_backwards_current_removed, now the positive Example
   Flw/TsdCleanup.clock_backwards_current_spared.) *)
Theorem C07_timestampsdirect_cleanup c crit k n m t0 off ops closed cur :
  tsdkcfg c crit k -> klimd k = Some (n, m) -> tag_ok c -> sfx_ok (c_spec c) ->
  Forall basic_op ops -> Forall tick_ok ops ->
  (0 <= t0 + ts_e c off)%Z -> (t0 + elapsed ops + ts_e c off < sec_max)%Z -> (N.of_nat (length ops) <= usize_max)%N ->
  a_run None ops (snd (run (fst (step (sys0 t0 off) (OStart c))) ops)) = Some (closed, cur) ->
  let f := wfs (s_w (fst (run (sys0 t0 off) (OStart c :: ops ++ [OStop])))) in
  let L := length closed in let lo := S L - (n + m) in let mid := S L - n in
  concat closed ++ cur = written ops
  /\ exists keys : list key,
       let K i := kname c (ts_e c off) (nth i keys kd) in
       let G i := gz_name (K i) in
       length keys = S L /\ keys_ok keys /\ (forall key, In key keys -> (t0 <= fst key <= t0 + elapsed ops)%Z)
       /\ (forall x, (exists j, lookup f x = Some j) <->
             (exists i, mid <= i <= L /\ x = K i) \/ (exists i, lo <= i < mid /\ x = G i))
       /\ NoDup (dir_names f)
       /\ lookup f (cname c) = None
       /\ 1 <= n /\ mid <= L /\ S L - mid <= n /\ mid - lo <= m
       /\ (forall off', list_log_gz off' (c_spec c) (fixed0 c) f (IFTs std_fmt)
                        = Some (rev (map K (seq mid (S L - mid))) ++ rev (map G (seq lo (mid - lo)))))
       /\ (forall i, mid <= i < L -> lookup f (G i) = None /\
             exists fl, file_of f (K i) = Some fl /\ fdata fl = nth i closed [] /\ fgz fl = 0%N /\ fdir fl = false)
       /\ (forall i, lo <= i < mid -> lookup f (K i) = None /\
             exists fl, file_of f (G i) = Some fl /\ fdata fl = nth i closed [] /\ fgz fl = 1%N /\ fdir fl = false)
       /\ (forall i, i < lo -> lookup f (K i) = None /\ lookup f (G i) = None)
       /\ written ops = concat (firstn lo closed) ++ concat (map (fun i => data_at f (if mid <=? i then K i else G i)) (seq lo (S L - lo)))
       /\ lookup f (G L) = None
       /\ (exists fl, file_of f (K L) = Some fl /\ fdata fl = cur /\ fgz fl = 0%N /\ fdir fl = false).
Proof. exact (timestampsdirect_cleanup c crit k n m t0 off ops closed cur). Qed.

Theorem C07_timestampsdirect_cleanup_no_panic c crit k t0 off ops :
  tsdkcfg c crit k -> tag_ok c -> sfx_ok (c_spec c) -> Forall basic_op ops -> Forall tick_ok ops ->
  (0 <= t0 + ts_e c off)%Z -> (t0 + elapsed ops + ts_e c off < sec_max)%Z -> (N.of_nat (length ops) <= usize_max)%N ->
  Forall obs_ok (snd (run (sys0 t0 off) (OStart c :: ops ++ [OStop]))).
Proof. exact (timestampsdirect_cleanup_no_panic c crit k t0 off ops). Qed.

(* END TO END, Timestamps naming (rCURRENT + closed files named by the second in which they were started, L = number of closed
   files; rCURRENT is not listed and does not count): (n, m) = klim k.  In the end exactly rCURRENT, the newest n closed files
   (plain) and the next m (complete archives) exist; everything older is gone; what survives, read in key order and then
   rCURRENT, is a suffix of what was written.  (With n + m = 0 no name but rCURRENT is claimed; the names of the closed files
   are then used again, Flw/TsCleanup.names_reused.) *)
Theorem C07_timestamps_cleanup c crit k n m t0 off ops closed cur :
  tskcfg c crit k -> klim k = Some (n, m) -> tag_ok c -> sfx_ok (c_spec c) ->
  Forall basic_op ops -> Forall tick_ok ops ->
  (0 <= t0 + ts_e c off)%Z -> (t0 + elapsed ops + ts_e c off < sec_max)%Z -> (N.of_nat (length ops) <= usize_max)%N ->
  a_run None ops (snd (run (fst (step (sys0 t0 off) (OStart c))) ops)) = Some (closed, cur) ->
  let f := wfs (s_w (fst (run (sys0 t0 off) (OStart c :: ops ++ [OStop])))) in
  let L := length closed in let lo := L - (n + m) in let mid := L - n in
  concat closed ++ cur = written ops
  /\ exists keys : list key,
       let K i := kname c (ts_e c off) (nth i keys kd) in
       let G i := gz_name (K i) in
       length keys = L /\ keys_ok keys /\ (forall key, In key keys -> (t0 <= fst key <= t0 + elapsed ops)%Z)
       /\ (forall x, (exists j, lookup f x = Some j) <->
             x = cname c \/ (exists i, mid <= i < L /\ x = K i) \/ (exists i, lo <= i < mid /\ x = G i))
       /\ NoDup (dir_names f)
       /\ L - mid <= n /\ mid - lo <= m
       /\ (forall off', list_log_gz off' (c_spec c) (fixed0 c) f (IFTs std_fmt)
                        = Some (rev (map K (seq mid (L - mid))) ++ rev (map G (seq lo (mid - lo)))))
       /\ (forall i, mid <= i < L -> lookup f (G i) = None /\
             exists fl, file_of f (K i) = Some fl /\ fdata fl = nth i closed [] /\ fgz fl = 0%N /\ fdir fl = false)
       /\ (forall i, lo <= i < mid -> lookup f (K i) = None /\
             exists fl, file_of f (G i) = Some fl /\ fdata fl = nth i closed [] /\ fgz fl = 1%N /\ fdir fl = false)
       /\ (forall i, i < lo -> lookup f (K i) = None /\ lookup f (G i) = None)
       /\ written ops = concat (firstn lo closed) ++ concat (map (fun i => data_at f (if mid <=? i then K i else G i)) (seq lo (L - lo))) ++ cur
       /\ (exists fl, file_of f (cname c) = Some fl /\ fdata fl = cur /\ fgz fl = 0%N /\ fdir fl = false).
Proof. exact (timestamps_cleanup c crit k n m t0 off ops closed cur). Qed.

Theorem C07_timestamps_cleanup_no_panic c crit k t0 off ops :
  tskcfg c crit k -> tag_ok c -> sfx_ok (c_spec c) -> Forall basic_op ops -> Forall tick_ok ops ->
  (0 <= t0 + ts_e c off)%Z -> (t0 + elapsed ops + ts_e c off < sec_max)%Z -> (N.of_nat (length ops) <= usize_max)%N ->
  Forall obs_ok (snd (run (sys0 t0 off) (OStart c :: ops ++ [OStop]))).
Proof. exact (timestamps_cleanup_no_panic c crit k t0 off ops). Qed.

(* ... and the READER (Oracles/ReaderOrder.v: time stamp, then restart counter, rCURRENT last, archives decompressed) finds
   the surviving files in the order in which they were written; the executable oracles of this property - the ones that the
   harness applies to the snapshots of the implementation, sound by C07_tail_sound / C07_limits_sound - accept the snapshot
   that the model leaves *)
Require Import FL.Flw.NumRestart FL.Flw.TsCleanupReader.
Theorem C07_timestampsdirect_oracles c crit k n m t0 off ops closed cur :
  tsdkcfg c crit k -> klimd k = Some (n, m) -> tag_ok c -> sfx_ok (c_spec c) ->
  Forall basic_op ops -> Forall tick_ok ops ->
  (0 <= t0 + ts_e c off)%Z -> (t0 + elapsed ops + ts_e c off < sec_max)%Z -> (N.of_nat (length ops) <= usize_max)%N ->
  a_run None ops (snd (run (fst (step (sys0 t0 off) (OStart c))) ops)) = Some (closed, cur) ->
  let x := fst (run (sys0 t0 off) (OStart c :: ops ++ [OStop])) in
  family_in_order c (snap_of x) = skipn (S (length closed) - (n + m)) (closed ++ [cur])
  /\ concat closed ++ cur = written ops
  /\ oracle_tail c (written ops) (snap_of x) = true
  /\ oracle_limits c (snap_of x) = true
  /\ oracle_current_plain c (snap_of x) = true.
Proof. exact (timestampsdirect_cleanup_reader c crit k n m t0 off ops closed cur). Qed.

Theorem C07_timestamps_oracles c crit k n m t0 off ops closed cur :
  tskcfg c crit k -> klim k = Some (n, m) -> tag_ok c -> sfx_ok (c_spec c) ->
  Forall basic_op ops -> Forall tick_ok ops ->
  (0 <= t0 + ts_e c off)%Z -> (t0 + elapsed ops + ts_e c off < sec_max)%Z -> (N.of_nat (length ops) <= usize_max)%N ->
  a_run None ops (snd (run (fst (step (sys0 t0 off) (OStart c))) ops)) = Some (closed, cur) ->
  let x := fst (run (sys0 t0 off) (OStart c :: ops ++ [OStop])) in
  family_in_order c (snap_of x) = skipn (length closed - (n + m)) closed ++ [cur]
  /\ concat closed ++ cur = written ops
  /\ oracle_tail c (written ops) (snap_of x) = true
  /\ oracle_limits c (snap_of x) = true
  /\ oracle_current_plain c (snap_of x) = true.
Proof. exact (timestamps_cleanup_reader c crit k n m t0 off ops closed cur). Qed.

(* ... where `closed`, `cur` are what the same history leaves without cleanup: all files, plain, named by the keys *)
Theorem C07_timestampsdirect_cleanup_vs_never c crit k t0 off ops :
  tsdkcfg c crit k -> tag_ok c -> sfx_ok (c_spec c) -> Forall basic_op ops -> Forall tick_ok ops ->
  (0 <= t0 + ts_e c off)%Z -> (t0 + elapsed ops + ts_e c off < sec_max)%Z -> (N.of_nat (length ops) <= usize_max)%N ->
  let a := a_run None ops (snd (run (fst (step (sys0 t0 off) (OStart c))) ops)) in
  let f0 := wfs (s_w (fst (run (sys0 t0 off) (OStart (never_cfg_t c crit) :: ops ++ [OStop])))) in
  TsdInv.tsdcfg (never_cfg_t c crit) crit
  /\ exists keys, TsdRun.tsd_view (never_cfg_t c crit) (ts_e c off) f0 keys (files_of a) /\ keys_ok keys
                  /\ (forall key, In key keys -> (t0 <= fst key <= t0 + elapsed ops)%Z).
Proof. exact (timestampsdirect_cleanup_vs_never c crit k t0 off ops). Qed.

Theorem C07_timestamps_cleanup_vs_never c crit k t0 off ops :
  tskcfg c crit k -> tag_ok c -> sfx_ok (c_spec c) -> Forall basic_op ops -> Forall tick_ok ops ->
  (0 <= t0 + ts_e c off)%Z -> (t0 + elapsed ops + ts_e c off < sec_max)%Z -> (N.of_nat (length ops) <= usize_max)%N ->
  let a := a_run None ops (snd (run (fst (step (sys0 t0 off) (OStart c))) ops)) in
  let f0 := wfs (s_w (fst (run (sys0 t0 off) (OStart (never_cfg_s c crit) :: ops ++ [OStop])))) in
  tscfg (never_cfg_s c crit) crit
  /\ match a with
     | None => names f0 = []
     | Some (closed, cur) => exists keys, ts_view (never_cfg_s c crit) (ts_e c off) f0 keys closed cur /\ keys_ok keys
                                          /\ (forall key, In key keys -> (t0 <= fst key <= t0 + elapsed ops)%Z)
     end.
Proof. exact (timestamps_cleanup_vs_never c crit k t0 off ops). Qed.

Check C07_listing_key_order. Check C07_listing_ts.
Check C07_timestampsdirect_cleanup. Check C07_timestampsdirect_cleanup_no_panic.
Check C07_timestamps_cleanup. Check C07_timestamps_cleanup_no_panic.
Print Assumptions C07_listing_key_order.
Print Assumptions C07_listing_ts.
Print Assumptions C07_timestampsdirect_cleanup.
Print Assumptions C07_timestampsdirect_cleanup_no_panic.
Print Assumptions C07_timestamps_cleanup.
Print Assumptions C07_timestamps_cleanup_no_panic.
Check C07_timestampsdirect_oracles. Check C07_timestamps_oracles.
Print Assumptions C07_timestampsdirect_oracles.
Print Assumptions C07_timestamps_oracles.
Check C07_timestampsdirect_cleanup_vs_never. Check C07_timestamps_cleanup_vs_never.
Print Assumptions C07_timestampsdirect_cleanup_vs_never.
Print Assumptions C07_timestamps_cleanup_vs_never.


(* the same for cleanup in the BACKGROUND thread (Flw/NumDBg.v), under the model's / harness's scheduling (each request is
   finished before the next operation).  With a direct naming the background cleanup lists a directory that contains the
   file being written; under this scheduling the request is worked off in the same world as in the synchronous case, and the
   run goes through THE SAME WORLDS with the same observations (C07_bg_worlds_numbersdirect_cleanup): the file being written
   is never compressed or removed.  Nothing is said about a cleanup that runs while the logging thread writes *)
Require Import FL.Flw.NumDBg.
Theorem C07_bg_worlds_numbersdirect_cleanup c crit k t0 off ops :
  numdkcfg (nobg c) crit k -> Forall basic_op ops ->
  dside (nobg c) k (nclosed (a_run None ops (snd (run (fst (step (sys0 t0 off) (OStart (nobg c)))) ops)))) ->
  let rb := run (sys0 t0 off) (OStart c :: ops) in
  let rn := run (sys0 t0 off) (OStart (nobg c) :: ops) in
  let rb' := run (sys0 t0 off) (OStart c :: ops ++ [OStop]) in
  let rn' := run (sys0 t0 off) (OStart (nobg c) :: ops ++ [OStop]) in
  (s_w (fst rb) = s_w (fst rn) /\ snd rb = snd rn) /\ (s_w (fst rb') = s_w (fst rn') /\ snd rb' = snd rn').
Proof. exact (bg_worlds_numbersdirect_cleanup c crit k t0 off ops). Qed.

Theorem C07_numbersdirect_cleanup_bg c crit k n m t0 off ops closed cur :
  numdkcfg (nobg c) crit k -> klimd k = Some (n, m) -> Forall basic_op ops ->
  sfx_ok (c_spec c) ->
  a_run None ops (snd (run (fst (step (sys0 t0 off) (OStart (nobg c)))) ops)) = Some (closed, cur) ->
  let f := wfs (s_w (fst (run (sys0 t0 off) (OStart c :: ops ++ [OStop])))) in
  let L := length closed in let lo := S L - (n + m) in let mid := S L - n in
  concat closed ++ cur = written ops
  /\ (forall x, (exists j, lookup f x = Some j) <->
        (exists i, mid <= i <= L /\ x = rname c i) \/ (exists i, lo <= i < mid /\ x = gname c i))
  /\ NoDup (dir_names f)
  /\ lookup f (cname c) = None
  /\ 1 <= n /\ mid <= L /\ S L - mid <= n /\ mid - lo <= m
  /\ (forall off', list_log_gz off' (c_spec c) (fixed0 c) f IFNum = Some (listing c lo mid (S L)))
  /\ (forall off', get_highest_index off' (c_spec c) (fixed0 c) f <> None)
  /\ (forall i, mid <= i < L -> lookup f (gname c i) = None /\
        exists fl, file_of f (rname c i) = Some fl /\ fdata fl = nth i closed [] /\ fgz fl = 0%N /\ fdir fl = false)
  /\ (forall i, lo <= i < mid -> lookup f (rname c i) = None /\
        exists fl, file_of f (gname c i) = Some fl /\ fdata fl = nth i closed [] /\ fgz fl = 1%N /\ fdir fl = false)
  /\ (forall i, i < lo -> lookup f (rname c i) = None /\ lookup f (gname c i) = None)
  /\ written ops = concat (firstn lo closed) ++ concat (map (fun i => data_at f (entry c mid i)) (seq lo (S L - lo)))
  /\ lookup f (gname c L) = None
  /\ (exists fl, file_of f (rname c L) = Some fl /\ fdata fl = cur /\ fgz fl = 0%N /\ fdir fl = false).
Proof. exact (numbersdirect_cleanup_bg c crit k n m t0 off ops closed cur). Qed.

Theorem C07_numbersdirect_cleanup_stream_bg c crit k t0 off ops :
  numdkcfg (nobg c) crit k -> Forall basic_op ops ->
  let a := a_run None ops (snd (run (fst (step (sys0 t0 off) (OStart (nobg c)))) ops)) in
  dside (nobg c) k (nclosed a) ->
  let r := run (sys0 t0 off) (OStart c :: ops ++ [OStop]) in
  let f := wfs (s_w (fst r)) in
  flat a = written ops
  /\ match a with
     | None => names f = []
     | Some (closed, cur) => dkreader_view c f closed cur (d_lo k (length closed)) (d_mid k (length closed))
     end
  /\ Forall obs_ok (snd r).
Proof. exact (numbersdirect_cleanup_stream_bg c crit k t0 off ops). Qed.

Theorem C07_numbersdirect_cleanup_no_panic_bg c crit k t0 off ops :
  numdkcfg (nobg c) crit k -> Forall basic_op ops ->
  dside (nobg c) k (nclosed (a_run None ops (snd (run (fst (step (sys0 t0 off) (OStart (nobg c)))) ops)))) ->
  Forall obs_ok (snd (run (sys0 t0 off) (OStart c :: ops ++ [OStop]))).
Proof. exact (numbersdirect_cleanup_no_panic_bg c crit k t0 off ops). Qed.

Check C07_bg_worlds_numbersdirect_cleanup. Check C07_numbersdirect_cleanup_bg. Check C07_numbersdirect_cleanup_stream_bg.
Check C07_numbersdirect_cleanup_no_panic_bg.
Print Assumptions C07_bg_worlds_numbersdirect_cleanup.
Print Assumptions C07_numbersdirect_cleanup_bg.
Print Assumptions C07_numbersdirect_cleanup_stream_bg.
Print Assumptions C07_numbersdirect_cleanup_no_panic_bg.
(* non-vacuity (c_bg = true): NumDBg.exdb_side_by_side, exdb_prefixes (every prefix of a history with a buffered writer),
   exdb_instance, exdb_instance_names; where the variants differ (a failing cleanup): exdb_fault *)
Check exdb_side_by_side.
Check exdb_instance_names.

(* ------------------------------------------------------------------ THE CURRENT OUTPUT FILE IS NEVER CLEANED UP *)
(* (the repaired cleanup, list_and_cleanup.rs: remove_or_compress_too_old_logfiles_impl(.., o_current); model: cleanup_impl
   with cur : option bytes in the place of direct : bool.  Flw/CurrentSpared.v) *)
Require Import FL.Flw.CurrentSpared.

(* EVERY world - fault oracle, kill counter, whatever the directory holds, whatever the order of the listing and the limits
   are, whatever the result is -: the file p that the cleanup is told to be the current output file (cur = Some p) is, if it
   exists, the same file afterwards (same inode, same content, same kind: a plain file is not compressed).  The name must not
   end in ".gz" (necessary: CurrentSpared.archive_name_not_spared). *)
Theorem C07_cleanup_spares_current c w k flt p i r w' :
  fs_wf (wfs w) -> strip_suffix (dot :: gz_sfx) p = None ->
  lookup (wfs w) p = Some i ->
  cleanup_impl c w k flt (Some p) = (r, w') ->
  fs_wf (wfs w') /\ lookup (wfs w') p = Some i /\ inode (wfs w') i = inode (wfs w) i.
Proof. exact (cleanup_spares_current c w k flt p i r w'). Qed.

(* EVERY history of basic operations of a TimestampsDirect writer with a cleanup strategy, the clock anywhere in the years
   1970..9999 at every instant - NO tick_ok: it may be set back -: after every operation (the history is arbitrary: after every
   prefix, CurrentSpared.timestampsdirect_current_never_cleaned_prefix) the file the writer writes to exists under the name
   and with the inode the writer has for it, is plain, and holds - with what the writer still buffers - exactly what was
   written to it since it was opened (since_opened: the count restarts when the writer has another file than before). *)
Theorem C07_current_never_cleaned c crit k t0 off ops :
  tsdkcfg c crit k -> tag_ok c -> sfx_ok (c_spec c) -> Forall basic_op ops ->
  clock_in_years (ts_e c off) t0 ops ->
  let x := fst (run (sys0 t0 off) (OStart c :: ops)) in
  forall path ino, writer_file x = Some (path, ino) ->
  exists s o_rot wr fl,
    s_flw x = Some s /\ f_inner s = Active o_rot wr path /\ wino wr = ino
    /\ lookup (wfs (s_w x)) path = Some ino /\ file_of (wfs (s_w x)) path = Some fl
    /\ fgz fl = 0%N /\ fdir fl = false
    /\ fdata fl ++ wpend wr = since_opened (sys0 t0 off) [] (OStart c :: ops).
Proof. exact (timestampsdirect_current_never_cleaned c crit k t0 off ops). Qed.

Print Assumptions C07_cleanup_spares_current.
Print Assumptions C07_current_never_cleaned.
(* non-vacuity: CurrentSpared.cleanup_spares_current_instance (the current file listed last, KLog 1 and KGz 1),
   CurrentSpared.clock_backwards_hypotheses / current_never_cleaned_instance (the clock set back by 5 seconds),
   TsdCleanup.clock_backwards_current_spared (the directories) *)
Check cleanup_spares_current_instance.
Check current_never_cleaned_instance.
