(* C07 - cleanup.  Statements only: soundness of the executable oracles applied to the implementation's snapshots. *)
Require Import FL.Base.Bytes FL.Base.BytesFacts FL.Base.PathName FL.Fs.Fs FL.Names.FileSpec FL.Names.SortFacts FL.Fs.FsFacts FL.Flw.Model FL.Flw.ModelFacts FL.Flw.NumFs FL.Flw.CleanupFacts FL.Oracles.ReaderOrder FL.Oracles.O_Stream FL.Properties.C06.
From Coq Require Import Permutation Sorted.
Open Scope nat_scope.

(* what survives, read oldest to newest (archives decompressed) and followed by the current file, is a contiguous
   tail of the logged stream *)
Theorem C07_tail_sound : forall c logged l, oracle_tail c logged l = true -> exists pre, logged = pre ++ stream_of c l.
Proof. exact C06_tail_sound. Qed.

(* the limits: at most the configured number of rotated plain files (with a direct naming the file being written
   is one of them, and the code keeps at least it), at most the configured number of archives, no unfinished archive *)
Theorem C07_limits_sound :
  forall c crit nam k pl gz l, c_rot c = Some (crit, nam, k) -> limits_of k (naming_writes_direct nam) = Some (pl, gz) ->
    oracle_limits c l = true ->
    count_kind c l 0 <= pl /\ count_kind c l 1 <= gz /\ count_kind c l 2 = 0.
Proof.
  intros c crit nam k pl gz l Hr Hl H. unfold oracle_limits in H. rewrite Hr, Hl in H.
  apply andb_prop in H. destruct H as [H H3]. apply andb_prop in H. destruct H as [H1 H2].
  apply Nat.leb_le in H1. apply Nat.leb_le in H2. apply Nat.eqb_eq in H3. auto.
Qed.

(* the order of the listing that the cleanup works on (newest first): it is a sorted permutation of the family's
   files under a total order of the names ... *)
Theorem C07_listing_sorted : forall sfx l,
  Permutation (sort_by_key sfx l) l /\ StronglySorted (fun x y => key_le sfx x y = true) (sort_by_key sfx l).
Proof. intros sfx l. split; [apply sort_by_key_perm | apply sort_by_key_strongly_sorted]. Qed.

(* ... in which, whatever the suffix (trc, txt, none) and however many digits the restart counter has (9999, 10000),
   a file written later under the same time stamp is listed before (= newer than) the earlier ones, compressed or not *)
Theorem C07_listing_restart_order : forall f sp sfx fixed i j k1 k2 (g1 g2 : bool),
  fsfx sp = sfx -> j <> [] ->
  contains restart_tag (under fixed ++ i) = false ->
  strip_suffix (dot :: gz_sfx) (as_name sp fixed (Some j)) = None ->
  (k1 < k2)%N ->
  let n1 := add_gz g1 (as_name sp fixed (Some (restart_infix i k1))) in
  let n2 := add_gz g2 (as_name sp fixed (Some (restart_infix i k2))) in
  In n1 (related_files f sfx fixed) -> In n2 (related_files f sfx fixed) ->
  exists l1 l2 l3, related_files f sfx fixed = l1 ++ n2 :: l2 ++ n1 :: l3.
Proof. exact related_files_restart_order. Qed.

Theorem C07_listing_plain_last : forall sp sfx fixed i k (g0 g1 : bool) l,
  fsfx sp = sfx -> i <> [] ->
  contains restart_tag (under fixed ++ i) = false ->
  strip_suffix (dot :: gz_sfx) (as_name sp fixed (Some i)) = None ->
  let n0 := add_gz g0 (as_name sp fixed (Some i)) in
  let n1 := add_gz g1 (as_name sp fixed (Some (restart_infix i k))) in
  In n0 l -> In n1 l ->
  exists l1 l2 l3, rev (sort_by_key sfx l) = l1 ++ n1 :: l2 ++ n0 :: l3.
Proof. exact listing_plain_last. Qed.


(* compression is lossless: the archive holds exactly the content of the file it replaces, the original is gone,
   every other file is untouched *)
Theorem C07_compress_lossless w n i :
  quiet w -> fs_wf (wfs w) -> lookup (wfs w) n = Some i -> not_dir (wfs w) (gz_name n) ->
  exists w' j,
    compress_file w n = (true, w') /\ same_env w w' /\ fs_wf (wfs w')
    /\ lookup (wfs w') n = None
    /\ lookup (wfs w') (gz_name n) = Some j
    /\ inode (wfs w') j = {| fdata := content (wfs w) i; fgz := 1%N;
                             fborn := match file_of (wfs w) (gz_name n) with Some fl => fborn fl | None => wnow w end;
                             fdir := false |}
    /\ (forall k, lookup (wfs w) (gz_name n) = Some k -> j = k)
    /\ (lookup (wfs w) (gz_name n) = None -> j = length (inodes (wfs w)))
    /\ (forall m, m <> n -> m <> gz_name n -> same_at (wfs w) (wfs w') m)
    /\ (forall k, k < length (inodes (wfs w)) -> k <> j -> inode (wfs w') k = inode (wfs w) k).
Proof. exact (compress_file_quiet w n i). Qed.

(* the cleanup proper (redundant archives first, then the loop over the newest-first listing), without faults: the first
   ll entries stay as they are, the next total - ll are archives afterwards (an archive stays, a plain file is replaced by
   its archive with the same content), everything beyond is removed, nothing else changes *)
Theorem C07_cleanup_keeps_newest w files ll total :
  quiet w -> fs_wf (wfs w) -> NoDup files -> ~ In [] files -> ll <= total ->
  (forall n, In n files -> lookup (wfs w) n <> None) ->
  (forall n, In n files -> not_dir (wfs w) (gz_name n)) ->
  let red := redundant_gz files in
  let files' := without red files in
  exists w1 w', remove_redundant w red files = (true, w1, files')
    /\ cleanup_loop w1 files' 0 ll total = (true, w') /\ same_env w w' /\ fs_wf (wfs w')
    (* a redundant archive is gone - unless its original is compressed now, which creates it anew (see the zone) *)
    /\ (forall n, In n red -> ~ In n (map gz_name (filter not_gz (zone_part ll total files'))) -> lookup (wfs w') n = None)
    /\ (forall n, In n (keep_part ll files') -> same_at (wfs w) (wfs w') n)
    /\ (forall n, In n (zone_part ll total files') ->
          if ext_is n gz_sfx then same_at (wfs w) (wfs w') n else archived (wfs w) (wfs w') n)
    /\ (forall n, In n (gone_part total files') -> lookup (wfs w') n = None)
    /\ length (keep_part ll files') <= ll /\ length (zone_part ll total files') <= total - ll
    /\ (forall m, ~ In m files -> ~ In m (map gz_name (filter not_gz (zone_part ll total files'))) ->
          same_at (wfs w) (wfs w') m).
Proof. exact (cleanup_after_listing w files ll total). Qed.

Check C07_compress_lossless. Check C07_cleanup_keeps_newest.
Print Assumptions C07_compress_lossless.
Print Assumptions C07_cleanup_keeps_newest.
Check C07_tail_sound. Check C07_limits_sound. Check C07_listing_sorted. Check C07_listing_restart_order. Check C07_listing_plain_last.
Print Assumptions C07_listing_sorted.
Print Assumptions C07_listing_restart_order.
Print Assumptions C07_listing_plain_last.
Print Assumptions C07_tail_sound.
Print Assumptions C07_limits_sound.
