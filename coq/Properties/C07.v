(* C07 - cleanup.  Statements only: soundness of the executable oracles applied to the implementation's snapshots. *)
Require Import FL.Base.Bytes FL.Base.BytesFacts FL.Flw.Model FL.Oracles.ReaderOrder FL.Oracles.O_Stream FL.Properties.C06.
Open Scope nat_scope.

(* what survives, read oldest to newest (archives decompressed) and followed by the current file, is a contiguous
   tail of the logged stream *)
Theorem C07_tail_sound : forall c logged l, oracle_tail c logged l = true -> exists pre, logged = pre ++ stream_of c l.
Proof. exact C06_tail_sound. Qed.

(* the limits: at most the configured number of rotated plain files (with a direct naming the file being written
   is one of them, and the code keeps at least it), at most the configured number of archives, no unfinished archive *)
Theorem C07_limits_sound :
  forall c crit nam k pl gz l, c_rot c = Some (crit, nam, k) -> limits_of k (naming_writes_direct nam) = Some (pl, gz) ->
    oracle_limits c l = true ->
    count_kind c l 0 <= pl /\ count_kind c l 1 <= gz /\ count_kind c l 2 = 0.
Proof.
  intros c crit nam k pl gz l Hr Hl H. unfold oracle_limits in H. rewrite Hr, Hl in H.
  apply andb_prop in H. destruct H as [H H3]. apply andb_prop in H. destruct H as [H1 H2].
  apply Nat.leb_le in H1. apply Nat.leb_le in H2. apply Nat.eqb_eq in H3. auto.
Qed.

Check C07_tail_sound. Check C07_limits_sound.
Print Assumptions C07_tail_sound.
Print Assumptions C07_limits_sound.
