(* C11 - kill.  Statements only. *)
Require Import FL.Base.Bytes FL.Fs.Fs FL.Flw.Model.

(* a dead process (its kill point has been reached) has no further effect on the file system *)
Theorem C11_dead_no_effect : forall w g, alive w = false -> wfs (effect w g) = wfs w /\ alive (effect w g) = false.
Proof.
  intros w g H. unfold alive in H. unfold effect, kill_step, alive. destruct (wkill w) as [[|k]|]; try discriminate.
  cbn. split; reflexivity.
Qed.

(* the kill point itself: the effect that would be next does not happen, the process is dead from then on *)
Theorem C11_kill_point : forall w g, wkill w = Some 1%nat -> wfs (effect w g) = wfs w /\ alive (effect w g) = false.
Proof. intros w g H. unfold effect, kill_step, alive. rewrite H. cbn. split; reflexivity. Qed.

(* before the kill point an effect is the plain effect, and brings the kill point one step nearer *)
Theorem C11_alive_effect : forall w g k, wkill w = Some (S (S k)) \/ wkill w = None ->
  wfs (effect w g) = g (wfs w) /\ alive (effect w g) = true.
Proof. intros w g k [H|H]; unfold effect, kill_step, alive; rewrite H; cbn; split; reflexivity. Qed.

Check C11_dead_no_effect. Check C11_kill_point. Check C11_alive_effect.
Print Assumptions C11_dead_no_effect.
Print Assumptions C11_alive_effect.
Print Assumptions C11_kill_point.
