(* C11 - kill.  Statements only. *)
Require Import FL.Base.Bytes FL.Fs.Fs FL.Flw.Model.

(* a dead process (its kill point has been reached) has no further effect on the file system *)
Theorem C11_dead_no_effect : forall w g, alive w = false -> wfs (effect w g) = wfs w /\ alive (effect w g) = false.
Proof.
  intros w g H. unfold alive in H. unfold effect, kill_step, alive. destruct (wkill w) as [[|k]|]; try discriminate.
  cbn. split; reflexivity.
Qed.

(* the kill point itself: the effect that would be next does not happen, the process is dead from then on *)
Theorem C11_kill_point : forall w g, wkill w = Some 1%nat -> wfs (effect w g) = wfs w /\ alive (effect w g) = false.
Proof. intros w g H. unfold effect, kill_step, alive. rewrite H. cbn. split; reflexivity. Qed.

(* before the kill point an effect is the plain effect, and brings the kill point one step nearer *)
Theorem C11_alive_effect : forall w g k, wkill w = Some (S (S k)) \/ wkill w = None ->
  wfs (effect w g) = g (wfs w) /\ alive (effect w g) = true.
Proof. intros w g k [H|H]; unfold effect, kill_step, alive; rewrite H; cbn; split; reflexivity. Qed.

Require Import FL.Fs.Fs FL.Flw.Run FL.Flw.NumInv FL.Flw.NumRun FL.Flw.NumTheorems FL.Flw.NumRestart FL.Flw.KillFacts FL.Flw.NumKill FL.Flw.NumKillRestart FL.Oracles.O_Flw.
(* Numbers naming, direct mode, ANY history and ANY kill point: what the killed process leaves - r00000.., and rCURRENT if it exists (a kill
   between the rename and the creation of the new current file leaves none) - is exactly the acknowledged records, in order *)
Theorem C11_numbers_kill_keeps_acked c crit t0 off ops1 k ops2 :
  numcfg c crit -> c_cap c = None -> Forall basic_op ops1 -> Forall basic_op ops2 ->
  let x1 := fst (run (sys0 t0 off) (OStart c :: ops1 ++ [OSetKill k])) in
  let xe := fst (run (sys0 t0 off) (OStart c :: ops1 ++ [OSetKill k] ++ ops2 ++ [OCrash])) in
  exists closed ocur,
    reader_view_opt c (wfs (s_w xe)) closed ocur
    /\ concat closed ++ (match ocur with Some cu => cu | None => [] end) = written ops1 ++ acked x1 ops2.
Proof. exact (numbers_kill_keeps_acked c crit t0 off ops1 k ops2). Qed.

(* ... and a logger started on that directory (any capacity, criterion, append flag) succeeds in every operation and ends with exactly
   acknowledged ++ what it wrote itself  (partial: first run shorter than 2^32 operations) *)
Theorem C11_numbers_kill_restart c crit c' crit' t0 off ops1 k ops2 ops3 :
  numcfg c crit -> c_cap c = None -> numcfg c' crit' -> c_spec c' = c_spec c ->
  Forall basic_op ops1 -> Forall basic_op ops2 -> Forall basic_op ops3 ->
  (N.of_nat (S (length ops1 + length ops2)) <= u32_max)%N ->
  let x1 := fst (run (sys0 t0 off) (OStart c :: ops1 ++ [OSetKill k])) in
  let xk := fst (run (sys0 t0 off) (OStart c :: ops1 ++ [OSetKill k] ++ ops2 ++ [OCrash])) in
  let r2 := run xk (OStart c' :: ops3 ++ [OStop]) in
  Forall obs_ok (snd r2)
  /\ exists closed ocur,
       reader_view_opt c' (wfs (s_w (fst r2))) closed ocur
       /\ concat closed ++ (match ocur with Some cu => cu | None => [] end)
          = written ops1 ++ acked x1 ops2 ++ written ops3.
Proof. exact (numbers_kill_restart_partial c crit c' crit' t0 off ops1 k ops2 ops3). Qed.

Require Import FL.Flw.NumDInv FL.Flw.NumDRun FL.Flw.NumDTheorems FL.Flw.NumDRestart FL.Flw.NumDKill.
(* the same for NumbersDirect naming *)
Theorem C11_numbersdirect_kill_keeps_acked c crit t0 off ops1 k ops2 :
  numdcfg c crit -> c_cap c = None -> Forall basic_op ops1 -> Forall basic_op ops2 ->
  let x1 := fst (run (sys0 t0 off) (OStart c :: ops1 ++ [OSetKill k])) in
  let xe := fst (run (sys0 t0 off) (OStart c :: ops1 ++ [OSetKill k] ++ ops2 ++ [OCrash])) in
  exists files,
    direct_view c (wfs (s_w xe)) files
    /\ concat files = written ops1 ++ acked x1 ops2.
Proof. exact (numbersdirect_kill_keeps_acked c crit t0 off ops1 k ops2). Qed.

(* NumbersDirect naming: restart after the kill *)
Theorem C11_numbersdirect_kill_restart c crit c' crit' t0 off ops1 k ops2 ops3 :
  numdcfg c crit -> c_cap c = None -> numdcfg c' crit' -> c_spec c' = c_spec c ->
  Forall basic_op ops1 -> Forall basic_op ops2 -> Forall basic_op ops3 ->
  (N.of_nat (S (length ops1 + length ops2)) <= u32_max)%N ->
  let x1 := fst (run (sys0 t0 off) (OStart c :: ops1 ++ [OSetKill k])) in
  let xk := fst (run (sys0 t0 off) (OStart c :: ops1 ++ [OSetKill k] ++ ops2 ++ [OCrash])) in
  let r2 := run xk (OStart c' :: ops3 ++ [OStop]) in
  Forall obs_ok (snd r2)
  /\ exists files,
       direct_view c' (wfs (s_w (fst r2))) files
       /\ concat files = written ops1 ++ acked x1 ops2 ++ written ops3.
Proof. exact (numbersdirect_kill_restart_partial c crit c' crit' t0 off ops1 k ops2 ops3). Qed.

Check C11_dead_no_effect. Check C11_kill_point. Check C11_alive_effect.
Print Assumptions C11_dead_no_effect.
Print Assumptions C11_alive_effect.
Print Assumptions C11_kill_point.
Check C11_numbers_kill_keeps_acked.
Print Assumptions C11_numbers_kill_keeps_acked.
Check C11_numbers_kill_restart.
Print Assumptions C11_numbers_kill_restart.
Check C11_numbersdirect_kill_keeps_acked.
Print Assumptions C11_numbersdirect_kill_keeps_acked.
Check C11_numbersdirect_kill_restart.
Print Assumptions C11_numbersdirect_kill_restart.

Require Import FL.Flw.NumCleanupNames FL.Flw.NumCleanupStep FL.Flw.NumCleanupRun FL.Flw.NumCleanupKillDir FL.Flw.NumCleanupKill FL.Flw.NumCleanupKillRestart.
(* Numbers naming WITH a cleanup strategy (KeepLogFiles n: klim = (n, 0); KeepCompressedFiles m: (0, m); both: (n, m)), cleanup in the
   logging thread, direct mode, ANY history and ANY kill point - the kill points inside the cleanup included (remove_file; in
   compress_file: create archive, copy, finish, remove original).  What the killed process leaves, read as the reader does (kill_view:
   files by number, archives decompressed, an archive NEXT TO its original is ignored - it is either an unfinished gzip stream or holds
   the same content -, an unfinished archive never stands alone), is a TAIL of the acknowledged records that contains everything a
   completed cleanup would have kept (lo <= length closed - (n + m)); nothing is there twice.
   Side condition as in C07: the suffix does not end with .gz (no bound on the number of operations any more: the listing that the
   cleanup works on is ordered by the NUMBER of the infix). *)
Theorem C11_numbers_cleanup_kill_keeps_acked c crit k n m t0 off ops1 kp ops2 :
  numkcfg c crit k -> klim k = Some (n, m) -> c_cap c = None -> sfx_ok (c_spec c) ->
  Forall basic_op ops1 -> Forall basic_op ops2 ->
  let x1 := fst (run (sys0 t0 off) (OStart c :: ops1 ++ [OSetKill kp])) in
  let xe := fst (run (sys0 t0 off) (OStart c :: ops1 ++ [OSetKill kp] ++ ops2 ++ [OCrash])) in
  exists closed ocur lo,
    kill_view c (wfs (s_w xe)) closed ocur lo
    /\ concat closed ++ ocb ocur = written ops1 ++ acked x1 ops2
    /\ (lo <= length closed - (n + m))%nat
    /\ written ops1 ++ acked x1 ops2 = concat (firstn lo closed) ++ kv_stream closed ocur lo.
Proof. exact (numbers_cleanup_kill_keeps_acked c crit k n m t0 off ops1 kp ops2). Qed.

(* ... and a new writer with the same configuration on that directory succeeds in every operation, and leaves a tail of
   acknowledged ++ own records (as long as the limits allow); with its first record it repairs the leftovers (the archive of an
   interrupted compression is removed, the original compressed anew if the limits say so): the directory then has exactly the shape
   that a run without kill leaves (kreader_view).  pre: what is missing at the old end beyond `closed` - empty unless both limits are 0.
   Side conditions: the suffix does not end with .gz; the number of files closed by the killed writer (at most 1 + the number of its
   operations) fits into u32 - the new writer parses the highest index found in the directory as u32 (as in C11_numbers_kill_restart) *)
Theorem C11_numbers_cleanup_kill_restart c crit k n m t0 off ops1 kp ops2 ops3 :
  numkcfg c crit k -> klim k = Some (n, m) -> c_cap c = None -> sfx_ok (c_spec c) ->
  Forall basic_op ops1 -> Forall basic_op ops2 -> Forall basic_op ops3 ->
  (N.of_nat (S (length ops1 + length ops2)) <= u32_max)%N ->
  let x1 := fst (run (sys0 t0 off) (OStart c :: ops1 ++ [OSetKill kp])) in
  let xk := fst (run (sys0 t0 off) (OStart c :: ops1 ++ [OSetKill kp] ++ ops2 ++ [OCrash])) in
  let r2 := run xk (OStart c :: ops3 ++ [OStop]) in
  Forall obs_ok (snd r2)
  /\ exists pre closed ocur lo,
       kill_view c (wfs (s_w (fst r2))) closed ocur lo
       /\ written ops1 ++ acked x1 ops2 ++ written ops3 = pre ++ concat closed ++ ocb ocur
       /\ written ops1 ++ acked x1 ops2 ++ written ops3 = (pre ++ concat (firstn lo closed)) ++ kv_stream closed ocur lo
       /\ (lo <= length closed - (n + m))%nat
       /\ (pre = [] \/ (n + m)%nat = 0%nat)
       /\ (existsb is_wr ops3 = true ->
             exists cu, ocur = Some cu /\ lo = (length closed - (n + m))%nat
               /\ kreader_view c (wfs (s_w (fst r2))) closed cu lo (length closed - n)).
Proof. exact (numbers_cleanup_kill_restart c crit k n m t0 off ops1 kp ops2 ops3). Qed.

Check C11_numbers_cleanup_kill_keeps_acked.
Print Assumptions C11_numbers_cleanup_kill_keeps_acked.
Check C11_numbers_cleanup_kill_restart.
Print Assumptions C11_numbers_cleanup_kill_restart.

Require Import FL.Flw.TsTime FL.Flw.TsNames FL.Flw.TsInv FL.Flw.TsRun FL.Flw.TsTheorems FL.Flw.TsdInv FL.Flw.TsdRun FL.Flw.TsdRestartInv FL.Flw.TsdRestart
  FL.Flw.TsdKill FL.Flw.TsdKillRestart.
(* TimestampsDirect naming, direct mode, ANY history (the clock never goes back) and ANY kill point: what the killed process leaves is a
   directory that a stopped writer could have left (files named by keys, keys_ok: pairwise distinct names in the order of creation), and the
   files hold exactly the acknowledged records, in order.  The newest file may be empty (kill between its creation and the first write into
   it: C11_timestampsdirect_kill_shape) *)
Theorem C11_timestampsdirect_kill_keeps_acked c crit t0 off ops1 k ops2 :
  tsdcfg c crit -> tag_ok c -> c_cap c = None ->
  Forall basic_op ops1 -> Forall basic_op ops2 -> Forall tick_ok ops1 -> Forall tick_ok ops2 ->
  let e := ts_e c off in
  (0 <= t0 + e)%Z -> (t0 + elapsed ops1 + elapsed ops2 + e < sec_max)%Z ->
  (N.of_nat (length ops1 + length ops2) <= usize_max)%N ->
  let x1 := fst (run (sys0 t0 off) (OStart c :: ops1 ++ [OSetKill k])) in
  let xe := fst (run (sys0 t0 off) (OStart c :: ops1 ++ [OSetKill k] ++ ops2 ++ [OCrash])) in
  exists keys files,
    tsd_view c e (wfs (s_w xe)) keys files
    /\ keys_ok keys
    /\ (forall key, In key keys -> (t0 <= fst key <= t0 + elapsed ops1 + elapsed ops2)%Z)
    /\ concat files = written ops1 ++ acked x1 ops2.
Proof. exact (timestampsdirect_kill_keeps_acked c crit t0 off ops1 k ops2). Qed.

(* size criterion: the files are those of the size run of the acknowledged history, or these and one more, EMPTY, newest file *)
Theorem C11_timestampsdirect_kill_shape c m t0 off ops1 k ops2 :
  tsdcfg c (CSize m) -> tag_ok c -> c_cap c = None ->
  Forall basic_op ops1 -> Forall basic_op ops2 -> Forall tick_ok ops1 -> Forall tick_ok ops2 ->
  let e := ts_e c off in
  (0 <= t0 + e)%Z -> (t0 + elapsed ops1 + elapsed ops2 + e < sec_max)%Z ->
  (N.of_nat (length ops1 + length ops2) <= usize_max)%N ->
  let x1 := fst (run (sys0 t0 off) (OStart c :: ops1 ++ [OSetKill k])) in
  let xe := fst (run (sys0 t0 off) (OStart c :: ops1 ++ [OSetKill k] ++ ops2 ++ [OCrash])) in
  exists j keys files,
    acked x1 ops2 = written (firstn j ops2)
    /\ tsd_view c e (wfs (s_w xe)) keys files /\ keys_ok keys
    /\ (files = files_of (s_run m None (ops1 ++ firstn j ops2))
        \/ files = files_of (s_run m None (ops1 ++ firstn j ops2)) ++ [[]]).
Proof. exact (timestampsdirect_kill_shape c m t0 off ops1 k ops2). Qed.

(* ... and a TimestampsDirect logger (same file spec and use_utc; own criterion, capacity, append flag; append: the infix is found in the
   names) started on that directory dt >= 0 seconds later succeeds in every operation and ends with exactly acknowledged ++ what it wrote
   itself; keys_ok over both runs: no name is used twice (restart counter when it starts in the second of the killed writer's last file) *)
Theorem C11_timestampsdirect_kill_restart c crit c' crit' t0 off ops1 k ops2 dt ops3 :
  tsdcfg c crit -> tag_ok c -> c_cap c = None ->
  tsdcfg c' crit' -> c_spec c' = c_spec c -> c_utc c' = c_utc c -> (c_append c' = true -> probe_ok c') ->
  Forall basic_op ops1 -> Forall basic_op ops2 -> Forall basic_op ops3 ->
  Forall tick_ok ops1 -> Forall tick_ok ops2 -> Forall tick_ok ops3 -> (0 <= dt)%Z ->
  let e := ts_e c off in
  (0 <= t0 + e)%Z -> (t0 + elapsed ops1 + elapsed ops2 + dt + elapsed ops3 + e < sec_max)%Z ->
  (N.of_nat (length ops1 + length ops2 + length ops3 + 1) <= usize_max)%N ->
  let x1 := fst (run (sys0 t0 off) (OStart c :: ops1 ++ [OSetKill k])) in
  let xk := fst (run (sys0 t0 off) (OStart c :: ops1 ++ [OSetKill k] ++ ops2 ++ [OCrash])) in
  let r2 := run xk (OTick dt :: OStart c' :: ops3 ++ [OStop]) in
  Forall obs_ok (snd r2)
  /\ exists keys files,
       tsd_view c' e (wfs (s_w (fst r2))) keys files
       /\ keys_ok keys
       /\ (forall key, In key keys -> (t0 <= fst key <= t0 + elapsed ops1 + elapsed ops2 + dt + elapsed ops3)%Z)
       /\ concat files = written ops1 ++ acked x1 ops2 ++ written ops3.
Proof. exact (timestampsdirect_kill_restart c crit c' crit' t0 off ops1 k ops2 dt ops3). Qed.

Check C11_timestampsdirect_kill_keeps_acked.
Print Assumptions C11_timestampsdirect_kill_keeps_acked.
Check C11_timestampsdirect_kill_shape.
Print Assumptions C11_timestampsdirect_kill_shape.
Check C11_timestampsdirect_kill_restart.
Print Assumptions C11_timestampsdirect_kill_restart.

Require Import FL.Flw.TsRestartInv FL.Flw.TsRestart FL.Flw.TsKill FL.Flw.TsKillRestart.
(* Timestamps naming (rCURRENT), direct mode, ANY history and ANY kill point: the closed files - named by keys, keys_ok - and rCURRENT IF IT
   EXISTS (a kill between the rename and the creation of a rotation leaves none) hold exactly the acknowledged records, in order *)
Theorem C11_timestamps_kill_keeps_acked c crit t0 off ops1 k ops2 :
  tscfg c crit -> tag_ok c -> c_cap c = None ->
  Forall basic_op ops1 -> Forall basic_op ops2 -> Forall tick_ok ops1 -> Forall tick_ok ops2 ->
  let e := ts_e c off in
  (0 <= t0 + e)%Z -> (t0 + elapsed ops1 + elapsed ops2 + e < sec_max)%Z ->
  (N.of_nat (1 + length ops1 + length ops2) <= usize_max)%N ->
  let x1 := fst (run (sys0 t0 off) (OStart c :: ops1 ++ [OSetKill k])) in
  let xe := fst (run (sys0 t0 off) (OStart c :: ops1 ++ [OSetKill k] ++ ops2 ++ [OCrash])) in
  exists keys closed ocur,
    ts_view_opt c e (wfs (s_w xe)) keys closed ocur
    /\ keys_ok keys
    /\ (forall key, In key keys -> (t0 <= fst key <= t0 + elapsed ops1 + elapsed ops2)%Z)
    /\ concat closed ++ (match ocur with Some cu => cu | None => [] end) = written ops1 ++ acked x1 ops2.
Proof. exact (timestamps_kill_keeps_acked c crit t0 off ops1 k ops2). Qed.

(* ... and a Timestamps logger (same file spec and use_utc; own criterion, capacity, append flag) started on that directory dt >= 0 seconds
   later succeeds in every operation - also when there is no rCURRENT - and ends with exactly acknowledged ++ what it wrote itself; keys_ok
   over both runs: no name is used twice *)
Theorem C11_timestamps_kill_restart c crit c' crit' t0 off ops1 k ops2 dt ops3 :
  tscfg c crit -> tag_ok c -> c_cap c = None ->
  tscfg c' crit' -> c_spec c' = c_spec c -> c_utc c' = c_utc c ->
  Forall basic_op ops1 -> Forall basic_op ops2 -> Forall basic_op ops3 ->
  Forall tick_ok ops1 -> Forall tick_ok ops2 -> Forall tick_ok ops3 -> (0 <= dt)%Z ->
  let e := ts_e c off in
  (0 <= t0 + e)%Z -> (t0 + elapsed ops1 + elapsed ops2 + dt + elapsed ops3 + e < sec_max)%Z ->
  (N.of_nat (length ops1 + length ops2 + length ops3 + 2) <= usize_max)%N ->
  let x1 := fst (run (sys0 t0 off) (OStart c :: ops1 ++ [OSetKill k])) in
  let xk := fst (run (sys0 t0 off) (OStart c :: ops1 ++ [OSetKill k] ++ ops2 ++ [OCrash])) in
  let r2 := run xk (OTick dt :: OStart c' :: ops3 ++ [OStop]) in
  Forall obs_ok (snd r2)
  /\ exists keys closed ocur,
       ts_view_opt c' e (wfs (s_w (fst r2))) keys closed ocur
       /\ keys_ok keys
       /\ (forall key, In key keys -> (t0 <= fst key <= t0 + elapsed ops1 + elapsed ops2 + dt + elapsed ops3)%Z)
       /\ concat closed ++ (match ocur with Some cu => cu | None => [] end) = written ops1 ++ acked x1 ops2 ++ written ops3.
Proof. exact (timestamps_kill_restart c crit c' crit' t0 off ops1 k ops2 dt ops3). Qed.

Check C11_timestamps_kill_keeps_acked.
Print Assumptions C11_timestamps_kill_keeps_acked.
Check C11_timestamps_kill_restart.
Print Assumptions C11_timestamps_kill_restart.

Require Import FL.Flw.NumDCleanupStep FL.Flw.NumDCleanupRun FL.Flw.NumDCleanupKillStep FL.Flw.NumDCleanupKill.
(* NumbersDirect naming WITH a cleanup strategy, cleanup in the logging thread, direct mode, ANY history and ANY kill point - the
   creation of the next numbered file, a write, and the kill points inside the cleanup (remove_file; in compress_file: create
   archive, copy, finish, remove original).  `files`: the contents of all numbered files ever created, the file being written last
   (there is no rCURRENT: kill_view with ocur = None).  (n, m) = klimd k are the EFFECTIVE limits of a direct naming: n >= 1 plain
   files including the file being written (KeepLogFiles 0 and KeepCompressedFiles count as n = 1), m archives.  What the killed
   process leaves, read by number with archives decompressed and an archive NEXT TO its original ignored (unfinished or the same
   content), is a TAIL of the acknowledged records that contains everything a completed cleanup would have kept
   (lo <= length files - (n + m)); nothing is there twice; and the newest numbered file - the one being written, possibly empty - is a
   PLAIN file: the cleanup is told which file it is (CurrentSpared.v) and never compresses or removes it.
   Side condition as in C07: the suffix does not end with .gz. *)
Theorem C11_numbersdirect_cleanup_kill_keeps_acked c crit k n m t0 off ops1 kp ops2 :
  numdkcfg c crit k -> klimd k = Some (n, m) -> c_cap c = None -> sfx_ok (c_spec c) ->
  Forall basic_op ops1 -> Forall basic_op ops2 ->
  let x1 := fst (run (sys0 t0 off) (OStart c :: ops1 ++ [OSetKill kp])) in
  let xe := fst (run (sys0 t0 off) (OStart c :: ops1 ++ [OSetKill kp] ++ ops2 ++ [OCrash])) in
  exists files lo,
    kill_view c (wfs (s_w xe)) files None lo
    /\ concat files = written ops1 ++ acked x1 ops2
    /\ (lo <= length files - (n + m))%nat
    /\ written ops1 ++ acked x1 ops2 = concat (firstn lo files) ++ kv_stream files None lo
    /\ (files <> [] -> exists fl, file_of (wfs (s_w xe)) (rname c (length files - 1)) = Some fl /\ isplain fl (last files [])).
Proof. exact (numbersdirect_cleanup_kill_keeps_acked c crit k n m t0 off ops1 kp ops2). Qed.

Check C11_numbersdirect_cleanup_kill_keeps_acked.
Print Assumptions C11_numbersdirect_cleanup_kill_keeps_acked.
