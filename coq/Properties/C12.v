(* C12 - concurrent specification changes.  Statements only. *)
From Coq Require Import List Arith Lia.
Import ListNotations.
Require Import FL.Conc.CModel FL.Conc.CFacts.

(* set_new_spec as it is now: take the write lock, replace the specification, set the global max level, release
   the lock.  For ANY number of threads, ANY number of calls per thread (specifications identified by numbers,
   ml = their maximum levels, W = the highest ceiling of the additional writers) and ANY schedule of the
   micro-steps: once all calls have returned, the active specification is one of the submitted ones (or the
   initial one) as a whole, the cgate is exactly the one computed for it, and so admits everything it enables *)
Theorem C12_consistent :
  forall (ml : nat -> nat) (W : nat) (ids : list nat) s0 threads sched,
    In s0 ids -> Forall (fun c => incl c ids) threads ->
    let s := crun ml W (cinit ml W code_fixed s0 threads) sched in
    done s -> In (cspec s) ids /\ cgate s = g ml W (cspec s) /\ ml (cspec s) <= cgate s.
Proof. exact C12_consistent. Qed.

(* the order before the fix (level set after the lock was released) does not have this property: two calls, one
   schedule, and the logger filters by specification 5 behind cgate 1 *)
Theorem C12_old_order_refuted :
  let ml := fun i => i in
  let s := crun ml 0 (cinit ml 0 code_current 0 [[1]; [5]]) [0;0;0; 1;1;1;1; 0] in
  done s /\ cspec s = 5 /\ cgate s = 1 /\ cgate s < ml (cspec s).
Proof. exact C12_race_refuted. Qed.

(* non-vacuity: with the fixed order the same schedule cannot even be executed to that end (thread 1 is blocked
   while thread 0 holds the lock), and a complete crun ends consistently *)
Example C12_nonvacuous :
  let ml := fun i => i in
  let s := crun ml 0 (cinit ml 0 code_fixed 0 [[1]; [5]]) [0;0;1;0;0;1;1;1;1] in
  done s /\ cspec s = 5 /\ cgate s = 5.
Proof. vm_compute. repeat split; repeat constructor. Qed.

Check C12_consistent. Check C12_old_order_refuted.
Print Assumptions C12_consistent.
Print Assumptions C12_old_order_refuted.
