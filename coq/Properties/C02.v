(* C02 - a record is written iff the active specification (and text filter) enables it.  Statements only. *)
Require Import FL.Base.Bytes FL.LogSpec.Spec FL.LogSpec.SpecFacts FL.LogSpec.Dispatch FL.LogSpec.DispatchFacts.
Open Scope nat_scope.

(* The filtering decision of a specification built from ANY list of filters (each module named at most once, no
   empty name, at most one default): the answer computed by the first-match loop over the length-sorted list is
   the level test of a best filter - one whose name is a prefix of the target (the default counting as the empty
   prefix) and such that no matching filter has a longer name - or false if nothing matches. *)
Theorem C02_longest_prefix :
  forall (fs : list mfilter) (lvl : level) (t : ustr),
    wf_filters fs -> spec_enabled fs lvl t (enabled (level_sort fs) lvl t).
Proof. exact longest_prefix. Qed.

(* ... and that description determines the answer: the best filter is unique, the relation is a function. *)
Theorem C02_best_unique :
  forall fs lvl t b1 b2, wf_filters fs -> spec_enabled fs lvl t b1 -> spec_enabled fs lvl t b2 -> b1 = b2.
Proof. exact spec_enabled_fun. Qed.

(* A record addressed to the default channel (its target is not a brace list) is passed on - to the primary
   writer, and first to the line filter when one is installed - iff the active specification enables its level
   for its target and the text filter (if any) matches the message; no additional writer sees it. *)
Theorem C02_route :
  forall rm lg r, brace_target (r_target r) = false ->
    log_record rm lg r =
    Done (if enabled (sp_filters (lg_spec lg)) (r_level r) (r_target r) && text_ok rm lg r
          then (if lg_filter lg then [EvFilter] else [])
               ++ [EvPrimary (dup_match (lg_dup_err lg) (r_level r)) (dup_match (lg_dup_out lg) (r_level r))]
          else []).
Proof. intros rm lg r H. rewrite (log_record_plain rm lg r H). reflexivity. Qed.

(* In every state reachable from a freshly built logger through any sequence of handle operations the global
   gate (log::max_level) admits every record the active specification enables for any target, and every record an
   additional writer accepts. *)
Theorem C02_gate :
  forall re_ok s ws de dq flt ops, let lg := hrun re_ok (new_logger s ws de dq flt) ops in
    (forall lvl t, enabled (sp_filters (lg_spec lg)) lvl t = true -> lvl <= lg_gate lg)
    /\ (forall w lvl, In w ws -> lvl <= ow_max w -> lvl <= lg_gate lg).
Proof.
  intros re_ok s ws de dq flt ops lg.
  destruct (hrun_gate re_ok ops (new_logger s ws de dq flt) eq_refl) as [G O]. fold lg in G, O. cbn [new_logger lg_others] in O.
  split.
  - intros lvl t H. apply enabled_le_max in H. rewrite G. pose proof (gate_ge_spec (lg_others lg) (lg_spec lg)). lia.
  - intros w lvl I L. rewrite G, O. pose proof (gate_ge_writer ws (lg_spec lg) w I). lia.
Qed.

(* Whenever log() delivers a record anywhere - to the primary writer, or to an additional writer within its
   ceiling - the enabled() query for the same level and target answers true. *)
Theorem C02_enabled_query :
  forall rm lg r evs e, log_record rm lg r = Done evs -> In e evs -> delivered lg (r_level r) e ->
    exists evs', enabled_query lg (r_level r) (r_target r) = Done (true, evs').
Proof. exact query_true_if_delivered. Qed.

(* non-vacuity: a specification with prefix-related names and a level word as a name satisfies wf_filters *)
Example C02_nonvacuous :
  wf_filters [(Some [97%N], 4); (Some [97%N; 58%N; 58%N; 98%N], 0); (Some w_info, 5); (None, 2)]
  /\ enabled (level_sort [(Some [97%N], 4); (Some [97%N; 58%N; 58%N; 98%N], 0); (Some w_info, 5); (None, 2)]) 3 [97%N; 58%N; 58%N; 98%N; 99%N] = false
  /\ enabled (level_sort [(Some [97%N], 4); (Some [97%N; 58%N; 58%N; 98%N], 0); (Some w_info, 5); (None, 2)]) 3 [97%N; 98%N] = true.
Proof.
  split; [split|split; vm_compute; reflexivity].
  - cbn [List.map fst]. repeat constructor; cbn [In]; intuition discriminate.
  - intros f [<-|[<-|[<-|[<-|[]]]]]; discriminate.
Qed.

Check C02_longest_prefix. Check C02_best_unique. Check C02_route. Check C02_gate. Check C02_enabled_query.
Print Assumptions C02_longest_prefix.
Print Assumptions C02_gate.
Print Assumptions C02_enabled_query.
