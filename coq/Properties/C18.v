(* C18 - reopen_output / reset_flw.  Statements only: soundness of the tiling oracle applied to the implementation. *)
Require Import FL.Base.Bytes FL.Base.BytesFacts FL.Oracles.O_Stream.
From Coq Require Import Permutation.

Lemma is_prefix_app p s : is_prefix p s = true -> s = p ++ skipn (length p) s.
Proof.
  revert s; induction p as [|x p IH]; intros s H; [reflexivity|]. destruct s as [|y s]; [discriminate|].
  cbn [is_prefix] in H. apply andb_prop in H. destruct H as [E H]. apply N.eqb_eq in E. subst y.
  cbn [length skipn app]. f_equal. apply IH. exact H.
Qed.

Lemma remove_nth_perm {A} (l : list A) : forall i x, nth_error l i = Some x -> Permutation l (x :: remove_nth i l).
Proof.
  induction l as [|y r IH]; intros [|i] x H; try discriminate.
  - injection H as ->. reflexivity.
  - cbn [nth_error] in H. cbn [remove_nth]. eapply perm_trans; [constructor; apply (IH i x H) | apply perm_swap].
Qed.

Lemma existsb_from_spec {A} (p : nat -> A -> bool) : forall l i, existsb_from p i l = true ->
  exists j x, nth_error l j = Some x /\ p (i + j)%nat x = true.
Proof.
  induction l as [|y r IH]; intros i H; [discriminate|]. cbn [existsb_from] in H. apply Bool.orb_true_iff in H. destruct H as [H|H].
  - exists 0%nat, y. split; [reflexivity|]. rewrite Nat.add_0_r. exact H.
  - destruct (IH (S i) H) as [j [x [Hn Hp]]]. exists (S j), x. split; [exact Hn|]. rewrite Nat.add_succ_r. exact Hp.
Qed.

(* if the oracle accepts, some arrangement (a permutation) of the files concatenates to exactly the logged bytes:
   nothing lost, nothing duplicated, every file a contiguous run of the log in logging order *)
Lemma tiles_sound : forall fuel files logged, tiles fuel files logged = true ->
  exists arrangement, Permutation files arrangement /\ concat arrangement = logged.
Proof.
  induction fuel as [|f IH]; intros files logged H.
  - destruct files; [|discriminate]. destruct logged; [|discriminate]. exists []. split; [constructor | reflexivity].
  - destruct files as [|f0 fr] eqn:Ef.
    + destruct logged; [|discriminate]. exists []. split; [constructor | reflexivity].
    + rewrite <- Ef in *. assert (H' : existsb_from (fun i x => is_prefix x logged && tiles f (remove_nth i files) (skipn (length x) logged)) 0%nat files = true).
      { rewrite Ef in H |- *. exact H. }
      destruct (existsb_from_spec _ _ _ H') as [j [x [Hn Hp]]]. cbn [Nat.add] in Hp.
      apply andb_prop in Hp. destruct Hp as [Hp Ht]. destruct (IH _ _ Ht) as [arr [P C]].
      exists (x :: arr). split.
      * eapply perm_trans; [apply (remove_nth_perm files j x Hn) | constructor; exact P].
      * cbn [concat]. rewrite C. symmetry. apply is_prefix_app. exact Hp.
Qed.

Theorem C18_tiles_sound : forall files logged, oracle_tiles files logged = true ->
  exists arrangement, Permutation (nonempty files) arrangement /\ concat arrangement = logged.
Proof. intros files logged H. unfold oracle_tiles in H. eapply tiles_sound. exact H. Qed.

Require Import FL.Fs.Fs FL.Flw.Model FL.Flw.Run FL.Flw.FaultFacts FL.Flw.ReopenFacts.
(* no rotation, any buffer capacity, ANY history: after an external rename and reopen_output the renamed file holds exactly what was logged
   before (including what was still buffered), the file at the original path exactly what was logged after; nothing else exists *)
Theorem C18_reopen_switches c t0 off ops1 ops2 moved :
  norot c -> Forall wf_op ops1 -> Forall wf_op ops2 -> moved <> logname c ->
  let x := fst (run (sys0 t0 off)
                    (OStart c :: ops1 ++ [OExtRename (logname c) moved; OReopen] ++ ops2 ++ [OStop])) in
  dir_is (wfs (s_w x))
         (if has_write ops1 then [(moved, written ops1); (logname c, written ops2)]
          else if has_write ops2 then [(logname c, written ops2)] else [])
  /\ werrs (s_w x) = [].
Proof. exact (reopen_switches c t0 off ops1 ops2 moved). Qed.

(* reset to another log file (same write mode: both synchronous, same buffer capacity - otherwise the reset is rejected):
   the old file holds exactly the records logged before the reset, the new one those after it *)
Theorem C18_reset_switches c c2 t0 off ops1 ops2 :
  norot c -> norot c2 -> c_cap c2 = c_cap c -> logname c2 <> logname c -> Forall wf_op ops1 -> Forall wf_op ops2 ->
  let x := fst (run (sys0 t0 off) (OStart c :: ops1 ++ [OReset c2] ++ ops2 ++ [OStop])) in
  dir_is (wfs (s_w x))
         ((if has_write ops1 then [(logname c, written ops1)] else [])
          ++ (if has_write ops2 then [(logname c2, written ops2)] else []))
  /\ werrs (s_w x) = [].
Proof. exact (reset_switches c c2 t0 off ops1 ops2). Qed.

(* any alternation of writes / flushes with renames+reopen and resets to fresh names: the files, in switch order, tile the logged stream *)
Theorem C18_switches_tile c t0 off items :
  norot c -> static_ok c items -> NoDup (logname c :: new_names items) -> no_remove items ->
  let x := fst (run (sys0 t0 off) (OStart c :: flat c items ++ [OStop])) in
  exists files, dir_is (wfs (s_w x)) files /\ NoDup (List.map fst files)
    /\ stream files = written (flat c items) /\ werrs (s_w x) = [].
Proof. exact (switches_tile_static c t0 off items). Qed.

(* a reset to another write mode (another buffer capacity) is rejected: error result, state unchanged; in a history all
   records, before and after it, are in the one old file *)
Theorem C18_reset_other_write_mode_rejected c c2 st w :
  norot c -> c_cap c2 <> c_cap c ->
  step (mksys (mkflw c st) w) (OReset c2) = (mksys (mkflw c st) w, ObsRes 1%N false).
Proof. exact (reset_other_write_mode_rejected c c2 st w). Qed.
Theorem C18_reset_rejected_keeps_file c c2 t0 off ops1 ops2 :
  norot c -> c_cap c2 <> c_cap c -> Forall wf_op ops1 -> Forall wf_op ops2 ->
  let x := fst (run (sys0 t0 off) (OStart c :: ops1 ++ [OReset c2] ++ ops2 ++ [OStop])) in
  dir_is (wfs (s_w x)) (if has_write (ops1 ++ ops2) then [(logname c, written (ops1 ++ ops2))] else [])
  /\ werrs (s_w x) = [].
Proof. exact (reset_rejected_keeps_file c c2 t0 off ops1 ops2). Qed.

Check C18_tiles_sound.
Print Assumptions C18_tiles_sound.
Check C18_reopen_switches.
Print Assumptions C18_reopen_switches.
Check C18_reset_switches.
Print Assumptions C18_reset_switches.
Check C18_switches_tile.
Print Assumptions C18_switches_tile.
Check C18_reset_other_write_mode_rejected.
Print Assumptions C18_reset_other_write_mode_rejected.
Check C18_reset_rejected_keeps_file.
Print Assumptions C18_reset_rejected_keeps_file.

(* ------------------------------------------------------------------ with rotation (Numbers naming); proofs in Flw/ReopenRot.v *)
Require Import FL.Base.Bytes FL.Fs.Fs FL.Names.FileSpec FL.Flw.Model FL.Flw.NumInv FL.Flw.Run FL.Flw.NumRun FL.Flw.NumTheorems
  FL.Oracles.O_Flw FL.Flw.ForeignModel FL.Flw.ReopenRot.
Local Open Scope nat_scope.

(* somebody renames the current file to a name outside the family, then reopen_outputfile(): the call succeeds; the renamed
   file holds exactly what was written since the last rotation (buffered tail included), the closed files are untouched,
   the files written afterwards continue the numbering; nothing is lost or duplicated *)
Theorem C18_reopen_numbers c crit t0 off ops1 ops2 moved :
  numcfg c crit -> Forall basic_op ops1 -> Forall basic_op ops2 -> fresh_name c moved ->
  let r := run (sys0 t0 off) (OStart c :: ops1 ++ [OExtRename (cname c) moved; OReopen] ++ ops2 ++ [OStop]) in
  let f := wfs (s_w (fst r)) in
  nth_error (snd r) (S (S (length ops1))) = Some (ObsRes 0 false)
  /\ if wrote ops1 then
       exists closed1 cur1 closed2 cur2,
         reads c (wfs (s_w (fst (run (sys0 t0 off) (OStart c :: ops1 ++ [OStop]))))) (closed1 ++ [cur1])
         /\ concat closed1 ++ cur1 = written ops1
         /\ dir_holds f (numbered c 0 (closed1 ++ closed2) ++ [(cname c, cur2); (moved, cur1)])
         /\ concat closed2 ++ cur2 = written ops2
         /\ concat (closed1 ++ [cur1] ++ closed2 ++ [cur2]) = written (ops1 ++ ops2)
     else exists files, reads c f files /\ concat files = written ops2.
Proof. exact (reopen_numbers c crit t0 off ops1 ops2 moved). Qed.

(* size criterion: the size count survives the reopen (the partition of ops2 is not started afresh) *)
Theorem C18_reopen_numbers_partition c m t0 off ops1 ops2 moved :
  numcfg c (CSize m) -> Forall basic_op ops1 -> Forall basic_op ops2 -> fresh_name c moved -> wrote ops1 = true ->
  let r := run (sys0 t0 off) (OStart c :: ops1 ++ [OExtRename (cname c) moved; OReopen] ++ ops2 ++ [OStop]) in
  exists closed1 cur1 h tl closed2 cur2,
    expected_files m None (items false ops1) = closed1 ++ [cur1]
    /\ partition m [] cur1 (items true ops2) = (cur1 ++ h) :: tl
    /\ h :: tl = closed2 ++ [cur2]
    /\ dir_holds (wfs (s_w (fst r))) (numbered c 0 (closed1 ++ closed2) ++ [(cname c, cur2); (moved, cur1)]).
Proof. exact (reopen_numbers_partition c m t0 off ops1 ops2 moved). Qed.

Theorem C18_reopen_numbers_at_once c crit t0 off ops1 moved :
  numcfg c crit -> Forall basic_op ops1 -> fresh_name c moved -> wrote ops1 = true ->
  let f := wfs (s_w (fst (run (sys0 t0 off) (OStart c :: ops1 ++ [OExtRename (cname c) moved; OReopen])))) in
  exists closed1 cur1,
    concat closed1 ++ cur1 = written ops1
    /\ dir_holds f (numbered c 0 closed1 ++ [(cname c, []); (moved, cur1)]).
Proof. exact (reopen_numbers_at_once c crit t0 off ops1 moved). Qed.

(* reopen_outputfile() with the file in place: the current file is continued, not truncated *)
Theorem C18_reopen_numbers_in_place c crit t0 off ops1 ops2 :
  numcfg c crit -> Forall basic_op ops1 -> Forall basic_op ops2 ->
  let r := run (sys0 t0 off) (OStart c :: ops1 ++ [OReopen] ++ ops2 ++ [OStop]) in
  let f := wfs (s_w (fst r)) in
  nth_error (snd r) (S (length ops1)) = Some (ObsRes 0 false)
  /\ exists files1 files,
       reads c (wfs (s_w (fst (run (sys0 t0 off) (OStart c :: ops1 ++ [OStop]))))) files1
       /\ concat files1 = written ops1
       /\ reads c f files /\ concat files = written (ops1 ++ ops2)
       /\ (forall closed1 cur1, files1 = closed1 ++ [cur1] -> exists t rest, files = closed1 ++ (cur1 ++ t) :: rest)
       /\ (forall m, crit = CSize m -> files = expected_files m None (items false (ops1 ++ ops2))).
Proof. exact (reopen_numbers_in_place c crit t0 off ops1 ops2). Qed.

(* reset(builder) to another Numbers family in the same write mode *)
Theorem C18_reset_numbers c crit c2 crit2 t0 off ops1 ops2 :
  numcfg c crit -> numcfg c2 crit2 -> c_cap c2 = c_cap c -> foreign_family c c2 ->
  Forall basic_op ops1 -> Forall basic_op ops2 ->
  let r := run (sys0 t0 off) (OStart c :: ops1 ++ [OReset c2] ++ ops2 ++ [OStop]) in
  nth_error (snd r) (S (length ops1)) = Some (ObsRes 0 false)
  /\ exists files1 files2,
       reads c (wfs (s_w (fst (run (sys0 t0 off) (OStart c :: ops1 ++ [OStop]))))) files1
       /\ concat files1 = written ops1
       /\ concat files2 = written ops2
       /\ (forall m, crit = CSize m -> files1 = expected_files m None (items false ops1))
       /\ (forall m2, crit2 = CSize m2 -> files2 = expected_files m2 None (items false ops2))
       /\ dir_holds (wfs (s_w (fst r))) (fam c files1 ++ fam c2 files2).
Proof. exact (reset_numbers c crit c2 crit2 t0 off ops1 ops2). Qed.

Theorem C18_foreign_family_prefix c c2 :
  is_prefix (fixed0 c) (fixed0 c2) = false -> is_prefix (fixed0 c2) (fixed0 c) = false -> foreign_family c c2.
Proof. exact (foreign_family_prefix c c2). Qed.

Check C18_reopen_numbers.
Print Assumptions C18_reopen_numbers.
Check C18_reopen_numbers_partition.
Print Assumptions C18_reopen_numbers_partition.
Check C18_reopen_numbers_at_once.
Print Assumptions C18_reopen_numbers_at_once.
Check C18_reopen_numbers_in_place.
Print Assumptions C18_reopen_numbers_in_place.
Check C18_reset_numbers.
Print Assumptions C18_reset_numbers.
Check C18_foreign_family_prefix.
Print Assumptions C18_foreign_family_prefix.

(* ------------------------------------------------------------------ with rotation, NumbersDirect naming; proofs in Flw/ReopenRotD.v *)
Require Import FL.Flw.NumDInv FL.Flw.NumDRun FL.Flw.NumDForeign FL.Flw.ReopenRotD.

(* closed1 ++ [cur1]: the files r00000 .. r<L> that ops1 leaves; the current file r<L> is renamed to a name that is no numbered
   name of the family, then reopen_outputfile(): the call succeeds; the renamed file holds exactly what was written since the
   last rotation (buffered tail included); the closed files are untouched; the records of ops2 go to a NEW file at the original
   path (the same number L) and further numbers; nothing is lost or duplicated *)
Theorem C18_reopen_numbersdirect c crit t0 off ops1 ops2 moved closed1 cur1 :
  numdcfg c crit -> Forall basic_op ops1 -> Forall basic_op ops2 -> fresh_name_d c moved ->
  direct_view c (wfs (s_w (fst (run (sys0 t0 off) (OStart c :: ops1 ++ [OStop]))))) (closed1 ++ [cur1]) ->
  let cur := rname c (length closed1) in
  let r := run (sys0 t0 off) (OStart c :: ops1 ++ [OExtRename cur moved; OReopen] ++ ops2 ++ [OStop]) in
  let f := wfs (s_w (fst r)) in
  nth_error (snd r) (S (S (length ops1))) = Some (ObsRes 0 false)
  /\ concat closed1 ++ cur1 = written ops1
  /\ exists closed2 cur2,
       dir_holds f (numbered c 0 (closed1 ++ closed2 ++ [cur2]) ++ [(moved, cur1)])
       /\ In (cur, hd [] (closed2 ++ [cur2])) (numbered c 0 (closed1 ++ closed2 ++ [cur2]))
       /\ concat closed2 ++ cur2 = written ops2
       /\ concat (closed1 ++ [cur1] ++ closed2 ++ [cur2]) = written (ops1 ++ ops2).
Proof. exact (reopen_numbersdirect c crit t0 off ops1 ops2 moved closed1 cur1). Qed.

Theorem C18_reopen_numbersdirect_partition c m t0 off ops1 ops2 moved closed1 cur1 :
  numdcfg c (CSize m) -> Forall basic_op ops1 -> Forall basic_op ops2 -> fresh_name_d c moved ->
  expected_files m None (items false ops1) = closed1 ++ [cur1] ->
  let r := run (sys0 t0 off) (OStart c :: ops1 ++ [OExtRename (rname c (length closed1)) moved; OReopen] ++ ops2 ++ [OStop]) in
  exists h tl,
    partition m [] cur1 (items true ops2) = (cur1 ++ h) :: tl
    /\ dir_holds (wfs (s_w (fst r))) (numbered c 0 (closed1 ++ h :: tl) ++ [(moved, cur1)]).
Proof. exact (reopen_numbersdirect_partition c m t0 off ops1 ops2 moved closed1 cur1). Qed.

Theorem C18_reopen_numbersdirect_at_once c crit t0 off ops1 moved closed1 cur1 :
  numdcfg c crit -> Forall basic_op ops1 -> fresh_name_d c moved ->
  direct_view c (wfs (s_w (fst (run (sys0 t0 off) (OStart c :: ops1 ++ [OStop]))))) (closed1 ++ [cur1]) ->
  let f := wfs (s_w (fst (run (sys0 t0 off) (OStart c :: ops1 ++ [OExtRename (rname c (length closed1)) moved; OReopen])))) in
  concat closed1 ++ cur1 = written ops1
  /\ dir_holds f (numbered c 0 (closed1 ++ [[]]) ++ [(moved, cur1)]).
Proof. exact (reopen_numbersdirect_at_once c crit t0 off ops1 moved closed1 cur1). Qed.

Theorem C18_reopen_numbersdirect_in_place c crit t0 off ops1 ops2 :
  numdcfg c crit -> Forall basic_op ops1 -> Forall basic_op ops2 ->
  let r := run (sys0 t0 off) (OStart c :: ops1 ++ [OReopen] ++ ops2 ++ [OStop]) in
  let f := wfs (s_w (fst r)) in
  nth_error (snd r) (S (length ops1)) = Some (ObsRes 0 false)
  /\ exists files1 files,
       direct_view c (wfs (s_w (fst (run (sys0 t0 off) (OStart c :: ops1 ++ [OStop]))))) files1
       /\ concat files1 = written ops1
       /\ direct_view c f files /\ concat files = written (ops1 ++ ops2)
       /\ (forall closed1 cur1, files1 = closed1 ++ [cur1] -> exists t rest, files = closed1 ++ (cur1 ++ t) :: rest)
       /\ (forall m, crit = CSize m -> files = expected_files m None (items false (ops1 ++ ops2))).
Proof. exact (reopen_numbersdirect_in_place c crit t0 off ops1 ops2). Qed.

Theorem C18_reset_numbersdirect c crit c2 crit2 t0 off ops1 ops2 :
  numdcfg c crit -> numdcfg c2 crit2 -> c_cap c2 = c_cap c -> foreign_family_d c c2 ->
  Forall basic_op ops1 -> Forall basic_op ops2 ->
  let r := run (sys0 t0 off) (OStart c :: ops1 ++ [OReset c2] ++ ops2 ++ [OStop]) in
  nth_error (snd r) (S (length ops1)) = Some (ObsRes 0 false)
  /\ exists files1 files2,
       direct_view c (wfs (s_w (fst (run (sys0 t0 off) (OStart c :: ops1 ++ [OStop]))))) files1
       /\ concat files1 = written ops1
       /\ concat files2 = written ops2
       /\ (forall m, crit = CSize m -> files1 = expected_files m None (items false ops1))
       /\ (forall m2, crit2 = CSize m2 -> files2 = expected_files m2 None (items false ops2))
       /\ dir_holds (wfs (s_w (fst r))) (numbered c 0 files1 ++ numbered c2 0 files2).
Proof. exact (reset_numbersdirect c crit c2 crit2 t0 off ops1 ops2). Qed.

Check C18_reopen_numbersdirect.
Print Assumptions C18_reopen_numbersdirect.
Check C18_reopen_numbersdirect_partition.
Print Assumptions C18_reopen_numbersdirect_partition.
Check C18_reopen_numbersdirect_at_once.
Print Assumptions C18_reopen_numbersdirect_at_once.
Check C18_reopen_numbersdirect_in_place.
Print Assumptions C18_reopen_numbersdirect_in_place.
Check C18_reset_numbersdirect.
Print Assumptions C18_reset_numbersdirect.

(* ------------------------------------------------------------------ with rotation, TimestampsDirect naming; proofs in Flw/ReopenRotTsd.v *)
Require Import FL.Flw.TsTime FL.Flw.TsNames FL.Flw.TsInv FL.Flw.TsRun FL.Flw.TsTheorems FL.Flw.TsdInv FL.Flw.TsdRun FL.Flw.TsForeignFacts FL.Flw.ReopenRotTsd.
Local Open Scope Z_scope.

(* keys1, closed1 ++ [cur1]: keys and contents of the files that ops1 leaves; the current file (the newest key) is renamed to a
   name outside the family, then reopen_outputfile(): the new file at the original path has the same key (time stamp and restart
   counter); a rotation in the same second takes the next restart counter; the keys of the family are those of keys_ok *)
Theorem C18_reopen_timestampsdirect c crit t0 off ops1 ops2 moved keys1 closed1 cur1 :
  tsdcfg c crit -> tag_ok c -> Forall basic_op ops1 -> Forall basic_op ops2 -> Forall tick_ok (ops1 ++ ops2) ->
  (0 <= t0 + ts_e c off) -> (t0 + elapsed (ops1 ++ ops2) + ts_e c off < sec_max) ->
  (N.of_nat (length (ops1 ++ ops2)) <= usize_max)%N ->
  tsd_member c moved = false ->
  let e := ts_e c off in
  tsd_view c e (wfs (s_w (fst (run (sys0 t0 off) (OStart c :: ops1 ++ [OStop]))))) keys1 (closed1 ++ [cur1]) ->
  keys_ok keys1 -> (forall k, In k keys1 -> (t0 <= fst k <= t0 + elapsed ops1)) ->
  let cur := kname c e (nth (length closed1) keys1 kd) in
  let r := run (sys0 t0 off) (OStart c :: ops1 ++ [OExtRename cur moved; OReopen] ++ ops2 ++ [OStop]) in
  let f := wfs (s_w (fst r)) in
  nth_error (snd r) (S (S (length ops1))) = Some (ObsRes 0 false)
  /\ concat closed1 ++ cur1 = written ops1
  /\ exists keys2 closed2 cur2,
       tsdx_view c e f (keys1 ++ keys2) (closed1 ++ closed2 ++ [cur2]) [(moved, cur1)]
       /\ keys_ok (keys1 ++ keys2)
       /\ (forall k, In k (keys1 ++ keys2) -> (t0 <= fst k <= t0 + elapsed (ops1 ++ ops2)))
       /\ length keys1 = S (length closed1)
       /\ concat closed2 ++ cur2 = written ops2
       /\ concat (closed1 ++ [cur1] ++ closed2 ++ [cur2]) = written (ops1 ++ ops2).
Proof. exact (reopen_timestampsdirect c crit t0 off ops1 ops2 moved keys1 closed1 cur1). Qed.

Theorem C18_reopen_timestampsdirect_in_place c crit t0 off ops1 ops2 :
  tsdcfg c crit -> tag_ok c -> Forall basic_op ops1 -> Forall basic_op ops2 -> Forall tick_ok (ops1 ++ ops2) ->
  (0 <= t0 + ts_e c off) -> (t0 + elapsed (ops1 ++ ops2) + ts_e c off < sec_max) ->
  (N.of_nat (length (ops1 ++ ops2)) <= usize_max)%N ->
  let e := ts_e c off in
  let r := run (sys0 t0 off) (OStart c :: ops1 ++ [OReopen] ++ ops2 ++ [OStop]) in
  let f := wfs (s_w (fst r)) in
  nth_error (snd r) (S (length ops1)) = Some (ObsRes 0 false)
  /\ exists keys1 files1 keys files,
       tsd_view c e (wfs (s_w (fst (run (sys0 t0 off) (OStart c :: ops1 ++ [OStop]))))) keys1 files1
       /\ concat files1 = written ops1
       /\ tsd_view c e f keys files /\ keys_ok keys
       /\ (forall k, In k keys -> (t0 <= fst k <= t0 + elapsed (ops1 ++ ops2)))
       /\ concat files = written (ops1 ++ ops2)
       /\ (exists tl, keys = keys1 ++ tl)
       /\ (forall closed1 cur1, files1 = closed1 ++ [cur1] -> exists t rest, files = closed1 ++ (cur1 ++ t) :: rest)
       /\ (forall m, crit = CSize m -> files = expected_files m None (items false (ops1 ++ ops2))).
Proof. exact (reopen_timestampsdirect_in_place c crit t0 off ops1 ops2). Qed.

Theorem C18_reset_timestampsdirect c crit c2 crit2 t0 off ops1 ops2 :
  tsdcfg c crit -> tsdcfg c2 crit2 -> tag_ok c -> tag_ok c2 -> c_cap c2 = c_cap c ->
  foreign_family_tsd c c2 (ts_e c off) ->
  Forall basic_op ops1 -> Forall basic_op ops2 -> Forall tick_ok (ops1 ++ ops2) ->
  (0 <= t0 + ts_e c off) -> (t0 + elapsed ops1 + ts_e c off < sec_max) ->
  (0 <= t0 + elapsed ops1 + ts_e c2 off) -> (t0 + elapsed (ops1 ++ ops2) + ts_e c2 off < sec_max) ->
  (N.of_nat (length (ops1 ++ ops2)) <= usize_max)%N ->
  let r := run (sys0 t0 off) (OStart c :: ops1 ++ [OReset c2] ++ ops2 ++ [OStop]) in
  nth_error (snd r) (S (length ops1)) = Some (ObsRes 0 false)
  /\ exists keys1 files1 keys2 files2,
       tsd_view c (ts_e c off) (wfs (s_w (fst (run (sys0 t0 off) (OStart c :: ops1 ++ [OStop]))))) keys1 files1
       /\ keys_ok keys1 /\ (forall k, In k keys1 -> (t0 <= fst k <= t0 + elapsed ops1))
       /\ concat files1 = written ops1
       /\ length keys2 = length files2 /\ keys_ok keys2
       /\ (forall k, In k keys2 -> (t0 + elapsed ops1 <= fst k <= t0 + elapsed (ops1 ++ ops2)))
       /\ concat files2 = written ops2
       /\ (forall m, crit = CSize m -> files1 = expected_files m None (items false ops1))
       /\ (forall m2, crit2 = CSize m2 -> files2 = expected_files m2 None (items false ops2))
       /\ dir_holds (wfs (s_w (fst r))) (keyed c (ts_e c off) keys1 files1 ++ keyed c2 (ts_e c2 off) keys2 files2).
Proof. exact (reset_timestampsdirect c crit c2 crit2 t0 off ops1 ops2). Qed.

Check C18_reopen_timestampsdirect.
Print Assumptions C18_reopen_timestampsdirect.
Check C18_reopen_timestampsdirect_in_place.
Print Assumptions C18_reopen_timestampsdirect_in_place.
Check C18_reset_timestampsdirect.
Print Assumptions C18_reset_timestampsdirect.

(* ------------------------------------------------------------------ with rotation, Timestamps naming (rCURRENT); proofs in Flw/ReopenRotTs.v *)
Require Import FL.Flw.ReopenRotTs.
Local Open Scope Z_scope.

(* somebody renames rCURRENT to a name outside the family (ts_member rejects it), then reopen_outputfile(): the call succeeds;
   the renamed file holds exactly what was written since the last rotation (buffered tail included); the closed files are
   untouched; the records of ops2 go to a new rCURRENT and further closed files; nothing is lost, duplicated or reordered.
   The naming state survives: the rCURRENT created by the reopen is later closed under the time stamp ts1 of the MOVED file's
   start, with the restart counter the moved file would have got - no name is used twice (keys_ok) *)
Theorem C18_reopen_timestamps c crit t0 off ops1 ops2 moved :
  tscfg c crit -> tag_ok c -> Forall basic_op ops1 -> Forall basic_op ops2 -> Forall tick_ok (ops1 ++ ops2) ->
  (0 <= t0 + ts_e c off) -> (t0 + elapsed (ops1 ++ ops2) + ts_e c off < sec_max) ->
  (N.of_nat (length (ops1 ++ ops2)) <= usize_max)%N ->
  ts_member c moved = false -> wrote ops1 = true ->
  let e := ts_e c off in
  let x1 := fst (run (sys0 t0 off) (OStart c :: ops1)) in
  let r := run (sys0 t0 off) (OStart c :: ops1 ++ [OExtRename (cname c) moved; OReopen] ++ ops2 ++ [OStop]) in
  let f := wfs (s_w (fst r)) in
  nth_error (snd r) (S (S (length ops1))) = Some (ObsRes 0 false)
  /\ exists keys1 closed1 cur1 ts1 keys2 closed2 cur2,
       ts_view c e (wfs (s_w (fst (run (sys0 t0 off) (OStart c :: ops1 ++ [OStop]))))) keys1 closed1 cur1
       /\ concat closed1 ++ cur1 = written ops1
       /\ ns_stamp x1 = Some ts1 /\ (t0 <= ts1 <= t0 + elapsed ops1)
       /\ tsx_view c e f (keys1 ++ keys2) (closed1 ++ closed2) cur2 [(moved, cur1)]
       /\ keys_ok (keys1 ++ keys2)
       /\ (forall k, In k (keys1 ++ keys2) -> (t0 <= fst k <= t0 + elapsed (ops1 ++ ops2)))
       /\ concat closed2 ++ cur2 = written ops2
       /\ concat (closed1 ++ [cur1] ++ closed2 ++ [cur2]) = written (ops1 ++ ops2)
       /\ (keys2 = [] \/ exists tl, keys2 = (ts1, count ts1 keys1) :: tl).
Proof. exact (reopen_timestamps c crit t0 off ops1 ops2 moved). Qed.

(* reopen_outputfile() with rCURRENT in place: the current file is continued, not truncated *)
Theorem C18_reopen_timestamps_in_place c crit t0 off ops1 ops2 :
  tscfg c crit -> tag_ok c -> Forall basic_op ops1 -> Forall basic_op ops2 -> Forall tick_ok (ops1 ++ ops2) ->
  (0 <= t0 + ts_e c off) -> (t0 + elapsed (ops1 ++ ops2) + ts_e c off < sec_max) ->
  (N.of_nat (length (ops1 ++ ops2)) <= usize_max)%N -> wrote ops1 = true ->
  let e := ts_e c off in
  let r := run (sys0 t0 off) (OStart c :: ops1 ++ [OReopen] ++ ops2 ++ [OStop]) in
  let f := wfs (s_w (fst r)) in
  nth_error (snd r) (S (length ops1)) = Some (ObsRes 0 false)
  /\ exists keys1 closed1 cur1 keys2 closed2 cur2,
       ts_view c e (wfs (s_w (fst (run (sys0 t0 off) (OStart c :: ops1 ++ [OStop]))))) keys1 closed1 cur1
       /\ concat closed1 ++ cur1 = written ops1
       /\ ts_view c e f (keys1 ++ keys2) (closed1 ++ closed2) cur2
       /\ keys_ok (keys1 ++ keys2)
       /\ (forall k, In k (keys1 ++ keys2) -> (t0 <= fst k <= t0 + elapsed (ops1 ++ ops2)))
       /\ concat (closed1 ++ closed2) ++ cur2 = written (ops1 ++ ops2)
       /\ (exists t, closed2 ++ [cur2] = (cur1 ++ t) :: List.tl (closed2 ++ [cur2])).
Proof. exact (reopen_timestamps_in_place c crit t0 off ops1 ops2). Qed.

Check C18_reopen_timestamps.
Print Assumptions C18_reopen_timestamps.
Check C18_reopen_timestamps_in_place.
Print Assumptions C18_reopen_timestamps_in_place.
