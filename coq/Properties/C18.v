(* C18 - reopen_output / reset_flw.  Statements only: soundness of the tiling oracle applied to the implementation. *)
Require Import FL.Base.Bytes FL.Base.BytesFacts FL.Oracles.O_Stream.
From Coq Require Import Permutation.

Lemma is_prefix_app p s : is_prefix p s = true -> s = p ++ skipn (length p) s.
Proof.
  revert s; induction p as [|x p IH]; intros s H; [reflexivity|]. destruct s as [|y s]; [discriminate|].
  cbn [is_prefix] in H. apply andb_prop in H. destruct H as [E H]. apply N.eqb_eq in E. subst y.
  cbn [length skipn app]. f_equal. apply IH. exact H.
Qed.

Lemma remove_nth_perm {A} (l : list A) : forall i x, nth_error l i = Some x -> Permutation l (x :: remove_nth i l).
Proof.
  induction l as [|y r IH]; intros [|i] x H; try discriminate.
  - injection H as ->. reflexivity.
  - cbn [nth_error] in H. cbn [remove_nth]. eapply perm_trans; [constructor; apply (IH i x H) | apply perm_swap].
Qed.

Lemma existsb_from_spec {A} (p : nat -> A -> bool) : forall l i, existsb_from p i l = true ->
  exists j x, nth_error l j = Some x /\ p (i + j)%nat x = true.
Proof.
  induction l as [|y r IH]; intros i H; [discriminate|]. cbn [existsb_from] in H. apply Bool.orb_true_iff in H. destruct H as [H|H].
  - exists 0%nat, y. split; [reflexivity|]. rewrite Nat.add_0_r. exact H.
  - destruct (IH (S i) H) as [j [x [Hn Hp]]]. exists (S j), x. split; [exact Hn|]. rewrite Nat.add_succ_r. exact Hp.
Qed.

(* if the oracle accepts, some arrangement (a permutation) of the files concatenates to exactly the logged bytes:
   nothing lost, nothing duplicated, every file a contiguous run of the log in logging order *)
Lemma tiles_sound : forall fuel files logged, tiles fuel files logged = true ->
  exists arrangement, Permutation files arrangement /\ concat arrangement = logged.
Proof.
  induction fuel as [|f IH]; intros files logged H.
  - destruct files; [|discriminate]. destruct logged; [|discriminate]. exists []. split; [constructor | reflexivity].
  - destruct files as [|f0 fr] eqn:Ef.
    + destruct logged; [|discriminate]. exists []. split; [constructor | reflexivity].
    + rewrite <- Ef in *. assert (H' : existsb_from (fun i x => is_prefix x logged && tiles f (remove_nth i files) (skipn (length x) logged)) 0%nat files = true).
      { rewrite Ef in H |- *. exact H. }
      destruct (existsb_from_spec _ _ _ H') as [j [x [Hn Hp]]]. cbn [Nat.add] in Hp.
      apply andb_prop in Hp. destruct Hp as [Hp Ht]. destruct (IH _ _ Ht) as [arr [P C]].
      exists (x :: arr). split.
      * eapply perm_trans; [apply (remove_nth_perm files j x Hn) | constructor; exact P].
      * cbn [concat]. rewrite C. symmetry. apply is_prefix_app. exact Hp.
Qed.

Theorem C18_tiles_sound : forall files logged, oracle_tiles files logged = true ->
  exists arrangement, Permutation (nonempty files) arrangement /\ concat arrangement = logged.
Proof. intros files logged H. unfold oracle_tiles in H. eapply tiles_sound. exact H. Qed.

Check C18_tiles_sound.
Print Assumptions C18_tiles_sound.
