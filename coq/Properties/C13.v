(* C13 - brace targets, writer level ceilings and duplication.  Statements only. *)
Require Import FL.Base.Bytes FL.LogSpec.Spec FL.LogSpec.SpecFacts FL.LogSpec.Dispatch FL.LogSpec.DispatchFacts.
Open Scope nat_scope.

(* what log() does with a brace target, as one equation: the named writers are served, then - iff the list
   contains _Default - the default channel is treated exactly as for a plain record of the record's module path *)
Theorem C13_route :
  forall rm lg r, brace_target (r_target r) = true ->
    log_record rm lg r =
    Done (fst (serve (lg_others lg) (r_level r) (names_of (r_target r)))
          ++ if existsb (fun n => beq n w_default) (raw_names (r_target r))
             then primary_events rm lg r (match r_module r with Some m => m | None => [] end) else []).
Proof. intros rm lg r H. rewrite (log_record_brace rm lg r H), serve_default. unfold names_of. rewrite dedup_default. reflexivity. Qed.

(* each registered writer named in the list is handed the record exactly once - however often its name is
   repeated -, a registered writer that is not named never, whatever the specification says; each unknown name
   yields exactly one error-channel entry and nothing else *)
Theorem C13_served_exactly_once :
  forall ws lvl t n, beq n w_default = false ->
    count_writes n (fst (serve ws lvl (names_of t)))
      = match find_writer ws n with Some _ => if existsb (beq n) (raw_names t) then 1 else 0 | None => 0 end
    /\ count_bad n (fst (serve ws lvl (names_of t)))
      = match find_writer ws n with Some _ => 0 | None => if existsb (beq n) (raw_names t) then 1 else 0 end.
Proof.
  intros ws lvl t n H. destruct (serve_counts ws lvl (names_of t) n H) as [A B]. rewrite A, B.
  unfold names_of. rewrite count_dedup. cbn [existsb]. split; reflexivity.
Qed.

(* nothing else is produced for the additional writers, and no writer - custom, FileLogWriter or SyslogWriter - emits
   above its ceiling *)
Theorem C13_ceiling :
  forall ws lvl names n, In (EvWrite n true) (fst (serve ws lvl names)) ->
    exists w, find_writer ws n = Some w /\ In n names /\ lvl <= ow_max w.
Proof.
  intros ws lvl names n H. destruct (serve_events ws lvl names _ H) as [[m [w [E [I [D F]]]]]|[m [E _]]]; [|discriminate].
  injection E as Hn He. subst m. exists w. split; [exact F|]. split; [exact I|].
  unfold emits in He. apply Nat.leb_le. auto.
Qed.

(* the default channel is reached only through _Default and only if the specification enables the module path *)
Theorem C13_default_channel :
  forall rm lg r evs e, brace_target (r_target r) = true -> log_record rm lg r = Done evs -> In e evs -> is_primary e = true ->
    existsb (fun n => beq n w_default) (raw_names (r_target r)) = true
    /\ enabled (sp_filters (lg_spec lg)) (r_level r) (match r_module r with Some m => m | None => [] end) = true
    /\ text_ok rm lg r = true.
Proof.
  intros rm lg r evs e B HL HI HP. rewrite log_record_brace in HL by exact B. injection HL as HE. rewrite <- HE in HI.
  apply in_app_or in HI. destruct HI as [HI|HI].
  - destruct (serve_events _ _ _ _ HI) as [[n [w [E _]]]|[n [E _]]]; subst e; discriminate.
  - rewrite serve_default in HI. unfold names_of in HI. rewrite dedup_default in HI. destruct (existsb _ _); [|destruct HI]. split; [reflexivity|].
    destruct (primary_events_spec _ _ _ _ _ HI) as [A [T _]]. split; assumption.
Qed.

(* duplication to stderr/stdout: a record that reaches the primary writer is duplicated exactly when its level is
   at or above the duplication level (Error = errors only ... Trace, All = everything, None = nothing) *)
Theorem C13_duplication :
  forall d lvl, 1 <= lvl <= 5 -> dup_match d lvl = Nat.leb 1 d && (Nat.leb lvl d || Nat.leb 5 d).
Proof. exact dup_match_spec. Qed.

(* run-time adaptation takes effect for the next record *)
Theorem C13_adapt :
  forall re_ok lg d, lg_dup_err (fst (hstep re_ok lg (HDupErr d))) = d /\ lg_dup_out (fst (hstep re_ok lg (HDupOut d))) = d.
Proof. intros; split; reflexivity. Qed.

Check C13_route. Check C13_served_exactly_once. Check C13_ceiling. Check C13_default_channel. Check C13_duplication.
Print Assumptions C13_route.
Print Assumptions C13_served_exactly_once.
Print Assumptions C13_default_channel.
