(* C14 - foreign files.  Statements only. *)
Require Import FL.Base.Bytes FL.Base.BytesFacts FL.Base.PathName FL.Fs.Fs FL.Names.FileSpec FL.Flw.Model FL.Oracles.ReaderOrder FL.Names.FamilyFacts.

(* whatever the oracles treat as a member of the family has the documented shape
   fixed [_ infix] [.suffix] [.gz] *)
Theorem C14_family_name_shape :
  forall sp fixed name infix, full_infix sp fixed name = Some infix ->
    exists gz body,
      (gz = [] \/ gz = dot :: gz_sfx)
      /\ name = body ++ (match fsfx sp with Some s => dot :: s | None => [] end) ++ gz
      /\ ((body = fixed /\ infix = []) \/ (fixed = [] /\ body = infix) \/ body = fixed ++ [uscore] ++ infix).
Proof.
  intros sp fixed name infix H. unfold full_infix in H.
  set (n1 := match strip_suffix (dot :: gz_sfx) name with Some n => n | None => name end) in H.
  assert (G : exists gz, (gz = [] \/ gz = dot :: gz_sfx) /\ name = n1 ++ gz).
  { unfold n1. destruct (strip_suffix (dot :: gz_sfx) name) as [n|] eqn:E.
    - apply strip_suffix_spec in E. exists (dot :: gz_sfx). split; [right; reflexivity | exact E].
    - exists []. split; [left; reflexivity | rewrite app_nil_r; reflexivity]. }
  destruct G as [gz [Hgz Hn]]. clearbody n1.
  assert (S : exists n2, n1 = n2 ++ (match fsfx sp with Some s => dot :: s | None => [] end)
                         /\ (if beq n2 fixed then Some [] else match fixed with [] => Some n2 | _ => strip_prefix (fixed ++ [uscore]) n2 end) = Some infix).
  { destruct (fsfx sp) as [s|].
    - destruct (strip_suffix (dot :: s) n1) as [n2|] eqn:E; [|discriminate]. apply strip_suffix_spec in E. exists n2. split; assumption.
    - exists n1. split; [rewrite app_nil_r; reflexivity | exact H]. }
  destruct S as [n2 [Hs Hb]]. exists gz, n2. split; [exact Hgz|]. split; [rewrite Hn, Hs, <- app_assoc; reflexivity|].
  destruct (beq_spec n2 fixed) as [->|N].
  - injection Hb as <-. left. split; reflexivity.
  - destruct fixed as [|f0 fr].
    + injection Hb as <-. right. left. split; reflexivity.
    + right. right. apply strip_prefix_spec in Hb. rewrite Hb, <- app_assoc. reflexivity.
Qed.

(* the model's listing only ever returns entries of the directory that start with the fixed name part *)
Lemma filter_opt_incl {A} (p : A -> option bool) : forall l r x, filter_opt p l = Some r -> In x r -> In x l.
Proof.
  induction l as [|y l IH]; intros r x H I; cbn [filter_opt] in H.
  - injection H as <-. destruct I.
  - destruct (p y) as [b|]; [|discriminate]. destruct (filter_opt p l) as [r'|]; [|discriminate]. injection H as <-.
    destruct b; [destruct I as [<-|I]; [left; reflexivity | right; eapply IH; eauto] | right; eapply IH; eauto].
Qed.
Lemma insert_name_in x l y : In y (insert_name x l) <-> y = x \/ In y l.
Proof.
  induction l as [|z l IH]; cbn [insert_name]; [cbn; intuition|]. destruct (lex_le x z); cbn [In]; [intuition|]. rewrite IH. intuition.
Qed.
Lemma sort_names_in l y : In y (sort_names l) <-> In y l.
Proof. induction l as [|x l IH]; cbn [sort_names fold_right]; [tauto|]. fold (sort_names l). rewrite insert_name_in, IH. cbn [In]. intuition. Qed.

Lemma insert_by_in le x l y : In y (insert_by le x l) <-> y = x \/ In y l.
Proof.
  induction l as [|z l IH]; cbn [insert_by]; [cbn; intuition|]. destruct (le x z); cbn [In]; [intuition|]. rewrite IH. intuition.
Qed.
Lemma sort_by_key_in sfx l y : In y (sort_by_key sfx l) <-> In y l.
Proof. induction l as [|x l IH]; cbn [sort_by_key fold_right]; [tauto|]. fold (sort_by_key sfx l). rewrite insert_by_in, IH. cbn [In]. intuition. Qed.

Theorem C14_listing_prefix :
  forall off sp fixed f flt sel l n, existing_rot off sp fixed f flt sel = Some l -> In n l ->
    is_prefix fixed n = true /\ is_reg_file f n = true.
Proof.
  intros off sp fixed f flt sel l n H I.
  assert (R : forall m, In m (related_files f (fsfx sp) fixed) -> is_prefix fixed m = true /\ is_reg_file f m = true).
  { intros m Hm. unfold related_files in Hm. rewrite <- in_rev in Hm. rewrite sort_by_key_in in Hm. apply filter_In in Hm.
    destruct Hm as [_ Hm]. apply andb_prop in Hm. tauto. }
  assert (F : forall flt' sfx r m, filter_files off (fsfx sp) fixed (related_files f (fsfx sp) fixed) flt' sfx = Some r -> In m r -> In m (related_files f (fsfx sp) fixed)).
  { intros flt' sfx r m Hr Hm. unfold filter_files in Hr. eapply filter_opt_incl; eauto. }
  unfold existing_rot in H.
  set (rel := related_files f (fsfx sp) fixed) in *.
  destruct (if sel_plain sel then filter_files off (fsfx sp) fixed rel flt (fsfx sp) else Some []) as [r1|] eqn:E1; [|discriminate].
  destruct (if sel_gz sel then filter_files off (fsfx sp) fixed rel flt (Some gz_sfx) else Some []) as [r2|] eqn:E2; [|discriminate].
  destruct (if sel_rcur sel then filter_files off (fsfx sp) fixed rel (IFEq cur_infix) (fsfx sp) else Some []) as [r3|] eqn:E3; [|discriminate].
  destruct (match sel_custom sel with
            | Some c => if sel_rcur sel && beq c cur_infix then Some [] else filter_files off (fsfx sp) fixed rel (IFEq c) (fsfx sp)
            | None => Some [] end) as [r4|] eqn:E4; [|discriminate].
  cbn [app_opt] in H. injection H as <-.
  apply R. repeat (apply in_app_or in I; destruct I as [I|I]).
  - destruct (sel_plain sel); [eapply F; eauto | injection E1 as <-; destruct I].
  - destruct (sel_gz sel); [eapply F; eauto | injection E2 as <-; destruct I].
  - destruct (sel_rcur sel); [eapply F; eauto | injection E3 as <-; destruct I].
  - destruct (sel_custom sel) as [cu|]; [|injection E4 as <-; destruct I].
    destruct (sel_rcur sel && beq cu cur_infix); [injection E4 as <-; destruct I | eapply F; eauto].
Qed.

(* the family test of the listing against the documented pattern fixed [_] infix [.restart-NNNN] [.suffix]:
   what it accepts (with a non-empty infix) has that shape, everything of that shape is accepted *)
Theorem C14_listing_accepts_family_only : forall sp fixed name infix,
  infix <> [] -> infix_candidate (fsfx sp) (fsfx sp) fixed name = Some infix -> family_plain sp fixed name infix.
Proof. exact candidate_is_family. Qed.
Theorem C14_listing_accepts_all_family : forall sp fixed name infix,
  family_plain sp fixed name infix -> infix_candidate (fsfx sp) (fsfx sp) fixed name = Some infix.
Proof. exact family_is_candidate. Qed.

(* noninterference at the listing: a directory entry that the family test rejects can be added or removed without
   changing what filter_files returns - so numbering, collision handling and cleanup, which all work on these
   lists, do not see it *)
Theorem C14_foreign_ignored : forall off sp fixed files flt sfx n,
  infix_candidate (fsfx sp) sfx fixed n = None ->
  forall l1 l2, files = l1 ++ n :: l2 ->
    filter_files off (fsfx sp) fixed files flt sfx = filter_files off (fsfx sp) fixed (l1 ++ l2) flt sfx.
Proof. exact foreign_ignored. Qed.

Require Import FL.Flw.Run FL.Flw.NumInv FL.Flw.NumRun FL.Flw.NumTheorems FL.Flw.NumCleanupNames FL.Flw.NumCleanupStep FL.Flw.NumCleanupRun FL.Flw.NumCleanup FL.Flw.ForeignFs FL.Flw.ForeignSort FL.Flw.ForeignModel FL.Flw.NumForeign FL.Flw.NumCleanupForeign FL.Oracles.O_Flw.
(* END TO END non-interference, Numbers naming, EVERY history of a run: with arbitrary foreign files in the directory (names that the
   family test rejects: num_member c n = false - this covers near misses like a_r00001.log.bak, a_rx.log, ax_r00001.log, and, since
   the repair of the number filter, a_r1x.log, a_r1backup.log, a_r00001x.log, a_r2024-02-29_23-59-58.log: num_member accepts exactly
   the names of the pattern <fixed>_r<digits>[.restart-NNNN][.suffix][.gz] and the rCURRENT file, C14_num_member_pattern below) the
   logger's observations are those of the run in the empty directory (snapshots modulo the foreign entries), every foreign file is
   unchanged, and all other names and contents are exactly those of the run in the empty directory *)
Theorem C14_numbers_foreign_ignored c crit t0 off foreign ops :
  numcfg c crit -> Forall basic_op ops ->
  NoDup (List.map fst foreign) ->
  (forall n, In n (List.map fst foreign) -> num_member c n = false) ->
  let ops' := OStart c :: ops ++ [OStop] in
  let rf := run (sys0f t0 off foreign) ops' in
  let r0 := run (sys0 t0 off) ops' in
  (* 1: the same observations; a snapshot shows the foreign files in addition *)
  List.map (strip_obs (List.map fst foreign)) (snd rf) = snd r0
  /\ (Forall (fun o => o <> OSnap) ops -> snd rf = snd r0)
  (* 2: the foreign files are in place, unchanged *)
  /\ (forall n d, In (n, d) foreign -> file_of (wfs (s_w (fst rf))) n = Some (plain_file t0 d))
  (* 3: every other name is what the run in the empty directory makes of it *)
  /\ (forall n, ~ In n (List.map fst foreign) -> file_of (wfs (s_w (fst rf))) n = file_of (wfs (s_w (fst r0))) n)
  /\ (forall n, In n (List.map fst foreign) -> file_of (wfs (s_w (fst r0))) n = None)
  (* the whole state: the run is the embedding of the run in the empty directory *)
  /\ fst rf = embedx (names (fs0f t0 foreign)) (inodes (fs0f t0 foreign)) (fst r0).
Proof. exact (numbers_foreign_ignored c crit t0 off foreign ops). Qed.

(* ... so the stream theorem carries over *)
Theorem C14_numbers_stream_foreign c crit t0 off foreign ops :
  numcfg c crit -> Forall basic_op ops ->
  NoDup (List.map fst foreign) ->
  (forall n, In n (List.map fst foreign) -> num_member c n = false) ->
  exists files,
    reads_family c (List.map fst foreign)
      (wfs (s_w (fst (run (sys0f t0 off foreign) (OStart c :: ops ++ [OStop]))))) files
    /\ concat files = written ops.
Proof. exact (numbers_stream_foreign c crit t0 off foreign ops). Qed.

(* the same with a cleanup strategy: the cleanup neither removes nor compresses a foreign file *)
Theorem C14_numbers_cleanup_foreign_ignored c crit k t0 off foreign ops :
  numkcfg c crit k -> Forall basic_op ops ->
  kside c k (nclosed (a_run None ops (snd (run (fst (step (sys0 t0 off) (OStart c))) ops)))) ->
  NoDup (List.map fst foreign) ->
  (forall n, In n (List.map fst foreign) -> num_member c n = false) ->
  let ops' := OStart c :: ops ++ [OStop] in
  let rf := run (sys0f t0 off foreign) ops' in
  let r0 := run (sys0 t0 off) ops' in
  (* 1: the same observations; a snapshot shows the foreign files in addition *)
  List.map (strip_obs (List.map fst foreign)) (snd rf) = snd r0
  /\ (Forall (fun o => o <> OSnap) ops -> snd rf = snd r0)
  (* 2: the foreign files are in place, unchanged *)
  /\ (forall n d, In (n, d) foreign -> file_of (wfs (s_w (fst rf))) n = Some (plain_file t0 d))
  (* 3: every other name is what the run in the empty directory makes of it *)
  /\ (forall n, ~ In n (List.map fst foreign) -> file_of (wfs (s_w (fst rf))) n = file_of (wfs (s_w (fst r0))) n)
  /\ (forall n, In n (List.map fst foreign) -> file_of (wfs (s_w (fst r0))) n = None)
  (* the whole state: the run is the embedding of the run in the empty directory *)
  /\ fst rf = embedx (names (fs0f t0 foreign)) (inodes (fs0f t0 foreign)) (fst r0).
Proof. exact (numbers_cleanup_foreign_ignored c crit k t0 off foreign ops). Qed.

Check C14_family_name_shape. Check C14_listing_prefix.
Print Assumptions C14_family_name_shape.
Print Assumptions C14_listing_prefix.
Print Assumptions C14_listing_accepts_family_only.
Print Assumptions C14_listing_accepts_all_family.
Print Assumptions C14_foreign_ignored.
Check C14_numbers_foreign_ignored.
Print Assumptions C14_numbers_foreign_ignored.
Check C14_numbers_stream_foreign.
Print Assumptions C14_numbers_stream_foreign.
Check C14_numbers_cleanup_foreign_ignored.
Print Assumptions C14_numbers_cleanup_foreign_ignored.

(* ------------------------------------------------------------------ the other three namings *)
Require Import FL.Flw.NumDInv FL.Flw.NumDForeign FL.Time.Civil FL.Flw.TsTime FL.Flw.TsNames FL.Flw.TsInv FL.Flw.TsRun FL.Flw.TsTheorems
  FL.Flw.TsdInv FL.Flw.TsForeignFacts FL.Flw.TsdForeign FL.Flw.TsForeign.

(* NumbersDirect naming: foreign = the number filter rejects the name, as a plain file and as an archive (the rCURRENT file
   of Numbers naming is foreign here) *)
Theorem C14_numbersdirect_foreign_ignored c crit t0 off foreign ops :
  numdcfg c crit -> Forall basic_op ops ->
  NoDup (List.map fst foreign) ->
  (forall n, In n (List.map fst foreign) -> numd_member c n = false) ->
  let ops' := OStart c :: ops ++ [OStop] in
  let rf := run (sys0f t0 off foreign) ops' in
  let r0 := run (sys0 t0 off) ops' in
  List.map (strip_obs (List.map fst foreign)) (snd rf) = snd r0
  /\ (Forall (fun o => o <> OSnap) ops -> snd rf = snd r0)
  /\ (forall n d, In (n, d) foreign -> file_of (wfs (s_w (fst rf))) n = Some (plain_file t0 d))
  /\ (forall n, ~ In n (List.map fst foreign) -> file_of (wfs (s_w (fst rf))) n = file_of (wfs (s_w (fst r0))) n)
  /\ (forall n, In n (List.map fst foreign) -> file_of (wfs (s_w (fst r0))) n = None)
  /\ fst rf = embedx (names (fs0f t0 foreign)) (inodes (fs0f t0 foreign)) (fst r0).
Proof. exact (numbersdirect_foreign_ignored c crit t0 off foreign ops). Qed.

Theorem C14_numbersdirect_stream_foreign c crit t0 off foreign ops :
  numdcfg c crit -> Forall basic_op ops ->
  NoDup (List.map fst foreign) ->
  (forall n, In n (List.map fst foreign) -> numd_member c n = false) ->
  exists files,
    direct_view_family c (List.map fst foreign)
      (wfs (s_w (fst (run (sys0f t0 off foreign) (OStart c :: ops ++ [OStop]))))) files
    /\ concat files = written ops.
Proof. exact (numbersdirect_stream_foreign c crit t0 off foreign ops). Qed.

(* TimestampsDirect naming: foreign = tsd_member rejects the name: no infix is extracted from it, or one that the time-stamp
   filter does not accept - as a plain file, as an archive, and with ".gz" removed.  (Before the repair of
   latest_timestamp_file the test had to accept what the number filter accepted, too; now a file with a number infix -
   a_r00001.log, a_r1x.log - is foreign for the time-stamp namings: C14_number_files_foreign_ts below.) *)
Theorem C14_timestampsdirect_foreign_ignored c crit t0 off foreign ops :
  tsdcfg c crit -> tag_ok c -> Forall basic_op ops -> Forall tick_ok ops ->
  (0 <= t0 + ts_e c off)%Z -> (t0 + elapsed ops + ts_e c off < sec_max)%Z -> (N.of_nat (length ops) <= usize_max)%N ->
  NoDup (List.map fst foreign) ->
  (forall n, In n (List.map fst foreign) -> tsd_member c n = false) ->
  let ops' := OStart c :: ops ++ [OStop] in
  let rf := run (sys0f t0 off foreign) ops' in
  let r0 := run (sys0 t0 off) ops' in
  List.map (strip_obs (List.map fst foreign)) (snd rf) = snd r0
  /\ (Forall (fun o => o <> OSnap) ops -> snd rf = snd r0)
  /\ (forall n d, In (n, d) foreign -> file_of (wfs (s_w (fst rf))) n = Some (plain_file t0 d))
  /\ (forall n, ~ In n (List.map fst foreign) -> file_of (wfs (s_w (fst rf))) n = file_of (wfs (s_w (fst r0))) n)
  /\ (forall n, In n (List.map fst foreign) -> file_of (wfs (s_w (fst r0))) n = None)
  /\ fst rf = embedx (names (fs0f t0 foreign)) (inodes (fs0f t0 foreign)) (fst r0).
Proof. exact (timestampsdirect_foreign_ignored c crit t0 off foreign ops). Qed.

Theorem C14_timestampsdirect_stream_foreign c crit t0 off foreign ops :
  tsdcfg c crit -> tag_ok c -> Forall basic_op ops -> Forall tick_ok ops ->
  (0 <= t0 + ts_e c off)%Z -> (t0 + elapsed ops + ts_e c off < sec_max)%Z -> (N.of_nat (length ops) <= usize_max)%N ->
  NoDup (List.map fst foreign) ->
  (forall n, In n (List.map fst foreign) -> tsd_member c n = false) ->
  exists keys files,
    tsd_view_family c (ts_e c off) (List.map fst foreign)
      (wfs (s_w (fst (run (sys0f t0 off foreign) (OStart c :: ops ++ [OStop]))))) keys files
    /\ concat files = written ops /\ keys_ok keys
    /\ (forall k, In k keys -> (t0 <= fst k <= t0 + elapsed ops)%Z).
Proof. exact (timestampsdirect_stream_foreign c crit t0 off foreign ops). Qed.

(* Timestamps naming: foreign = ts_member rejects the name: as before, and it is not the rCURRENT file *)
Theorem C14_timestamps_foreign_ignored c crit t0 off foreign ops :
  tscfg c crit -> tag_ok c -> Forall basic_op ops -> Forall tick_ok ops ->
  (0 <= t0 + ts_e c off)%Z -> (t0 + elapsed ops + ts_e c off < sec_max)%Z -> (N.of_nat (length ops) <= usize_max)%N ->
  NoDup (List.map fst foreign) ->
  (forall n, In n (List.map fst foreign) -> ts_member c n = false) ->
  let ops' := OStart c :: ops ++ [OStop] in
  let rf := run (sys0f t0 off foreign) ops' in
  let r0 := run (sys0 t0 off) ops' in
  List.map (strip_obs (List.map fst foreign)) (snd rf) = snd r0
  /\ (Forall (fun o => o <> OSnap) ops -> snd rf = snd r0)
  /\ (forall n d, In (n, d) foreign -> file_of (wfs (s_w (fst rf))) n = Some (plain_file t0 d))
  /\ (forall n, ~ In n (List.map fst foreign) -> file_of (wfs (s_w (fst rf))) n = file_of (wfs (s_w (fst r0))) n)
  /\ (forall n, In n (List.map fst foreign) -> file_of (wfs (s_w (fst r0))) n = None)
  /\ fst rf = embedx (names (fs0f t0 foreign)) (inodes (fs0f t0 foreign)) (fst r0).
Proof. exact (timestamps_foreign_ignored c crit t0 off foreign ops). Qed.

Theorem C14_timestamps_stream_foreign c crit t0 off foreign ops :
  tscfg c crit -> tag_ok c -> Forall basic_op ops -> Forall tick_ok ops ->
  (0 <= t0 + ts_e c off)%Z -> (t0 + elapsed ops + ts_e c off < sec_max)%Z -> (N.of_nat (length ops) <= usize_max)%N ->
  NoDup (List.map fst foreign) ->
  (forall n, In n (List.map fst foreign) -> ts_member c n = false) ->
  let f := wfs (s_w (fst (run (sys0f t0 off foreign) (OStart c :: ops ++ [OStop])))) in
  ((forall n, ~ In n (List.map fst foreign) -> file_of f n = None) /\ written ops = [])
  \/ exists keys closed cur,
       ts_view_family c (ts_e c off) (List.map fst foreign) f keys closed cur
       /\ concat closed ++ cur = written ops
       /\ keys_ok keys
       /\ (forall k, In k keys -> (t0 <= fst k <= t0 + elapsed ops)%Z).
Proof. exact (timestamps_stream_foreign c crit t0 off foreign ops). Qed.

(* which names are foreign with the time-stamp namings: every member has the shape <fixed>_r... *)
Theorem C14_ts_member_shape c n : ts_member c n = true -> exists y, n = under (fixed0 c) ++ r_char :: y.
Proof. exact (ts_member_shape c n). Qed.

Check C14_numbersdirect_foreign_ignored.
Print Assumptions C14_numbersdirect_foreign_ignored.
Check C14_numbersdirect_stream_foreign.
Print Assumptions C14_numbersdirect_stream_foreign.
Check C14_timestampsdirect_foreign_ignored.
Print Assumptions C14_timestampsdirect_foreign_ignored.
Check C14_timestampsdirect_stream_foreign.
Print Assumptions C14_timestampsdirect_stream_foreign.
Check C14_timestamps_foreign_ignored.
Print Assumptions C14_timestamps_foreign_ignored.
Check C14_timestamps_stream_foreign.
Print Assumptions C14_timestamps_stream_foreign.
Print Assumptions C14_ts_member_shape.

(* ------------------------------------------------------------------ "foreign" = "does not follow the naming pattern" *)
Require Import FL.Flw.NumListing FL.Flw.CleanupFacts FL.Time.TsFormat FL.Flw.MemberPattern.
(* The member tests in the hypotheses above accept EXACTLY the names of the logger's own naming pattern: the configured name
   parts, an infix of the ACTIVE naming - "r" and one or more digits, nothing else, for the number namings; a time stamp r%Y-%m-%d_%H-%M-%S for the time-stamp namings: chrono reads it
   AND it is exactly the text that the format writes for the instant read (canonical_ts: no blanks, signs, unpadded numbers) -, optionally a restart counter, the configured suffix, optionally ".gz"
   (the archive of a file with the suffix "gz" has no second ".gz"); or the rCURRENT file where the naming has one. *)
Theorem C14_num_member_pattern c n :
  num_member c n = true <->
  n = cname c \/
  exists ds rs gz, ds <> [] /\ all_digits ds = true /\ restart_part rs
    /\ (gz = [] \/ (gz = dot_gz /\ fsfx (c_spec c) <> Some gz_sfx))
    /\ n = under (fixed0 c) ++ r_char :: ds ++ rs ++ sfxs (c_spec c) ++ gz.
Proof. exact (num_member_iff c n). Qed.

Theorem C14_numd_member_pattern c n :
  numd_member c n = true <->
  exists ds rs gz, ds <> [] /\ all_digits ds = true /\ restart_part rs
    /\ (gz = [] \/ (gz = dot_gz /\ fsfx (c_spec c) <> Some gz_sfx))
    /\ n = under (fixed0 c) ++ r_char :: ds ++ rs ++ sfxs (c_spec c) ++ gz.
Proof. exact (numd_member_iff c n). Qed.

Theorem C14_tsd_member_pattern c n :
  tsd_member c n = true <->
  exists i rs gz, canonical_ts std_fmt i = true /\ no_dot i /\ restart_part rs /\ (gz = [] \/ gz = dot_gz)
    /\ n = under (fixed0 c) ++ i ++ rs ++ sfxs (c_spec c) ++ gz.
Proof. exact (tsd_member_iff c n). Qed.

Theorem C14_ts_member_pattern c n :
  ts_member c n = true <->
  n = cname c \/
  exists i rs gz, canonical_ts std_fmt i = true /\ no_dot i /\ restart_part rs /\ (gz = [] \/ gz = dot_gz)
    /\ n = under (fixed0 c) ++ i ++ rs ++ sfxs (c_spec c) ++ gz.
Proof. exact (ts_member_iff c n). Qed.

(* a name with anything but digits between "<fixed>_r" and the first dot is foreign for the number namings *)
Theorem C14_num_foreign_non_digit c rest :
  (upto_dot rest = [] \/ all_digits (upto_dot rest) = false) ->
  under (fixed0 c) ++ r_char :: rest <> cname c ->
  num_member c (under (fixed0 c) ++ r_char :: rest) = false.
Proof. exact (num_foreign_non_digit c rest). Qed.

(* the infix of the OTHER naming is foreign: the numbered files are foreign for a logger with a time-stamp naming, the
   time-stamped files are foreign for a logger with a number naming (same name parts, same suffix) *)
Theorem C14_number_files_foreign_ts c n : numd_member c n = true -> ts_member c n = false.
Proof. exact (number_files_foreign_ts c n). Qed.
Theorem C14_ts_files_foreign_number c n : tsd_member c n = true -> num_member c n = false.
Proof. exact (ts_files_foreign_number c n). Qed.

Print Assumptions C14_num_member_pattern.
Print Assumptions C14_numd_member_pattern.
Print Assumptions C14_tsd_member_pattern.
Print Assumptions C14_ts_member_pattern.
Print Assumptions C14_num_foreign_non_digit.
Print Assumptions C14_number_files_foreign_ts.
Print Assumptions C14_ts_files_foreign_number.

(* non-vacuity: the names that the code took for the logger's own before the two repairs are foreign now, for the number
   namings (a letter, a word behind the number, a time-stamp infix) and for the time-stamp namings (a number infix, a
   time stamp and a letter); the runs with such files in the directory: NumForeign.near_miss_not_member,
   NumDForeign.near_miss_not_member_d, NumCleanupForeign.cleanup_foreign_instance_dir, TsdForeign.number_infix_foreign_td,
   TsForeign.number_infix_foreign_t *)
Import String.StringSyntax.
Example C14_repaired_names_foreign :
  let names := List.map bs ["a_r1x.log"; "a_r1backup.log"; "a_r00001x.log"; "a_r2024-02-29_23-59-58.log"]%string in
  let tnames := List.map bs ["a_r00001.log"; "a_r1x.log"; "a_r00001.log.gz"; "a_r2030-01-01_00-00-00x.log"]%string in
  List.map (num_member ex_c) names = [false; false; false; false]
  /\ List.map (numd_member exdf_c) names = [false; false; false; false]
  /\ List.map (tsd_member extd_c) tnames = [false; false; false; false]
  /\ List.map (ts_member extf_c) tnames = [false; false; false; false].
Proof. vm_compute. repeat split; reflexivity. Qed.

(* END TO END non-interference, NumbersDirect naming WITH a cleanup strategy (Flw/NumDCleanupForeign.v): the cleanup - which
   for this naming works on a listing that contains the file being written - lists, removes and compresses family files only.
   With arbitrary foreign files in the directory (names that numd_member rejects; the rCURRENT name is foreign here) the
   observations are those of the run in the empty directory (snapshots modulo the foreign entries), every foreign file is
   unchanged - neither removed nor compressed -, and all other names and contents are exactly those of the clean run *)
Require Import FL.Flw.NumDRun FL.Flw.NumDCleanupStep FL.Flw.NumDCleanupRun FL.Flw.NumDCleanup FL.Flw.NumDCleanupForeign.
Theorem C14_numbersdirect_cleanup_foreign_ignored c crit k t0 off foreign ops :
  numdkcfg c crit k -> Forall basic_op ops ->
  dside c k (nclosed (a_run None ops (snd (run (fst (step (sys0 t0 off) (OStart c))) ops)))) ->
  NoDup (List.map fst foreign) ->
  (forall n, In n (List.map fst foreign) -> numd_member c n = false) ->
  let ops' := OStart c :: ops ++ [OStop] in
  let rf := run (sys0f t0 off foreign) ops' in
  let r0 := run (sys0 t0 off) ops' in
  List.map (strip_obs (List.map fst foreign)) (snd rf) = snd r0
  /\ (Forall (fun o => o <> OSnap) ops -> snd rf = snd r0)
  /\ (forall n d, In (n, d) foreign -> file_of (wfs (s_w (fst rf))) n = Some (plain_file t0 d))
  /\ (forall n, ~ In n (List.map fst foreign) -> file_of (wfs (s_w (fst rf))) n = file_of (wfs (s_w (fst r0))) n)
  /\ (forall n, In n (List.map fst foreign) -> file_of (wfs (s_w (fst r0))) n = None)
  /\ fst rf = embedx (names (fs0f t0 foreign)) (inodes (fs0f t0 foreign)) (fst r0).
Proof. exact (numbersdirect_cleanup_foreign_ignored c crit k t0 off foreign ops). Qed.

(* ... so C07_numbersdirect_cleanup carries over: what the directory with the foreign files holds after the run *)
Theorem C14_numbersdirect_cleanup_foreign_dir c crit k n m t0 off foreign ops closed cur :
  numdkcfg c crit k -> klimd k = Some (n, m) -> Forall basic_op ops ->
  sfx_ok (c_spec c) ->
  a_run None ops (snd (run (fst (step (sys0 t0 off) (OStart c))) ops)) = Some (closed, cur) ->
  NoDup (List.map fst foreign) ->
  (forall x, In x (List.map fst foreign) -> numd_member c x = false) ->
  let ff := wfs (s_w (fst (run (sys0f t0 off foreign) (OStart c :: ops ++ [OStop])))) in
  let L := length closed in let lo := S L - (n + m) in let mid := S L - n in
  concat closed ++ cur = written ops
  /\ (forall x, file_of ff x <> None <->
        In x (List.map fst foreign) \/ (exists i, mid <= i <= L /\ x = rname c i)
        \/ (exists i, lo <= i < mid /\ x = gname c i))
  /\ (forall x d, In (x, d) foreign -> file_of ff x = Some (plain_file t0 d))
  /\ (forall i, mid <= i < L ->
        exists fl, file_of ff (rname c i) = Some fl /\ fdata fl = nth i closed [] /\ fgz fl = 0%N /\ fdir fl = false)
  /\ (forall i, lo <= i < mid ->
        exists fl, file_of ff (gname c i) = Some fl /\ fdata fl = nth i closed [] /\ fgz fl = 1%N /\ fdir fl = false)
  /\ (exists fl, file_of ff (rname c L) = Some fl /\ fdata fl = cur /\ fgz fl = 0%N /\ fdir fl = false)
  /\ (forall i, i < lo -> file_of ff (rname c i) = None /\ file_of ff (gname c i) = None).
Proof. exact (numbersdirect_cleanup_foreign_dir c crit k n m t0 off foreign ops closed cur). Qed.

Check C14_numbersdirect_cleanup_foreign_ignored.
Print Assumptions C14_numbersdirect_cleanup_foreign_ignored.
Check C14_numbersdirect_cleanup_foreign_dir.
Print Assumptions C14_numbersdirect_cleanup_foreign_dir.
(* non-vacuity: NumDCleanupForeign.cleanup_foreign_hypotheses_d / cleanup_foreign_instance_d / cleanup_foreign_instance_dir_d
   (twenty foreign files, KLogGz 2 1, three rotations); the boundary - a stranger's file whose name follows the pattern is a
   member and is cleaned up: NumDCleanupForeign.member_file_is_cleaned_d *)
Check cleanup_foreign_instance_dir_d.
Check member_file_is_cleaned_d.

(* END TO END non-interference, the TIME-STAMP namings WITH a cleanup strategy (Flw/TsdCleanupForeign.v, Flw/TsCleanupForeign.v):
   the cleanup lists with the time-stamp filter; it lists, removes and compresses family files only.  With arbitrary foreign
   files in the directory (names that tsd_member / ts_member rejects; for TimestampsDirect the rCURRENT name is foreign) the
   observations are those of the run in the empty directory (snapshots modulo the foreign entries), every foreign file is
   unchanged - neither removed nor compressed -, and all other names and contents are exactly those of the clean run.
   Hypotheses: those of C07 for these namings (suffix not gz / not ending with .gz, a clock that does not go backwards, the
   years 1970..9999) plus NoDup and the member test. *)
Require Import FL.Time.Civil FL.Flw.TsNames FL.Flw.TsInv FL.Flw.TsRun FL.Flw.TsdCleanupRun FL.Flw.TsCleanupRun
  FL.Flw.TsdCleanupForeign FL.Flw.TsCleanupForeign.
Theorem C14_timestampsdirect_cleanup_foreign_ignored c crit k t0 off foreign ops :
  tsdkcfg c crit k -> tag_ok c -> sfx_ok (c_spec c) -> Forall basic_op ops -> Forall tick_ok ops ->
  (0 <= t0 + ts_e c off)%Z -> (t0 + elapsed ops + ts_e c off < sec_max)%Z -> (N.of_nat (length ops) <= usize_max)%N ->
  NoDup (List.map fst foreign) ->
  (forall n, In n (List.map fst foreign) -> tsd_member c n = false) ->
  let ops' := OStart c :: ops ++ [OStop] in
  let rf := run (sys0f t0 off foreign) ops' in
  let r0 := run (sys0 t0 off) ops' in
  List.map (strip_obs (List.map fst foreign)) (snd rf) = snd r0
  /\ (Forall (fun o => o <> OSnap) ops -> snd rf = snd r0)
  /\ (forall n d, In (n, d) foreign -> file_of (wfs (s_w (fst rf))) n = Some (plain_file t0 d))
  /\ (forall n, ~ In n (List.map fst foreign) -> file_of (wfs (s_w (fst rf))) n = file_of (wfs (s_w (fst r0))) n)
  /\ (forall n, In n (List.map fst foreign) -> file_of (wfs (s_w (fst r0))) n = None)
  /\ fst rf = embedx (names (fs0f t0 foreign)) (inodes (fs0f t0 foreign)) (fst r0).
Proof. exact (timestampsdirect_cleanup_foreign_ignored c crit k t0 off foreign ops). Qed.

(* ... so C07_timestampsdirect_cleanup carries over: what the directory with the foreign files holds after the run *)
Theorem C14_timestampsdirect_cleanup_foreign_dir c crit k n m t0 off foreign ops closed cur :
  tsdkcfg c crit k -> klimd k = Some (n, m) -> tag_ok c -> sfx_ok (c_spec c) ->
  Forall basic_op ops -> Forall tick_ok ops ->
  (0 <= t0 + ts_e c off)%Z -> (t0 + elapsed ops + ts_e c off < sec_max)%Z -> (N.of_nat (length ops) <= usize_max)%N ->
  a_run None ops (snd (run (fst (step (sys0 t0 off) (OStart c))) ops)) = Some (closed, cur) ->
  NoDup (List.map fst foreign) ->
  (forall x, In x (List.map fst foreign) -> tsd_member c x = false) ->
  let ff := wfs (s_w (fst (run (sys0f t0 off foreign) (OStart c :: ops ++ [OStop])))) in
  let L := length closed in let lo := S L - (n + m) in let mid := S L - n in
  concat closed ++ cur = written ops
  /\ exists keys : list key,
       let K i := kname c (ts_e c off) (nth i keys kd) in
       let G i := gz_name (K i) in
       length keys = S L /\ keys_ok keys /\ (forall key, In key keys -> (t0 <= fst key <= t0 + elapsed ops)%Z)
       /\ (forall x, file_of ff x <> None <->
             In x (List.map fst foreign) \/ (exists i, mid <= i <= L /\ x = K i) \/ (exists i, lo <= i < mid /\ x = G i))
       /\ (forall x d, In (x, d) foreign -> file_of ff x = Some (plain_file t0 d))
       /\ (forall i, mid <= i < L ->
             exists fl, file_of ff (K i) = Some fl /\ fdata fl = nth i closed [] /\ fgz fl = 0%N /\ fdir fl = false)
       /\ (forall i, lo <= i < mid ->
             exists fl, file_of ff (G i) = Some fl /\ fdata fl = nth i closed [] /\ fgz fl = 1%N /\ fdir fl = false)
       /\ (exists fl, file_of ff (K L) = Some fl /\ fdata fl = cur /\ fgz fl = 0%N /\ fdir fl = false)
       /\ (forall i, i < lo -> file_of ff (K i) = None /\ file_of ff (G i) = None)
       /\ (forall i, lo <= i < mid -> file_of ff (K i) = None).
Proof. exact (timestampsdirect_cleanup_foreign_dir c crit k n m t0 off foreign ops closed cur). Qed.

Theorem C14_timestamps_cleanup_foreign_ignored c crit k t0 off foreign ops :
  tskcfg c crit k -> tag_ok c -> sfx_ok (c_spec c) -> Forall basic_op ops -> Forall tick_ok ops ->
  (0 <= t0 + ts_e c off)%Z -> (t0 + elapsed ops + ts_e c off < sec_max)%Z -> (N.of_nat (length ops) <= usize_max)%N ->
  NoDup (List.map fst foreign) ->
  (forall n, In n (List.map fst foreign) -> ts_member c n = false) ->
  let ops' := OStart c :: ops ++ [OStop] in
  let rf := run (sys0f t0 off foreign) ops' in
  let r0 := run (sys0 t0 off) ops' in
  List.map (strip_obs (List.map fst foreign)) (snd rf) = snd r0
  /\ (Forall (fun o => o <> OSnap) ops -> snd rf = snd r0)
  /\ (forall n d, In (n, d) foreign -> file_of (wfs (s_w (fst rf))) n = Some (plain_file t0 d))
  /\ (forall n, ~ In n (List.map fst foreign) -> file_of (wfs (s_w (fst rf))) n = file_of (wfs (s_w (fst r0))) n)
  /\ (forall n, In n (List.map fst foreign) -> file_of (wfs (s_w (fst r0))) n = None)
  /\ fst rf = embedx (names (fs0f t0 foreign)) (inodes (fs0f t0 foreign)) (fst r0).
Proof. exact (timestamps_cleanup_foreign_ignored c crit k t0 off foreign ops). Qed.

(* ... so C07_timestamps_cleanup carries over *)
Theorem C14_timestamps_cleanup_foreign_dir c crit k n m t0 off foreign ops closed cur :
  tskcfg c crit k -> klim k = Some (n, m) -> tag_ok c -> sfx_ok (c_spec c) ->
  Forall basic_op ops -> Forall tick_ok ops ->
  (0 <= t0 + ts_e c off)%Z -> (t0 + elapsed ops + ts_e c off < sec_max)%Z -> (N.of_nat (length ops) <= usize_max)%N ->
  a_run None ops (snd (run (fst (step (sys0 t0 off) (OStart c))) ops)) = Some (closed, cur) ->
  NoDup (List.map fst foreign) ->
  (forall x, In x (List.map fst foreign) -> ts_member c x = false) ->
  let ff := wfs (s_w (fst (run (sys0f t0 off foreign) (OStart c :: ops ++ [OStop])))) in
  let L := length closed in let lo := L - (n + m) in let mid := L - n in
  concat closed ++ cur = written ops
  /\ exists keys : list key,
       let K i := kname c (ts_e c off) (nth i keys kd) in
       let G i := gz_name (K i) in
       length keys = L /\ keys_ok keys /\ (forall key, In key keys -> (t0 <= fst key <= t0 + elapsed ops)%Z)
       /\ (forall x, file_of ff x <> None <->
             In x (List.map fst foreign) \/ x = cname c \/ (exists i, mid <= i < L /\ x = K i) \/ (exists i, lo <= i < mid /\ x = G i))
       /\ (forall x d, In (x, d) foreign -> file_of ff x = Some (plain_file t0 d))
       /\ (forall i, mid <= i < L ->
             exists fl, file_of ff (K i) = Some fl /\ fdata fl = nth i closed [] /\ fgz fl = 0%N /\ fdir fl = false)
       /\ (forall i, lo <= i < mid ->
             exists fl, file_of ff (G i) = Some fl /\ fdata fl = nth i closed [] /\ fgz fl = 1%N /\ fdir fl = false)
       /\ (exists fl, file_of ff (cname c) = Some fl /\ fdata fl = cur /\ fgz fl = 0%N /\ fdir fl = false)
       /\ (forall i, i < lo -> file_of ff (K i) = None /\ file_of ff (G i) = None)
       /\ (forall i, lo <= i < mid -> file_of ff (K i) = None).
Proof. exact (timestamps_cleanup_foreign_dir c crit k n m t0 off foreign ops closed cur). Qed.

Check C14_timestampsdirect_cleanup_foreign_ignored.
Print Assumptions C14_timestampsdirect_cleanup_foreign_ignored.
Check C14_timestampsdirect_cleanup_foreign_dir.
Print Assumptions C14_timestampsdirect_cleanup_foreign_dir.
Check C14_timestamps_cleanup_foreign_ignored.
Print Assumptions C14_timestamps_cleanup_foreign_ignored.
Check C14_timestamps_cleanup_foreign_dir.
Print Assumptions C14_timestamps_cleanup_foreign_dir.
(* non-vacuity: TsdCleanupForeign.cleanup_foreign_hypotheses_td / cleanup_foreign_instance_td / cleanup_foreign_instance_dir_td /
   cleanup_foreign_dir_instance_td (twenty foreign files, KLogGz 2 1, three rotations, append), TsCleanupForeign.*_t (twenty-one
   foreign files, KLogGz 1 1); the boundary - a stranger's file whose name follows the pattern is a member, is continued
   (append) and is cleaned up: TsdCleanupForeign.member_file_is_cleaned_td, TsCleanupForeign.member_file_is_cleaned_t *)
Check cleanup_foreign_instance_dir_td.
Check cleanup_foreign_dir_instance_td.
Check member_file_is_cleaned_td.
Check cleanup_foreign_instance_dir_t.
Check cleanup_foreign_dir_instance_t.
Check member_file_is_cleaned_t.

(* the infix of a member of a time-stamp naming IS a text that the format writes (for some civil time): what only chrono's
   lenient parser reads as a time stamp - a blank or a sign in front, numbers without padding - is not (repair b8c3c12) *)
Theorem C14_ts_infix_is_written_text i :
  canonical_ts std_fmt i = true -> exists cv, i = format_ts std_fmt cv.
Proof.
  unfold canonical_ts. destruct (parse_ts_local std_fmt i) as [l|]; [|discriminate].
  intros H. apply Bool.orb_true_iff in H. destruct H as [H|H].
  - apply beq_eq in H. eexists. symmetry. exact H.
  - apply Bool.andb_true_iff in H. destruct H as [_ H]. apply beq_eq in H. eexists. symmetry. exact H.
Qed.
Check C14_ts_infix_is_written_text.
Print Assumptions C14_ts_infix_is_written_text.

(* non-vacuity / the reviewer's names: chrono reads each of them as a time stamp, none is a text the format writes; the
   logger's own text and a leap second are *)
Example C14_lenient_names_foreign :
  List.map (fun s => (match parse_ts_local std_fmt (bs s) with Some _ => true | None => false end, canonical_ts std_fmt (bs s)))
           ["r2024-1-5_3-4-5"; "r+2024-01-05_03-04-05"; "r 2024-01-05_03-04-05"; "r2024-01-05_03-04-5";
            "r2024-01-05_03-04-05"; "r2024-02-29_23-59-60"]%string
  = [(true, false); (true, false); (true, false); (true, false); (true, true); (true, true)].
Proof. vm_compute. reflexivity. Qed.
