(* NumbersDirect naming WITH a cleanup strategy (numdkcfg; invariant NumDKInv / RelDK of NumDCleanupRun.v):
   - "every file the logger creates is named as documented" (NamesDocumented.v does this for Numbers with cleanup, and for
     NumbersDirect without): the oracle Oracles/O_Names.name_documented accepts every name in the directory - the numbered
     files r<i> and the archives r<i>.gz that the cleanup makes - at every point of every history
     (numbersdirect_cleanup_names_documented_always), in every snapshot (numbersdirect_cleanup_snapshots_documented) and
     after the stop (numbersdirect_cleanup_names_documented);
   - "the listing returns exactly the existing family files the selector asks for, archives included" (ListingExact.v:
     numbers_listing_exact for Numbers with cleanup): numbersdirect_cleanup_listing_exact; and since there is no rCURRENT
     file in this naming, with_r_current and an admissible custom current infix select nothing
     (numbersdirect_cleanup_listing_no_current).
   Hypothesis not_gz c (= sfx_ok (c_spec c)): the family's suffix is not "gz" and does not end with ".gz".  It IMPLIES the
   side condition dside of numbersdirect_cleanup_stream (dside_of_not_gz), so - unlike for Numbers, where kside is a
   separate hypothesis of the statements - no side condition on the view appears here. *)
Require Import FL.Base.Bytes FL.Base.BytesFacts FL.Base.PathName FL.Fs.Fs FL.Fs.FsFacts FL.Time.Civil FL.Time.TsFormat
  FL.Names.FileSpec FL.Names.NamesFacts FL.Names.SortFacts FL.Names.FamilyFacts FL.Flw.Model FL.Flw.ModelFacts FL.Flw.NumFs
  FL.Flw.NumInv FL.Flw.Run FL.Flw.RunFacts FL.Flw.NumRun FL.Oracles.O_Flw FL.Oracles.ReaderOrder FL.Oracles.O_Names
  FL.Flw.NumTheorems FL.Flw.NumListing FL.Flw.NumRestart FL.Flw.NumDInv FL.Flw.NumDRun FL.Flw.NumDTheorems
  FL.Flw.CleanupFacts FL.Flw.NumCleanupNames FL.Flw.NumCleanupStep FL.Flw.NumCleanupRun FL.Flw.NumCleanup
  FL.Flw.NumDCleanupStep FL.Flw.NumDCleanupRun FL.Flw.NumDCleanup
  FL.Flw.TsReader FL.Flw.NumKillRestart FL.Flw.NoPanic FL.Flw.NamesDocumented FL.Flw.ListingExact FL.Flw.ForeignSort FL.Flw.TsdListing.
From Coq Require Import ZifyN ZifyNat ZifyBool Permutation Sorted.
Open Scope nat_scope.

(* the side condition of the run theorems follows from the hypothesis on the suffix *)
Lemma dside_of_not_gz c k L : not_gz c -> dside c k L.
Proof. intros G. unfold dside. destruct (klimd k); [exact G | exact I]. Qed.

(* ------------------------------------------------------------------ the names of a directory of the invariant's shape *)
(* kdir over all numbered files and no rCURRENT: every name is a numbered file (plain) or an archive *)
Inductive dkcase (c : config) (f : fs) (n : bytes) : Prop :=
| DKRot (i : nat) (d : bytes) : n = rname c i -> snap_entry f n = (n, 0%N, d) -> is_reg_file f n = true -> dkcase c f n
| DKGz (i : nat) (d : bytes) : n = gname c i -> snap_entry f n = (n, 1%N, d) -> is_reg_file f n = true -> dkcase c f n.

Lemma dk_dir_cases c f files lo mid n :
  kdir c f files lo mid -> lookup f (cname c) = None -> In n (dir_names f) -> dkcase c f n.
Proof.
  intros KD Hnc I. apply dir_names_lookup in I. destruct I as [j Lj].
  destruct (kd_only _ _ _ _ _ KD n j Lj) as [->|[[i [Hi ->]]|[i [Hi ->]]]].
  - rewrite Hnc in Lj. discriminate.
  - destruct (kd_plain _ _ _ _ _ KD i Hi) as [j' [Lj' [[Pg Pd] _]]].
    apply (DKRot c f _ i (fdata (inode f j')) eq_refl); unfold snap_entry, is_reg_file, file_of; rewrite Lj', Pd, ?Pg; reflexivity.
  - destruct (kd_arch _ _ _ _ _ KD i Hi) as [j' [Lj' [_ [Pg Pd]]]].
    apply (DKGz c f _ i (fdata (inode f j')) eq_refl); unfold snap_entry, is_reg_file, file_of; rewrite Lj', Pd, ?Pg; reflexivity.
Qed.

Lemma dk_dir_documented c crit k f files lo mid :
  c_rot c = Some (crit, NNumbersDirect, k) -> fts (c_spec c) = false -> not_gz c ->
  kdir c f files lo mid -> lookup f (cname c) = None -> all_documented c f.
Proof.
  intros Hrot Hts G KD Hnc n In_. destruct (dk_dir_cases c f files lo mid n KD Hnc In_) as [i d -> _ _|i d -> _ _].
  - exact (documented_rname c crit NNumbersDirect k i Hrot eq_refl Hts G).
  - exact (documented_gname c crit NNumbersDirect k i Hrot eq_refl Hts G).
Qed.

(* ------------------------------------------------------------------ names documented *)
(* at every point of a history: the invariant knows all names of the directory *)
Lemma reldk_documented c crit k x a : numdkcfg c crit k -> not_gz c -> RelDK c crit k x a -> all_documented c (wfs (s_w x)).
Proof.
  intros (Hrot & Hts & _) G [_ [_ R]]. destruct a as [[closed cur]|].
  - destruct R as [wr [roll [_ [I _]]]].
    exact (dk_dir_documented c crit k _ _ _ _ Hrot Hts G (dk_dir _ _ _ _ _ _ I) (dk_nocur _ _ _ _ _ _ I)).
  - destruct R as [_ [_ [Hn _]]]. apply all_documented_empty. exact Hn.
Qed.

(* the states of the run *)
Lemma run_reldk c crit k t0 off ops : numdkcfg c crit k -> not_gz c -> Forall basic_op ops ->
  RelDK c crit k (fst (run (sys0 t0 off) (OStart c :: ops)))
        (a_run None ops (snd (run (fst (step (sys0 t0 off) (OStart c))) ops))).
Proof.
  intros Hcfg G Hb. cbn [run]. destruct (step (sys0 t0 off) (OStart c)) as [x0 ob0] eqn:E0.
  pose proof (start_rel_dk c crit k t0 off) as R0. rewrite E0 in R0. cbn [fst] in *.
  pose proof (run_rel_dk c crit k Hcfg ops x0 None R0 Hb (dside_of_not_gz c k _ G)) as [R1 _].
  destruct (run x0 ops) as [x1 obs1]. cbn [fst snd] in *. exact R1.
Qed.

(* the directory after  OStart c :: ops  - the writer is still open -, for every history *)
Theorem numbersdirect_cleanup_names_documented_always c crit k t0 off ops :
  numdkcfg c crit k -> not_gz c -> Forall basic_op ops ->
  all_documented c (wfs (s_w (fst (run (sys0 t0 off) (OStart c :: ops))))).
Proof.
  intros Hcfg G Hb. exact (reldk_documented c crit k _ _ Hcfg G (run_reldk c crit k t0 off ops Hcfg G Hb)).
Qed.
Print Assumptions numbersdirect_cleanup_names_documented_always.

(* the directory that the stopped writer leaves *)
Theorem numbersdirect_cleanup_names_documented c crit k t0 off ops :
  numdkcfg c crit k -> not_gz c -> Forall basic_op ops ->
  all_documented c (wfs (s_w (fst (run (sys0 t0 off) (OStart c :: ops ++ [OStop]))))).
Proof.
  intros Hcfg G Hb. pose proof (numbersdirect_cleanup_stream c crit k t0 off ops Hcfg Hb) as T. cbv zeta in T.
  destruct (T (dside_of_not_gz c k _ G)) as [_ [V _]]. destruct Hcfg as (Hrot & Hts & _).
  destruct (a_run None ops (snd (run (fst (step (sys0 t0 off) (OStart c))) ops))) as [[closed cur]|].
  - destruct V as [KD [_ Hnc]]. exact (dk_dir_documented c crit k _ _ _ _ Hrot Hts G KD Hnc).
  - apply all_documented_empty. exact V.
Qed.
Print Assumptions numbersdirect_cleanup_names_documented.

(* every snapshot taken during the run shows documented names only *)
Lemma run_snaps_documented_dk c crit k : numdkcfg c crit k -> not_gz c -> forall ops x a, RelDK c crit k x a -> Forall basic_op ops ->
  Forall (snap_documented c) (snd (run x ops)).
Proof.
  intros Hcfg G. induction ops as [|o r IH]; intros x a R Hb; [constructor|].
  cbn [run]. inversion Hb as [|o' r' Ho Hr]; subst.
  pose proof (step_rel_dk c crit k x a o Hcfg R Ho) as S.
  pose proof (fun K => step_snap_documented c x o Ho K (reldk_documented c crit k x a Hcfg G R)) as D.
  destruct (step x o) as [x1 ob]. cbn [snd] in D. destruct (S (dside_of_not_gz c k _ G)) as (R1 & _ & _ & K).
  specialize (IH x1 _ R1 Hr). destruct (run x1 r) as [x2 obs].
  cbn [snd] in *. constructor; [exact (D K) | exact IH].
Qed.

Theorem numbersdirect_cleanup_snapshots_documented c crit k t0 off ops :
  numdkcfg c crit k -> not_gz c -> Forall basic_op ops ->
  Forall (snap_documented c) (snd (run (sys0 t0 off) (OStart c :: ops))).
Proof.
  intros Hcfg G Hb. cbn [run]. destruct (step (sys0 t0 off) (OStart c)) as [x0 ob0] eqn:E0.
  pose proof (start_rel_dk c crit k t0 off) as R0. rewrite E0 in R0. cbn [fst] in R0.
  assert (K0 : snap_documented c ob0) by (cbn in E0; injection E0 as _ <-; exact I).
  pose proof (run_snaps_documented_dk c crit k Hcfg G ops x0 None R0 Hb) as K1. destruct (run x0 ops) as [x1 obs1]. cbn [snd] in *.
  constructor; assumption.
Qed.
Print Assumptions numbersdirect_cleanup_snapshots_documented.

(* ------------------------------------------------------------------ the listing *)
(* an archive: what the oracle's selection says (NumbersDirect) *)
Lemma gname_selected_d c crit k sel i d : c_rot c = Some (crit, NNumbersDirect, k) -> sfx_ok (c_spec c) ->
  selected sel c (gname c i, 1%N, d) = sel_gz sel.
Proof.
  intros Hrot Hsfx. unfold selected, classify_entry. rewrite Hrot. change (fixed_name_part (c_spec c) []) with (fixed0 c).
  rewrite (full_infix_gname c i Hsfx). change (1 =? 1)%N with true. cbv iota.
  rewrite (valid_number_infix NNumbersDirect None _ eq_refl). reflexivity.
Qed.

Lemma gname_filters_d off c sel i : sfx_ok (c_spec c) ->
  p_plain off c sel (gname c i) = false /\ p_gz off c sel (gname c i) = sel_gz sel
  /\ p_cur off c sel (gname c i) = false /\ p_custom off c sel (gname c i) = false.
Proof.
  intros Hsfx.
  unfold p_plain, p_gz, p_cur, p_custom. rewrite (qf_gname_plain off c i Hsfx), (qf_gname_gz off c i Hsfx), andb_true_r, andb_false_r.
  split; [reflexivity|]. split; [reflexivity|]. unfold qf. rewrite (candidate_gname c i Hsfx), andb_false_r.
  split; [reflexivity|]. destruct (sel_custom sel) as [x|]; [destruct (sel_rcur sel && beq x cur_infix)|]; reflexivity.
Qed.

(* the model's filters are pairwise disjoint on the directory, and together they select what the oracle selects; the
   filters for rCURRENT and for the custom current infix select nothing *)
Lemma dk_filters_vs_oracle off c crit k sel f n :
  c_rot c = Some (crit, NNumbersDirect, k) -> sfx_ok (c_spec c) -> custom_ok_d sel -> dkcase c f n ->
  is_reg_file f n && is_prefix (fixed0 c) n = true
  /\ p_cur off c sel n = false /\ p_custom off c sel n = false
  /\ ((p_plain off c sel n = true -> p_gz off c sel n = false)
      /\ (p_plain off c sel n || p_gz off c sel n = true -> p_cur off c sel n = false)
      /\ ((p_plain off c sel n || p_gz off c sel n) || p_cur off c sel n = true -> p_custom off c sel n = false)
      /\ ((p_plain off c sel n || p_gz off c sel n) || p_cur off c sel n) || p_custom off c sel n = selected sel c (snap_entry f n)).
Proof.
  intros Hrot G Hsel [i d -> Es Hr|i d -> Es Hr]; rewrite Es, Hr.
  - destruct (rname_filters_d off c sel i G Hsel) as (-> & -> & -> & ->).
    rewrite (rname_selected_d c crit k sel i d Hrot G), !orb_false_r, rname_shape, is_prefix_under.
    cbn [andb]. repeat split; reflexivity.
  - destruct (gname_filters_d off c sel i G) as (-> & -> & -> & ->).
    rewrite (gname_selected_d c crit k sel i d Hrot G), !orb_false_r, gname_app, rname_shape, <- app_assoc, is_prefix_under.
    cbn [orb andb]. repeat split; try reflexivity; discriminate.
Qed.

Lemma query_reldk c crit k x a sel :
  numdkcfg c crit k -> not_gz c -> custom_ok_d sel -> RelDK c crit k x a ->
  exists l, step x (OQuery sel) = (x, ObsList 0%N l) /\ oracle_listing sel c (snap_of x) l = true
    /\ (sel_plain sel = false -> sel_gz sel = false -> l = [])
    /\ (forall l0, step x (OQuery (no_current sel)) = (x, ObsList 0%N l0) -> l = l0).
Proof.
  intros Hcfg G Hsel R. rewrite !(step_sync_rel_dk c crit k x a _ Hcfg R). cbn [sync_step].
  destruct Hcfg as (Hrot & Hts & _). destruct R as [_ [_ R]]. rewrite snap_of_list. destruct a as [[closed cur]|].
  - destruct R as [wr [roll [Es [I _]]]]. rewrite Es. cbn [st_ofdk f_poisoned]. unfold query.
    cbn [st_ofdk f_cfg f_inner mk_rsk rs_naming ns_filter]. unfold with_listing.
    rewrite (tick_quiet _ (dk_quiet _ _ _ _ _ _ I)), (fixed_of_fixed0 c _ Hts), !existing_rot_filters. cbv zeta.
    fold (st_ofdk c k (length closed) roll wr). cbv beta iota. rewrite (sys_eta x _ Es).
    set (f := wfs (s_w x)) in *. set (rel := related_files f (fsfx (c_spec c)) (fixed0 c)).
    assert (Cases : forall n, In n (dir_names f) -> dkcase c f n).
    { intros n In_. exact (dk_dir_cases c f _ _ _ n (dk_dir _ _ _ _ _ _ I) (dk_nocur _ _ _ _ _ _ I) In_). }
    assert (V : forall s', custom_ok_d s' -> forall n, In n (dir_names f) -> _)
      by (intros s' Hs' n In_; exact (dk_filters_vs_oracle (woff (s_w x)) c crit k s' f n Hrot G Hs' (Cases n In_))).
    assert (InRel : forall n, In n rel -> In n (dir_names f)) by (intros n Hn; apply related_files_in in Hn; apply Hn).
    assert (Ecur : forall s', custom_ok_d s' -> filter (p_cur (woff (s_w x)) c s') rel = [] /\ filter (p_custom (woff (s_w x)) c s') rel = []).
    { intros s' Hs'. split; apply ForeignSort.filter_none; intros n Hn; destruct (V s' Hs' n (InRel n Hn)) as (_ & V1 & V2 & _); assumption. }
    eexists. split; [reflexivity|]. split; [|split].
    + apply generic_oracle.
      * intros n In_. exact (proj1 (V sel Hsel n In_)).
      * intros n In_. exact (proj2 (proj2 (proj2 (V sel Hsel n In_)))).
    + intros Hp Hg. destruct (Ecur sel Hsel) as [-> ->]. fold rel. unfold p_plain, p_gz. rewrite Hp, Hg. cbn [andb].
      rewrite !filter_false. reflexivity.
    + intros l0 E0. injection E0 as <-. fold rel.
      assert (Hs0 : custom_ok_d (no_current sel)) by exact Logic.I.
      destruct (Ecur sel Hsel) as [-> ->]. destruct (Ecur _ Hs0) as [-> ->]. reflexivity.
  - destruct R as [Es [Q [Hn _]]]. rewrite Es. cbn [new_flw f_poisoned]. unfold query. cbn [new_flw f_cfg f_inner]. rewrite Hrot.
    unfold with_listing. rewrite (tick_quiet _ Q), !existing_rot_empty by exact Hn.
    fold (new_flw c). cbv beta iota. rewrite (sys_eta x _ Es). exists []. split; [reflexivity|]. split; [|split].
    + unfold oracle_listing, expected_listing, snap_list, dir_names. rewrite Hn. reflexivity.
    + reflexivity.
    + intros l0 E0. injection E0 as <-. reflexivity.
Qed.

(* THE THEOREM.  For every history of basic operations, every selector (custom_ok_d) and every cleanup strategy: in the
   state after  OStart c :: ops  the listing operation returns normally (code 0), changes nothing, and the oracle accepts
   its result for the snapshot of the directory: sorted, the result is exactly expected_listing sel c (snapshot) - the
   selected ones among the numbered files (the one being written included) and the archives. *)
Theorem numbersdirect_cleanup_listing_exact c crit k t0 off ops sel :
  numdkcfg c crit k -> not_gz c -> Forall basic_op ops -> custom_ok_d sel ->
  let x := fst (run (sys0 t0 off) (OStart c :: ops)) in
  exists l, step x (OQuery sel) = (x, ObsList 0%N l)
            /\ oracle_listing sel c (snap_of x) l = true
            /\ sort_names l = expected_listing sel c (snap_of x).
Proof.
  intros Hcfg G Hb Hsel x.
  destruct (query_reldk c crit k x _ sel Hcfg G Hsel (run_reldk c crit k t0 off ops Hcfg G Hb)) as [l [E [O _]]].
  exists l. split; [exact E|]. split; [exact O|]. apply names_beq_eq. exact O.
Qed.
Print Assumptions numbersdirect_cleanup_listing_exact.

(* there is no rCURRENT file in this naming: asking for it (with_r_current, a custom current infix) changes nothing, and a
   selector that asks for nothing else gets the empty list *)
Theorem numbersdirect_cleanup_listing_no_current c crit k t0 off ops sel :
  numdkcfg c crit k -> not_gz c -> Forall basic_op ops -> custom_ok_d sel ->
  let x := fst (run (sys0 t0 off) (OStart c :: ops)) in
  exists l, step x (OQuery sel) = (x, ObsList 0%N l) /\ step x (OQuery (no_current sel)) = (x, ObsList 0%N l)
            /\ (sel_plain sel = false -> sel_gz sel = false -> l = []).
Proof.
  intros Hcfg G Hb Hsel x.
  pose proof (run_reldk c crit k t0 off ops Hcfg G Hb) as R. fold x in R.
  destruct (query_reldk c crit k x _ sel Hcfg G Hsel R) as [l [E [_ [Hn Hc]]]].
  destruct (query_reldk c crit k x _ (no_current sel) Hcfg G I R) as [l0 [E0 _]].
  exists l. split; [exact E|]. split; [rewrite (Hc l0 E0); exact E0 | exact Hn].
Qed.
Print Assumptions numbersdirect_cleanup_listing_no_current.

(* ------------------------------------------------------------------ instances *)
Import String.StringSyntax.
Open Scope string_scope.

Lemma exd_not_gz k : not_gz (exd_kcfg k log_sfx).
Proof. vm_compute. reflexivity. Qed.

(* the history of NumDCleanup.v (six records, a rotation before each but the first), KLogGz 2 2: two archives, one closed
   plain file and the file being written - all documented names *)
Definition lxd_c : config := exd_kcfg (KLogGz 2 2) log_sfx.
Definition lxd_x : sys := fst (run (sys0 0 0) (OStart lxd_c :: ex_ops)).

Example numbersdirect_cleanup_names_documented_instance :
  all_documented lxd_c (wfs (s_w (fst (run (sys0 0 0) (OStart lxd_c :: ex_ops ++ [OStop])))))
  /\ all_documented lxd_c (wfs (s_w lxd_x))
  /\ sort_names (dir_names (wfs (s_w (fst (run (sys0 0 0) (OStart lxd_c :: ex_ops ++ [OStop]))))))
     = [bs "a_r00002.log.gz"; bs "a_r00003.log.gz"; bs "a_r00004.log"; bs "a_r00005.log"].
Proof.
  split; [|split; [|vm_compute; reflexivity]].
  - apply (numbersdirect_cleanup_names_documented _ (CSize 3) (KLogGz 2 2)); [apply exd_numdkcfg | apply exd_not_gz | exact ex_ops_basic].
  - apply (numbersdirect_cleanup_names_documented_always _ (CSize 3) (KLogGz 2 2)); [apply exd_numdkcfg | apply exd_not_gz | exact ex_ops_basic].
Qed.

(* a history with snapshots (exd_ops2 of NumDCleanup.v: buffering, append, triggers, ticks, age-or-size criterion, no suffix);
   the snapshot shows the archive of the first file and the file being written (the record "g" is still in the buffer) *)
Example numbersdirect_cleanup_snapshots_documented_instance :
  Forall (snap_documented exd_c2) (snd (run (sys0 0 0) (OStart exd_c2 :: exd_ops2)))
  /\ nth 8 (snd (run (sys0 0 0) (OStart exd_c2 :: exd_ops2))) (ObsRes 0 false)
     = ObsSnap [(bs "srv_a1_r00000.gz", 1%N, bs "abcdef"); (bs "srv_a1_r00001", 0%N, [])] None [].
Proof.
  split; [|vm_compute; reflexivity].
  apply (numbersdirect_cleanup_snapshots_documented exd_c2 (CAgeOrSize ADay 6) (KLogGz 1 1)); [repeat split | exact I | repeat constructor].
Qed.

(* the listing: computed ... *)
Example listing_instance_computed_dk :
  snd (step lxd_x (OQuery sel_all))
  = ObsList 0%N [bs "a_r00005.log"; bs "a_r00004.log"; bs "a_r00003.log.gz"; bs "a_r00002.log.gz"]
  /\ snd (step lxd_x (OQuery sel_log_gz)) = snd (step lxd_x (OQuery sel_all))
  /\ snd (step lxd_x (OQuery {| sel_plain := false; sel_gz := true; sel_rcur := true; sel_custom := None |}))
     = ObsList 0%N [bs "a_r00003.log.gz"; bs "a_r00002.log.gz"]
  /\ expected_listing sel_all lxd_c (snap_of lxd_x) = [bs "a_r00002.log.gz"; bs "a_r00003.log.gz"; bs "a_r00004.log"; bs "a_r00005.log"].
Proof. vm_compute. repeat split; reflexivity. Qed.

(* ... and by the theorem, for every admissible selector *)
Example listing_instance_dk sel : custom_ok_d sel ->
  exists l, step lxd_x (OQuery sel) = (lxd_x, ObsList 0%N l) /\ oracle_listing sel lxd_c (snap_of lxd_x) l = true
            /\ sort_names l = expected_listing sel lxd_c (snap_of lxd_x).
Proof.
  intros Hsel. apply (numbersdirect_cleanup_listing_exact lxd_c (CSize 3) (KLogGz 2 2) 0 0 ex_ops sel); try assumption.
  - apply exd_numdkcfg.
  - apply exd_not_gz.
  - exact ex_ops_basic.
Qed.

(* there is no rCURRENT: asking for it alone, or for the custom current infix "rCURRENT", lists nothing *)
Example listing_no_current_instance_dk :
  let sel := {| sel_plain := false; sel_gz := false; sel_rcur := true; sel_custom := Some cur_infix |} in
  custom_ok_d sel /\ snd (step lxd_x (OQuery sel)) = ObsList 0%N [].
Proof.
  cbv zeta. split; [|vm_compute; reflexivity]. intros i E. exact (number_infix_not_cur i (eq_sym E)).
Qed.

(* custom_ok_d is needed for the oracle (not a defect of the listing): a custom current infix that is the infix of a numbered
   file - here of the file being written - lists that file, as asked; the oracle knows no current infix for this naming *)
Example custom_number_infix_listed_dk :
  let sel := {| sel_plain := false; sel_gz := false; sel_rcur := false; sel_custom := Some (bs "r00005") |} in
  snd (step lxd_x (OQuery sel)) = ObsList 0%N [bs "a_r00005.log"]
  /\ expected_listing sel lxd_c (snap_of lxd_x) = []
  /\ oracle_listing sel lxd_c (snap_of lxd_x) [bs "a_r00005.log"] = false
  /\ ~ custom_ok_d sel.
Proof.
  cbv zeta. split; [vm_compute; reflexivity|]. split; [vm_compute; reflexivity|]. split; [vm_compute; reflexivity|].
  intros H. apply (H 5%N). vm_compute. reflexivity.
Qed.

(* not_gz is needed: with the suffix "log.gz" the closed files are taken for archives by the cleanup and are never compressed
   (NumDCleanup.d_sfx_log_gz_counterexample); the oracle takes ".gz" for the mark of an archive, does not find the suffix
   and rejects the names the writer creates: no name is documented, the expected listing is empty whereas the listing
   returns the three plain files, and the oracle rejects it *)
Example gz_suffix_not_documented_dk :
  let c := exd_kcfg (KGz 2) (Some (bs "log.gz")) in
  let x := fst (run (sys0 0 0) (OStart c :: ex_ops)) in
  ~ not_gz c
  /\ snap_of x = [ (bs "a_r00003.log.gz", 0%N, rec5 3); (bs "a_r00004.log.gz", 0%N, rec5 4); (bs "a_r00005.log.gz", 0%N, rec5 5) ]
  /\ name_documented c [] (bs "a_r00005.log.gz") = false
  /\ snd (step x (OQuery sel_all)) = ObsList 0%N [bs "a_r00005.log.gz"; bs "a_r00004.log.gz"; bs "a_r00003.log.gz"]
  /\ expected_listing sel_all c (snap_of x) = []
  /\ oracle_listing sel_all c (snap_of x) [bs "a_r00005.log.gz"; bs "a_r00004.log.gz"; bs "a_r00003.log.gz"] = false.
Proof. cbv zeta. split; [vm_compute; discriminate|]. vm_compute. repeat split; reflexivity. Qed.
