(* The kill counter.  (1) Worlds with a budget: how each primitive consumes it.  (2) A dead process (kill point
   reached) leaves the file system alone, whatever its configuration and state, in every basic operation. *)
Require Import FL.Base.Bytes FL.Base.BytesFacts FL.Base.PathName FL.Fs.Fs FL.Fs.FsFacts FL.Time.Civil FL.Time.TsFormat
  FL.Names.FileSpec FL.Flw.Model FL.Flw.ModelFacts FL.Flw.Run.
Open Scope nat_scope.

(* ------------------------------------------------------------------ worlds with a budget *)
(* kw q k: the quiet world q with the kill counter at k.  k = S n: n further effects happen.  k = 0: dead. *)
Definition kw (q : world) (k : nat) : world := set_kill q (Some k).

Lemma world_kw w k : wkill w = Some k -> w = kw (set_kill w None) k.
Proof. destruct w; cbn. intros ->. reflexivity. Qed.

(* only `effect` consumes the counter; `tick` (the fault oracle) does not *)
Definition eff (q : world) (k : nat) (g : fs -> fs) : world :=
  match k with
  | 0 | 1 => kw q 0
  | S (S k') => kw (set_fs q (g (wfs q))) (S k')
  end.

Lemma effect_kw q k g : effect (kw q k) g = eff q k g.
Proof. destruct k as [|[|k]]; reflexivity. Qed.

Lemma tick_kw q k : quiet q -> tick (kw q k) = (false, kw q k).
Proof. intros [F _]. unfold tick. cbn [kw set_kill wfaults]. rewrite F. reflexivity. Qed.

Lemma quiet_set_fs q f : quiet q -> quiet (set_fs q f).
Proof. intros [A B]. split; assumption. Qed.

Lemma same_env_set_fs q f : quiet q -> same_env q (set_fs q f).
Proof. intros Q. apply set_fs_env. exact Q. Qed.

Lemma p_write_kw q k i b : quiet q ->
  p_write (kw q k) i b = (true, match b with [] => kw q k | _ => eff q k (fun f => append_ino f i b) end).
Proof.
  intros Q. unfold p_write. destruct b as [|x b]; [reflexivity|]. rewrite tick_kw by assumption. rewrite effect_kw. reflexivity.
Qed.

Lemma p_rename_kw q k a b : quiet q ->
  p_rename (kw q k) a b =
  match rename (wfs q) a b with
  | Some _ => (ROk, eff q k (fun f => match rename f a b with Some f' => f' | None => f end))
  | None => (RNotFound, kw q k)
  end.
Proof.
  intros Q. unfold p_rename. rewrite tick_kw by assumption. cbn [kw set_kill wfs].
  destruct (rename (wfs q) a b); [|reflexivity]. rewrite effect_kw. reflexivity.
Qed.

Lemma p_open_kw q k name append : quiet q ->
  p_open (kw q k) name append =
  if match file_of (wfs q) name with Some fl => fdir fl | None => false end then (None, kw q k)
  else (Some (snd (if append then open_append (wfs q) name (wnow q) else open_trunc (wfs q) name 0%N (wnow q))),
        eff q k (fun f => fst (if append then open_append f name (wnow q) else open_trunc f name 0%N (wnow q)))).
Proof.
  intros Q. unfold p_open. rewrite tick_kw by assumption. cbn [kw set_kill wfs wnow].
  destruct (match file_of (wfs q) name with Some fl => fdir fl | None => false end); [reflexivity|].
  rewrite effect_kw. reflexivity.
Qed.

(* ------------------------------------------------------------------ the dead process *)
Definition dead (w : world) : Prop := wkill w = Some 0 /\ wfaults w = [].
(* w' is dead and has the file system of w *)
Definition frozen (w w' : world) : Prop := dead w' /\ wfs w' = wfs w.

Lemma frozen_refl w : dead w -> frozen w w.
Proof. intros H. split; [exact H | reflexivity]. Qed.
Lemma frozen_trans a b c : frozen a b -> frozen b c -> frozen a c.
Proof. intros [_ F1] [D2 F2]. split; [exact D2 | congruence]. Qed.

Lemma dead_kw q : quiet q -> dead (kw q 0).
Proof. intros [F _]. split; [reflexivity | exact F]. Qed.

Lemma tick_dead w : dead w -> tick w = (false, w).
Proof. intros [_ F]. unfold tick. rewrite F. reflexivity. Qed.
Lemma effect_dead w g : dead w -> effect w g = w.
Proof. intros [K _]. destruct w; cbn in *. subst. reflexivity. Qed.
Lemma effect_link_dead w l : dead w -> effect_link w l = w.
Proof. intros [K _]. destruct w; cbn in *. subst. reflexivity. Qed.
Lemma report_dead e w : dead w -> report e w = w.
Proof. intros [K _]. unfold report. rewrite K. reflexivity. Qed.
Lemma dead_set_acts w n : dead w -> dead (set_acts w n).
Proof. intros H. exact H. Qed.
Lemma dead_set_now w t : dead w -> dead (set_now w t).
Proof. intros H. exact H. Qed.

Lemma p_rename_dead w a b : dead w -> exists r, p_rename w a b = (r, w).
Proof.
  intros H. unfold p_rename. rewrite tick_dead by assumption. destruct (rename (wfs w) a b); [|eauto].
  rewrite effect_dead by assumption. eauto.
Qed.
Lemma p_remove_dead w a : dead w -> exists r, p_remove w a = (r, w).
Proof.
  intros H. unfold p_remove. rewrite tick_dead by assumption. destruct (lookup (wfs w) a); [|eauto].
  rewrite effect_dead by assumption. eauto.
Qed.
Lemma p_open_dead w n a : dead w -> exists r, p_open w n a = (r, w).
Proof.
  intros H. unfold p_open. rewrite tick_dead by assumption.
  destruct (match file_of (wfs w) n with Some fl => fdir fl | None => false end); [eauto|].
  rewrite effect_dead by assumption. eauto.
Qed.
Lemma p_write_dead w i b : dead w -> p_write w i b = (true, w).
Proof.
  intros H. unfold p_write. destruct b; [reflexivity|]. rewrite tick_dead by assumption.
  rewrite effect_dead by assumption. reflexivity.
Qed.

Lemma w_flush_dead w wr : dead w -> exists wr', w_flush w wr = (true, w, wr').
Proof. intros H. unfold w_flush. rewrite p_write_dead by assumption. eauto. Qed.
Lemma w_drop_dead w wr : dead w -> w_drop w wr = w.
Proof. intros H. unfold w_drop. destruct (w_flush_dead w wr H) as [wr' E]. rewrite E. reflexivity. Qed.
Lemma w_write_dead w wr b : dead w -> exists wr', w_write w wr b = (true, w, wr').
Proof.
  intros H. unfold w_write. destruct (wcap wr) as [c|].
  - destruct (Nat.ltb (length b) (c - length (wpend wr))); [eauto|].
    destruct (Nat.ltb (c - length (wpend wr)) (length b)).
    + destruct (w_flush_dead w wr H) as [wr' E]. rewrite E.
      destruct (Nat.leb c (length b)); [rewrite p_write_dead by assumption|]; eauto.
    + destruct (Nat.leb c (length b)); [rewrite p_write_dead by assumption|]; eauto.
  - rewrite p_write_dead by assumption. eauto.
Qed.

Lemma do_symlink_dead c w t : dead w -> do_symlink c w t = w.
Proof.
  intros H. unfold do_symlink. destruct (c_symlink c); [|reflexivity].
  destruct (wlink w) eqn:L.
  - rewrite effect_link_dead by assumption. rewrite L. apply report_dead. assumption.
  - rewrite L. apply effect_link_dead. assumption.
Qed.
Lemma open_log_file_dead c w o : dead w -> exists r, open_log_file c w o = (r, w).
Proof.
  intros H. unfold open_log_file. rewrite do_symlink_dead by assumption.
  destruct (p_open_dead w (name_of c w o) (c_append c) H) as [r E]. rewrite E. destruct r; eauto.
Qed.

Lemma compress_file_dead w n : dead w -> exists r, compress_file w n = (r, w).
Proof.
  intros H. unfold compress_file.
  repeat (rewrite ?(tick_dead w H); rewrite ?(effect_dead w _ H)).
  destruct (match file_of (wfs w) (gz_name n) with Some fl => fdir fl | None => false end); [eauto|].
  repeat (rewrite ?(tick_dead w H); rewrite ?(effect_dead w _ H)).
  destruct (lookup (wfs w) n); [|eauto].
  repeat (progress (rewrite ?(tick_dead w H); rewrite ?(effect_dead w _ H))).
  apply p_remove_dead. assumption.
Qed.

Lemma cleanup_loop_dead w : dead w -> forall files index ll total cur, exists r, cleanup_loop w files index ll total cur = (r, w).
Proof.
  intros H. induction files as [|n r IH]; intros index ll total cur; cbn [cleanup_loop]; [eauto|].
  destruct (match cur with Some p => beq p n | None => false end); [apply IH|].
  destruct (Nat.leb total index).
  - destruct (p_remove_dead w n H) as [ok E]. rewrite E. destruct ok; [apply IH | eauto].
  - destruct (Nat.leb ll index); [|apply IH].
    destruct (compress_file_dead w n H) as [ok E].
    destruct (extension n) as [e|].
    + destruct (beq e gz_sfx); [apply IH|]. rewrite E. destruct ok; [apply IH | eauto].
    + rewrite E. destruct ok; [apply IH | eauto].
Qed.

Lemma remove_redundant_dead w : dead w -> forall red files, exists ok fl, remove_redundant w red files = (ok, w, fl).
Proof.
  intros H. induction red as [|n r IH]; intros files; cbn [remove_redundant]; [eauto|].
  destruct (p_remove_dead w n H) as [ok E]. rewrite E. destruct ok; [apply IH | eauto].
Qed.

Lemma cleanup_impl_dead c w k flt d : dead w -> exists r, cleanup_impl c w k flt d = (r, w).
Proof.
  intros H. unfold cleanup_impl.
  assert (X : forall ll cl, exists r,
    (let ll := if match d with Some _ => true | None => false end && Nat.eqb ll 0 then 1 else ll in
     let '(fl, w1) := tick w in
     if fl then (Err, w1) else
     match list_log_gz (woff w1) (c_spec c) (fixed_of c w1) (wfs w1) flt with
     | None => (Panic, w1)
     | Some files =>
       let '(ok0, w1', files') := remove_redundant w1 (redundant_gz files) files in
       if negb ok0 then (Err, w1') else
       let '(ok, w2) := cleanup_loop w1' files' 0 ll (ll + cl) d in
       ((if ok then Ok tt else Err), w2)
     end) = (r, w)).
  { intros ll cl. cbn zeta. rewrite tick_dead by assumption.
    destruct (list_log_gz (woff w) (c_spec c) (fixed_of c w) (wfs w) flt) as [files|]; [|eauto].
    destruct (remove_redundant_dead w H (redundant_gz files) files) as [ok0 [fl E0]]. rewrite E0.
    destruct ok0; cbn [negb]; [|eauto].
    match goal with |- context [cleanup_loop w fl 0 ?a ?b d] => destruct (cleanup_loop_dead w H fl 0 a b d) as [ok E1] end.
    rewrite E1. eauto. }
  destruct k as [|a|b|a b]; [eauto | apply X | apply X | apply X].
Qed.

Lemma cleanup_or_queue_frozen c w bg k flt d : dead w ->
  exists r w', cleanup_or_queue c w bg k flt d = (r, w') /\ frozen w w'.
Proof.
  intros H. unfold cleanup_or_queue. destruct (cleanup_impl_dead c w k flt d H) as [r E].
  destruct bg.
  - destruct k as [|a|b|a b]; [eexists _, _; split; [reflexivity | apply frozen_refl; assumption]| | |].
    all: destruct (Nat.eqb (wacts w) 1); [eexists _, _; split; [reflexivity | apply frozen_refl; assumption]|].
    all: rewrite E; destruct r; eexists _, _; (split; [reflexivity|]); split; try reflexivity; try assumption.
  - rewrite E. eexists _, _. split; [reflexivity | apply frozen_refl; assumption].
Qed.

Lemma with_listing_dead {A} w (g : world -> option A) : dead w -> exists r, with_listing w g = (r, w).
Proof. intros H. unfold with_listing. rewrite tick_dead by assumption. destruct (g w); eauto. Qed.

Lemma index_for_rcurrent_dead c w o rot : dead w -> exists r, index_for_rcurrent c w o rot = (r, w).
Proof.
  intros H. unfold index_for_rcurrent.
  assert (X : forall idx, exists r,
    (if rot then
      let '(r, w1) := p_rename w (name_of c w (Some cur_infix)) (name_of c w (Some (number_infix idx))) in
      match r with ROk => (Ok (idx + 1)%N, w1) | RNotFound => (Ok idx, w1) | RErr => (Err, w1) end
     else (Ok idx, w)) = (r, w)).
  { intros idx. destruct rot; [|eauto].
    destruct (p_rename_dead w (name_of c w (Some cur_infix)) (name_of c w (Some (number_infix idx))) H) as [r E].
    rewrite E. destruct r; eauto. }
  destruct o as [i|]; [apply X|].
  match goal with |- context [with_listing w ?g] => destruct (with_listing_dead w g H) as [r E]; rewrite E end.
  destruct r; [apply X | eauto | eauto].
Qed.

Lemma collision_free_dead c w i : dead w -> exists r, collision_free c w i = (r, w).
Proof.
  intros H. unfold collision_free. rewrite !tick_dead by assumption.
  destruct (collision_free_infix (woff w) (c_spec c) (fixed_of c w) (wfs w) i) as [[x|]|]; eauto.
Qed.

Lemma creation_ts_dead c w cur rot od fmt : dead w -> exists r, creation_ts_of_current c w cur rot od fmt = (r, w).
Proof.
  intros H. unfold creation_ts_of_current. destruct rot; [|eauto].
  match goal with |- context [collision_free c w ?i] => destruct (collision_free_dead c w i H) as [r E]; rewrite E end.
  destruct r as [infix| |]; [|eauto|eauto].
  match goal with |- context [p_rename w ?a ?b] => destruct (p_rename_dead w a b H) as [rr E2]; rewrite E2 end.
  destruct rr; eauto.
Qed.

Lemma latest_ts_dead c w rot fmt : dead w -> exists r, latest_timestamp_file c w rot fmt = (r, w).
Proof. intros H. unfold latest_timestamp_file. destruct rot; [eauto|]. apply with_listing_dead. assumption. Qed.

Lemma roll_new_dead w crit app path : dead w -> exists r, roll_new w crit app path = (r, w).
Proof.
  intros H. unfold roll_new. destruct app.
  - rewrite tick_dead by assumption. destruct (file_of (wfs w) path); eauto.
  - eauto.
Qed.

Lemma init_naming_dead c w n : dead w -> exists r, init_naming c w n = (r, w).
Proof.
  intros H. unfold init_naming.
  assert (X1 : forall fmt, exists r,
    bind (latest_timestamp_file c w (negb (c_append c)) fmt)
         (fun ts w1 =>
            let infix := infix_from_ts c w1 fmt ts in
            bind (collision_free c w1 infix)
                 (fun next w2 =>
                    if c_append c then
                      match newest_of_next infix next with
                      | None => (Ok (NSTs ts None fmt, next), w2)
                      | Some newest =>
                        match lookup (wfs w2) (name_of c w2 (Some newest)) with
                        | Some _ => (Ok (NSTs ts None fmt, newest), w2)
                        | None => (Ok (NSTs ts None fmt, next), w2)
                        end
                      end
                    else (Ok (NSTs ts None fmt, next), w2))) = (r, w)).
  { intros fmt. destruct (latest_ts_dead c w (negb (c_append c)) fmt H) as [r E]. rewrite E.
    destruct r as [ts| |]; cbn [bind]; [|eauto|eauto].
    destruct (collision_free_dead c w (infix_from_ts c w fmt ts) H) as [r2 E2]. rewrite E2.
    destruct r2 as [next| |]; cbn [bind]; [|eauto|eauto].
    destruct (c_append c); [|eauto].
    destruct (newest_of_next (infix_from_ts c w fmt ts) next) as [nw|]; [|eauto].
    destruct (lookup (wfs w) (name_of c w (Some nw))); eauto. }
  assert (X2 : forall cur fmt, exists r,
    bind (creation_ts_of_current c w cur (negb (c_append c)) None fmt)
         (fun ts w1 => (Ok (NSTs ts (Some cur) fmt, cur), w1)) = (r, w)).
  { intros cur fmt. destruct (creation_ts_dead c w cur (negb (c_append c)) None fmt H) as [r E]. rewrite E.
    destruct r; cbn [bind]; eauto. }
  destruct n as [| |[cur|] fmt| |]; try apply X1; try apply X2.
  - destruct (index_for_rcurrent_dead c w None (negb (c_append c)) H) as [r E]. rewrite E. destruct r; cbn [bind]; eauto.
  - match goal with |- context [with_listing w ?g] => destruct (with_listing_dead w g H) as [r E]; rewrite E end.
    destruct r; cbn [bind]; eauto.
Qed.

Lemma initialize_frozen c w : dead w -> exists r w', initialize c w = (r, w') /\ frozen w w'.
Proof.
  intros H. unfold initialize. destruct (c_rot c) as [[[crit nam] k]|].
  - destruct (init_naming_dead c w nam H) as [r E]. rewrite E.
    destruct r as [[ns infix]| |]; cbn [bind]; [|eexists _, _; split; [reflexivity | apply frozen_refl; assumption]..].
    destruct (open_log_file_dead c w (Some infix) H) as [r2 E2]. rewrite E2.
    destruct r2 as [[wr path]| |]; cbn [bind]; [|eexists _, _; split; [reflexivity | apply frozen_refl; assumption]..].
    destruct (roll_new_dead w crit (c_append c) path H) as [r3 E3]. rewrite E3.
    destruct r3 as [roll| |]; cbn [bind]; [|eexists _, _; split; [reflexivity | apply frozen_refl; assumption]..].
    assert (X : exists r4, match k with KNever => (Ok tt, w) | _ => cleanup_impl c w k (ns_filter ns) (if naming_writes_direct nam then Some path else None) end = (r4, w)).
    { destruct (cleanup_impl_dead c w k (ns_filter ns) (if naming_writes_direct nam then Some path else None) H) as [r4 E4]. destruct k; eauto. }
    destruct X as [r4 E4]. rewrite E4.
    destruct r4; cbn [bind]; [|eexists _, _; split; [reflexivity | apply frozen_refl; assumption]..].
    eexists _, _. split; [reflexivity|].
    destruct (match k with KNever => false | _ => c_bg c end); [|apply frozen_refl; assumption].
    split; [exact H | reflexivity].
  - destruct (open_log_file_dead c w None H) as [r E]. rewrite E.
    destruct r; cbn [bind]; eexists _, _; (split; [reflexivity | apply frozen_refl; assumption]).
Qed.

Lemma mount_next_frozen c w st force : dead w -> exists r w' st', mount_next c w st force = (r, w', st') /\ frozen w w'.
Proof.
  intros H. unfold mount_next.
  destruct st as [|[rs|] wr path]; try (eexists _, _, _; split; [reflexivity | apply frozen_refl; assumption]).
  destruct (force || rotation_necessary w (rs_roll rs)); [|eexists _, _, _; split; [reflexivity | apply frozen_refl; assumption]].
  (* what follows the naming step *)
  assert (T : forall (r : res bytes) ns1, exists r' w' st',
    match r with
    | Ok infix =>
      match open_log_file c w (Some infix) with
      | (Ok (wr', path'), w2) =>
        let '(okf, w2a, wra) := w_flush w2 wr in
        let w2b := if okf then w2a else report EFlush w2a in
        let w3 := w_drop w2b wra in
        let roll' := reset_size_and_date w3 (rs_roll rs) path' in
        let '(rc, w4) := cleanup_or_queue c w3 (rs_bg rs) (rs_cleanup rs) (ns_filter ns1) (if ns_writes_direct ns1 then Some path' else None) in
        let st' := Active (Some {| rs_naming := ns1; rs_roll := roll'; rs_cleanup := rs_cleanup rs; rs_bg := rs_bg rs |}) wr' path' in
        (match rc with Ok _ => Ok tt | Err => Err | Panic => Panic end, w4, st')
      | (Err, w2) => (Err, w2, Active (Some {| rs_naming := ns1; rs_roll := rs_roll rs; rs_cleanup := rs_cleanup rs; rs_bg := rs_bg rs |}) wr path)
      | (Panic, w2) => (Panic, w2, Active (Some {| rs_naming := ns1; rs_roll := rs_roll rs; rs_cleanup := rs_cleanup rs; rs_bg := rs_bg rs |}) wr path)
      end
    | Err => (Err, w, Active (Some {| rs_naming := ns1; rs_roll := rs_roll rs; rs_cleanup := rs_cleanup rs; rs_bg := rs_bg rs |}) wr path)
    | Panic => (Panic, w, Active (Some {| rs_naming := ns1; rs_roll := rs_roll rs; rs_cleanup := rs_cleanup rs; rs_bg := rs_bg rs |}) wr path)
    end = (r', w', st') /\ frozen w w').
  { intros r ns1.
    destruct r as [infix| |]; try (eexists _, _, _; split; [reflexivity | apply frozen_refl; assumption]).
    destruct (open_log_file_dead c w (Some infix) H) as [r2 E2]. rewrite E2.
    destruct r2 as [[wr' path']| |]; try (eexists _, _, _; split; [reflexivity | apply frozen_refl; assumption]).
    destruct (w_flush_dead w wr H) as [wra Ef]. rewrite Ef. cbv beta iota zeta. rewrite w_drop_dead by assumption.
    destruct (cleanup_or_queue_frozen c w (rs_bg rs) (rs_cleanup rs) (ns_filter ns1) (if ns_writes_direct ns1 then Some path' else None) H) as [rc [w4 [Ec F4]]].
    rewrite Ec. eexists _, _, _. split; [reflexivity | exact F4]. }
  destruct (rs_naming rs) as [ts [cur|] fmt|idx|idx].
  - destruct (creation_ts_dead c w cur true (Some ts) fmt H) as [r E]. rewrite E.
    destruct r as [a| |]; [exact (T (Ok cur) (NSTs a (Some cur) fmt)) | exact (T Err (NSTs ts (Some cur) fmt)) | exact (T Panic (NSTs ts (Some cur) fmt))].
  - destruct (collision_free_dead c w (infix_from_ts c w fmt (wnow w)) H) as [r E]. rewrite E.
    destruct r as [a| |]; [exact (T (Ok a) (NSTs (wnow w) None fmt)) | exact (T Err (NSTs (wnow w) None fmt)) | exact (T Panic (NSTs (wnow w) None fmt))].
  - destruct (index_for_rcurrent_dead c w (Some idx) true H) as [r E]. rewrite E.
    destruct r as [a| |]; [exact (T (Ok cur_infix) (NSNumR a)) | exact (T Err (NSNumR idx)) | exact (T Panic (NSNumR idx))].
  - exact (T (Ok (number_infix (idx + 1))) (NSNumD (idx + 1))).
Qed.

Lemma flush_state_dead s w : dead w -> exists ok s', flush_state s w = (ok, w, s').
Proof.
  intros H. unfold flush_state. destruct (f_inner s) as [|o wr p]; [eauto|].
  destruct (w_flush_dead w wr H) as [wr' E]. rewrite E. eauto.
Qed.

Lemma write_buffer_frozen s w b : dead w -> exists r w' s' rot, write_buffer s w b = (r, w', s', rot) /\ frozen w w'.
Proof.
  intros H. unfold write_buffer.
  (* what follows the initialisation *)
  assert (T : forall (r0 : res unit) w0 st0, frozen w w0 -> exists r w' s' rot,
    match r0 with
    | Ok _ =>
      let rotating := match st0 with
                      | Active (Some rs) _ _ => rotation_necessary w0 (rs_roll rs)
                      | _ => false end in
      let '(r1, w1, st1) := mount_next (f_cfg s) w0 st0 false in
      match r1 with
      | Panic => (Panic, w1, poison (with_inner s st1), rotating)
      | _ =>
        let w2 := match r1 with Err => report ELogFile w1 | _ => w1 end in
        match st1 with
        | Active o_rot wr path =>
          let '(ok, w3, wr') := w_write w2 wr b in
          if ok then
            let o_rot' := match o_rot with
                          | Some rs => Some {| rs_naming := rs_naming rs; rs_roll := increase_size (rs_roll rs) (N.of_nat (length b));
                                               rs_cleanup := rs_cleanup rs; rs_bg := rs_bg rs |}
                          | None => None end in
            (Ok tt, w3, with_inner s (Active o_rot' wr' path), rotating)
          else (Err, w3, with_inner s (Active o_rot wr' path), rotating)
        | Initial => (Ok tt, w2, with_inner s st1, rotating)
        end
      end
    | Err => (Err, w0, with_inner s st0, false)
    | Panic => (Panic, w0, poison (with_inner s st0), false)
    end = (r, w', s', rot) /\ frozen w w').
  { intros r0 w0 st0 F0. pose proof (proj1 F0) as H0.
    destruct r0; try (eexists _, _, _, _; split; [reflexivity | exact F0]).
    destruct (mount_next_frozen (f_cfg s) w0 st0 false H0) as [r1 [w1 [st1 [E1 F1]]]]. rewrite E1. cbn zeta.
    pose proof (proj1 F1) as H1. pose proof (frozen_trans _ _ _ F0 F1) as F01.
    destruct r1; try (eexists _, _, _, _; split; [reflexivity | exact F01]).
    - destruct st1 as [|o wr p]; [eexists _, _, _, _; split; [reflexivity | exact F01]|].
      destruct (w_write_dead w1 wr b H1) as [wr' Ew]. rewrite Ew. eexists _, _, _, _; split; [reflexivity | exact F01].
    - rewrite report_dead by assumption.
      destruct st1 as [|o wr p]; [eexists _, _, _, _; split; [reflexivity | exact F01]|].
      destruct (w_write_dead w1 wr b H1) as [wr' Ew]. rewrite Ew. eexists _, _, _, _; split; [reflexivity | exact F01]. }
  destruct (f_inner s) as [|o wr p].
  - destruct (initialize_frozen (f_cfg s) w H) as [r [w' [E F]]]. rewrite E.
    destruct r as [i| |]; [exact (T (Ok tt) w' i F) | exact (T Err w' Initial F) | exact (T Panic w' Initial F)].
  - exact (T (Ok tt) w (Active o wr p) (frozen_refl w H)).
Qed.

Lemma shutdown_state_dead s w : dead w -> exists s', shutdown_state s w = (w, s').
Proof.
  intros H. unfold shutdown_state, drain_acts. destruct (f_inner s) as [|o wr p]; [eauto|].
  destruct (w_flush_dead w wr H) as [wr' E]. rewrite E. eauto.
Qed.

(* ------------------------------------------------------------------ one basic operation of a dead process *)
Definition kbasic_op (o : op) : Prop :=
  match o with OWrite _ | OPlain _ | OFlush | OTrigger | OTick _ | OSnap => True | _ => False end.

Lemma sync_step_dead x o : dead (s_w x) -> kbasic_op o -> frozen (s_w x) (s_w (fst (sync_step x o))).
Proof.
  intros H Ho. destruct o; try contradiction; cbn [sync_step].
  - destruct (s_flw x) as [s|]; [|apply frozen_refl; assumption].
    destruct (f_poisoned s); [apply frozen_refl; assumption|].
    destruct (write_buffer_frozen s (s_w x) (s_tl x ++ b) H) as [r [w' [s' [rot [E F]]]]]. rewrite E. cbn [fst s_w].
    destruct r; try exact F. rewrite report_dead by apply F. exact F.
  - destruct (s_flw x) as [s|]; [|apply frozen_refl; assumption].
    destruct (f_poisoned s); [apply frozen_refl; assumption|].
    destruct (write_buffer_frozen s (s_w x) b H) as [r [w' [s' [rot [E F]]]]]. rewrite E. exact F.
  - destruct (s_flw x) as [s|]; [|apply frozen_refl; assumption].
    destruct (f_poisoned s); [apply frozen_refl; assumption|].
    destruct (flush_state_dead s (s_w x) H) as [ok [s' E]]. rewrite E. apply frozen_refl; assumption.
  - destruct (s_flw x) as [s|]; [|apply frozen_refl; assumption].
    destruct (f_poisoned s); [apply frozen_refl; assumption|].
    destruct (mount_next_frozen (f_cfg s) (s_w x) (f_inner s) true H) as [r [w' [st' [E F]]]]. rewrite E. exact F.
  - cbn [fst s_w]. split; [exact H | reflexivity].
  - apply frozen_refl; assumption.
Qed.

Lemma async_consume_dead x s m : dead (s_w x) -> frozen (s_w x) (s_w (async_consume x s m)).
Proof.
  intros H. unfold async_consume. destruct m.
  - destruct (write_buffer_frozen s (s_w x) b H) as [r [w' [s' [rot [E F]]]]]. rewrite E. cbn [s_w].
    destruct r; try exact F. rewrite report_dead by apply F. exact F.
  - destruct (flush_state_dead s (s_w x) H) as [ok [s' E]]. rewrite E. cbn [s_w].
    destruct ok; [|rewrite report_dead by assumption]; apply frozen_refl; assumption.
  - destruct (shutdown_state_dead s (s_w x) H) as [s' E]. rewrite E. apply frozen_refl; assumption.
Qed.

Lemma async_send_dead x s m cd : dead (s_w x) -> frozen (s_w x) (s_w (fst (async_send x s m cd))).
Proof.
  intros H. unfold async_send. destruct (s_dead x); [apply frozen_refl; assumption|].
  destruct (f_poisoned s); [apply frozen_refl; assumption|]. apply async_consume_dead. assumption.
Qed.

(* C11 on the level of operations: whatever the writer is (any configuration, any state, synchronous or not), a basic
   operation of a dead process leaves the file system as it is, and the process stays dead *)
Theorem dead_step x o : dead (s_w x) -> kbasic_op o -> frozen (s_w x) (s_w (fst (step x o))).
Proof.
  intros H Ho. unfold step.
  assert (EA : s_w (apply_start x o) = s_w x).
  { unfold apply_start. destruct (s_flw x) as [s|]; [|reflexivity]. destruct (names_computed o && negb (f_poisoned s)); reflexivity. }
  set (y := apply_start x o) in *. rewrite <- EA in *. clearbody y.
  unfold step_core. destruct (s_flw y) as [s|] eqn:Es; [|apply sync_step_dead; assumption].
  destruct (is_async s); [|apply sync_step_dead; assumption].
  destruct o; try contradiction; cbn [async_step]; try (apply sync_step_dead; assumption); apply async_send_dead; assumption.
Qed.

Lemma dead_run : forall ops x, dead (s_w x) -> Forall kbasic_op ops -> frozen (s_w x) (s_w (fst (run x ops))).
Proof.
  induction ops as [|o r IH]; intros x H Hb; [apply frozen_refl; assumption|].
  inversion Hb as [|o' r' Ho Hr]; subst. cbn [run].
  pose proof (dead_step x o H Ho) as F1. destruct (step x o) as [x1 ob]. cbn [fst] in F1.
  specialize (IH x1 (proj1 F1) Hr). destruct (run x1 r) as [x2 obs]. cbn [fst] in *.
  exact (frozen_trans _ _ _ F1 IH).
Qed.

(* the part of write_buffer that follows the rotation check, when the process has died in it *)
Lemma wb_tail_dead (s : flw) (b : bytes) (r1 : res unit) (w1 : world) (st1 : inner) (rotating : bool) : dead w1 ->
  exists r s',
    match r1 with
    | Panic => (Panic, w1, poison (with_inner s st1), rotating)
    | _ =>
      let w2 := match r1 with Err => report ELogFile w1 | _ => w1 end in
      match st1 with
      | Active o_rot wr path =>
        let '(ok, w3, wr') := w_write w2 wr b in
        if ok then
          let o_rot' := match o_rot with
                        | Some rs => Some {| rs_naming := rs_naming rs; rs_roll := increase_size (rs_roll rs) (N.of_nat (length b));
                                             rs_cleanup := rs_cleanup rs; rs_bg := rs_bg rs |}
                        | None => None end in
          (Ok tt, w3, with_inner s (Active o_rot' wr' path), rotating)
        else (Err, w3, with_inner s (Active o_rot wr' path), rotating)
      | Initial => (Ok tt, w2, with_inner s st1, rotating)
      end
    end = (r, w1, s', rotating).
Proof.
  intros H. destruct r1; [| |eauto].
  - cbv zeta. destruct st1 as [|o wr p]; [eauto|].
    destruct (w_write_dead w1 wr b H) as [wr' Ew]. rewrite Ew. eauto.
  - cbv zeta. rewrite report_dead by assumption. destruct st1 as [|o wr p]; [eauto|].
    destruct (w_write_dead w1 wr b H) as [wr' Ew]. rewrite Ew. eauto.
Qed.

(* the first write of a writer whose initialisation was killed *)
Lemma wb_initial_dead s w b r0 w0 : f_inner s = Initial -> initialize (f_cfg s) w = (r0, w0) -> dead w0 ->
  exists r w' s' rot, write_buffer s w b = (r, w', s', rot) /\ frozen w0 w'.
Proof.
  intros Hi E H0. unfold write_buffer. rewrite Hi, E.
  destruct r0 as [i| |]; try (eexists _, _, _, _; split; [reflexivity | apply frozen_refl; assumption]).
  cbv beta iota zeta.
  destruct (mount_next_frozen (f_cfg s) w0 i false H0) as [r1 [w1 [st1 [E1 F1]]]]. rewrite E1.
  destruct (wb_tail_dead s b r1 w1 st1 (match i with Active (Some rs) _ _ => rotation_necessary w0 (rs_roll rs) | _ => false end) (proj1 F1))
    as [r [s' ET]].
  eexists _, _, _, _. split; [exact ET | exact F1].
Qed.

Lemma dead_not_alive w : dead w -> alive w = false.
Proof. intros [K _]. unfold alive. rewrite K. reflexivity. Qed.

Print Assumptions dead_step.
