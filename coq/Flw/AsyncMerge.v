(* C03 for the ASYNCHRONOUS file writer, and for the synchronous writer with the other three naming schemes.

   Several threads log concurrently.  Thread t has the records  nth t ts  to log, in this order.

   ASYNCHRONOUS writer (WriteMode::Async): a log call formats the record and SENDS it into the FIFO channel
   (crossbeam, unbounded); the writer thread RECEIVES the messages one after the other and executes
   State::write_buffer for each (Run.async_consume; for a running, unpoisoned writer this is what
   `step x (OWrite b)` does: NumAsync.step_async_basic).  The channel serialises the sends: one send is one atomic
   step.  A schedule is therefore a list of events
       ESend t    thread t sends its next record (ignored when thread t has nothing left)
       EConsume   the writer thread takes the oldest message out of the channel and writes it (ignored when the
                  channel is empty).
   Run.v itself lets every message be consumed before the next operation starts; the schedules here are MORE
   general: the writer thread may lag behind arbitrarily.  Dropping the writer sends the shutdown message behind
   everything that is in the channel: the writer thread works off what is left, then shuts down (cfinish).

   sent ts evs = (m, rest): m is the order in which the records entered the channel - the interleaving that the
   schedule defines -, rest is what the threads have not sent.

   async_schedule_run: for EVERY configuration, threads and schedule, the system after the schedule and the drop is
   the system after the sequential history  OStart c :: map OWrite m ++ [OStop].
   sent_merge: when all threads have finished, m is an interleaving of the threads' sequences (O_Merge.Merge: every
   record exactly once, intact, each thread's records in their order).
   Hence with the stream theorems of NumAsync / NumDAsync / TsdAsync / TsAsync: the files hold exactly concat m
   (async_merge_numbers, async_merge_numbersdirect, async_merge_timestampsdirect, async_merge_timestamps).

   SYNCHRONOUS writer: the state mutex serialises the write_buffer calls; a schedule is the list of the threads in
   the order in which they get the lock (sync_schedule_run; the sync_merge theorems). *)
Require Import FL.Base.Bytes FL.Base.BytesFacts FL.Base.PathName FL.Fs.Fs FL.Fs.FsFacts FL.Time.Civil FL.Time.TsFormat
  FL.Names.FileSpec FL.Names.NamesFacts FL.Flw.Model FL.Flw.ModelFacts FL.Flw.NumFs FL.Flw.NumInv FL.Flw.Run FL.Flw.RunFacts
  FL.Flw.NumRun FL.Oracles.O_Flw FL.Oracles.O_Merge FL.Flw.NumTheorems FL.Flw.NumCfg0 FL.Flw.NumAsync
  FL.Flw.NumDInv FL.Flw.NumDRun FL.Flw.NumDTheorems
  FL.Flw.TsCal FL.Flw.TsTime FL.Flw.TsNames FL.Flw.TsInv FL.Flw.TsRun FL.Flw.TsTheorems
  FL.Flw.TsdInv FL.Flw.TsdRun FL.Flw.TsdTheorems
  FL.Flw.AsyncSim FL.Flw.AsyncTransfer FL.Flw.NumDAsync FL.Flw.TsdAsync FL.Flw.TsAsync.
From Coq Require Import ZifyN ZifyNat ZifyBool Permutation.
Open Scope nat_scope.

(* ------------------------------------------------------------------ threads and schedules *)
Definition threads := list (list bytes).

Fixpoint tupd (ts : threads) (t : nat) (r : list bytes) : threads :=
  match ts, t with
  | [], _ => []
  | _ :: rest, O => r :: rest
  | y :: rest, S k => y :: tupd rest k r
  end.

(* the next record of thread t, and the threads after it has been taken *)
Definition next_of (ts : threads) (t : nat) : option (bytes * threads) :=
  match nth_error ts t with
  | Some (x :: r) => Some (x, tupd ts t r)
  | _ => None
  end.

Definition all_done (ts : threads) : bool := forallb (fun t => match t with [] => true | _ => false end) ts.

Lemma next_of_spec : forall ts t x ts', next_of ts t = Some (x, ts') ->
  exists ts1 r ts2, ts = ts1 ++ (x :: r) :: ts2 /\ ts' = ts1 ++ r :: ts2.
Proof.
  unfold next_of. induction ts as [|y rest IH]; intros t x ts' H; [destruct t; discriminate|].
  destruct t as [|k]; cbn [nth_error tupd] in H.
  - destruct y as [|x0 r]; [discriminate|]. injection H as <- <-. exists [], r, rest. split; reflexivity.
  - destruct (nth_error rest k) as [[|x0 r]|] eqn:E; try discriminate. injection H as <- <-.
    destruct (IH k x0 (tupd rest k r)) as [ts1 [r' [ts2 [E1 E2]]]]; [rewrite E; reflexivity|].
    exists (y :: ts1), r', ts2. cbn [app]. rewrite <- E1, <- E2. split; reflexivity.
Qed.

Lemma all_done_spec ts : all_done ts = true -> Forall (fun t => t = []) ts.
Proof.
  unfold all_done. intros H. apply Forall_forall. intros t Ht. rewrite forallb_forall in H. specialize (H t Ht).
  destruct t; [reflexivity | discriminate].
Qed.

(* ------------------------------------------------------------------ the asynchronous writer under a schedule *)
Inductive ev := ESend (t : nat) | EConsume.

(* the order in which the records enter the channel, and what the threads have left *)
Fixpoint sent (ts : threads) (evs : list ev) : list bytes * threads :=
  match evs with
  | [] => ([], ts)
  | ESend t :: r =>
    match next_of ts t with
    | Some (x, ts') => let '(m, tf) := sent ts' r in (x :: m, tf)
    | None => sent ts r
    end
  | EConsume :: r => sent ts r
  end.

(* when the threads have finished, the order of the sends is an interleaving of the threads' sequences *)
Theorem sent_merge : forall evs ts m tf, sent ts evs = (m, tf) -> all_done tf = true -> Merge ts m.
Proof.
  induction evs as [|e r IH]; intros ts m tf H D; cbn [sent] in H.
  - injection H as <- <-. apply merge_done. apply all_done_spec. exact D.
  - destruct e as [t|]; [|exact (IH ts m tf H D)].
    destruct (next_of ts t) as [[x ts']|] eqn:En; [|exact (IH ts m tf H D)].
    destruct (sent ts' r) as [m' tf'] eqn:Es. injection H as <- <-.
    destruct (next_of_spec ts t x ts' En) as [ts1 [r' [ts2 [-> ->]]]].
    apply merge_step. exact (IH _ m' tf' Es D).
Qed.

(* the system: the writer (with its state, the world), the channel, the threads *)
Record cst := { c_sys : sys; c_chan : list bytes; c_thr : threads }.

Definition cstep (st : cst) (e : ev) : cst :=
  match e with
  | ESend t =>
    match next_of (c_thr st) t with
    | Some (x, ts') => {| c_sys := c_sys st; c_chan := c_chan st ++ [x]; c_thr := ts' |}
    | None => st
    end
  | EConsume =>
    match c_chan st with
    | b :: q => {| c_sys := fst (step (c_sys st) (OWrite b)); c_chan := q; c_thr := c_thr st |}
    | [] => st
    end
  end.
Definition cexec (st : cst) (evs : list ev) : cst := fold_left cstep evs st.

(* the writer is dropped: the shutdown message queues behind what is in the channel *)
Definition cfinish (st : cst) : sys := fst (run (c_sys st) (List.map OWrite (c_chan st) ++ [OStop])).

(* the whole concurrent history: start the writer, let the threads and the writer thread run as the schedule says,
   drop the writer *)
Definition async_conc (c : config) (t0 off : Z) (ts : threads) (evs : list ev) : sys :=
  cfinish (cexec {| c_sys := fst (step (sys0 t0 off) (OStart c)); c_chan := []; c_thr := ts |} evs).

Lemma run_fst_app ops1 ops2 x : fst (run x (ops1 ++ ops2)) = fst (run (fst (run x ops1)) ops2).
Proof. rewrite run_app. destruct (run x ops1) as [x1 o1]. cbn [fst]. destruct (run x1 ops2). reflexivity. Qed.

Lemma run_fst_cons o ops x : fst (run x (o :: ops)) = fst (run (fst (step x o)) ops).
Proof. cbn [run]. destruct (step x o) as [x1 ob]. cbn [fst]. destruct (run x1 ops). reflexivity. Qed.
Lemma run_fst_one o x : fst (run x [o]) = fst (step x o).
Proof. rewrite run_fst_cons. reflexivity. Qed.

Lemma cexec_run : forall evs st,
  let st' := cexec st evs in
  c_thr st' = snd (sent (c_thr st) evs)
  /\ exists done, c_sys st' = fst (run (c_sys st) (List.map OWrite done))
       /\ c_chan st ++ fst (sent (c_thr st) evs) = done ++ c_chan st'.
Proof.
  induction evs as [|e r IH]; intros st; cbn [cexec fold_left sent].
  - cbn [fst snd]. split; [reflexivity|]. exists []. split; [reflexivity|]. rewrite app_nil_r. reflexivity.
  - fold (cexec (cstep st e) r). specialize (IH (cstep st e)). cbv zeta in IH. destruct IH as [IH1 [done [IH2 IH3]]].
    destruct e as [t|]; cbn [cstep] in *.
    + destruct (next_of (c_thr st) t) as [[x ts']|] eqn:En; cbn [c_sys c_chan c_thr] in *.
      * destruct (sent ts' r) as [m tf] eqn:Es. cbn [fst snd] in *. split; [exact IH1|]. exists done. split; [exact IH2|].
        rewrite <- IH3, <- app_assoc. reflexivity.
      * split; [exact IH1|]. exists done. split; assumption.
    + destruct (c_chan st) as [|b q] eqn:Ec; cbn [c_sys c_chan c_thr] in *.
      * rewrite Ec in *. split; [exact IH1|]. exists done. split; assumption.
      * split; [exact IH1|]. exists (b :: done). split.
        -- rewrite IH2. cbn [List.map run]. destruct (step (c_sys st) (OWrite b)) as [x1 ob]. cbn [fst].
           destruct (run x1 (List.map OWrite done)) as [x2 obs]. reflexivity.
        -- cbn [app]. rewrite IH3. reflexivity.
Qed.

(* EVERY configuration: the concurrent history under any schedule ends in the same system as the sequential
   history of the records in the order in which they entered the channel *)
Theorem async_schedule_run c t0 off ts evs :
  async_conc c t0 off ts evs = fst (run (sys0 t0 off) (OStart c :: List.map OWrite (fst (sent ts evs)) ++ [OStop])).
Proof.
  unfold async_conc, cfinish.
  destruct (cexec_run evs {| c_sys := fst (step (sys0 t0 off) (OStart c)); c_chan := []; c_thr := ts |}) as [_ [done [E1 E2]]].
  cbn [c_sys c_chan c_thr app] in E1, E2. rewrite E1, E2, map_app, <- app_assoc.
  rewrite <- run_fst_app, run_fst_cons. reflexivity.
Qed.

(* ------------------------------------------------------------------ histories of log calls *)
Lemma basic_writes m : Forall basic_op (List.map OWrite m).
Proof. apply Forall_forall. intros o Ho. apply in_map_iff in Ho. destruct Ho as [b [<- _]]. exact Logic.I. Qed.
Lemma tick_ok_writes m : Forall tick_ok (List.map OWrite m).
Proof. apply Forall_forall. intros o Ho. apply in_map_iff in Ho. destruct Ho as [b [<- _]]. exact Logic.I. Qed.
Lemma written_writes m : written (List.map OWrite m) = concat m.
Proof. induction m as [|b m IH]; [reflexivity|]. cbn [List.map written concat]. rewrite IH. reflexivity. Qed.
Lemma elapsed_writes m : elapsed (List.map OWrite m) = 0%Z.
Proof. induction m as [|b m IH]; [reflexivity|]. cbn [List.map elapsed dt_of]. rewrite IH. reflexivity. Qed.

(* an interleaving is a permutation of all records: nothing lost, nothing duplicated, nothing invented *)
Theorem Merge_perm ts m : Merge ts m -> Permutation m (concat ts).
Proof.
  induction 1 as [ts Hall | ts1 x r ts2 m HM IH].
  - assert (E : concat ts = []) by (induction ts as [|t ts IHt]; [reflexivity|]; inversion Hall as [|? ? Ht Hr]; subst; cbn; apply IHt; exact Hr).
    rewrite E. constructor.
  - rewrite concat_app in *. cbn [concat] in *. rewrite <- app_comm_cons. apply Permutation_cons_app. exact IH.
Qed.

(* ------------------------------------------------------------------ ASYNCHRONOUS writer: the four naming schemes *)
(* Numbers naming, every criterion, every buffer capacity *)
Theorem async_merge_numbers c crit t0 off ts evs :
  numacfg c crit ->
  let m := fst (sent ts evs) in
  (exists files, reads c (wfs (s_w (async_conc c t0 off ts evs))) files /\ concat files = concat m)
  /\ (all_done (snd (sent ts evs)) = true -> Merge ts m /\ Permutation m (concat ts)).
Proof.
  intros Hc. cbv zeta. split.
  - rewrite async_schedule_run.
    destruct (async_numbers_stream c crit t0 off _ Hc (basic_writes (fst (sent ts evs)))) as [files [R E]].
    exists files. split; [exact R|]. rewrite E. apply written_writes.
  - intros D. assert (M : Merge ts (fst (sent ts evs))) by (apply (sent_merge evs ts _ (snd (sent ts evs))); [destruct (sent ts evs); reflexivity | exact D]).
    split; [exact M | exact (Merge_perm _ _ M)].
Qed.

(* NumbersDirect naming *)
Theorem async_merge_numbersdirect c crit t0 off ts evs :
  numdacfg c crit ->
  let m := fst (sent ts evs) in
  (exists files, direct_view c (wfs (s_w (async_conc c t0 off ts evs))) files /\ concat files = concat m)
  /\ (all_done (snd (sent ts evs)) = true -> Merge ts m /\ Permutation m (concat ts)).
Proof.
  intros Hc. cbv zeta. split.
  - rewrite async_schedule_run.
    destruct (async_numd_stream c crit t0 off _ Hc (basic_writes (fst (sent ts evs)))) as [files [R E]].
    exists files. split; [exact R|]. rewrite E. apply written_writes.
  - intros D. assert (M : Merge ts (fst (sent ts evs))) by (apply (sent_merge evs ts _ (snd (sent ts evs))); [destruct (sent ts evs); reflexivity | exact D]).
    split; [exact M | exact (Merge_perm _ _ M)].
Qed.

(* TimestampsDirect naming: the files named by the keys (time stamp, restart number), in the order of the keys *)
Theorem async_merge_timestampsdirect c crit t0 off ts evs :
  tsdacfg c crit -> tag_ok c ->
  let m := fst (sent ts evs) in
  (0 <= t0 + ts_e c off)%Z -> (t0 + ts_e c off < sec_max)%Z -> (N.of_nat (length m) <= usize_max)%N ->
  (exists keys files, tsd_view c (ts_e c off) (wfs (s_w (async_conc c t0 off ts evs))) keys files
      /\ concat files = concat m /\ keys_ok keys /\ (forall k, In k keys -> fst k = t0))
  /\ (all_done (snd (sent ts evs)) = true -> Merge ts m /\ Permutation m (concat ts)).
Proof.
  intros Hc T. cbv zeta. intros Hlo Hhi Hmax. split.
  - rewrite async_schedule_run.
    assert (Hhi' : (t0 + elapsed (List.map OWrite (fst (sent ts evs))) + ts_e c off < sec_max)%Z) by (rewrite elapsed_writes; lia).
    assert (Hmax' : (N.of_nat (length (List.map OWrite (fst (sent ts evs)))) <= usize_max)%N) by (rewrite map_length; exact Hmax).
    destruct (async_tsd_stream c crit t0 off _ Hc T (basic_writes _) (tick_ok_writes _) Hlo Hhi' Hmax') as [keys [files [V [E [K Rg]]]]].
    exists keys, files. split; [exact V|]. split; [rewrite E; apply written_writes|]. split; [exact K|].
    intros k Hk. specialize (Rg k Hk). rewrite elapsed_writes in Rg. lia.
  - intros D. assert (M : Merge ts (fst (sent ts evs))) by (apply (sent_merge evs ts _ (snd (sent ts evs))); [destruct (sent ts evs); reflexivity | exact D]).
    split; [exact M | exact (Merge_perm _ _ M)].
Qed.

(* Timestamps naming: the closed files in the order of their keys, then rCURRENT *)
Theorem async_merge_timestamps c crit t0 off ts evs :
  tsacfg c crit -> tag_ok c ->
  let m := fst (sent ts evs) in
  (0 <= t0 + ts_e c off)%Z -> (t0 + ts_e c off < sec_max)%Z -> (N.of_nat (length m) <= usize_max)%N ->
  let f := wfs (s_w (async_conc c t0 off ts evs)) in
  ((names f = [] /\ concat m = [])
   \/ exists keys closed cur, ts_view c (ts_e c off) f keys closed cur
        /\ concat closed ++ cur = concat m /\ keys_ok keys /\ (forall k, In k keys -> fst k = t0))
  /\ (all_done (snd (sent ts evs)) = true -> Merge ts m /\ Permutation m (concat ts)).
Proof.
  intros Hc T. cbv zeta. intros Hlo Hhi Hmax. split.
  - rewrite async_schedule_run.
    assert (Hhi' : (t0 + elapsed (List.map OWrite (fst (sent ts evs))) + ts_e c off < sec_max)%Z) by (rewrite elapsed_writes; lia).
    assert (Hmax' : (N.of_nat (length (List.map OWrite (fst (sent ts evs)))) <= usize_max)%N) by (rewrite map_length; exact Hmax).
    destruct (async_ts_stream c crit t0 off _ Hc T (basic_writes _) (tick_ok_writes _) Hlo Hhi' Hmax') as [[N0 W0] | [keys [closed [cur [V [E [K Rg]]]]]]].
    + left. split; [exact N0|]. rewrite <- written_writes. exact W0.
    + right. exists keys, closed, cur. split; [exact V|]. split; [rewrite E; apply written_writes|]. split; [exact K|].
      intros k Hk. specialize (Rg k Hk). rewrite elapsed_writes in Rg. lia.
  - intros D. assert (M : Merge ts (fst (sent ts evs))) by (apply (sent_merge evs ts _ (snd (sent ts evs))); [destruct (sent ts evs); reflexivity | exact D]).
    split; [exact M | exact (Merge_perm _ _ M)].
Qed.

(* ------------------------------------------------------------------ SYNCHRONOUS writer under a schedule *)
(* the state mutex serialises the log calls: a schedule is the order in which the threads get the lock *)
Fixpoint locked (ts : threads) (sched : list nat) : list bytes * threads :=
  match sched with
  | [] => ([], ts)
  | t :: r =>
    match next_of ts t with
    | Some (x, ts') => let '(m, tf) := locked ts' r in (x :: m, tf)
    | None => locked ts r
    end
  end.

Definition sync_cstep (st : sys * threads) (t : nat) : sys * threads :=
  match next_of (snd st) t with
  | Some (x, ts') => (fst (step (fst st) (OWrite x)), ts')
  | None => st
  end.
Definition sync_conc (c : config) (t0 off : Z) (ts : threads) (sched : list nat) : sys :=
  fst (step (fst (fold_left sync_cstep sched (fst (step (sys0 t0 off) (OStart c)), ts))) OStop).

Theorem locked_merge : forall sched ts m tf, locked ts sched = (m, tf) -> all_done tf = true -> Merge ts m.
Proof.
  induction sched as [|t r IH]; intros ts m tf H D; cbn [locked] in H.
  - injection H as <- <-. apply merge_done. apply all_done_spec. exact D.
  - destruct (next_of ts t) as [[x ts']|] eqn:En; [|exact (IH ts m tf H D)].
    destruct (locked ts' r) as [m' tf'] eqn:Es. injection H as <- <-.
    destruct (next_of_spec ts t x ts' En) as [ts1 [r' [ts2 [-> ->]]]].
    apply merge_step. exact (IH _ m' tf' Es D).
Qed.

Lemma sync_fold_run : forall sched x ts,
  fold_left sync_cstep sched (x, ts) = (fst (run x (List.map OWrite (fst (locked ts sched)))), snd (locked ts sched)).
Proof.
  induction sched as [|t r IH]; intros x ts; cbn [fold_left locked]; [reflexivity|].
  unfold sync_cstep at 2. cbn [fst snd]. destruct (next_of ts t) as [[b ts']|] eqn:En.
  - rewrite IH. destruct (locked ts' r) as [m tf]. cbn [fst snd List.map run].
    destruct (step x (OWrite b)) as [x1 ob]. cbn [fst]. destruct (run x1 (List.map OWrite m)) as [x2 obs]. reflexivity.
  - apply IH.
Qed.

Theorem sync_schedule_run c t0 off ts sched :
  sync_conc c t0 off ts sched = fst (run (sys0 t0 off) (OStart c :: List.map OWrite (fst (locked ts sched)) ++ [OStop])).
Proof.
  unfold sync_conc. rewrite sync_fold_run. cbn [fst]. rewrite run_fst_cons, run_fst_app, run_fst_one. reflexivity.
Qed.

Theorem sync_merge_numbers c crit t0 off ts sched :
  numcfg c crit ->
  let m := fst (locked ts sched) in
  (exists files, reads c (wfs (s_w (sync_conc c t0 off ts sched))) files /\ concat files = concat m)
  /\ (all_done (snd (locked ts sched)) = true -> Merge ts m /\ Permutation m (concat ts)).
Proof.
  intros Hc. cbv zeta. split.
  - rewrite sync_schedule_run.
    destruct (numbers_stream c crit t0 off _ Hc (basic_writes (fst (locked ts sched)))) as [files [R E]].
    exists files. split; [exact R|]. rewrite E. apply written_writes.
  - intros D. assert (M : Merge ts (fst (locked ts sched))) by (apply (locked_merge sched ts _ (snd (locked ts sched))); [destruct (locked ts sched); reflexivity | exact D]).
    split; [exact M | exact (Merge_perm _ _ M)].
Qed.

Theorem sync_merge_numbersdirect c crit t0 off ts sched :
  numdcfg c crit ->
  let m := fst (locked ts sched) in
  (exists files, direct_view c (wfs (s_w (sync_conc c t0 off ts sched))) files /\ concat files = concat m)
  /\ (all_done (snd (locked ts sched)) = true -> Merge ts m /\ Permutation m (concat ts)).
Proof.
  intros Hc. cbv zeta. split.
  - rewrite sync_schedule_run.
    destruct (numbersdirect_stream c crit t0 off _ Hc (basic_writes (fst (locked ts sched)))) as [files [R E]].
    exists files. split; [exact R|]. rewrite E. apply written_writes.
  - intros D. assert (M : Merge ts (fst (locked ts sched))) by (apply (locked_merge sched ts _ (snd (locked ts sched))); [destruct (locked ts sched); reflexivity | exact D]).
    split; [exact M | exact (Merge_perm _ _ M)].
Qed.

Theorem sync_merge_timestampsdirect c crit t0 off ts sched :
  tsdcfg c crit -> tag_ok c ->
  let m := fst (locked ts sched) in
  (0 <= t0 + ts_e c off)%Z -> (t0 + ts_e c off < sec_max)%Z -> (N.of_nat (length m) <= usize_max)%N ->
  (exists keys files, tsd_view c (ts_e c off) (wfs (s_w (sync_conc c t0 off ts sched))) keys files
      /\ concat files = concat m /\ keys_ok keys /\ (forall k, In k keys -> fst k = t0))
  /\ (all_done (snd (locked ts sched)) = true -> Merge ts m /\ Permutation m (concat ts)).
Proof.
  intros Hc T. cbv zeta. intros Hlo Hhi Hmax. split.
  - rewrite sync_schedule_run.
    assert (Hhi' : (t0 + elapsed (List.map OWrite (fst (locked ts sched))) + ts_e c off < sec_max)%Z) by (rewrite elapsed_writes; lia).
    assert (Hmax' : (N.of_nat (length (List.map OWrite (fst (locked ts sched)))) <= usize_max)%N) by (rewrite map_length; exact Hmax).
    destruct (timestampsdirect_stream_view c crit t0 off _ Hc T (basic_writes _) (tick_ok_writes _) Hlo Hhi' Hmax') as [keys [files [V [E [K Rg]]]]].
    exists keys, files. split; [exact V|]. split; [rewrite E; apply written_writes|]. split; [exact K|].
    intros k Hk. specialize (Rg k Hk). rewrite elapsed_writes in Rg. lia.
  - intros D. assert (M : Merge ts (fst (locked ts sched))) by (apply (locked_merge sched ts _ (snd (locked ts sched))); [destruct (locked ts sched); reflexivity | exact D]).
    split; [exact M | exact (Merge_perm _ _ M)].
Qed.

Theorem sync_merge_timestamps c crit t0 off ts sched :
  tscfg c crit -> tag_ok c ->
  let m := fst (locked ts sched) in
  (0 <= t0 + ts_e c off)%Z -> (t0 + ts_e c off < sec_max)%Z -> (N.of_nat (length m) <= usize_max)%N ->
  let f := wfs (s_w (sync_conc c t0 off ts sched)) in
  ((names f = [] /\ concat m = [])
   \/ exists keys closed cur, ts_view c (ts_e c off) f keys closed cur
        /\ concat closed ++ cur = concat m /\ keys_ok keys /\ (forall k, In k keys -> fst k = t0))
  /\ (all_done (snd (locked ts sched)) = true -> Merge ts m /\ Permutation m (concat ts)).
Proof.
  intros Hc T. cbv zeta. intros Hlo Hhi Hmax. split.
  - rewrite sync_schedule_run.
    assert (Hhi' : (t0 + elapsed (List.map OWrite (fst (locked ts sched))) + ts_e c off < sec_max)%Z) by (rewrite elapsed_writes; lia).
    assert (Hmax' : (N.of_nat (length (List.map OWrite (fst (locked ts sched)))) <= usize_max)%N) by (rewrite map_length; exact Hmax).
    destruct (timestamps_stream c crit t0 off _ Hc T (basic_writes _) (tick_ok_writes _) Hlo Hhi' Hmax') as [[N0 W0] | [keys [closed [cur [V [E [K Rg]]]]]]].
    + left. split; [exact N0|]. rewrite <- written_writes. exact W0.
    + right. exists keys, closed, cur. split; [exact V|]. split; [rewrite E; apply written_writes|]. split; [exact K|].
      intros k Hk. specialize (Rg k Hk). rewrite elapsed_writes in Rg. lia.
  - intros D. assert (M : Merge ts (fst (locked ts sched))) by (apply (locked_merge sched ts _ (snd (locked ts sched))); [destruct (locked ts sched); reflexivity | exact D]).
    split; [exact M | exact (Merge_perm _ _ M)].
Qed.

(* ------------------------------------------------------------------ non-vacuity: four threads, a lagging writer thread *)
Section Examples.
Open Scope N_scope.
Definition exm (nam : naming) (async : bool) : config :=
  {| c_spec := {| fbase := [97]; fdisc := None; fts := false; fsfx := Some [108; 111; 103] |};
     c_append := false; c_cap := Some 4%nat; c_rot := Some (CSize 5, nam, KNever); c_utc := false;
     c_symlink := false; c_bg := false; c_async := async; c_start := None |}.
(* threads A (3 records), B (2), an idle one, C (1); lines "A1\n" ... *)
Definition ex_threads : threads := [[[65;49;10]; [65;50;10]; [65;51;10]]; [[66;49;10]; [66;50;10]]; []; [[67;49;10]]].
(* sends B A . C (idle) A . . B A . (A has nothing left); the writer thread (.) lags behind: two records are still in
   the channel when the writer is dropped *)
Definition ex_sched : list ev :=
  [ESend 1; ESend 0; EConsume; ESend 3; ESend 2; ESend 0; EConsume; EConsume; ESend 1; ESend 0; EConsume; ESend 0]%nat.
Definition ex_m : list bytes := [[66;49;10]; [65;49;10]; [67;49;10]; [65;50;10]; [66;50;10]; [65;51;10]].

Lemma exm_tag_ok nam async : tag_ok (exm nam async).
Proof. apply tag_free_ok. split; vm_compute; reflexivity. Qed.

Example ex_async_hyps :
  numacfg (exm NNumbers true) (CSize 5) /\ numdacfg (exm NNumbersDirect true) (CSize 5)
  /\ tsdacfg (exm NTimestampsDirect true) (CSize 5) /\ tsacfg (exm NTimestamps true) (CSize 5)
  /\ numcfg (exm NNumbers false) (CSize 5) /\ numdcfg (exm NNumbersDirect false) (CSize 5)
  /\ tsdcfg (exm NTimestampsDirect false) (CSize 5) /\ tscfg (exm NTimestamps false) (CSize 5)
  /\ sent ex_threads ex_sched = (ex_m, [[]; []; []; []]) /\ all_done (snd (sent ex_threads ex_sched)) = true
  /\ merge_check ex_threads ex_m = true
  /\ (0 <= 1000000000 + ts_e (exm NTimestamps true) 3600)%Z /\ (1000000000 + ts_e (exm NTimestamps true) 3600 < sec_max)%Z
  /\ (N.of_nat (length ex_m) <= usize_max)%N.
Proof.
  split; [repeat split|]. split; [repeat split|]. split; [repeat split|]. split; [repeat split|].
  split; [repeat split|]. split; [repeat split|]. split; [repeat split|]. split; [repeat split|].
  split; [vm_compute; reflexivity|]. split; [vm_compute; reflexivity|]. split; [vm_compute; reflexivity|].
  split; [vm_compute; discriminate|]. split; [vm_compute; reflexivity|]. vm_compute; discriminate.
Qed.

(* Numbers: r00000 = B1 A1, r00001 = C1 A2, rCURRENT = B2 A3 *)
Example ex_async_numbers :
  snapshot (s_w (async_conc (exm NNumbers true) 1000000000 3600 ex_threads ex_sched))
  = ObsSnap [([97; 95; 114; 48; 48; 48; 48; 48; 46; 108; 111; 103], 0, [66; 49; 10; 65; 49; 10]);
             ([97; 95; 114; 48; 48; 48; 48; 49; 46; 108; 111; 103], 0, [67; 49; 10; 65; 50; 10]);
             ([97; 95; 114; 67; 85; 82; 82; 69; 78; 84; 46; 108; 111; 103], 0, [66; 50; 10; 65; 51; 10])] None [].
Proof. vm_compute. reflexivity. Qed.
Example ex_async_numbersdirect :
  snapshot (s_w (async_conc (exm NNumbersDirect true) 1000000000 3600 ex_threads ex_sched))
  = ObsSnap [([97; 95; 114; 48; 48; 48; 48; 48; 46; 108; 111; 103], 0, [66; 49; 10; 65; 49; 10]);
             ([97; 95; 114; 48; 48; 48; 48; 49; 46; 108; 111; 103], 0, [67; 49; 10; 65; 50; 10]);
             ([97; 95; 114; 48; 48; 48; 48; 50; 46; 108; 111; 103], 0, [66; 50; 10; 65; 51; 10])] None [].
Proof. vm_compute. reflexivity. Qed.
(* Timestamps: all rotations in the same second 2001-09-09_02-46-40: a_r<ts>, a_r<ts>.restart-0000, a_rCURRENT *)
Example ex_async_timestamps :
  snapshot (s_w (async_conc (exm NTimestamps true) 1000000000 3600 ex_threads ex_sched))
  = ObsSnap [([97; 95; 114; 50; 48; 48; 49; 45; 48; 57; 45; 48; 57; 95; 48; 50; 45; 52; 54; 45; 52; 48; 46; 108; 111; 103], 0,
              [66; 49; 10; 65; 49; 10]);
             ([97; 95; 114; 50; 48; 48; 49; 45; 48; 57; 45; 48; 57; 95; 48; 50; 45; 52; 54; 45; 52; 48; 46; 114; 101; 115; 116; 97;
               114; 116; 45; 48; 48; 48; 48; 46; 108; 111; 103], 0, [67; 49; 10; 65; 50; 10]);
             ([97; 95; 114; 67; 85; 82; 82; 69; 78; 84; 46; 108; 111; 103], 0, [66; 50; 10; 65; 51; 10])] None [].
Proof. vm_compute. reflexivity. Qed.
Example ex_async_timestampsdirect :
  snapshot (s_w (async_conc (exm NTimestampsDirect true) 1000000000 3600 ex_threads ex_sched))
  = ObsSnap [([97; 95; 114; 50; 48; 48; 49; 45; 48; 57; 45; 48; 57; 95; 48; 50; 45; 52; 54; 45; 52; 48; 46; 108; 111; 103], 0,
              [66; 49; 10; 65; 49; 10]);
             ([97; 95; 114; 50; 48; 48; 49; 45; 48; 57; 45; 48; 57; 95; 48; 50; 45; 52; 54; 45; 52; 48; 46; 114; 101; 115; 116; 97;
               114; 116; 45; 48; 48; 48; 48; 46; 108; 111; 103], 0, [67; 49; 10; 65; 50; 10]);
             ([97; 95; 114; 50; 48; 48; 49; 45; 48; 57; 45; 48; 57; 95; 48; 50; 45; 52; 54; 45; 52; 48; 46; 114; 101; 115; 116; 97;
               114; 116; 45; 48; 48; 48; 49; 46; 108; 111; 103], 0, [66; 50; 10; 65; 51; 10])] None [].
Proof. vm_compute. reflexivity. Qed.
(* the synchronous writers with the lock order B A C (idle) A B A A: the same interleaving, the same directories *)
Definition ex_lock : list nat := [1; 0; 3; 2; 0; 1; 0; 0]%nat.
Example ex_sync_same :
  locked ex_threads ex_lock = (ex_m, [[]; []; []; []])
  /\ snapshot (s_w (sync_conc (exm NNumbers false) 1000000000 3600 ex_threads ex_lock))
     = snapshot (s_w (async_conc (exm NNumbers true) 1000000000 3600 ex_threads ex_sched))
  /\ snapshot (s_w (sync_conc (exm NNumbersDirect false) 1000000000 3600 ex_threads ex_lock))
     = snapshot (s_w (async_conc (exm NNumbersDirect true) 1000000000 3600 ex_threads ex_sched))
  /\ snapshot (s_w (sync_conc (exm NTimestamps false) 1000000000 3600 ex_threads ex_lock))
     = snapshot (s_w (async_conc (exm NTimestamps true) 1000000000 3600 ex_threads ex_sched))
  /\ snapshot (s_w (sync_conc (exm NTimestampsDirect false) 1000000000 3600 ex_threads ex_lock))
     = snapshot (s_w (async_conc (exm NTimestampsDirect true) 1000000000 3600 ex_threads ex_sched)).
Proof.
  split; [vm_compute; reflexivity|]. split; [vm_compute; reflexivity|]. split; [vm_compute; reflexivity|].
  split; vm_compute; reflexivity.
Qed.
(* merge_check is only a sound test, not a complete one: with equal lines in different threads the greedy choice of
   the first thread can reject an interleaving (thread 2 sends a, c, then thread 1 sends a, b) *)
Example ex_merge_check_incomplete :
  sent [[[1]; [2]]; [[1]; [3]]] [ESend 1; ESend 1; ESend 0; ESend 0]%nat = ([[1]; [3]; [1]; [2]], [[]; []])
  /\ merge_check [[[1]; [2]]; [[1]; [3]]] [[1]; [3]; [1]; [2]] = false.
Proof. split; vm_compute; reflexivity. Qed.
End Examples.

Print Assumptions async_schedule_run.
Print Assumptions async_merge_numbers.
Print Assumptions async_merge_numbersdirect.
Print Assumptions async_merge_timestampsdirect.
Print Assumptions async_merge_timestamps.
Print Assumptions sync_merge_numbers.
Print Assumptions sync_merge_numbersdirect.
Print Assumptions sync_merge_timestampsdirect.
Print Assumptions sync_merge_timestamps.
