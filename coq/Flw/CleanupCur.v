(* The cleanup with the current output file handed over (list_and_cleanup.rs after the repair:
   remove_or_compress_too_old_logfiles_impl(.., o_current), model: cleanup_loop / cleanup_impl with cur : option bytes),
   in a world without faults and kills.  CleanupFacts.v describes the loop for cur = None and for the cases where cur makes
   no difference; here the loop is described for EVERY cur: the entry equal to cur is skipped - it stays as it is, at
   whatever position the listing has it, and its position still counts -, every other entry is treated as before.
   (The theorems of CleanupFacts.v, sections 2 - 4, with the action `actc cur` in the place of `act`.) *)
Require Import FL.Base.Bytes FL.Base.BytesFacts FL.Base.PathName FL.Fs.Fs FL.Fs.FsFacts FL.Names.FileSpec
               FL.Flw.Model FL.Flw.ModelFacts FL.Flw.CleanupFacts.
Open Scope nat_scope.

Definition is_cur (cur : option bytes) (n : bytes) : bool := match cur with Some p => beq p n | None => false end.

Lemma is_cur_true cur n : is_cur cur n = true <-> cur = Some n.
Proof.
  unfold is_cur. destruct cur as [p|]; split; intros H; try discriminate.
  - apply beq_eq in H. congruence.
  - injection H as ->. apply beq_refl.
Qed.
Lemma is_cur_none n : is_cur None n = false.
Proof. reflexivity. Qed.

(* what the loop does with the entry n at position idx of the listing *)
Definition actc (cur : option bytes) (ll total idx : nat) (n : bytes) : action :=
  if is_cur cur n then AKeep else act ll total idx n.

Lemma actc_none ll total idx n : actc None ll total idx n = act ll total idx n.
Proof. reflexivity. Qed.
Lemma actc_remove cur ll total idx n : actc cur ll total idx n = ARemove <-> is_cur cur n = false /\ total <= idx.
Proof. unfold actc. destruct (is_cur cur n); rewrite ?act_remove; intuition discriminate. Qed.
Lemma actc_compress cur ll total idx n :
  actc cur ll total idx n = ACompress <-> is_cur cur n = false /\ ll <= idx < total /\ ext_is n gz_sfx = false.
Proof. unfold actc. destruct (is_cur cur n); rewrite ?act_compress; intuition discriminate. Qed.
Lemma actc_keep cur ll total idx n :
  actc cur ll total idx n = AKeep <-> is_cur cur n = true \/ (idx < total /\ (idx < ll \/ ext_is n gz_sfx = true)).
Proof. unfold actc. destruct (is_cur cur n); rewrite ?act_keep; intuition discriminate. Qed.

Lemma cleanup_loop_consc w n r idx ll total cur :
  cleanup_loop w (n :: r) idx ll total cur =
  match actc cur ll total idx n with
  | ARemove => let '(ok, w1) := p_remove w n in if ok then cleanup_loop w1 r (S idx) ll total cur else (false, w1)
  | ACompress => let '(ok, w1) := compress_file w n in if ok then cleanup_loop w1 r (S idx) ll total cur else (false, w1)
  | AKeep => cleanup_loop w r (S idx) ll total cur
  end.
Proof.
  unfold actc. destruct (is_cur cur n) eqn:B.
  - cbn [cleanup_loop]. unfold is_cur in B. rewrite B. reflexivity.
  - apply cleanup_loop_cur_cons. exact B.
Qed.

Lemma cleanup_stepc w n r idx ll total cur :
  quiet w -> fs_wf (wfs w) -> (actc cur ll total idx n <> AKeep -> lookup (wfs w) n <> None) ->
  (actc cur ll total idx n = ACompress -> not_dir (wfs w) (gz_name n)) ->
  exists w1, cleanup_loop w (n :: r) idx ll total cur = cleanup_loop w1 r (S idx) ll total cur
    /\ same_env w w1 /\ fs_wf (wfs w1)
    /\ outcome (actc cur ll total idx n) (wfs w) (wfs w1) n
    /\ (forall m, m <> n -> (actc cur ll total idx n = ACompress -> m <> gz_name n) -> same_at (wfs w) (wfs w1) m).
Proof.
  intros Q W Hex Hnd. rewrite cleanup_loop_consc. destruct (actc cur ll total idx n) eqn:EA; cbn [outcome].
  - exists w. split; [reflexivity|]. split; [apply same_env_refl; exact Q|]. split; [exact W|].
    split; [apply same_at_refl|]. intros m _ _. apply same_at_refl.
  - destruct (lookup (wfs w) n) as [i|] eqn:En; [|exfalso; apply Hex; [discriminate | reflexivity]].
    destruct (compress_file_quiet w n i Q W En (Hnd eq_refl)) as (w1 & j & E & S1 & W1 & Ln & Lg & Ij & _ & _ & Fr & _).
    exists w1. rewrite E. split; [reflexivity|]. split; [exact S1|]. split; [exact W1|]. split.
    + exists i, j. rewrite Ij. cbn [fdata fgz fdir]. repeat split; auto.
    + intros m H1 H2. apply Fr; auto.
  - destruct (lookup (wfs w) n) as [i|] eqn:En; [|exfalso; apply Hex; [discriminate | reflexivity]].
    destruct (p_remove_quiet w n i Q En) as (w1 & E & F1 & S1). destruct (unlink_spec (wfs w) n) as (UI & UN & UO).
    exists w1. rewrite E. split; [reflexivity|]. split; [exact S1|]. split; [rewrite F1; apply wf_unlink; exact W|].
    split; [rewrite F1; exact UN|].
    intros m H1 _. split; [rewrite F1; apply UO; exact H1|].
    unfold file_of. rewrite F1, UO by assumption. destruct (lookup (wfs w) m); reflexivity.
Qed.

(* The loop, described by the action at every position (hypotheses as for cleanup_loop_act; nothing is asked of the
   entry equal to cur) *)
Theorem cleanup_loop_actc cur ll total : forall files w idx,
  quiet w -> fs_wf (wfs w) -> NoDup files ->
  (forall k n, nth_error files k = Some n -> actc cur ll total (idx + k) n <> AKeep -> lookup (wfs w) n <> None) ->
  (forall k n, nth_error files k = Some n -> actc cur ll total (idx + k) n = ACompress -> ~ In (gz_name n) files) ->
  (forall k n, nth_error files k = Some n -> actc cur ll total (idx + k) n = ACompress -> not_dir (wfs w) (gz_name n)) ->
  exists w', cleanup_loop w files idx ll total cur = (true, w') /\ same_env w w' /\ fs_wf (wfs w')
    /\ (forall k n, nth_error files k = Some n -> outcome (actc cur ll total (idx + k) n) (wfs w) (wfs w') n)
    /\ (forall m, ~ In m files ->
          (forall k n, nth_error files k = Some n -> actc cur ll total (idx + k) n = ACompress -> m <> gz_name n) ->
          same_at (wfs w) (wfs w') m).
Proof.
  induction files as [|n r IH]; intros w idx Q W ND Hex Hcl Hnd.
  - exists w. split; [reflexivity|]. split; [apply same_env_refl; exact Q|]. split; [exact W|]. split.
    + intros [|k] n H; discriminate.
    + intros m _ _. apply same_at_refl.
  - inversion ND as [|n' r' Hnr Hr]; subst n' r'.
    assert (A0 : actc cur ll total (idx + 0) n = actc cur ll total idx n) by (rewrite Nat.add_0_r; reflexivity).
    assert (AS : forall k m, actc cur ll total (idx + S k) m = actc cur ll total (S idx + k) m)
      by (intros k m; rewrite Nat.add_succ_r; reflexivity).
    destruct (cleanup_stepc w n r idx ll total cur Q W) as (w1 & E1 & S1 & W1 & O1 & Fr1).
    { rewrite <- A0. apply (Hex 0 n eq_refl). }
    { rewrite <- A0. apply (Hnd 0 n eq_refl). }
    assert (Tail : forall k m, nth_error r k = Some m -> same_at (wfs w) (wfs w1) m).
    { intros k m Hk. apply Fr1.
      - intros ->. apply Hnr. eapply nth_error_In; exact Hk.
      - intros EA ->. apply (Hcl 0 n eq_refl); [rewrite A0; exact EA|]. right. eapply nth_error_In; exact Hk. }
    destruct (IH w1 (S idx) (proj1 S1) W1 Hr) as (w' & E' & S' & W' & O' & Fr').
    { intros k m Hk Ha. rewrite (proj1 (Tail k m Hk)). apply (Hex (S k) m Hk). rewrite AS. exact Ha. }
    { intros k m Hk Ha Hin. apply (Hcl (S k) m Hk); [rewrite AS; exact Ha | right; exact Hin]. }
    { intros k m Hk Ha. rewrite <- AS in Ha. apply (not_dir_same_at (wfs w)); [|apply (Hnd (S k) m Hk Ha)].
      apply Fr1.
      - intros Hg. apply (Hcl (S k) m Hk Ha). left. symmetry. exact Hg.
      - intros _ Hg. apply gz_name_inj in Hg. subst m. apply Hnr. eapply nth_error_In; exact Hk. }
    exists w'. rewrite E1. split; [exact E'|]. split; [eapply same_env_trans; eassumption|]. split; [exact W'|].
    split.
    + intros [|k] m Hk.
      * cbn [nth_error] in Hk. injection Hk as <-. rewrite A0.
        assert (Tn : same_at (wfs w1) (wfs w') n).
        { apply Fr'; [exact Hnr|]. intros k' n' Hk' Ha' ->. apply (Hcl (S k') n' Hk'); [rewrite AS; exact Ha' | left; reflexivity]. }
        destruct (actc cur ll total idx n) eqn:EA; cbn [outcome] in *.
        -- eapply same_at_trans; eassumption.
        -- apply (archived_after _ _ _ _ O1 Tn). apply Fr'.
           ++ intros Hin. apply (Hcl 0 n eq_refl); [exact A0 | right; exact Hin].
           ++ intros k' n' Hk' _ Hg. apply gz_name_inj in Hg. subst n'. apply Hnr. eapply nth_error_In; exact Hk'.
        -- rewrite (proj1 Tn). exact O1.
      * cbn [nth_error] in Hk. specialize (O' k m Hk). rewrite AS. pose proof (Tail k m Hk) as Sm.
        destruct (actc cur ll total (S idx + k) m); cbn [outcome] in *.
        -- eapply same_at_trans; eassumption.
        -- eapply archived_before; eassumption.
        -- exact O'.
    + intros m Hm Hc.
      assert (Hmn : m <> n) by (intros ->; apply Hm; left; reflexivity).
      assert (Hmr : ~ In m r) by (intros Hin; apply Hm; right; exact Hin).
      apply (same_at_trans _ (wfs w1)).
      * apply Fr1; [exact Hmn|]. intros EA. apply (Hc 0 n eq_refl). rewrite A0. exact EA.
      * apply Fr'; [exact Hmr|]. intros k n' Hk Ha. apply (Hc (S k) n' Hk). rewrite AS. exact Ha.
Qed.
Print Assumptions cleanup_loop_actc.

(* the same by positions (the listing is newest first: position 0 is the newest file) *)
Theorem cleanup_loop_specc w files index ll total cur :
  quiet w -> fs_wf (wfs w) -> NoDup files ->
  (forall k n, nth_error files k = Some n -> is_cur cur n = false ->
               total <= index + k \/ (ll <= index + k /\ ext_is n gz_sfx = false) -> lookup (wfs w) n <> None) ->
  (forall k n, nth_error files k = Some n -> is_cur cur n = false -> ll <= index + k < total -> ext_is n gz_sfx = false ->
               ~ In (gz_name n) files) ->
  (forall k n, nth_error files k = Some n -> is_cur cur n = false -> ll <= index + k < total -> ext_is n gz_sfx = false ->
               not_dir (wfs w) (gz_name n)) ->
  exists w', cleanup_loop w files index ll total cur = (true, w') /\ same_env w w' /\ fs_wf (wfs w')
    /\ (forall k n, nth_error files k = Some n ->
          (* the current output file: untouched, wherever it is listed *)
          (is_cur cur n = true -> same_at (wfs w) (wfs w') n)
          (* from total on: removed *)
          /\ (is_cur cur n = false -> total <= index + k -> lookup (wfs w') n = None)
          (* before log_limit, or already an archive: untouched *)
          /\ (index + k < total -> index + k < ll \/ ext_is n gz_sfx = true -> same_at (wfs w) (wfs w') n)
          (* in between: compressed *)
          /\ (is_cur cur n = false -> ll <= index + k < total -> ext_is n gz_sfx = false -> archived (wfs w) (wfs w') n))
    /\ (forall m, ~ In m files ->
          (forall k n, nth_error files k = Some n -> is_cur cur n = false -> ll <= index + k < total ->
                       ext_is n gz_sfx = false -> m <> gz_name n) ->
          same_at (wfs w) (wfs w') m).
Proof.
  intros Q W ND Hex Hcl Hnd.
  destruct (cleanup_loop_actc cur ll total files w index Q W ND) as (w' & E & S & W' & O & Fr).
  - intros k n Hk Ha. destruct (actc cur ll total (index + k) n) eqn:EA; [congruence| |].
    + apply actc_compress in EA. destruct EA as (C & R & X). apply (Hex k n Hk C). right. split; [lia | exact X].
    + apply actc_remove in EA. destruct EA as (C & R). apply (Hex k n Hk C). left. exact R.
  - intros k n Hk Ha. apply actc_compress in Ha. destruct Ha as (C & R & X). apply (Hcl k n Hk C R X).
  - intros k n Hk Ha. apply actc_compress in Ha. destruct Ha as (C & R & X). apply (Hnd k n Hk C R X).
  - exists w'. split; [exact E|]. split; [exact S|]. split; [exact W'|]. split.
    + intros k n Hk. specialize (O k n Hk). split; [|split; [|split]].
      * intros H. rewrite (proj2 (actc_keep cur ll total (index + k) n) (or_introl H)) in O. exact O.
      * intros C H. rewrite (proj2 (actc_remove cur ll total (index + k) n) (conj C H)) in O. exact O.
      * intros H1 H2. rewrite (proj2 (actc_keep cur ll total (index + k) n) (or_intror (conj H1 H2))) in O. exact O.
      * intros C H1 H2. rewrite (proj2 (actc_compress cur ll total (index + k) n) (conj C (conj H1 H2))) in O. exact O.
    + intros m Hm Hc. apply Fr; [exact Hm|]. intros k n Hk Ha. apply actc_compress in Ha. destruct Ha as (C & R & X).
      apply (Hc k n Hk C R X).
Qed.
Print Assumptions cleanup_loop_specc.

(* a listed name other than the current output file *)
Definition not_gzc (cur : option bytes) (n : bytes) : bool := not_gz n && negb (is_cur cur n).

(* The whole loop, started at position 0: the first log_limit entries stay as they are, the next total - log_limit
   entries stay as archives (those that are not archives yet are compressed), the rest is deleted - EXCEPT the current
   output file, which stays as it is wherever it is listed. *)
Theorem cleanup_loop_keptc w files ll total cur :
  quiet w -> fs_wf (wfs w) -> NoDup files -> ll <= total ->
  (forall n, In n (zone_part ll total files) -> is_cur cur n = false -> ext_is n gz_sfx = false -> lookup (wfs w) n <> None) ->
  (forall n, In n (gone_part total files) -> is_cur cur n = false -> lookup (wfs w) n <> None) ->
  (forall n, In n (zone_part ll total files) -> is_cur cur n = false -> ext_is n gz_sfx = false -> ~ In (gz_name n) files) ->
  (forall n, In n (zone_part ll total files) -> is_cur cur n = false -> ext_is n gz_sfx = false -> not_dir (wfs w) (gz_name n)) ->
  exists w', cleanup_loop w files 0 ll total cur = (true, w') /\ same_env w w' /\ fs_wf (wfs w')
    /\ length (keep_part ll files) <= ll /\ length (zone_part ll total files) <= total - ll
    /\ (forall n, In n (keep_part ll files) -> same_at (wfs w) (wfs w') n)
    /\ (forall n, In n (zone_part ll total files) ->
          if ext_is n gz_sfx || is_cur cur n then same_at (wfs w) (wfs w') n else archived (wfs w) (wfs w') n)
    /\ (forall n, In n (gone_part total files) ->
          if is_cur cur n then same_at (wfs w) (wfs w') n else lookup (wfs w') n = None)
    /\ (forall n, In n files -> is_cur cur n = true -> same_at (wfs w) (wfs w') n)
    /\ (forall m, ~ In m files -> ~ In m (map gz_name (filter (not_gzc cur) (zone_part ll total files))) ->
          same_at (wfs w) (wfs w') m).
Proof.
  intros Q W ND Hle HexZ HexG Hcl Hnd.
  assert (Zone : forall k n, nth_error files k = Some n -> ll <= k < total -> In n (zone_part ll total files)).
  { intros k n Hk H. apply (nth_In_zone _ _ _ k); [exact Hk | lia]. }
  destruct (cleanup_loop_specc w files 0 ll total cur Q W ND) as (w' & E & S & W' & O & Fr).
  - intros k n Hk C. cbn [Nat.add]. intros [H|[H1 H2]].
    + apply HexG; [|exact C]. apply (nth_In_skipn _ _ k); assumption.
    + destruct (Nat.lt_ge_cases k total) as [Hlt|Hge].
      * apply HexZ; [apply (Zone k n Hk); lia | exact C | exact H2].
      * apply HexG; [|exact C]. apply (nth_In_skipn _ _ k); assumption.
  - intros k n Hk C. cbn [Nat.add]. intros H1 H2. apply Hcl; [apply (Zone k n Hk H1) | exact C | exact H2].
  - intros k n Hk C. cbn [Nat.add]. intros H1 H2. apply Hnd; [apply (Zone k n Hk H1) | exact C | exact H2].
  - exists w'. split; [exact E|]. split; [exact S|]. split; [exact W'|].
    split; [apply firstn_le_length|]. split; [apply firstn_le_length|].
    split; [|split; [|split; [|split]]].
    + intros n Hn. apply In_firstn_nth in Hn. destruct Hn as (k & Hk & En).
      destruct (O k n En) as (_ & _ & K & _). cbn [Nat.add] in K. apply K; [lia | left; exact Hk].
    + intros n Hn. apply In_zone_nth in Hn. destruct Hn as (k & Hk & En).
      destruct (O k n En) as (Cu & _ & K & C). cbn [Nat.add] in K, C.
      destruct (is_cur cur n) eqn:B; [rewrite orb_true_r; apply Cu; reflexivity|]. rewrite orb_false_r.
      destruct (ext_is n gz_sfx) eqn:G; [apply K; [lia | right; reflexivity] | apply C; [reflexivity | lia | reflexivity]].
    + intros n Hn. apply In_skipn_nth in Hn. destruct Hn as (k & Hk & En).
      destruct (O k n En) as (Cu & R & _ & _).
      destruct (is_cur cur n) eqn:B; [apply Cu; reflexivity | apply R; [reflexivity | exact Hk]].
    + intros n Hn B. apply In_nth_error in Hn. destruct Hn as [k En]. destruct (O k n En) as (Cu & _). apply Cu. exact B.
    + intros m Hm Hz. apply Fr; [exact Hm|]. intros k n Hk C H1 H2 ->. apply Hz. apply in_map. apply filter_In.
      split; [apply (Zone k n Hk H1) | unfold not_gzc, not_gz; rewrite H2, C; reflexivity].
Qed.
Print Assumptions cleanup_loop_keptc.

(* remove_redundant followed by the loop, as in cleanup_impl, for EVERY cur.  The current output file is protected in the
   loop only: were it an archive whose original is listed too, it would be removed before the loop (it is not: a file
   that is being written has no archive name - see CurrentSpared.v for the statement about cleanup_impl). *)
Theorem cleanup_after_listingc w files ll total cur :
  quiet w -> fs_wf (wfs w) -> NoDup files -> ~ In [] files -> ll <= total ->
  (forall n, In n files -> lookup (wfs w) n <> None) ->
  (forall n, In n files -> not_dir (wfs w) (gz_name n)) ->
  let red := redundant_gz files in
  let files' := without red files in
  exists w1 w', remove_redundant w red files = (true, w1, files')
    /\ cleanup_loop w1 files' 0 ll total cur = (true, w') /\ same_env w w' /\ fs_wf (wfs w')
    (* a redundant archive is gone - unless its original is compressed now, which creates it anew (see the zone) *)
    /\ (forall n, In n red -> ~ In n (map gz_name (filter (not_gzc cur) (zone_part ll total files'))) -> lookup (wfs w') n = None)
    /\ (forall n, In n (keep_part ll files') -> same_at (wfs w) (wfs w') n)
    /\ (forall n, In n (zone_part ll total files') ->
          if ext_is n gz_sfx || is_cur cur n then same_at (wfs w) (wfs w') n else archived (wfs w) (wfs w') n)
    /\ (forall n, In n (gone_part total files') ->
          if is_cur cur n then same_at (wfs w) (wfs w') n else lookup (wfs w') n = None)
    /\ length (keep_part ll files') <= ll /\ length (zone_part ll total files') <= total - ll
    /\ (forall m, ~ In m files -> ~ In m (map gz_name (filter (not_gzc cur) (zone_part ll total files'))) ->
          same_at (wfs w) (wfs w') m)
    (* the current output file: untouched wherever it is listed *)
    /\ (forall p, cur = Some p -> In p files' -> same_at (wfs w) (wfs w') p).
Proof.
  intros Q W ND Hne Hle Hex Hnd red files'.
  assert (Rin : forall n, In n red -> In n files) by (intros n H; apply filter_In in H; apply H).
  destruct (remove_redundant_spec red w files Q W) as (w1 & E1 & S1 & W1 & R1 & Fr1).
  { apply NoDup_filter. exact ND. } { intros n H. apply Hex, Rin, H. }
  fold files' in E1.
  assert (In' : forall n, In n files' -> In n files /\ ~ In n red) by (intros n H; apply in_without; exact H).
  destruct (parts_split ll total files' Hle) as [Split _].
  assert (InK : forall n, In n (keep_part ll files') -> In n files') by (intros n H; rewrite Split; apply in_or_app; left; exact H).
  assert (InZ : forall n, In n (zone_part ll total files') -> In n files') by (intros n H; rewrite Split; apply in_or_app; right; apply in_or_app; left; exact H).
  assert (InG : forall n, In n (gone_part total files') -> In n files') by (intros n H; rewrite Split; apply in_or_app; right; apply in_or_app; right; exact H).
  assert (Ex1 : forall n, In n files' -> lookup (wfs w1) n <> None).
  { intros n H. destruct (In' n H) as [H1 H2]. rewrite (proj1 (Fr1 n H2)). apply Hex. exact H1. }
  destruct (cleanup_loop_keptc w1 files' ll total cur (proj1 S1) W1) as (w' & E' & S' & W' & LK & LZ & K & Z & G & Cu & Fr').
  { apply NoDup_filter. exact ND. } { exact Hle. }
  { intros n H _ _. apply Ex1, InZ, H. } { intros n H _. apply Ex1, InG, H. }
  { intros n H _ _. apply no_clash_without_redundant; [exact Hne | apply InZ; exact H]. }
  { intros n H _ _. destruct (in_dec (list_eq_dec N.eq_dec) (gz_name n) red) as [Hr|Hr].
    - apply not_dir_missing. apply R1. exact Hr.
    - apply (not_dir_same_at (wfs w)); [apply Fr1; exact Hr | apply Hnd, (In' n (InZ n H))]. }
  exists w1, w'. split; [exact E1|]. split; [exact E'|]. split; [eapply same_env_trans; eassumption|]. split; [exact W'|].
  assert (RG : forall n, In n red -> ~ In n files') by (intros n H H'; apply (In' n H'); exact H).
  assert (Same1 : forall n, In n files' -> same_at (wfs w) (wfs w1) n) by (intros n H; apply Fr1, (In' n H)).
  split; [intros n Hn Hz; rewrite <- (R1 n Hn); apply Fr'; [apply RG; exact Hn | exact Hz]|].
  split; [intros n Hn; apply (same_at_trans _ (wfs w1)); [apply Same1, InK, Hn | apply K, Hn]|].
  split.
  { intros n Hn. specialize (Z n Hn). pose proof (Same1 n (InZ n Hn)) as S0. destruct (ext_is n gz_sfx || is_cur cur n).
    - eapply same_at_trans; eassumption.
    - eapply archived_before; eassumption. }
  split.
  { intros n Hn. specialize (G n Hn). pose proof (Same1 n (InG n Hn)) as S0. destruct (is_cur cur n); [|exact G].
    eapply same_at_trans; eassumption. }
  split; [exact LK|]. split; [exact LZ|].
  split.
  { intros m Hm Hz. apply (same_at_trans _ (wfs w1)).
    - apply Fr1. intros H. apply Hm, Rin, H.
    - apply Fr'; [|exact Hz]. intros H. apply Hm, (In' m H). }
  intros p -> Hp. apply (same_at_trans _ (wfs w1)); [apply Same1; exact Hp|]. apply Cu; [exact Hp|]. apply is_cur_true. reflexivity.
Qed.
Print Assumptions cleanup_after_listingc.

(* for cur = None this is cleanup_after_listing, word for word *)
Lemma not_gzc_none n : not_gzc None n = not_gz n.
Proof. unfold not_gzc. cbn [is_cur negb]. apply andb_true_r. Qed.
